"""vlib -- orchestration library shared by every checks/<family>.py

A check is a python module in /verif/checks with
    PROPS = ["C28", ...]            # property ids it decides
    def run(ctx): ...               # ctx.prop is the id being decided in this invocation
It uses the helpers below to
  * stage the TLA+ modules of its family into a scratch dir         (ctx.stage)
  * run TLC: exhaustive model check / behaviour export / simulation / trace validation  (ctx.tlc)
  * build its Go harness against /repo's current working tree, build tag `verif`       (ctx.go_build)
  * run the harness and collect its `@@VH {json}` result lines                         (ctx.vh)
  * record coverage numbers, samples, assumptions                                      (ctx.cov, ...)
  * finish: known-findings matching, VIOLATION / KNOWN-FINDING lines, evidence file, exit code.

Verdict protocol (DESIGN.md section 0):
  exit 0  property held on everything explored (KNOWN-FINDING lines allowed)
  exit 1  + `VIOLATION property=<id> replay=<path>`: the property predicate is false on behaviour
          observed from the real code and the signature is not a listed known finding
  exit 2  the check itself is broken (TLC parse error, model-only counterexample that does not
          reproduce, dead driver, timeout, OOM) -- never a verdict about the code
"""
import collections
import hashlib
import json
import os
import re
import shutil
import subprocess
import sys
import tempfile
import time

VERIF = os.path.dirname(os.path.dirname(os.path.abspath(__file__)))
REPO = os.environ.get("VERIF_REPO", "/repo")
TLA_CP = "/opt/veriftools/tla/tla2tools.jar:/opt/veriftools/tla/CommunityModules-deps.jar"
NCPU = int(os.environ.get("VERIF_WORKERS") or 0) or (os.cpu_count() or 4)
GOENV = dict(GOFLAGS="-mod=mod", GOPROXY="off", GOSUMDB="off", GOTOOLCHAIN="local")


class Broken(Exception):
    pass


class TlcResult(object):
    def __init__(self):
        self.generated = 0      # states generated (= transitions explored)
        self.distinct = 0       # distinct states
        self.depth = 0
        self.error = None       # None | "invariant:Name" | "property:Name" | "postcondition" | "deadlock"
        #                         | "parse" | "runtime" | "timeout" | "assume"
        self.behaviours = 0     # number of @@B lines written to behaviours_path
        self.behaviours_path = None
        self.highwater = None   # @@HW value printed by a trace spec's postcondition
        self.last_l = None      # last `l = n` seen in a printed counterexample (trace validation)
        self.tail = []          # last lines of output
        self.marks = {}         # other "@@X value" lines, last value per tag
        self.wall = 0.0
        self.cmd = ""
        self.coverage_zero = []  # with coverage=True: lines of actions/expressions with count 0

    @property
    def ok(self):
        return self.error is None

    def text(self, n=40):
        return "\n".join(self.tail[-n:])


class VhResult(object):
    def __init__(self):
        self.violations = []
        self.drifts = []
        self.stats = {}
        self.samples = []
        self.broken = []
        self.rc = None
        self.tail = []


class Ctx(object):
    def __init__(self, prop, tier, seed, family):
        self.prop = prop
        self.tier = tier
        self.seed = seed
        self.family = family
        self.t0 = time.time()
        self.scratch = tempfile.mkdtemp(prefix="vcheck-%s-" % prop)
        self.level = "model_checking"
        self.coverage = {"states": 0, "transitions": 0, "traces_validated_against_impl": 0,
                         "samples": [], "evaluations": 0, "distinct_nontrivial": 0, "rule": ""}
        self.assumptions = []
        self.violations = []   # dict(sig, what, detail)
        self.drifts = []
        self.broken = []
        self.notes = []
        self._tlc_n = 0
        self.quick = (tier == "quick")

    # ---------------------------------------------------------------- staging
    def stage(self, family_dir=None):
        """copy specs/<Family> into the scratch dir, return the path"""
        src = os.path.join(VERIF, "specs", family_dir or self.family)
        dst = os.path.join(self.scratch, "spec")
        if os.path.exists(dst):
            shutil.rmtree(dst)
        shutil.copytree(src, dst)
        return dst

    def path(self, name):
        return os.path.join(self.scratch, name)

    # ---------------------------------------------------------------- TLC
    def tlc(self, specdir, module, cfg, workers=None, timeout=600, simulate=None, depth=None,
            heap="6g", coverage=False, dfs=False, behaviours_out=None, count=True, extra=None,
            allow=()):
        """Run TLC on <specdir>/<module>.tla with <cfg>.
        simulate=N  -> `-simulate num=N` (with depth); workers forced to 1 so that num is exact.
        count=True  -> add generated/distinct to the evidence `transitions`/`states`.
        allow       -> error kinds the caller handles itself (otherwise a failing run marks the check broken,
                       because a TLC error on the model alone is never a verdict about the code).
        Lines printed by the spec as  PrintT("@@B " \\o ToJson(x))  are collected into behaviours_out (ndjson);
        PrintT("@@HW " \\o ToString(n)) -> result.highwater; any other "@@TAG value" -> result.marks[TAG].
        """
        self._tlc_n += 1
        res = TlcResult()
        meta = os.path.join(self.scratch, "meta%d" % self._tlc_n)
        if workers is None:
            workers = NCPU
        if simulate is not None:
            workers = 1
        jopts = ["-Xmx" + heap, "-XX:+UseParallelGC", "-Xss64m"]
        if dfs:
            jopts.append("-Dtlc2.tool.queue.IStateQueue=StateDeque")
        cmd = ["java"] + jopts + ["-cp", TLA_CP, "tlc2.TLC", "-workers", str(workers), "-metadir", meta,
                                  "-noGenerateSpecTE", "-config", cfg]
        if simulate is not None:
            cmd += ["-simulate", "num=%d" % simulate, "-seed", str(self.seed)]
        if depth is not None:
            cmd += ["-depth", str(depth)]
        if coverage:
            cmd += ["-coverage", "1"]
        if extra:
            cmd += list(extra)
        cmd.append(module + ".tla")
        res.cmd = " ".join(cmd)
        bout = None
        if behaviours_out:
            res.behaviours_path = behaviours_out
            bout = open(behaviours_out, "w")
        t0 = time.time()
        tail = collections.deque(maxlen=400)
        env = dict(os.environ)
        env.pop("JAVA_TOOL_OPTIONS", None)
        p = subprocess.Popen(["timeout", "-s", "KILL", str(timeout)] + cmd, cwd=specdir, stdout=subprocess.PIPE,
                             stderr=subprocess.STDOUT, universal_newlines=True, env=env, errors="replace")
        in_cov = False
        for line in p.stdout:
            if line.startswith('"@@'):
                try:
                    s = json.loads(line)
                except ValueError:
                    tail.append(line.rstrip("\n"))
                    continue
                tag, _, val = s.partition(" ")
                if tag == "@@B":
                    if bout:
                        bout.write(val + "\n")
                    res.behaviours += 1
                elif tag == "@@HW":
                    res.highwater = int(val)
                else:
                    res.marks[tag[2:]] = val
                continue
            line = line.rstrip("\n")
            if line.startswith("WARNING"):
                continue
            tail.append(line)
            m = re.match(r"^(\d+) states generated, (\d+) distinct states found", line)
            if m:
                res.generated, res.distinct = int(m.group(1)), int(m.group(2))
            m = re.match(r"^The number of states generated: (\d+)", line)
            if m:
                res.generated = int(m.group(1))
            m = re.match(r"^The depth of the complete state graph search is (\d+)", line)
            if m:
                res.depth = int(m.group(1))
            m = re.match(r"^/\\ l = (\d+)", line) or re.match(r"^l = (\d+)", line)
            if m:
                res.last_l = int(m.group(1))
            if line.startswith("Error:") or "Exception" in line:
                self._classify(res, line)
            if coverage:
                if line.startswith("The coverage statistics at"):
                    # TLC prints interim reports while it runs; only the last (final) report counts
                    res.coverage_zero = []
                m = re.match(r"^<(\w+) line .*>: (\d+):(\d+)$", line)
                if m and m.group(3) == "0" and m.group(2) == "0":
                    res.coverage_zero.append(m.group(1))
        rc = p.wait()
        if bout:
            bout.close()
        res.wall = time.time() - t0
        res.tail = list(tail)
        if rc in (137, 124) and res.error is None:
            res.error = "timeout"
        elif rc != 0 and res.error is None:
            res.error = "runtime"
        if simulate is not None and res.distinct == 0:
            res.distinct = res.generated
        if count and res.error in (None,) + tuple(allow):
            self.coverage["states"] += res.distinct
            self.coverage["transitions"] += res.generated
        if res.error is not None and res.error not in allow and not any(res.error.startswith(a) for a in allow):
            self.broken.append("TLC %s/%s: %s\n%s" % (module, cfg, res.error, res.text(30)))
        return res

    @staticmethod
    def _classify(res, line):
        if res.error is not None and res.error not in ("runtime",):
            return
        m = re.search(r"Invariant (\S+) is violated", line)
        if m:
            res.error = "invariant:" + m.group(1)
            return
        m = re.search(r"Action property (\S+) is violated", line)
        if m:
            res.error = "property:" + m.group(1)
            return
        if "Temporal properties were violated" in line:
            res.error = "property:temporal"
        elif "Postcondition" in line and "false" in line:
            res.error = "postcondition"
        elif "Deadlock reached" in line:
            res.error = "deadlock"
        elif "Assumption" in line and "false" in line:
            res.error = "assume"
        elif ("ConfigFileException" in line or "parse" in line.lower() or "Semantic error" in line
              or "Unknown operator" in line):
            res.error = "parse"
        elif line.startswith("Error:") and res.error is None:
            if "The behavior up to this point" in line or "The error occurred when" in line:
                return
            res.error = "runtime"

    # ---------------------------------------------------------------- Go harness
    def go_build(self, name, race=False):
        """(re)build harness/cmd/<name> against the current working tree of REPO with -tags verif.
        Always invoked (go's build cache makes an unchanged tree cheap), so edits to /repo are picked up."""
        hdir = os.path.join(VERIF, "harness")
        tag = hashlib.sha1(REPO.encode()).hexdigest()[:6] if REPO != "/repo" else ""
        out = os.path.join(VERIF, "build", name + ("-race" if race else "") + (("-" + tag) if tag else ""))
        env = dict(os.environ)
        env.update(GOENV)
        cmd = ["go", "build", "-tags", "verif"]
        if REPO != "/repo":
            alt = os.path.join(hdir, "go.alt-%s.mod" % tag)
            with open(os.path.join(hdir, "go.mod")) as f:
                mod = f.read().replace("=> /repo", "=> " + REPO)
            with open(alt, "w") as f:
                f.write(mod)
            shutil.copy(os.path.join(hdir, "go.sum"), alt[:-4] + ".sum")
            cmd += ["-modfile", alt]
        if race:
            cmd.append("-race")
        cmd += ["-o", out, "./cmd/" + name]
        t0 = time.time()
        p = subprocess.run(cmd, cwd=hdir, env=env, stdout=subprocess.PIPE, stderr=subprocess.STDOUT,
                           universal_newlines=True)
        if p.returncode != 0:
            self.broken.append("go build %s failed:\n%s" % (name, p.stdout[-3000:]))
            raise Broken("go build")
        self.notes.append("built %s in %.1fs" % (name, time.time() - t0))
        return out

    def vh(self, binary, args, timeout=600, env=None, count_samples=True, stdin=None):
        """run a harness binary; parse its `@@VH {json}` lines"""
        res = VhResult()
        e = dict(os.environ)
        e["VERIF_SEED"] = str(self.seed)
        e["VERIF_TIER"] = self.tier
        e["VERIF_PROP"] = self.prop
        if env:
            e.update(env)
        tail = collections.deque(maxlen=200)
        p = subprocess.Popen(["timeout", "-s", "KILL", str(timeout), binary] + [str(a) for a in args],
                             stdout=subprocess.PIPE, stderr=subprocess.STDOUT, universal_newlines=True, env=e,
                             cwd=self.scratch, errors="replace", stdin=stdin)
        for line in p.stdout:
            if line.startswith("@@VH "):
                try:
                    m = json.loads(line[5:])
                except ValueError:
                    tail.append(line.rstrip())
                    continue
                k = m.get("kind")
                if k == "violation":
                    res.violations.append(m)
                elif k == "drift":
                    res.drifts.append(m)
                elif k == "stat":
                    res.stats[m["name"]] = m["value"]
                elif k == "sample":
                    res.samples.append(m)
                elif k == "broken":
                    res.broken.append(m["what"])
            else:
                tail.append(line.rstrip())
        res.rc = p.wait()
        res.tail = list(tail)
        if res.rc != 0:
            res.broken.append("harness %s %s exited %s:\n%s" % (os.path.basename(binary), " ".join(map(str, args)),
                                                                 res.rc, "\n".join(res.tail[-40:])))
        for b in res.broken:
            self.broken.append(b)
        for v in res.violations:
            if v.get("property", self.prop) == self.prop:
                self.violation(v["sig"], v["what"], v.get("detail"))
        for d in res.drifts:
            if d.get("property", self.prop) == self.prop:
                self.drifts.append(d)
        if count_samples:
            for s in res.samples:
                if s.get("property", self.prop) == self.prop and len(self.coverage["samples"]) < 6:
                    self.coverage["samples"].append(s["value"])
        return res

    # ---------------------------------------------------------------- bookkeeping
    def violation(self, sig, what, detail=None):
        self.violations.append({"sig": sig, "what": what, "detail": detail})

    def sample(self, v):
        if len(self.coverage["samples"]) < 6:
            self.coverage["samples"].append(v)

    def assume(self, *texts):
        for t in texts:
            if t not in self.assumptions:
                self.assumptions.append(t)

    def cov(self, **kw):
        """add to numeric coverage keys, set others"""
        for k, v in kw.items():
            if isinstance(v, (int, float)) and not isinstance(v, bool) and isinstance(self.coverage.get(k, 0), (int, float)):
                self.coverage[k] = self.coverage.get(k, 0) + v
            else:
                self.coverage[k] = v

    # ---------------------------------------------------------------- finish
    def finish(self):
        known = load_known_findings()
        wall = time.time() - self.t0
        new, listed = [], []
        for v in self.violations:
            if (self.prop, v["sig"]) in known:
                listed.append(v)
            else:
                new.append(v)
        seen = set()
        for v in listed:
            if v["sig"] in seen:
                continue
            seen.add(v["sig"])
            print("KNOWN-FINDING: property=%s %s [%s]" % (self.prop, known[(self.prop, v["sig"])], v["sig"]))
        rc = 0
        rdir = os.path.join(VERIF, "out", "replays")
        seen = set()
        for v in new:
            if v["sig"] in seen:
                continue
            seen.add(v["sig"])
            os.makedirs(rdir, exist_ok=True)
            h = hashlib.sha1(v["sig"].encode()).hexdigest()[:10]
            rp = os.path.join(rdir, "%s-%s.json" % (self.prop, h))
            with open(rp, "w") as f:
                json.dump({"property": self.prop, "sig": v["sig"], "what": v["what"], "detail": v["detail"],
                           "seed": self.seed, "tier": self.tier}, f, indent=1, default=str)
            print("VIOLATION property=%s replay=%s" % (self.prop, rp))
            print("  what: %s" % (v["what"][:600],))
            rc = 1
        if self.broken and rc == 0:
            for b in self.broken:
                print("BROKEN: " + b[:4000])
            rc = 2
        for d in self.drifts[:5]:
            print("DRIFT (property-neutral, not an alarm): %s" % (d.get("what", ""))[:300])
        cov = dict(self.coverage)
        if not cov["samples"]:
            cov["samples"] = ["(no sample recorded)"]
        cov["known_findings_reported"] = sorted({v["sig"] for v in listed})
        cov["drift"] = [d.get("what", "")[:200] for d in self.drifts[:5]]
        cov["notes"] = self.notes[:20]
        for k in ("states", "transitions", "traces_validated_against_impl", "evaluations", "distinct_nontrivial"):
            cov[k] = int(cov.get(k, 0))
        ev = {"property_id": self.prop, "tier": self.tier, "seed": self.seed, "level": self.level,
              "coverage": cov, "assumptions": self.assumptions, "wall_s": round(wall, 2),
              "violations": len({v["sig"] for v in new})}
        if rc == 2:
            ev["coverage"]["broken"] = [b[:500] for b in self.broken]
        edir = os.path.join(VERIF, "evidence") if REPO == "/repo" else os.path.join(VERIF, "out", "evidence-alt")
        os.makedirs(edir, exist_ok=True)
        with open(os.path.join(edir, self.prop + ".json"), "w") as f:
            json.dump(ev, f, indent=1, default=str)
        print("%s tier=%s seed=%d rc=%d states=%d transitions=%d impl_traces=%d evaluations=%d distinct=%d wall=%.1fs"
              % (self.prop, self.tier, self.seed, rc, cov["states"], cov["transitions"],
                 cov["traces_validated_against_impl"], cov["evaluations"], cov["distinct_nontrivial"], wall))
        shutil.rmtree(self.scratch, ignore_errors=True)
        return rc


def load_known_findings():
    """known-findings.txt:  finding: property=C18 sig=<sig> <free text>     (suppresses exactly that signature)
                            fixed: property=C04 <commit> <free text>       (suppresses nothing)"""
    res = {}
    p = os.path.join(VERIF, "known-findings.txt")
    if not os.path.exists(p):
        return res
    for line in open(p):
        line = line.strip()
        m = re.match(r"^finding:\s+property=(\S+)\s+sig=(\S+)\s*(.*)$", line)
        if m:
            res[(m.group(1), m.group(2))] = m.group(3)
    return res


# ------------------------------------------------------------------------- trace validation helper
def validate_trace(ctx, specdir, module, cfg, trace_path, n_events, sig_prefix, divergence_is_violation,
                   timeout=600, what="trace", dfs=False, obs_cfg=None):
    """Run a Trace_* spec (reads trace.ndjson in specdir) with -workers 1.
    Outcomes:
      accepted                                -> returns ("accepted", None)
      invariant violated on an observed state -> ctx.violation(sig_prefix + "/" + invariant) ; ("invariant", line)
      rejected (no spec action explains line) -> violation if divergence_is_violation (the property *is*
                                                 equivalence with the reference model), else drift; ("rejected", line)
    If the strict pass rejects and obs_cfg is given, the observation-only config is run on the same trace
    so that invariants are evaluated on ALL observed states (a drift early never hides a violation later)."""
    dst = os.path.join(specdir, "trace.ndjson")
    if os.path.abspath(trace_path) != os.path.abspath(dst):
        shutil.copy(trace_path, dst)
    r = ctx.tlc(specdir, module, cfg, workers=1, timeout=timeout, count=False, dfs=dfs,
                allow=("invariant", "postcondition", "property"))
    lines = open(dst).read().splitlines()

    def at(n):
        if n is not None and 1 <= n <= len(lines):
            return lines[n - 1][:1500]
        return None
    if r.ok:
        ctx.cov(trace_events_validated=n_events)
        return ("accepted", None)
    if r.error.startswith("invariant:") or r.error.startswith("property:"):
        inv = r.error.split(":", 1)[1]
        ln = (r.last_l - 1) if r.last_l else None
        ctx.violation("%s/%s" % (sig_prefix, inv),
                      "%s: %s is false on a state observed from the real code (trace line %s: %s)"
                      % (what, inv, ln, at(ln)), {"trace_file": keep_file(ctx, dst), "line": ln, "event": at(ln)})
        return ("invariant", ln)
    if r.error == "postcondition":
        ln = r.highwater
        msg = ("%s: line %s of the recorded trace is not a step of the specification: %s (previous: %s)"
               % (what, ln, at(ln), at(ln - 1 if ln else None)))
        if divergence_is_violation:
            ctx.violation("%s/diverges-from-spec" % sig_prefix, msg,
                          {"trace_file": keep_file(ctx, dst), "line": ln, "event": at(ln)})
        else:
            ctx.drifts.append({"what": msg})
            if obs_cfg:
                r2 = ctx.tlc(specdir, module, obs_cfg, workers=1, timeout=timeout, count=False,
                             allow=("invariant", "postcondition", "property"))
                if r2.error and (r2.error.startswith("invariant:") or r2.error.startswith("property:")):
                    inv = r2.error.split(":", 1)[1]
                    l2 = (r2.last_l - 1) if r2.last_l else None
                    ctx.violation("%s/%s" % (sig_prefix, inv),
                                  "%s: %s is false on an observed state (trace line %s: %s)" % (what, inv, l2, at(l2)),
                                  {"trace_file": keep_file(ctx, dst), "line": l2, "event": at(l2)})
                    return ("invariant", l2)
        return ("rejected", ln)
    return ("broken", None)


def keep_file(ctx, path):
    """copy a scratch file next to the replay files so that it survives the run"""
    rdir = os.path.join(VERIF, "out", "replays")
    os.makedirs(rdir, exist_ok=True)
    dst = os.path.join(rdir, "%s-%s" % (ctx.prop, os.path.basename(path)))
    try:
        shutil.copy(path, dst)
    except (IOError, OSError):
        return path
    return dst


def selftest_rejects(ctx, specdir, module, cfg, trace_path, mutate, timeout=300):
    """binding self-test: apply `mutate(list_of_event_dicts) -> list` to a recorded trace and require that the
    trace spec rejects it (otherwise nothing binds the spec to the code -> check broken)."""
    evs = [json.loads(x) for x in open(trace_path).read().splitlines() if x.strip()]
    evs = mutate(evs)
    dst = os.path.join(specdir, "trace.ndjson")
    with open(dst, "w") as f:
        for e in evs:
            f.write(json.dumps(e) + "\n")
    r = ctx.tlc(specdir, module, cfg, workers=1, timeout=timeout, count=False,
                allow=("invariant", "postcondition", "property"))
    if r.ok:
        ctx.broken.append("binding self-test: corrupted trace was ACCEPTED by %s/%s" % (module, cfg))
        return False
    ctx.cov(binding_selftests_rejected=1)
    return True
