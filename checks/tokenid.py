"""C41 -- token identifiers are unique and well-formed (family V, specs/TokenId)."""
import os
import vlib

PROPS = ["C41"]
FAMILY = "TokenId"

CFG = """SPECIFICATION %(spec)s
CONSTANTS
  Tickers = {%(tickers)s}
  Starts <- %(starts)s
  Kinds = {%(kinds)s}
  W = %(w)d
  Retries = %(retries)d
  MaxIssues = %(maxissues)d
  KnownDefects <- %(defects)s
  Log <- %(log)s
  StepBound = %(bound)d
%(rest)s
CHECK_DEADLOCK FALSE
"""
ALL_KINDS = '"issue", "issueSemiFungible", "issueNonFungible"'
INV = "INVARIANTS TypeOK Inv_C41_WellFormed Inv_C41_Unique Inv_C41_Stored"


def write(sd, name, **kw):
    d = dict(tickers='"AAA"', starts="AllStarts1", kinds='"issue"', w=1, retries=3, maxissues=4, defects="AllOn",
             log="LogLast", bound=0, spec="Spec", rest="VIEW cvars")
    d.update(kw)
    with open(os.path.join(sd, name), "w") as f:
        f.write(CFG % d)
    return name


def marks_to_violations(ctx, r, lines, what):
    for tag, val in sorted(r.marks.items()):
        if not tag.startswith("BAD:"):
            continue
        cls = tag[4:]
        ln = int(val)
        ev = lines[ln - 1][:800] if 1 <= ln <= len(lines) else None
        ctx.violation("C41/" + cls, "%s: the identifier observed from the real ESDT contract violates C41 (%s), trace line %d: %s"
                      % (what, cls, ln, ev), {"line": ln, "event": ev})


def run(ctx):
    sd = ctx.stage()
    q = ctx.quick
    import time
    t = [time.time()]

    def _stage(name):
        ctx.notes.append("stage %s: %.1fs" % (name, time.time() - t[0]))
        t[0] = time.time()
    ctx.assume("valid token name / ticker / call value (the identifier generation is reached); one ESDT contract on a real "
               "vmContext whose committed storage is a Go map updated from every successful VMOutput",
               "the hasher is an injected dependency of the contract: R2 scripts its digest so that the first candidate "
               "is the value chosen by TLC; R3 additionally uses the production hashers (blake2b, keccak) with random "
               "seeds searched until the first candidate is ffffff / fffffe / a random value",
               "W = 6 and 50 retries as in the code for R2/R3; the exhaustive model runs the same algorithm with W = 1 and 2",
               "trusted: TLC, mock.BlockChainHookStub, the projection in harness/cmd/vh-tokenid")
    # ---- R1a: intended design (candidate wraps around): every clause holds; retries exhaustion is reachable
    write(sd, "r1a.cfg", defects="NoneOn", rest="VIEW cvars\n" + INV, maxissues=3 if q else 5)
    r0 = ctx.tlc(sd, "MC_TokenId", "r1a.cfg", timeout=900, coverage=not q)
    if not q:
        if r0.coverage_zero:
            ctx.broken.append("vacuity guard: actions never taken in R1a: %s" % sorted(set(r0.coverage_zero)))
        ctx.cov(coverage_actions_never_taken=sorted(set(r0.coverage_zero)))
    write(sd, "r1a2.cfg", defects="NoneOn", w=2, starts="EdgeStarts2", tickers='"AAA", "BBB"', maxissues=3 if q else 4,
          rest="VIEW cvars\n" + INV)
    ctx.tlc(sd, "MC_TokenId", "r1a2.cfg", timeout=900)
    # ---- R1b: the code as it is (no wrap): TLC must find the carry out of the last value by itself
    write(sd, "r1b.cfg", defects="AllOn", w=2, starts="EdgeStarts2", rest="VIEW cvars\nINVARIANTS Inv_C41_WellFormed")
    r = ctx.tlc(sd, "MC_TokenId", "r1b.cfg", timeout=600, allow=("invariant",), count=False)
    ctx.cov(model_counterexample_code_as_is=r.error)
    if r.error != "invariant:Inv_C41_WellFormed":
        ctx.broken.append("R1b: TLC did not find the carry counterexample in the code-as-it-is model (%s)" % r.error)
    # ---- R1c: the code as it is keeps uniqueness and stores exactly what it issues
    write(sd, "r1c.cfg", defects="AllOn", w=2, starts="EdgeStarts2", tickers='"AAA", "BBB"', maxissues=3 if q else 4,
          rest="VIEW cvars\nINVARIANTS TypeOK Inv_C41_Unique Inv_C41_Stored")
    ctx.tlc(sd, "MC_TokenId", "r1c.cfg", timeout=900)

    _stage("R1 model checking")
    exe = ctx.go_build("vh-tokenid")
    _stage("build")
    # ---- R2: TLC behaviours at the real width (6 digits, 50 retries) replayed on the real contract.
    #      The model variant that matches the code (no wrap today, wrap after the proposed fix) is used for
    #      the functional comparison; the verdict is the property evaluated on what the contract stored.
    tot = dict(b=0, s=0, d=0, c=0, k=0, e=0)
    matched = None
    drift_lists = []
    for variant in ("NoneOn", "AllOn"):   # the wrapping variant is the code since repo commit 06aee11
        n = dict(b=0, s=0, d=0, c=0, k=0, e=0)
        drifts0 = list(ctx.drifts)
        # a: every transition for first candidates around the carry and inside the range, all three functions
        write(sd, "gen.cfg", spec="GenSpec", log="LogAppend", defects=variant, w=6, retries=50, starts="EdgeStarts6",
              kinds=ALL_KINDS, tickers='"AAA"' if q else '"AAA", "BBB"', maxissues=3, bound=4,
              rest="VIEW cvars\nACTION_CONSTRAINT EmitEdge")
        # b: one chain of 53 issues with the same first candidate ffffe6: crosses the carry at the 26th issue and
        #    exhausts the 50 retries at the 51st
        write(sd, "chain.cfg", spec="GenSpec", log="LogAppend", defects=variant, w=6, retries=50, starts="OneStart6",
              maxissues=53, bound=54, rest="VIEW cvars\nACTION_CONSTRAINT EmitFull")
        for cfg in ("gen.cfg", "chain.cfg"):
            beh = ctx.path(cfg + variant + ".ndjson")
            g = ctx.tlc(sd, "MC_TokenId", cfg, timeout=900, behaviours_out=beh, count=False)
            if g.ok and g.behaviours == 0:
                ctx.broken.append("behaviour export %s produced nothing" % cfg)
            h = ctx.vh(exe, ["replay", beh], timeout=900)
            for k, name in (("b", "behaviours"), ("s", "steps"), ("d", "distinct"), ("c", "collisions"), ("k", "carries"),
                            ("e", "exhausted")):
                n[k] += int(h.stats.get(name, 0))
        new_drifts = ctx.drifts[len(drifts0):]
        if not new_drifts:
            matched = variant
            ctx.drifts = drifts0
            for k in tot:
                tot[k] += n[k]
            break
        # this variant is not the code: forget its drift lines, try the other one (violations always count)
        drift_lists.append(new_drifts)
        ctx.drifts = drifts0
        for k in tot:
            tot[k] += n[k]
    if matched is None:
        ctx.drifts += drift_lists[0][:2]
    ctx.cov(traces_validated_against_impl=tot["b"], evaluations=tot["s"], distinct_nontrivial=tot["d"],
            collisions_replayed=tot["c"], carries_replayed=tot["k"], retries_exhausted_replayed=tot["e"],
            code_matches_model_variant={"AllOn": "NoWrapOnCarry (candidate incremented without wrap)",
                                        "NoneOn": "candidate wraps modulo 16^6", None: "neither (see drift)"}[matched])
    _stage("R2 gen+replay")
    # ---- R3: production hashers with searched seeds + long scripted histories, validated by TLC
    tr = os.path.join(sd, "trace.ndjson")
    r3 = ctx.vh(exe, ["record", ctx.seed, 1 if q else 6, tr], timeout=1500)
    lines = open(tr).read().splitlines() if os.path.exists(tr) else []
    how = None
    for cfg in ("Trace_TokenId_NoneOn.cfg", "Trace_TokenId_AllOn.cfg", "Obs_TokenId.cfg"):
        rr = ctx.tlc(sd, "Trace_TokenId", cfg, workers=1, timeout=600, count=False, allow=("postcondition",))
        if rr.ok:
            how = cfg
            marks_to_violations(ctx, rr, lines, "recorded history")
            break
        if rr.error != "postcondition":
            break
    _stage("R3 record+validate")
    if how:
        ctx.cov(traces_validated_against_impl=int(r3.stats.get("traces", 0)), evaluations=len(lines),
                trace_validation=how, hashes_searched=int(r3.stats.get("hashes_searched", 0)))
        if how == "Obs_TokenId.cfg":
            ctx.drifts.append({"what": "the recorded histories are not behaviours of TokenId (neither the no-wrap nor the "
                                       "wrapping variant); the property was evaluated on the observed identifiers only"})
    else:
        ctx.broken.append("no trace configuration accepted the recorded history")
    if not q and how and how != "Obs_TokenId.cfg":
        def corrupt(evs):
            # a collision that the log hides: the second identifier of a chain is reported equal to the first
            for i, e in enumerate(evs):
                if e["a"] == "Issue" and e["out"]["ok"] and i + 1 < len(evs) and evs[i + 1]["a"] == "Issue" \
                        and evs[i + 1]["in"] == e["in"] and evs[i + 1]["out"]["ok"]:
                    evs[i + 1]["out"]["codes"] = list(e["out"]["codes"])
                    break
            return evs
        vlib.selftest_rejects(ctx, sd, "Trace_TokenId", how, tr, corrupt)
    ctx.cov(rule="R2: every transition of the TokenId state graph (W=6, 50 retries; first candidates 000000, 00abcd, fffffd, "
                 "fffffe, ffffff; issue / issueSemiFungible / issueNonFungible; up to 3 issues) plus a 53-issue chain that "
                 "crosses the carry and exhausts the retries, replayed on the real ESDT contract; the stored and the "
                 "returned identifier are checked for TICKER-[0-9a-f]{6} and novelty; distinct = distinct histories with at "
                 "least one collision; R3: blake2b/keccak with searched seeds and long scripted histories validated by TLC")
