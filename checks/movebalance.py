"""C23 -- move-balance transactions conserve value and advance the nonce once (family F, specs/MoveBalance).

R1  MoveBalance.tla (accounts, nonces, existence, collected fees; Process(tx) with the outcome split of
    checkTxValues / processMoveBalance / executingFailedTransaction, the three historic flag configurations)
    model-checked exhaustively to a bounded number of transactions: conservation, nonce-iff-charged, the three cases
    of the statement.
R2  (primary) one behaviour per transition of the abstract state graph + long simulated behaviours, replayed on a REAL
    txProcessor + AccountsDB (memory trie) + economicsData + fee accumulator; after every transaction the result class,
    all balances, nonces, existence and the accumulated fees are compared with the specification (functional oracle).
R3  seeded random histories (5 accounts, balances up to 10^6, random fee settings) on the same real stack validated
    by TLC against Trace_MoveBalance (strict); on a divergence the observation-only pass evaluates the C23 properties
    on what the code did.
"""
import os
import vlib

PROPS = ["C23"]
FAMILY = "MoveBalance"

CFG = """SPECIFICATION %(spec)s
CONSTANTS
  Accts = {"a", "b", "c", "p", "n"}
  PayableSC = {"p"}
  NonPayableSC = {"n"}
  KnownDefects = {%(defects)s}
  EcoCfgs <- MCEco
  Scenarios <- MCScen
  Txs <- MCTxs
  Log <- %(log)s
  Depth = %(depth)d
  ScenarioSet = "%(scen)s"
  Values = {%(values)s}
  Prices = {%(prices)s}
  GasLimits = {%(gaslimits)s}
  DataLens = {%(datalens)s}
  DNonces <- MCDN
  LeanSenders = {%(lean)s}
%(rest)s
CHECK_DEADLOCK FALSE
"""

TRACE_CFG = """SPECIFICATION TraceSpec
CONSTANTS
  Accts = {"a", "b", "c", "d", "e", "p", "n"}
  PayableSC = {"p"}
  NonPayableSC = {"n"}
  KnownDefects = {"notPayableFeeAccounting"}
  EcoCfgs = {}
  Scenarios = {}
  Txs = {}
  Log <- LogLast
  Strict = %(strict)s
CONSTRAINT HighWater
INVARIANTS %(invs)s
PROPERTIES TAct_C23_NonceIffCharged TAct_C23_Outcomes
POSTCONDITION Accepted
CHECK_DEADLOCK FALSE
"""

PROPS_R1 = ("VIEW cvars\nINVARIANTS TypeOK Inv_C23_Conservation InvK_C23_NoMint\n"
            "PROPERTIES Act_C23_NonceIffCharged Act_C23_Outcomes")
DEFECT = '"notPayableFeeAccounting"'
CORE = "TypeOK Inv_C23_Conservation"


def run(ctx):
    sd = ctx.stage()
    q = ctx.quick
    ctx.assume("specification: specs/MoveBalance/MoveBalance.tla; fee arithmetic as in specs/Fees/Fees.tla (C21)",
               "intra-shard only (one-shard coordinator), transaction type handler stubbed to (MoveBalance, MoveBalance), "
               "receipts / bad-transaction forwarders swallow their input",
               "receiver classes: plain account, account that does not exist yet, payable smart contract, smart-contract "
               "address that is not payable (deployed with non-payable code metadata, or nothing deployed), sender = receiver; "
               "IsPayable and ProcessIfError are the REAL scProcessor + BlockChainHookImpl (VM container mocked, never invoked); "
               "transfers to contract addresses carry no data",
               "flags fixed per behaviour: (penalized-too-much-gas, gas-price-modifier) in {(off,off), (on,off), (on,on)} with "
               "the same enable epoch in economicsData and txProcessor; relayed v1/v2 disabled; meta protection enabled",
               "values are non-negative (negative values are rejected earlier, by the interceptor's integrity check); "
               "user names empty; gas price modifier k/2^n (exact in float64); minGasPrice >= 1",
               "trusted: TLC, the projection (GetExistingAccount / GetAccumulatedFees) in harness/cmd/vh-movebalance")
    full = dict(values="0, 1, 4, 41", prices="0, 1, 2", gaslimits="1, 2, 3, 5, 7, 8", datalens="0, 1")
    # ---- R1: exhaustive to a bounded number of transactions (BFS + VIEW: hist is the shortest history)
    trim = dict(gaslimits="1, 2, 3, 8", values="0, 4, 41", lean='"c"') if q else {}
    full["lean"] = ""
    open(os.path.join(sd, "r1.cfg"), "w").write(CFG % dict(
        full, spec="GenSpec", log="LogAppend", depth=4, scen="quick" if q else "thorough", rest=PROPS_R1, defects="", **trim))
    dev = bool(os.environ.get("VERIF_DEV_SKIP_R1"))     # mutation-testing aid only: skips the code-independent R1 runs
    r1 = vlib.TlcResult() if dev else ctx.tlc(sd, "MC_MoveBalance", "r1.cfg", timeout=2400, coverage=not q)
    # ---- R1 as the code is: TLC must find the fee that is accounted without being charged
    if not dev:
        open(os.path.join(sd, "r1d.cfg"), "w").write(CFG % dict(
            full, spec="GenSpec", log="LogAppend", depth=3, scen="quick", defects=DEFECT,
            rest="VIEW cvars\nINVARIANTS Inv_C23_Conservation InvK_C23_NoMint", **trim))
        rd = ctx.tlc(sd, "MC_MoveBalance", "r1d.cfg", timeout=900, count=False, allow=("invariant",))
        if rd.error == "invariant:InvK_C23_NoMint":
            ctx.cov(r1_counterexample_with_known_defect="InvK_C23_NoMint")
        else:
            ctx.broken.append("R1 with KnownDefects: expected a counterexample to InvK_C23_NoMint, got %s" % rd.error)
    if not q and r1.ok and r1.coverage_zero:
        ctx.broken.append("vacuity guard: never evaluated in R1: %s" % sorted(set(r1.coverage_zero))[:10])
    exe = ctx.go_build("vh-movebalance")
    # ---- R2a: transition cover
    open(os.path.join(sd, "gen.cfg"), "w").write(CFG % dict(
        full, spec="GenSpec", log="LogAppend", depth=3, scen="quick" if q else "thorough",
        rest="VIEW cvars\nACTION_CONSTRAINT EmitEdge", defects=DEFECT, **trim))
    beh = ctx.path("edges.ndjson")
    g = ctx.tlc(sd, "MC_MoveBalance", "gen.cfg", timeout=2400, behaviours_out=beh, count=False)
    if g.ok and g.behaviours == 0:
        ctx.broken.append("behaviour export produced nothing")
    r = ctx.vh(exe, ["replay", beh], timeout=2400)
    ctx.cov(traces_validated_against_impl=int(r.stats.get("behaviours", 0)), evaluations=int(r.stats.get("steps", 0)),
            distinct_nontrivial=int(r.stats.get("distinct_transitions", 0)),
            outcome_classes_covered=int(r.stats.get("outcome_classes", 0)))
    # ---- R2b: long simulated behaviours
    open(os.path.join(sd, "sim.cfg"), "w").write(CFG % dict(
        full, spec="GenSpec", log="LogAppend", depth=14, scen="thorough", rest="ACTION_CONSTRAINT EmitFull", defects=DEFECT))
    beh2 = ctx.path("sim.ndjson")
    ctx.tlc(sd, "MC_MoveBalance", "sim.cfg", simulate=12 if q else 400, depth=14, timeout=900, behaviours_out=beh2,
            count=False)
    r2 = ctx.vh(exe, ["replay", beh2], timeout=1200, count_samples=False)
    ctx.cov(traces_validated_against_impl=int(r2.stats.get("behaviours", 0)), evaluations=int(r2.stats.get("steps", 0)))
    # ---- R3: random real histories validated by TLC
    open(os.path.join(sd, "strict.cfg"), "w").write(TRACE_CFG % dict(strict="TRUE", invs=CORE))
    open(os.path.join(sd, "obs.cfg"), "w").write(TRACE_CFG % dict(strict="FALSE", invs=CORE))
    open(os.path.join(sd, "known.cfg"), "w").write(TRACE_CFG % dict(strict="FALSE", invs="InvK_C23_NoMint"))
    tr = os.path.join(sd, "trace.ndjson")
    nt, ln = (20, 100) if q else (250, 200)
    r3 = ctx.vh(exe, ["record", ctx.seed, nt, ln, tr])
    st, line = vlib.validate_trace(ctx, sd, "Trace_MoveBalance", "strict.cfg", tr, int(r3.stats.get("events", 0)),
                                   "C23/trace", divergence_is_violation=True, what="txProcessor trace")
    if st == "accepted":
        ctx.cov(traces_validated_against_impl=nt, evaluations=int(r3.stats.get("events", 0)))
    elif st == "rejected":
        # name the broken C23 predicate, if any, on what the code did (observation-only pass)
        ro = ctx.tlc(sd, "Trace_MoveBalance", "obs.cfg", workers=1, timeout=600, count=False,
                     allow=("invariant", "postcondition", "property"))
        if ro.error and (ro.error.startswith("invariant:") or ro.error.startswith("property:")):
            ctx.violation("C23/trace/" + ro.error.split(":", 1)[1],
                          "txProcessor trace: %s is false on the behaviour observed from the real code (around trace line %s)"
                          % (ro.error.split(":", 1)[1], (ro.last_l - 1) if ro.last_l else "?"), {"line": ro.last_l})
    # known-deviation pass: fees accounted without having been charged, on what the code did
    rk = ctx.tlc(sd, "Trace_MoveBalance", "known.cfg", workers=1, timeout=600, count=False,
                 allow=("invariant", "postcondition", "property"))
    if rk.error == "invariant:InvK_C23_NoMint":
        lines = open(tr).read().splitlines()
        ln = (rk.last_l - 1) if rk.last_l else None
        ev = lines[ln - 1][:900] if ln and 1 <= ln <= len(lines) else None
        ctx.violation("C23/trace/InvK_C23_NoMint",
                      "txProcessor trace: the fee collector is credited more than the sender was charged (line %s: %s)" % (ln, ev),
                      {"line": ln, "event": ev})
    if not q and st == "accepted":
        def corrupt_state(evs):
            for e in evs:
                if e["a"] == "Process" and e["out"]["res"] == "ok" and e["in"]["value"] > 0 and e["in"]["snd"] != e["in"]["rcv"]:
                    e["st"]["bal"][e["in"]["rcv"]] -= 1     # one unit lost on the way
                    return evs
            return evs

        def corrupt_nonce(evs):
            for e in evs:
                if e["a"] == "Process" and e["out"]["res"] == "insufficientFunds":
                    e["st"]["nonce"][e["in"]["snd"]] -= 1    # charged without nonce increase
                    return evs
            return evs
        vlib.selftest_rejects(ctx, sd, "Trace_MoveBalance", "strict.cfg", tr, corrupt_state)
        vlib.selftest_rejects(ctx, sd, "Trace_MoveBalance", "obs.cfg", tr, corrupt_state)
        vlib.selftest_rejects(ctx, sd, "Trace_MoveBalance", "obs.cfg", tr, corrupt_nonce)
    ctx.cov(rule="R2: every transition (source state, transaction, flag configuration) of the specification's state graph "
                 "up to the depth bound replayed on the real txProcessor stack, comparing result class, every balance, "
                 "nonce, existence and the accumulated fees after each step; distinct = distinct (config, source state, "
                 "transaction); outcome_classes_covered = distinct (flags, outcome, sender=receiver, sender exists, "
                 "receiver exists); plus simulated 13-transaction behaviours; R3: random real histories validated by TLC")
