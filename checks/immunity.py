"""C27 -- the cross-shard pool cache (storage/immunitycache, CrossTxCache) never evicts immune items, respects its
per-chunk limits and keeps admitting under every accepted configuration (family X, specs/ImmunityCache)."""
import os
import vlib

PROPS = ["C27"]
FAMILY = "ImmunityCache"

CFG = """SPECIFICATION %(spec)s
CONSTANTS
  Configs <- %(configs)s
  UsedChunks = %(used)d
  KeyIdx = {%(keys)s}
  Sizes = {%(sizes)s}
  ImmunizeMax = 2
  KnownDefects = {%(defects)s}
  WithBad = %(withbad)s
  BothVariants = %(both)s
  Log <- %(log)s
  Depth = %(depth)d
%(rest)s
CHECK_DEADLOCK FALSE
"""

PROPS_ALL = ("INVARIANTS TypeOK Inv_GhostIsRegistry Inv_C27_ItemsBound Inv_C27_BytesSoft\n"
             "PROPERTIES Act_C27_ImmuneStay Act_C27_Admit_ZeroCapacity Act_C27_Admit_ZeroEvict Act_C27_Admit")


def run(ctx):
    sd = ctx.stage()
    q = ctx.quick
    import time
    t = [time.time()]

    def lap(name):
        ctx.notes.append("%s: %.0fs" % (name, time.time() - t[0]))
        t[0] = time.time()
    ctx.assume("a key is abstracted to (chunk chosen by the real hash, index); the harness finds real keys for each chunk "
               "through the export_verif.go hook (VerifChunkIndex), so no hash is re-implemented",
               "item sizes are >= 0 (a negative size makes the byte counter meaningless; not part of C27)",
               "`immune` means: the key was passed to an ImmunizeKeys call that was not refused and the key was not "
               "removed / the cache not cleared since (API-level ghost, bound to the code's registry by Inv_GhostIsRegistry)",
               "per-chunk limit 'as configured' = max(1, limit div NumChunks); sequential histories (one call at a time)",
               "the strict byte bound is reported under its own signature (Inv_C27_BytesStrict): the code's byte limit is a "
               "pre-insert threshold by design, see known-findings.d/C27.txt")
    base = dict(spec="Spec", used=1, keys="1, 2, 3", sizes="0, 1, 3", defects="", withbad="FALSE", both="FALSE",
                log="LogLast", depth=0, rest="VIEW cvars\n" + PROPS_ALL)
    # ---- R1: the intended design satisfies C27 for every configuration accepted by Verify (exhaustive)
    open(os.path.join(sd, "r1.cfg"), "w").write(CFG % dict(base, configs="CfgR1Quick" if q else "CfgR1Thorough",
                                                           keys="1, 2, 3"))
    r1 = ctx.tlc(sd, "MC_ImmunityCache", "r1.cfg", timeout=1500, coverage=not q,
                 extra=None if q else ["-coverage", "100000"])   # only the final coverage report
    if not q and r1.ok:
        zero = [z for z in r1.coverage_zero if z in ("NAdd", "NImmunize", "NRemove", "NGet", "NClear")]
        if zero:
            ctx.broken.append("vacuity guard: actions never taken in R1: %s" % zero)
        ctx.cov(vacuity_guard="-coverage 1: every action of Next taken (%s)" % ("ok" if not zero else zero))
    if not q:  # two chunks in use (cache-level counters, immunity capacity across chunks)
        open(os.path.join(sd, "r1b.cfg"), "w").write(CFG % dict(base, configs="CfgR1Two", used=2, keys="1, 2", sizes="1, 3"))
        ctx.tlc(sd, "MC_ImmunityCache", "r1b.cfg", timeout=1500)
    lap("R1")
    # ---- R1 with the named deviation (code as it is): TLC must find the admission counterexample
    open(os.path.join(sd, "r1d.cfg"), "w").write(CFG % dict(base, configs="CfgR1Quick", defects='"C27floor"'))
    rd = ctx.tlc(sd, "MC_ImmunityCache", "r1d.cfg", timeout=600, count=False, allow=("property", "invariant"))
    ctx.cov(model_counterexample_with_C27floor=rd.error or "none")
    if rd.ok:
        ctx.broken.append("R1 with deviation C27floor found no counterexample (the deviation is not modelled?)")
    if not q:
        # the strict byte bound does not hold in the design as implemented (soft limit): recorded, not a verdict
        open(os.path.join(sd, "r1s.cfg"), "w").write(CFG % dict(base, configs="CfgGenQuick",
                                                               rest="VIEW cvars\nINVARIANTS Inv_C27_BytesStrict"))
        rs = ctx.tlc(sd, "MC_ImmunityCache", "r1s.cfg", timeout=600, count=False, allow=("invariant",))
        ctx.cov(model_counterexample_strict_bytes=rs.error or "none")

    lap("R1 deviations")
    exe = ctx.go_build("vh-immunity")
    # ---- R2a: one behaviour per transition of the abstract state graph, both variants of getChunkConfig;
    #      the harness follows the variant whose chunk configuration the real cache reports
    open(os.path.join(sd, "gen.cfg"), "w").write(CFG % dict(
        base, spec="GenSpec", configs="CfgGenQuick" if q else "CfgGenThorough", defects='"C27floor"', withbad="TRUE",
        both="TRUE", log="LogAppendSlim", depth=12, sizes="1, 3" if q else "0, 1, 3",
        rest="VIEW cvars\nACTION_CONSTRAINT EmitEdge"))
    beh = ctx.path("edges.ndjson")
    g = ctx.tlc(sd, "MC_ImmunityCache", "gen.cfg", timeout=1800, behaviours_out=beh)
    if g.ok and g.behaviours == 0:
        ctx.broken.append("behaviour export produced nothing")
    lap("gen (%d behaviours)" % g.behaviours)
    mis = ctx.path("mismatch.ndjson")
    r = ctx.vh(exe, ["replay", beh, mis], timeout=1800)
    ctx.cov(traces_validated_against_impl=int(r.stats.get("followed", 0)), evaluations=int(r.stats.get("steps", 0)),
            distinct_nontrivial=int(r.stats.get("distinct_transitions", 0)),
            replay_skipped_other_variant=int(r.stats.get("skipped_other_variant", 0)))
    judge_mismatches(ctx, sd, r, mis, "transition cover")
    lap("replay")
    # ---- R2b: long random behaviours of the specification, two chunks in use
    open(os.path.join(sd, "sim.cfg"), "w").write(CFG % dict(
        base, spec="GenSpec", configs="CfgSim", used=2, defects='"C27floor"', withbad="TRUE", both="TRUE",
        log="LogAppend", depth=20 if q else 30, rest="ACTION_CONSTRAINT EmitFull"))
    beh2 = ctx.path("sim.ndjson")
    ctx.tlc(sd, "MC_ImmunityCache", "sim.cfg", simulate=10 if q else 100, depth=20 if q else 30, timeout=900, behaviours_out=beh2)
    thin(beh2, 4 if q else 10)   # TLC prints every last-step variant of a walk
    mis2 = ctx.path("mismatch2.ndjson")
    r2 = ctx.vh(exe, ["replay", beh2, mis2], timeout=900)
    ctx.cov(traces_validated_against_impl=int(r2.stats.get("followed", 0)), evaluations=int(r2.stats.get("steps", 0)))
    judge_mismatches(ctx, sd, r2, mis2, "simulated behaviours")
    lap("sim+replay")
    # ---- R3: seeded random histories on the real caches (real keys, up to 16 chunks, limits that do not divide)
    tr = os.path.join(sd, "trace.ndjson")
    nt, ln = (24, 120) if q else (200, 250)
    r3 = ctx.vh(exe, ["record", ctx.seed, nt, ln, tr])
    nev = int(r3.stats.get("events", 0))
    st, line = vlib.validate_trace(ctx, sd, "Trace_ImmunityCache", "Trace_ImmunityCache.cfg", tr, nev, "C27",
                                   divergence_is_violation=False, what="ImmunityCache/CrossTxCache trace",
                                   obs_cfg="Obs_ImmunityCache.cfg", timeout=1200)
    lap("R3 (%d events, %s)" % (nev, st))
    if st == "accepted":
        ctx.cov(traces_validated_against_impl=nt, evaluations=nev)
    if not q and st == "accepted":
        # binding self-tests: (1) an immune item silently disappears after an Add, (2) an Add is refused although the
        # chunk holds an evictable item -- both must be caught on the recorded (otherwise faithful) trace
        def drop_immune(evs):
            for e in evs:
                if e["a"] == "Add" and e["out"].get("added"):
                    for ch in e["st"]["ch"]:
                        vic = [it for it in ch["items"] if it["i"] in ch["flag"] and it["i"] != e["in"]["k"]["i"]]
                        if vic:
                            ch["items"] = [it for it in ch["items"] if it is not vic[0]]
                            ch["flag"] = [i for i in ch["flag"] if i != vic[0]["i"]]
                            ch["nb"] -= vic[0]["z"]
                            e["st"]["cnt"] -= 1
                            e["st"]["nb"] -= vic[0]["z"]
                            return evs[:evs.index(e) + 1]
            return evs[:-1]
        src = ctx.path("selftest_src.ndjson")      # pristine copy: selftest_rejects overwrites trace.ndjson
        with open(src, "w") as f:
            f.write(open(tr).read())
        vlib.selftest_rejects(ctx, sd, "Trace_ImmunityCache", "Obs_ImmunityCache.cfg", src, drop_immune)

        def corrupt_order(evs):
            for e in evs:
                for ch in e["st"]["ch"]:
                    if e["a"] == "Add" and len(ch["items"]) >= 2:
                        ch["items"] = list(reversed(ch["items"]))
                        return evs
            return evs[:-1]
        vlib.selftest_rejects(ctx, sd, "Trace_ImmunityCache", "Trace_ImmunityCache.cfg", src, corrupt_order)
    ctx.cov(rule="R2: every transition of the specification's state graph (3 keys per chunk, sizes 0/1/3, one configuration "
                 "per class of per-chunk configuration incl. limits below the chunk count and configurations Verify "
                 "rejects) replayed on ImmunityCache and CrossTxCache; result, per-chunk item order, immune registry, "
                 "flags, byte counters and cache totals compared after the step; distinct = distinct (configuration, "
                 "source state, call, arguments); plus simulated 30-step behaviours over two chunks; R3: random real "
                 "histories (hash-chosen chunks) validated by Trace_ImmunityCache with all C27 predicates")


def thin(path, k):
    lines = open(path).read().splitlines()
    with open(path, "w") as f:
        for i, l in enumerate(lines):
            if i % k == 0:
                f.write(l + "\n")


def judge_mismatches(ctx, sd, r, mis, what):
    """behaviours on which the real cache differed from the prediction were re-recorded; TLC decides in observation mode
    whether a C27 predicate is false on what was observed (violation) or not (drift)"""
    n = int(r.stats.get("mismatched", 0))
    if n == 0:
        return
    ev = int(r.stats.get("mismatch_events", 0))
    st, line = vlib.validate_trace(ctx, sd, "Trace_ImmunityCache", "Trace_ImmunityCache.cfg", mis, ev, "C27",
                                   divergence_is_violation=False, what="%s: real cache differs from the specification" % what,
                                   obs_cfg="Obs_ImmunityCache.cfg")
    ctx.notes.append("%s: %d behaviours differed from the prediction (%s)" % (what, n, st))
