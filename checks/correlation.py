"""C19 -- a block body is accepted only if it matches its header (family B, specs/Correlation).

R1  TLC: the two-loop machine of baseProcessor.checkHeaderBodyCorrelation over every (header miniblock list, body) pair
    up to the length bound over a universe of miniblocks that differ in one attribute only; Inv_C19_AcceptedOnlyIfExact
    holds in the intended design, and TLC must FIND counterexamples when the deviations of the code as it was written
    ("typeUnchecked", "noBijection") are switched on.
R2  every enumerated pair on the REAL function (verif exporter on a bare baseProcessor, real protobuf marshalizer and
    blake2b hasher); oracle from TLA+: accepted => Exact.  createMiniBlockHeaders is compared with HonestHeader.
R3  random bodies (up to 5 miniblocks) with honest and perturbed header lists on the real functions, validated by TLC.
"""
import os
import time
import vlib

PROPS = ["C19"]
FAMILY = "Correlation"

CFG = """SPECIFICATION Spec
CONSTANTS
  IsCase <- MCCase
  KnownDefects = {%(defects)s}
  Log <- LogLast
  MbIds = {%(ids)s}
  MaxLen = %(maxlen)d
  WithNil = %(nil)s
  SampleMod = %(mod)d
  SampleRes = %(res)d
VIEW cvars
%(rest)s
CHECK_DEADLOCK FALSE
"""
INVS = "INVARIANTS TypeOK Inv_MachineIsVerdict Inv_C19_AcceptedOnlyIfExact Inv_ExactIsAccepted Inv_HonestHeaderIsExact"
ABC = '"A", "B", "C"'
ALL = '"A", "B", "C", "D", "E", "Z"'


def _cfg(sd, name, **d):
    open(os.path.join(sd, name), "w").write(CFG % d)
    return name


def never_taken(res):
    """actions whose count is 0:0 in the FINAL coverage report (TLC also prints interim reports, in which an action
    may legitimately still be at 0 while the initial states are being computed; vlib collects zeros from all reports)"""
    import re
    last = {}
    for line in res.tail:
        m = re.match(r"^<(\w+) line .*>: (\d+):(\d+)$", line)
        if m:
            last[m.group(1)] = (int(m.group(2)), int(m.group(3)))
    return sorted(a for a in set(res.coverage_zero) if last.get(a) == (0, 0))


def run(ctx):
    sd = ctx.stage()
    q = ctx.quick
    t0 = [time.time()]

    def lap(name):
        ctx.notes.append("%s %.1fs" % (name, time.time() - t0[0]))
        t0[0] = time.time()
    ctx.assume(
        "the miniblock hash is injective on the miniblocks used (hash over the marshalled miniblock, which contains the tx "
        "hashes, both shard ids and the type); the harness uses the real marshalizer and blake2b, TLA+ uses H(mb) = mb",
        "Exact = equal length and a one-to-one pairing of header entries with body miniblocks with equal hash, sender, "
        "receiver, type and tx count (order is not prescribed by the property; two identical entries may pair with two "
        "identical miniblocks)",
        "bounds: header lists and bodies of length 0..3 over 3 miniblocks (A, A retyped, A with one more tx) + 16 header "
        "entries (honest, one attribute changed, foreign hash); 6 miniblocks at length <= 2; random traces up to length 5",
        "the Reserved fields of MiniBlock / MiniBlockHeader are left empty")
    # ---- R1a: with the deviations of the code as written TLC must find the counterexample
    for name, defects in ([("both", '"typeUnchecked", "noBijection"')] if q else
                          [("both", '"typeUnchecked", "noBijection"'), ("type", '"typeUnchecked"'), ("bij", '"noBijection"')]):
        d = ctx.tlc(sd, "MC_Correlation", _cfg(sd, "defect-%s.cfg" % name, defects=defects, ids=ABC, maxlen=2, nil="FALSE",
                                               mod=1, res=0, rest="INVARIANTS TypeOK Inv_MachineIsVerdict Inv_C19_AcceptedOnlyIfExact"),
                    timeout=600, allow=("invariant",), count=False)
        if d.error != "invariant:Inv_C19_AcceptedOnlyIfExact":
            ctx.broken.append("R1: with deviations {%s} TLC did not report Inv_C19_AcceptedOnlyIfExact (got %r)" % (defects, d.error))
        else:
            ctx.cov(**{"design_counterexample_found_with_deviation_" + name: True})
    lap("R1a defect runs")
    exe = ctx.go_build("vh-correlation")
    # ---- R1b + export: intended design
    beh = ctx.path("cases.ndjson")
    if q:
        g = ctx.tlc(sd, "MC_Correlation", _cfg(sd, "gen.cfg", defects="", ids=ABC, maxlen=3, nil="FALSE", mod=4, res=ctx.seed,
                                               rest=INVS + "\nACTION_CONSTRAINT EmitDone"), timeout=900, behaviours_out=beh)
        g2 = ctx.tlc(sd, "MC_Correlation", _cfg(sd, "gen2.cfg", defects="", ids=ABC, maxlen=2, nil="TRUE", mod=1, res=0,
                                                rest=INVS + "\nACTION_CONSTRAINT EmitDone"), timeout=900,
                     behaviours_out=ctx.path("cases2.ndjson"))
    else:
        r1 = ctx.tlc(sd, "MC_Correlation", _cfg(sd, "r1.cfg", defects="", ids=ABC, maxlen=3, nil="TRUE", mod=1, res=0, rest=INVS),
                     timeout=3000, coverage=True)
        if r1.ok and never_taken(r1):
            ctx.broken.append("vacuity: actions never taken in R1: %s" % never_taken(r1))
        g = ctx.tlc(sd, "MC_Correlation", _cfg(sd, "gen.cfg", defects="", ids=ABC, maxlen=3, nil="FALSE", mod=1, res=0,
                                               rest=INVS + "\nACTION_CONSTRAINT EmitDone"), timeout=3000, behaviours_out=beh,
                    count=False)
        g2 = ctx.tlc(sd, "MC_Correlation", _cfg(sd, "gen2.cfg", defects="", ids=ALL, maxlen=2, nil="TRUE", mod=1, res=0,
                                                rest=INVS + "\nACTION_CONSTRAINT EmitDone"), timeout=3000,
                     behaviours_out=ctx.path("cases2.ndjson"))
    lap("R1b+export")
    if (g.ok and g.behaviours == 0) or (g2.ok and g2.behaviours == 0):
        ctx.broken.append("case export produced nothing")
    # ---- R2
    tot = {}
    for f in (beh, ctx.path("cases2.ndjson")):
        h = ctx.vh(exe, ["replay", f], timeout=1800)
        for k in ("behaviours", "steps", "distinct", "accepted", "exact", "honest_headers_checked"):
            tot[k] = tot.get(k, 0) + int(h.stats.get(k, 0))
        ctx.cov(**{"real_results_" + os.path.basename(f): h.stats.get("by_class"),
                   "violating_cases_" + os.path.basename(f): h.stats.get("violating_cases")})
    ctx.cov(traces_validated_against_impl=tot["behaviours"], evaluations=tot["steps"], distinct_nontrivial=tot["distinct"],
            accepted=tot["accepted"], exact_pairs=tot["exact"], honest_headers_checked=tot["honest_headers_checked"])
    if tot["accepted"] == 0 or tot["exact"] == 0:
        ctx.broken.append("R2: no accepted / no exact pair among the replayed cases -- concretisation is wrong")
    lap("R2 replay")
    # ---- R3
    tr = os.path.join(sd, "trace.ndjson")
    r3 = ctx.vh(exe, ["record", ctx.seed, 300 if q else 3000, tr], timeout=600, count_samples=False)
    nev = int(r3.stats.get("events", 0))
    st, line = vlib.validate_trace(ctx, sd, "Trace_Correlation", "Trace_Correlation.cfg", tr, nev, "C19/trace",
                                   divergence_is_violation=False, obs_cfg="TraceObs_Correlation.cfg",
                                   what="checkHeaderBodyCorrelation trace (random bodies, perturbed header lists)")
    if st == "accepted":
        ctx.cov(traces_validated_against_impl=1, evaluations=nev)
    lap("R3 record+validate")
    if not q and st == "accepted":
        def corrupt(evs):
            for e in evs:
                if e["a"] == "Check" and e["out"]["res"] == "mismatch" and len(e["in"]["hdr"]) != len(e["in"]["body"]):
                    e["out"]["res"] = "ok"     # a header list of another length reported as accepted
                    break
            return evs
        vlib.selftest_rejects(ctx, sd, "Trace_Correlation", "Trace_Correlation.cfg", tr, corrupt)
    ctx.cov(rule="R2: one case per (header miniblock list, body): all lists of length 0..3 over 16 header entries (the honest "
                 "entry of each of 3 miniblocks, each with one attribute changed, a foreign hash) x all bodies of length 0..3 "
                 "over the 3 miniblocks (quick: the length-3 lists sampled 1/4 by seed), plus length <= 2 over 6 miniblocks / "
                 "31 entries / nil miniblocks; non-trivial = equal lengths, no nil, every body miniblock's hash listed (the "
                 "real function reaches the attribute comparison); distinct = distinct pairs. R3: random traces.")
