"""C31 -- bloom filter: no false negatives + race freedom (family K, specs/Bloom)."""
import os
import time
import vlib

PROPS = ["C31"]
FAMILY = "Bloom"

CFG = """SPECIFICATION %(spec)s
CONSTANTS
  Keys = {%(keys)s}
  ByteSizes = {%(sizes)s}
  Hashers = {%(nh)s}
  PosSet = {%(posset)s}
  Log <- %(log)s
  Depth = %(depth)d
%(rest)s
CHECK_DEADLOCK FALSE
"""

LOCKS = """SPECIFICATION %(spec)s
CONSTANTS
  Threads = {%(threads)s}
  Table <- BloomTable
  OpOrder <- BloomOrder
  KnownDefects = {%(defects)s}
%(rest)s
CHECK_DEADLOCK FALSE
"""

AS_IS = '"maycontain-unlocked", "clear-unlocked"'


_T = [time.time()]


def _t(ctx, label):
    """stage timing into the evidence notes (and stderr when VERIF_TIMING is set)"""
    now = time.time()
    ctx.notes.append("%s: %.1fs" % (label, now - _T[0]))
    if os.environ.get("VERIF_TIMING"):
        print("  [timing] %s %.1fs" % (label, now - _T[0]))
    _T[0] = now


def judge_suspects(ctx, sd, path, n_events):
    """behaviours on which the real filter did not follow the functional specification were re-logged as observed
    traces: TLC evaluates the C31 invariants on every observed state (observation mode). Only an invariant
    failure is a violation; anything else is property-neutral drift."""
    if n_events <= 0:
        return
    vlib.validate_trace(ctx, sd, "Trace_Bloom", "Trace_Bloom_obs.cfg", path, n_events, "C31/replay",
                        divergence_is_violation=False, what="replayed behaviour, observed run")


def run(ctx):
    sd = ctx.stage()
    _T[0] = time.time()
    q = ctx.quick
    ctx.assume("bit positions are an abstract function key -> positions; in R1/R2 it ranges over all assignments on a small "
               "position set (byte borders) and is imposed on the real filter through stub hashing.Hasher objects; in R3 "
               "the positions the real hashers produce are learned from a probe filter (fresh filter + one Add)",
               "filter bits are projected by reflection on the unexported field `filter` (no hook, no perturbation); if the "
               "field disappears only the answers are compared",
               "race freedom is decided by the Go race detector on the scenarios enumerated from the lock-discipline table "
               "(MC_BloomLocks.tla); the detector sees only races that the executed iterations expose",
               "hash functions are deterministic")
    base = dict(keys='"a","b"', sizes="2, 3", nh="1, 2", posset="0, 7, 8, 15, 16, 23", log="LogLast", depth=0)
    # ---- R1: sequential specification
    open(os.path.join(sd, "r1.cfg"), "w").write(CFG % dict(
        base, spec="Spec", keys='"a","b"' if q else '"a","b","c"', posset="0, 7, 8, 15, 16, 23" if q else "0, 7, 8, 15, 23",
        rest="VIEW cvars\nINVARIANTS TypeOK Inv_C31_NoFalseNegative Inv_C31_AnswerForAdded\nPROPERTIES Act_C31_BitsMonotone"))
    ctx.tlc(sd, "MC_Bloom", "r1.cfg", timeout=900, coverage=not q)
    # ---- R1: lock discipline, intended design (no deviation): race free for 2 (and 3) threads
    open(os.path.join(sd, "locks_ok.cfg"), "w").write(LOCKS % dict(
        spec="Spec", threads="1, 2" if q else "1, 2, 3", defects="",
        rest="INVARIANTS TypeOK Inv_RaceFree Inv_StaticSound"))
    ctx.tlc(sd, "MC_BloomLocks", "locks_ok.cfg", timeout=600)
    # ---- R1: lock discipline of the code as it is: TLC must find the race (counterexample = the known deviation)
    open(os.path.join(sd, "locks_asis.cfg"), "w").write(LOCKS % dict(
        spec="Spec", threads="1, 2", defects=AS_IS, rest="INVARIANTS TypeOK Inv_StaticSound Inv_RaceFree"))
    ra = ctx.tlc(sd, "MC_BloomLocks", "locks_asis.cfg", timeout=600, count=False, allow=("invariant",))
    if ra.error == "invariant:Inv_RaceFree":
        ctx.cov(model_counterexample_with_known_deviations="Inv_RaceFree violated (MayContain/Clear without the mutex)")
    elif ra.ok:
        ctx.broken.append("lock-discipline model with the code's deviations switched on found no race: model is wrong")

    _t(ctx, "R1 model checking")
    only = os.environ.get("VERIF_ONLY", "")   # development aid: "seq" or "race" runs one half only
    if only != "race":
        exe = ctx.go_build("vh-bloom")
        # ---- R2a: transition cover of the sequential specification replayed on the real filter
        open(os.path.join(sd, "gen.cfg"), "w").write(CFG % dict(
            base, spec="GenSpec", log="LogAppend", depth=8, posset="0, 7, 8, 23" if q else "0, 7, 8, 15, 23",
            rest="VIEW cvars\nACTION_CONSTRAINT EmitEdge"))
        beh = ctx.path("edges.ndjson")
        g = ctx.tlc(sd, "MC_Bloom", "gen.cfg", timeout=900, behaviours_out=beh)
        sus = ctx.path("suspects.ndjson")
        r = ctx.vh(exe, ["replay", beh, sus], timeout=900)
        ctx.cov(traces_validated_against_impl=int(r.stats.get("behaviours", 0)), evaluations=int(r.stats.get("steps", 0)),
                distinct_nontrivial=int(r.stats.get("distinct_transitions", 0)))
        if g.ok and g.behaviours == 0:
            ctx.broken.append("behaviour export produced nothing")
        judge_suspects(ctx, sd, sus, int(r.stats.get("suspect_events", 0)))
        _t(ctx, "R2a transition cover + replay")
        # ---- R2b: long random behaviours (3 keys)
        open(os.path.join(sd, "sim.cfg"), "w").write(CFG % dict(
            base, spec="GenSpec", log="LogAppend", depth=30, keys='"a","b","c"', rest="ACTION_CONSTRAINT EmitFull"))
        beh2 = ctx.path("sim.ndjson")
        ctx.tlc(sd, "MC_Bloom", "sim.cfg", simulate=40 if q else 600, depth=30, timeout=600, behaviours_out=beh2)
        sus2 = ctx.path("suspects2.ndjson")
        r2 = ctx.vh(exe, ["replay", beh2, sus2], timeout=900)
        ctx.cov(traces_validated_against_impl=int(r2.stats.get("behaviours", 0)), evaluations=int(r2.stats.get("steps", 0)))
        judge_suspects(ctx, sd, sus2, int(r2.stats.get("suspect_events", 0)))
        _t(ctx, "R2b simulation + replay")
        # ---- R3: real hashers (keccak/blake2b/fnv/sha256), real sizes (5 .. 2048 bytes, default filter), random keys
        tr = os.path.join(sd, "trace.ndjson")
        nt, ln = (30, 120) if q else (300, 300)
        r3 = ctx.vh(exe, ["record", ctx.seed, nt, ln, tr])
        ne = int(r3.stats.get("events", 0))
        st, line = vlib.validate_trace(ctx, sd, "Trace_Bloom", "Trace_Bloom.cfg", tr, ne, "C31/trace",
                                       divergence_is_violation=False, what="bloom.Bloom trace", obs_cfg="Trace_Bloom_obs.cfg")
        if st == "accepted":
            ctx.cov(traces_validated_against_impl=nt, evaluations=ne)
        if not q and st == "accepted":
            def false_negative(evs):
                added = set()
                for e in evs:
                    if e["a"] == "New" or e["a"] == "Clear":
                        added = set()
                    elif e["a"] == "Add":
                        added.add(e["in"]["k"])
                    elif e["a"] == "MayContain" and e["in"]["k"] in added:
                        e["out"]["r"] = False
                        break
                return evs
            vlib.selftest_rejects(ctx, sd, "Trace_Bloom", "Trace_Bloom.cfg", tr, false_negative)
            vlib.selftest_rejects(ctx, sd, "Trace_Bloom", "Trace_Bloom_obs.cfg", tr, false_negative)

            def lost_bit(evs):
                for e in evs:
                    if e["a"] == "Add" and len(e["st"].get("bits", [])) >= 2:
                        e["st"]["bits"] = e["st"]["bits"][1:]
                        break
                return evs
            vlib.selftest_rejects(ctx, sd, "Trace_Bloom", "Trace_Bloom_obs.cfg", tr, lost_bit)
        _t(ctx, "R3 record + trace validation")
    if only != "race":
        # ---- concurrent no-false-negative stage: atomicity of Add's read-modify-write (clean under the race detector)
        ATOM = "SPECIFICATION Spec\nCONSTANTS\n  MaxThreads = %d\n  Variant = \"%s\"\nINVARIANTS Inv_LabelSound Inv_C31_AddedStaysContained\nCHECK_DEADLOCK FALSE\n"
        open(os.path.join(sd, "atom_ok.cfg"), "w").write(ATOM % (3 if q else 4, "one-section"))
        cscen = ctx.path("conc-scenarios.ndjson")
        ga = ctx.tlc(sd, "BloomAtomicity", "atom_ok.cfg", workers=1, timeout=300, behaviours_out=cscen)
        open(os.path.join(sd, "atom_split.cfg"), "w").write(ATOM % (3, "split"))
        gs = ctx.tlc(sd, "BloomAtomicity", "atom_split.cfg", workers=1, timeout=300, count=False, allow=("invariant",))
        if gs.error == "invariant:Inv_C31_AddedStaysContained":
            ctx.cov(model_counterexample_split_read_modify_write="Inv_C31_AddedStaysContained violated: two Adds on one "
                    "byte lose a bit when the read and the write are in different critical sections")
        elif gs.ok:
            ctx.broken.append("BloomAtomicity: the split read-modify-write variant loses no bit in the model: model is wrong")
        if ga.ok and ga.behaviours == 0:
            ctx.broken.append("BloomAtomicity exported no scenario")
        cexe = ctx.go_build("vh-bloom")
        ctr = os.path.join(sd, "trace.ndjson")
        rc = ctx.vh(cexe, ["conc", cscen, 1500 if q else 6000, ctx.seed, ctr], timeout=900)
        nev = int(rc.stats.get("events", 0))
        stc, _ = vlib.validate_trace(ctx, sd, "Trace_BloomConc", "Trace_BloomConc.cfg", ctr, nev, "C31/concurrent",
                                     divergence_is_violation=False, what="concurrent Add/MayContain rounds on the real filter",
                                     timeout=900)
        if stc == "accepted":
            ctx.cov(traces_validated_against_impl=nev, evaluations=int(rc.stats.get("answers", 0)),
                    concurrent_rounds=nev, concurrent_adds=int(rc.stats.get("adds", 0)))
        elif stc == "rejected":
            ctx.broken.append("concurrent-round trace was not consumed by Trace_BloomConc")
        if not q and stc == "accepted":
            def lost_bit_round(evs):
                for e in evs:
                    if len(e["st"]["bits"]) >= 2:
                        e["st"]["bits"] = e["st"]["bits"][1:]
                        break
                return evs
            vlib.selftest_rejects(ctx, sd, "Trace_BloomConc", "Trace_BloomConc.cfg", ctr, lost_bit_round)
        _t(ctx, "concurrent no-false-negative rounds")
    if only != "seq":
        # ---- race half: scenarios enumerated by TLC from the lock-discipline table, run under the race detector
        rexe = ctx.go_build("vh-bloom", race=True)
        scen = ctx.path("scenarios.ndjson")
        with open(scen, "w") as out:
            for th in (["1, 2"] if q else ["1, 2", "1, 2, 3"]):
                open(os.path.join(sd, "scen.cfg"), "w").write(LOCKS % dict(
                    spec="GenSpec", threads=th, defects=AS_IS, rest="ACTION_CONSTRAINT EmitEdge"))
                part = ctx.path("scen-part.ndjson")
                gs = ctx.tlc(sd, "MC_BloomLocks", "scen.cfg", timeout=300, behaviours_out=part, count=False)
                if gs.ok and gs.behaviours == 0:
                    ctx.broken.append("scenario export produced nothing")
                out.write(open(part).read())
        rr = ctx.vh(rexe, ["race", scen, 150 if q else 600], timeout=1500)
        ctx.cov(traces_validated_against_impl=int(rr.stats.get("scenarios", 0)),
                evaluations=int(rr.stats.get("goroutine_iterations", 0)),
                distinct_nontrivial=int(rr.stats.get("distinct_scenarios", 0)),
                race_scenarios=int(rr.stats.get("scenarios", 0)), race_observed=int(rr.stats.get("race_observed", 0)),
                race_predicted_by_model=int(rr.stats.get("race_predicted", 0)),
                race_predicted_not_observed=int(rr.stats.get("race_predicted_not_observed", 0)))
        _t(ctx, "race scenarios")
    ctx.cov(rule="sequential half: every transition of the Bloom specification's state graph (2 keys, filter of 2-3 bytes, 1-2 "
                 "hash functions, every assignment of keys to byte-border bit positions) replayed on the real filter built with "
                 "stub hashers, comparing MayContain answers and the bit set; distinct = distinct (configuration, source bits, "
                 "action, key); plus simulated long behaviours; plus random real histories (real hashers, sizes 5..2048 bytes) "
                 "validated by TLC. Race half: every multiset of 2 (thorough: 3) operation classes of the lock-discipline table "
                 "run with real goroutines under the race detector. Concurrent no-false-negative stage: every scenario of "
                 "BloomAtomicity.tla (2-3(4) goroutines; bits in one byte / same bit / different bytes, imposed through a stub "
                 "hasher; plus real hashers on 8/16/64-byte filters) run for many rounds from a start barrier, answers and final "
                 "bits of every round judged by TLC")
