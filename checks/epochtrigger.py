"""C34 -- metachain epochs respect the minimum and maximum length (family E, specs/EpochTrigger)."""
import os
import time
import vlib

PROPS = ["C34"]
FAMILY = "EpochTrigger"

CFG = """SPECIFICATION %(spec)s
CONSTANTS
  RPEs = {%(rpes)s}
  Mins = {%(mins)s}
  StartRounds = {%(starts)s}
  StartEpochs = {%(epochs)s}
  MaxRound = %(maxround)d
  MaxSkip = %(maxskip)d
  MaxEpoch = %(maxepoch)d
  ForceRounds <- %(force)s
  Nonces = {3, 4}
  W <- MCW
  ForceModes = {"%(mode)s"}
  Log <- %(log)s
  Depth = %(depth)d
  SampleK = %(k)d
%(rest)s
CHECK_DEADLOCK FALSE
"""
PROPS_R1 = "PROPERTIES Act_C34_EpochStep Act_C34_MinDistance Act_C34_Unforced Act_C34_MaxLength"


def run(ctx):
    sd = ctx.stage()
    q = ctx.quick
    ctx.assume(
        "uint64 arithmetic of the trigger is modelled modulo W = 2^30 standing for 2^64; rounds fed to Update and the "
        "configured lengths are small (< 2^29), ForceEpochStart is additionally asked for math.MaxUint64 and MaxUint64-1; "
        "overflow of currEpochStartRound + roundsPerEpoch (rounds near 2^64) is out of scope",
        "'a new epoch never starts fewer than min rounds after the previous one' is read as: the round at which Update "
        "switches the epoch is at least min rounds after the round at which Update switched it the previous time "
        "(constructor: EpochStartRound; after a revert: the previous start-of-epoch block's round)",
        "'without forcing' = no ForceEpochStart request is pending (model) / no ForceEpochStart call since the last "
        "start (recorded traces); nonces below minimumNonceToStartEpoch (4) never start an epoch",
        "environment: rounds passed to Update are monotone (several calls per round allowed); the start-of-epoch block "
        "given to SetProcessed is the block of the current round and carries the trigger's epoch; "
        "Economics.PrevEpochStartRound is the round of the previous start-of-epoch block (as economics.go fills it)",
        "storage is the in-memory genericMocks chain storer; notifier/status handler are the stubs of epochStart/mock")
    base = dict(spec="Spec", rpes="2, 3", mins="1, 2", starts="0, 2", epochs="0", maxround=8, maxskip=5, maxepoch=3,
                force="MCForceRounds", mode="clamp", log="LogLast", depth=0, k=1,
                rest="VIEW cvars\nINVARIANTS TypeOK\n" + PROPS_R1)
    if not q:
        base.update(rpes="2, 3, 4", mins="1, 2, 3", maxround=12, maxskip=6, maxepoch=6)

    def cfg(name, **kw):
        open(os.path.join(sd, name), "w").write(CFG % dict(base, **kw))
        return name

    # R1 (a): the intended design (distance test without unsigned wrap) satisfies every clause of C34 -- exhaustive
    r1 = ctx.tlc(sd, "MC_EpochTrigger", cfg("r1.cfg"), timeout=1500, coverage=not q)
    ctx.notes.append("R1 intended: %.0fs" % r1.wall)
    if not q and r1.ok and r1.coverage_zero:
        ctx.broken.append("vacuity guard: actions never taken in the exhaustive run: %s" % sorted(set(r1.coverage_zero)))
    # R1 (b): the code as it is (named deviation ForceModes = {"wrap"}): TLC must find the counterexample
    r1b = ctx.tlc(sd, "MC_EpochTrigger", cfg("r1asis.cfg", mode="wrap"), timeout=900, count=False, allow=("property",))
    ctx.cov(model_counterexample_with_named_deviation=r1b.error or "none found")
    if r1b.ok:
        ctx.broken.append("the code-as-it-is variant of the model (unsigned subtraction in ForceEpochStart) no longer "
                          "violates Act_C34_MinDistance: the named deviation is not modelled")

    exe = ctx.go_build("vh-epochtrigger")

    # R2: one behaviour per transition of the abstract state graph, replayed on the real trigger.
    gen = dict(spec="GenSpec", log="LogAppend", depth=60, rpes="3", mins="1, 2", starts="1", maxround=7, maxskip=4,
               maxepoch=2, force="MCForceFew", rest="VIEW cvars\nACTION_CONSTRAINT EmitEdge")
    if not q:
        gen.update(rpes="3, 4", mins="1, 2, 3", maxround=8, maxskip=5, maxepoch=3, k=40)

    def cover(mode, tag):
        beh = ctx.path("edges-%s.ndjson" % tag)
        g = ctx.tlc(sd, "MC_EpochTrigger", cfg("gen-%s.cfg" % tag, mode=mode, **gen), timeout=1500,
                    behaviours_out=beh, count=False, extra=["-seed", str(ctx.seed)])
        if g.ok and g.behaviours == 0:
            ctx.broken.append("behaviour export produced nothing (%s)" % tag)
        mm = ctx.path("mismatch-%s.ndjson" % tag)
        t0 = time.time()
        h = ctx.vh(exe, ["replay", beh, mm], timeout=1500)
        ctx.notes.append("cover %s: TLC %.0fs, %d behaviours, replay %.0fs" % (tag, g.wall, g.behaviours, time.time() - t0))
        return h, mm

    h, mm = cover("wrap", "asis")
    variant = "wrap"
    if int(h.stats.get("mismatches", 0)) > 0:
        # the real trigger is not the code-as-it-is variant; try the intended design (e.g. after the fix)
        h2, mm2 = cover("clamp", "intended")
        if int(h2.stats.get("mismatches", 0)) < int(h.stats.get("mismatches", 0)):
            h, mm, variant = h2, mm2, "clamp"
    ctx.cov(traces_validated_against_impl=int(h.stats.get("behaviours", 0)) - int(h.stats.get("mismatches", 0)),
            evaluations=int(h.stats.get("steps", 0)), distinct_nontrivial=int(h.stats.get("distinct", 0)),
            real_trigger_matches_variant=variant, replay_mismatches=int(h.stats.get("mismatches", 0)))
    ctx.drifts = [d for d in ctx.drifts if int(h.stats.get("mismatches", 0)) > 0]
    if int(h.stats.get("mismatches", 0)) > 0:
        # neither variant predicts the real trigger: TLC decides on the observed steps whether C34 is false
        st, line = vlib.validate_trace(ctx, sd, "Trace_EpochTrigger", "Trace_EpochTrigger.cfg", mm,
                                       int(h.stats.get("mismatch_events", 0)), "C34/replay-observed",
                                       divergence_is_violation=False, obs_cfg="Trace_EpochTrigger_obs.cfg",
                                       what="trigger driven by a TLC behaviour (observed states)")
        ctx.cov(mismatch_classification=st)

    # R2b: long random behaviours of the variant that matches the code
    sim = dict(gen, rpes="3, 5", mins="1, 2, 4", starts="0, 3", maxround=60, maxskip=6, maxepoch=12, depth=45, k=1,
               force="MCForceRounds", rest="ACTION_CONSTRAINT EmitFull")
    beh2 = ctx.path("sim.ndjson")
    ctx.tlc(sd, "MC_EpochTrigger", cfg("sim.cfg", mode=variant, **sim), simulate=60 if q else 600, depth=45,
            timeout=900, behaviours_out=beh2, count=False)
    mm3 = ctx.path("mismatch-sim.ndjson")
    h3 = ctx.vh(exe, ["replay", beh2, mm3], timeout=900)
    ctx.cov(traces_validated_against_impl=int(h3.stats.get("behaviours", 0)) - int(h3.stats.get("mismatches", 0)),
            evaluations=int(h3.stats.get("steps", 0)))
    if int(h3.stats.get("mismatches", 0)) > 0:
        vlib.validate_trace(ctx, sd, "Trace_EpochTrigger", "Trace_EpochTrigger.cfg", mm3,
                            int(h3.stats.get("mismatch_events", 0)), "C34/replay-observed",
                            divergence_is_violation=False, obs_cfg="Trace_EpochTrigger_obs.cfg",
                            what="trigger driven by a simulated TLC behaviour (observed states)")

    # R3: seeded random histories at realistic sizes on the real trigger, validated by TLC.
    #  (a) ForceEpochStart never asked for a round below the current epoch start  (b) any requested round
    nt, ln = (40, 120) if q else (200, 200)
    for mode in ("nopast", "any"):
        tr = os.path.join(sd, "trace.ndjson")
        r3 = ctx.vh(exe, ["record", ctx.seed, nt, ln, tr, mode])
        st, line = vlib.validate_trace(ctx, sd, "Trace_EpochTrigger", "Trace_EpochTrigger.cfg", tr,
                                       int(r3.stats.get("events", 0)), "C34/trace-" + mode,
                                       divergence_is_violation=False, obs_cfg="Trace_EpochTrigger_obs.cfg",
                                       what="real trigger, random history (%s forced rounds)" % mode)
        if st == "accepted":
            ctx.cov(traces_validated_against_impl=nt, evaluations=int(r3.stats.get("events", 0)),
                    epoch_starts_in_traces=int(r3.stats.get("epoch_starts", 0)))
        if not q and st == "accepted" and mode == "nopast":
            def corrupt(evs):
                for i, e in enumerate(evs):
                    if e["a"] == "Update" and e["st"]["isStart"] and i > 0 and not evs[i - 1]["st"]["isStart"]:
                        e["st"]["cesr"] += 1           # start round reported one round late
                        break
                return evs
            vlib.selftest_rejects(ctx, sd, "Trace_EpochTrigger", "Trace_EpochTrigger.cfg", tr, corrupt)

            found = []

            def early(evs):
                # an epoch start one round too early (first round == start + roundsPerEpoch), everything consistent
                cfg0, forced = None, False
                for i, e in enumerate(evs):
                    if e["a"] == "New":
                        cfg0 = e["in"]
                        forced = False
                    elif e["a"] == "Force":
                        forced = True
                    elif (e["a"] == "Update" and not forced and not e["st"]["isStart"] and e["in"]["n"] >= 4
                          and e["in"]["r"] == e["st"]["cesr"] + cfg0["rpe"]):
                        e["st"] = {"epoch": e["st"]["epoch"] + 1, "isStart": True, "cesr": e["in"]["r"]}
                        found.append(i)
                        return evs[:i + 1]
                    elif e["a"] == "Update" and e["st"]["isStart"]:
                        forced = False
                return evs[:1]
            import json
            if early([json.loads(x) for x in open(tr).read().splitlines() if x.strip()]) and found:
                vlib.selftest_rejects(ctx, sd, "Trace_EpochTrigger", "Trace_EpochTrigger_obs.cfg", tr, early)
    ctx.cov(rule="R2: every transition (quick) / a 1-in-40 sample of the transitions of a larger graph (thorough) of the trigger "
                 "specification's abstract state graph (rounds <= 7..8, forced rounds in the past/future/MaxUint64, "
                 "nonces 3/4, SetProcessed, RevertStateToBlock) replayed on the real trigger comparing Epoch(), "
                 "IsEpochStart(), EpochStartRound() after every step; distinct = distinct (source state, call, arguments, "
                 "configuration, result); plus simulated long behaviours; R3: seeded random real histories "
                 "(roundsPerEpoch up to 220) validated by Trace_EpochTrigger with the C34 clauses as action properties")
