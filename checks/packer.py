"""C32 -- data packing for network transfer is lossless and bounded (family N, specs/Packer)."""
import json
import os
import vlib

PROPS = ["C32"]
FAMILY = "Packer"

CFG = """SPECIFICATION %(spec)s
CONSTANTS
  Sizes = {%(sizes)s}
  MaxLen = %(maxlen)d
  Limits <- MCLimits
  MCLo = %(lo)d
  MCHi = %(hi)d
  Algos = {%(algos)s}
  KnownDefects = {%(defects)s}
  Log <- %(log)s
%(rest)s
CHECK_DEADLOCK FALSE
"""
ALL = '"size", "simple", "split"'
DEFECT = '"C32-last-reset"'
INVS = "INVARIANTS TypeOK Inv_C32_Lossless Inv_C32_Bounded Inv_C32_ErrEmpty Inv_WireModel"
LOOPINVS = " Inv_LoopLossless Inv_LastCoherent"


def run(ctx):
    sd = ctx.stage()
    q = ctx.quick
    import time
    t0 = [time.time()]

    def lap(name):
        ctx.notes.append("%s %.1fs" % (name, time.time() - t0[0]))
        t0[0] = time.time()
    ctx.assume("marshalled length of a batch.Batch = sum over elements of 1 tag byte + varint(len) + len (checked "
               "against the real gogo-proto marshalizer on every replayed input: Conforms in Trace_Packer)",
               "chunk bound per the code's own measure: SizeDataPacker marshalled bytes < limit, SimpleDataPacker "
               "payload bytes < limit, DataSplit element count <= limit; a chunk with a single element is exempt",
               "element lengths < 2^21 and lists <= 24 elements in the recorded runs; TLC integers",
               "elements of equal content (several of length 0) are attributed to input positions left to right")

    def write(name, **kw):
        d = dict(spec="Spec", sizes="0, 1, 2, 3, 5", maxlen=4, lo=0, hi=12, algos=ALL, defects="", log="LogLast", rest="")
        d.update(kw)
        open(os.path.join(sd, name), "w").write(CFG % d)

    # ---- R1: the three loops step by step, all inputs within the bounds, intended design (no defect)
    big = dict(sizes="0, 1, 2, 3, 4, 5, 6", maxlen=5, hi=15)
    write("r1.cfg", rest=INVS + LOOPINVS, **({} if q else big))
    ctx.tlc(sd, "MC_Packer", "r1.cfg", timeout=1500, coverage=not q)
    # ---- R1 with the code's deviation modelled: TLC must find the lost elements on the model
    write("r1d.cfg", defects=DEFECT, rest=INVS)
    rd = ctx.tlc(sd, "MC_Packer", "r1d.cfg", timeout=600, allow=("invariant",), count=False)
    if rd.error == "invariant:Inv_C32_Lossless":
        ctx.cov(model_counterexample_with_known_defect="Inv_C32_Lossless violated by SizeStep with C32-last-reset "
                "(TLC counterexample found; replayed on the real code by R2 below)")
    elif rd.ok:
        ctx.broken.append("R1 with the modelled defect C32-last-reset found no counterexample (model lost its teeth)")
    # varint border: element lengths around 127/128 (2-byte length prefix)
    write("r1v.cfg", sizes="1, 126, 127, 128", maxlen=3, lo=250, hi=266, algos='"size", "simple"', rest=INVS + LOOPINVS)
    ctx.tlc(sd, "MC_Packer", "r1v.cfg", timeout=600)

    lap("R1")
    exe = ctx.go_build("vh-packer")

    # ---- R2: every enumerated input (+ the transcription's chunking) on the real code; the observations are
    #          validated by TLC (Inv_C32_* evaluated on what the real code returned)
    traces = []
    gens = [("gen.cfg", dict(defects=DEFECT, spec="OneShotSpec", log="LogAppend", rest="ACTION_CONSTRAINT EmitDone",
                             **({} if q else dict(sizes="0, 1, 2, 3, 5, 6", maxlen=5, hi=14, algos='"size"')))),
            ("genv.cfg", dict(defects=DEFECT, spec="OneShotSpec", log="LogAppend", rest="ACTION_CONSTRAINT EmitDone",
                              sizes="1, 126, 127, 128", maxlen=3, lo=250, hi=266, algos='"size", "simple"'))]
    if not q:
        gens.append(("gen2.cfg", dict(defects=DEFECT, spec="OneShotSpec", log="LogAppend",
                                      rest="ACTION_CONSTRAINT EmitDone", sizes="0, 1, 2, 3, 4, 6", maxlen=4, hi=14,
                                      algos='"simple", "split"')))
    for n, (cfg, kw) in enumerate(gens):
        write(cfg, **kw)
        inp = ctx.path("inputs%d.ndjson" % n)
        g = ctx.tlc(sd, "MC_Packer", cfg, timeout=1500, behaviours_out=inp, count=False)
        if g.ok and g.behaviours == 0:
            ctx.broken.append("input export %s produced nothing" % cfg)
            continue
        tr = ctx.path("trace%d.ndjson" % n)
        h = ctx.vh(exe, ["replay", inp, tr], timeout=900)
        ev = int(h.stats.get("events", 0))
        traces.append((tr, ev))
        ctx.cov(traces_validated_against_impl=int(h.stats.get("inputs", 0)), evaluations=ev,
                distinct_nontrivial=int(h.stats.get("distinct", 0)),
                chunking_equals_transcription_as_is=int(h.stats.get("match_as_is", 0)),
                chunking_equals_intended_design=int(h.stats.get("match_intended", 0)),
                chunking_equals_neither=int(h.stats.get("match_neither", 0)))
    lap("R2 export+replay")
    # ---- R3: random inputs at realistic sizes on the real code
    tr = ctx.path("trace-rand.ndjson")
    h = ctx.vh(exe, ["record", ctx.seed, 3000 if q else 30000, tr], timeout=900)
    ev = int(h.stats.get("events", 0))
    traces.append((tr, ev))
    ctx.cov(traces_validated_against_impl=ev, evaluations=ev, distinct_nontrivial=int(h.stats.get("distinct", 0)))
    # ---- TLC evaluates the property on every observation (one run over the concatenated observations)
    allp = ctx.path("observations.ndjson")
    with open(allp, "w") as f:
        for tr, ev in traces:
            f.write(open(tr).read())
    nev = sum(ev for _, ev in traces)
    st, line = vlib.validate_trace(ctx, sd, "Trace_Packer", "Trace_Packer.cfg", allp, nev, "C32/observed",
                                   divergence_is_violation=False, what="real packer output", timeout=1500,
                                   obs_cfg="Trace_PackerObs.cfg")
    last_ok = traces[0][0] if st == "accepted" and traces else None
    lap("TLC on %d observations" % nev)
    if not q and last_ok:
        def lose(evs):
            for e in evs:
                ch = e["out"]["chunks"]
                if e["in"]["algo"] == "size" and len(ch) >= 2 and len(ch[1]) >= 1 and e["out"]["err"] == "":
                    ch[1] = ch[1][1:]            # one element silently dropped from the second chunk
                    break
            return evs
        vlib.selftest_rejects(ctx, sd, "Trace_Packer", "Trace_PackerObs.cfg", last_ok, lose)

        def overflow(evs):
            for e in evs:
                ch = e["out"]["chunks"]
                if e["in"]["algo"] == "size" and len(ch) >= 1 and len(ch[0]) >= 2 and e["out"]["err"] == "":
                    e["out"]["wire"][0] = e["in"]["limit"]  # a multi-element chunk exactly at the limit
                    break
            return evs
        vlib.selftest_rejects(ctx, sd, "Trace_Packer", "Trace_PackerObs.cfg", last_ok, overflow)
    ctx.cov(rule="inputs = (algorithm, sequence of element lengths, limit) enumerated by TLC from Packer.tla (all lists "
                 "within the bounds, limits from below the minimum up to above the total size, varint border 127/128) "
                 "plus seeded random inputs of up to 24 elements / 450 bytes; each is packed by the real "
                 "SizeDataPacker/SimpleDataPacker/DataSplit with the real GogoProtoMarshalizer, unpacked with the real "
                 "Unmarshal, and TLC evaluates Inv_C32_Lossless / Inv_C32_Bounded on the observation; distinct = "
                 "distinct inputs with >= 2 elements and a valid limit")
