"""C46 -- transaction lookup reports the canonical block (family H, specs/HistoryRepo).

R1  HistoryRepo.tla model-checked exhaustively three times: intended design (no deviation: every C46 invariant
    holds), the model of the code that exists (deviations found by `vh-historyrepo probe` on the real code: TLC
    must find the counterexamples) and, if different, the as-is model of the pinned tree.
R2a one behaviour per transition of the abstract state graph (RecordBlock / OnNotarizedBlocks in any order, the
    same miniblock in competing blocks of one epoch and of a later epoch) replayed on the real historyRepository with
    memory storers; after every step every transaction is looked up and compared with what the specification
    REQUIRES (ghost state = function of the inputs only).  The model's own answer is compared too (drift only).
R2b long simulated behaviours over a larger universe (3 miniblocks, 5 blocks, 3 epochs, 3 meta blocks).
"""
import json
import os
import time
import vlib

PROPS = ["C46"]
FAMILY = "HistoryRepo"

CFG = """SPECIFICATION %(spec)s
CONSTANTS
  MBs = {%(mbs)s}
  Dirs = {%(dirs)s}
  Headers = {%(headers)s}
  Epochs = {%(epochs)s}
  Metas = {%(metas)s}
  MaxEntries = %(entries)d
  Defects = {%(defects)s}
  Log <- %(log)s
  Depth = %(depth)d
%(rest)s
CHECK_DEADLOCK FALSE
"""
ALLDIRS = '"intra", "in", "out", "toMeta", "fromMeta"'
INV_ALWAYS = "TypeOK Inv_C46_HeaderEpoch Inv_C46_NoInventedNotarization"
CATS = {"Inv_C46_CanonicalBlock": "canonical-block", "Inv_C46_NotarizationVisible": "not-visible-until-next-notification",
        "Inv_C46_NotarizationAfterNextCall": "notarization/lost"}
EXPECT = {"dedup": "Inv_C46_CanonicalBlock", "lag": "Inv_C46_NotarizationVisible", "lost": "Inv_C46_NotarizationAfterNextCall"}


def q(names):
    return ", ".join('"%s"' % n for n in names)


def run(ctx):
    sd = ctx.stage()
    quick = ctx.quick
    ctx.assume("committed blocks have non-decreasing epochs; a header hash determines the block (epoch, miniblocks)",
               "transactions of distinct miniblocks are disjoint; a miniblock is identified by its hash (content)",
               "fewer than 1000 (epoch, miniblock) pairs: the deduplication LRU never evicts",
               "memory storers (genericMocks.StorerMock) stand for the static / epoch-sharded storers of the node",
               "single-threaded driver: RecordBlock and OnNotarizedBlocks calls are atomic steps (each holds its own mutex)",
               "when several meta blocks notarize the same miniblock the property accepts any of the seen ones")

    def cfg(name, **kw):
        d = dict(spec="Spec", mbs='"a"', dirs=ALLDIRS, headers="1, 2, 3", epochs="1, 2", metas="1, 2", entries=1,
                 defects="", log="LogLast", depth=0, rest="VIEW cvars")
        d.update(kw)
        open(os.path.join(sd, name), "w").write(CFG % d)
        return name

    t0 = [time.time()]

    def lap(name):
        ctx.notes.append("%s: %.1fs" % (name, time.time() - t0[0]))
        t0[0] = time.time()

    exe = ctx.go_build("vh-historyrepo")
    pr = ctx.vh(exe, ["probe"])
    present = [x for x in str(pr.stats.get("defects", "")).split(",") if x]
    ctx.cov(code_deviations_present=",".join(present) or "none")

    # ---- R1a: the intended design satisfies every C46 invariant (exhaustive)
    allinv = INV_ALWAYS + " " + " ".join(sorted(CATS))
    r1dirs = '"intra", "in"' if quick else ALLDIRS      # for the model only the notification kind matters: both / source+destination
    ra = ctx.tlc(sd, "MC_HistoryRepo", cfg("r1a.cfg", dirs=r1dirs, entries=1 if quick else 2, rest="VIEW cvars\nINVARIANTS " + allinv),
                 timeout=900, coverage=not quick)
    if not quick and ra.coverage_zero:
        ctx.broken.append("vacuity guard: actions never taken in R1a: %s" % ra.coverage_zero)
    lap("R1a")
    if not quick:
        ctx.tlc(sd, "MC_HistoryRepo", cfg("r1a2.cfg", mbs='"a", "b"', dirs='"in", "intra"', headers="1, 2, 3", metas="1",
                                            rest="VIEW cvars\nINVARIANTS " + allinv), timeout=1500)
    # ---- R1b: the model of the code that exists: every invariant not touched by a present deviation holds,
    #           and for each present deviation TLC must find the counterexample
    model_cex = {}
    for variant in ([present] if quick or sorted(present) == ["dedup", "lag", "lost"] else [present, ["dedup", "lag", "lost"]]):
        if not variant:
            continue
        bad = {EXPECT[d] for d in variant}
        if "lost" in variant:
            bad.add("Inv_C46_NotarizationVisible")        # the strict reading implies the weak one
        bad = sorted(bad)
        good = [i for i in sorted(CATS) if i not in bad]
        ctx.tlc(sd, "MC_HistoryRepo", cfg("r1b.cfg", dirs=r1dirs, defects=q(variant),
                                          rest="VIEW cvars\nINVARIANTS " + INV_ALWAYS + " " + " ".join(good)), timeout=900)
        for inv in bad:
            r = ctx.tlc(sd, "MC_HistoryRepo", cfg("r1c.cfg", dirs='"intra", "in"', defects=q(variant), rest="VIEW cvars\nINVARIANTS " + inv),
                        timeout=600, allow=("invariant",), count=False)
            if r.error == "invariant:" + inv:
                model_cex.setdefault(",".join(variant), []).append(inv)
            elif r.ok:
                ctx.broken.append("model variant {%s}: TLC did not find the expected counterexample of %s" % (",".join(variant), inv))
    ctx.cov(model_counterexamples=model_cex)
    lap("R1b")

    # ---- R2a: transition cover of the model of the present code, replayed on the real repository
    beh = ctx.path("edges.ndjson")
    g = ctx.tlc(sd, "MC_HistoryRepo", cfg("gen.cfg", spec="GenSpec", log="LogAppend", depth=6 if quick else 7, defects=q(present),
                                          dirs='"intra", "in", "fromMeta"' if quick else ALLDIRS,   # three distinct concrete paths
                                          rest="VIEW cvars\nACTION_CONSTRAINT EmitEdge"),
                timeout=1500, behaviours_out=beh, count=False)
    if g.ok and g.behaviours == 0:
        ctx.broken.append("behaviour export produced nothing")
    lap("R2a generate")
    r = ctx.vh(exe, ["replay", beh], timeout=1500)
    lap("R2a replay")
    seen_sigs = {v["sig"] for v in r.violations}
    ctx.cov(traces_validated_against_impl=int(r.stats.get("behaviours", 0)), evaluations=int(r.stats.get("lookups", 0)),
            distinct_nontrivial=int(r.stats.get("distinct", 0)), exhaustive=True,
            drift_lookups=int(r.stats.get("drift_lookups", 0)),
            behaviours_ending_with_competing_block=int(r.stats.get("ends_with_competing_block", 0)),
            behaviours_ending_with_early_notification=int(r.stats.get("ends_with_early_notification", 0)))
    if int(r.stats.get("ends_with_competing_block", 0)) == 0 or int(r.stats.get("ends_with_early_notification", 0)) == 0:
        ctx.broken.append("vacuity guard: the transition cover contains no competing block / no early notification")
    # a counterexample of the model of the present code must reproduce on the code (else the model is wrong)
    for inv in model_cex.get(",".join(present), []):
        if not any(CATS[inv] in s for s in seen_sigs):
            ctx.broken.append("TLC violates %s in the model of the present code but no replayed behaviour reproduces it" % inv)

    # ---- R2a': transition cover with TWO miniblocks of one direction (two notifications pending at once, blocks holding
    #            both miniblocks): what a per-key loop can get wrong
    beh3 = ctx.path("edges2.ndjson")
    g3 = ctx.tlc(sd, "MC_HistoryRepo", cfg("gen2.cfg", spec="GenSpec", log="LogAppend", defects=q(present), mbs='"a", "b"',
                                           dirs='"in"', headers="1, 2", metas="1", epochs="1" if quick else "1, 2",
                                           entries=1 if quick else 2, depth=6 if quick else 5,
                                           rest="VIEW cvars\nACTION_CONSTRAINT EmitEdge"),
                 timeout=1500, behaviours_out=beh3, count=False)
    if g3.ok and g3.behaviours == 0:
        ctx.broken.append("behaviour export (two miniblocks) produced nothing")
    r3 = ctx.vh(exe, ["replay", beh3], timeout=1500, count_samples=False)
    ctx.cov(traces_validated_against_impl=int(r3.stats.get("behaviours", 0)), evaluations=int(r3.stats.get("lookups", 0)),
            distinct_nontrivial=int(r3.stats.get("distinct", 0)), drift_lookups=int(r3.stats.get("drift_lookups", 0)))
    lap("R2a' two miniblocks")

    # ---- R2b: long simulated behaviours, larger universe
    beh2 = ctx.path("sim.ndjson")
    depth = 12 if quick else 16
    ctx.tlc(sd, "MC_HistoryRepo", cfg("sim.cfg", spec="SimSpec", log="LogAppend", depth=depth, defects=q(present),
                                      mbs='"a", "b", "c"', headers="1, 2, 3, 4, 5", epochs="1, 2, 3", metas="1, 2, 3", entries=1 if quick else 2,
                                      rest="ACTION_CONSTRAINT EmitFull"),
            simulate=60 if quick else 500, depth=depth, timeout=1500, behaviours_out=beh2, count=False)
    lap("R2b generate")
    r2 = ctx.vh(exe, ["replay", beh2], timeout=1500, count_samples=False)
    lap("R2b replay")
    ctx.cov(traces_validated_against_impl=int(r2.stats.get("behaviours", 0)), evaluations=int(r2.stats.get("lookups", 0)),
            drift_lookups=int(r2.stats.get("drift_lookups", 0)))

    # ---- binding self-test: a corrupted requirement must be noticed by the replay
    if not quick:
        lines = open(beh).read().splitlines()
        picked = []
        for ln in lines:
            b = json.loads(ln)
            req = b[-1]["st"]["req"]
            m = sorted(req)[0]
            if req[m]["hdr"] != 0 and req[m]["srcSeen"] and not req[m]["srcOwed"]:
                picked.append(b)
            if len(picked) >= 20:
                break
        for mode in ("hdr", "seen"):
            p = ctx.path("selftest-%s.ndjson" % mode)
            with open(p, "w") as f:
                for b in picked:
                    b = json.loads(json.dumps(b))
                    req = b[-1]["st"]["req"]
                    m = sorted(req)[0]
                    if mode == "hdr":
                        req[m]["hdr"] = req[m]["hdr"] % 3 + 1
                    else:
                        req[m]["srcSeen"] = [9]
                    f.write(json.dumps(b) + "\n")
            rs = ctx.vh(exe, ["replay", p], env={"VERIF_SELFTEST": "1"}, count_samples=False)
            want = "canonical-block" if mode == "hdr" else "reports-unseen-meta-block"
            if not picked or not any(want in v["sig"] for v in rs.violations):
                ctx.broken.append("binding self-test (%s): a corrupted requirement was not noticed by the replay" % mode)
            else:
                ctx.cov(binding_selftests_rejected=1)
    ctx.cov(rule="R2a: every transition of the abstract state graph of HistoryRepo.tla (1 miniblock of every direction, 3 blocks, "
                 "2 epochs, 2 meta blocks; RecordBlock / OnNotarizedBlocks in any order, re-records of the same block, competing "
                 "blocks in the same and in a later epoch) replayed on the real repository; after every step both transactions of the "
                 "miniblock are looked up (header, epoch, round, nonce, notarization at source/destination, GetEpochByHash) and "
                 "compared with the requirement computed by TLA+; distinct = distinct (configuration, source state, action, "
                 "arguments); R2a': the same with 2 miniblocks of one direction / 2 blocks (pending notifications of two miniblocks, "
                 "blocks holding both); R2b: simulated behaviours with 3 miniblocks / 5 blocks / 3 epochs / 3 meta blocks")
