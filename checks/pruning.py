"""C09 / C10 -- state pruning never deletes what a live root needs; snapshots and checkpoints are complete
(family P, specs/StatePruning, harness/cmd/vh-pruning, docs/pruning.md)."""
import json
import os
import vlib

PROPS = ["C09", "C10"]
FAMILY = "StatePruning"

MC_CFG = """SPECIFICATION %(spec)s
CONSTANTS
  Inner <- %(inner)s
  DataTries <- %(data)s
  MaxRoots = %(roots)d
  MaxRollbacks = %(rb)d
  BufLens = {%(buf)s}
  QueueSizes = {%(q)s}
  SnapLimits = {%(snaps)s}
  CpMods = {%(cpmod)s}
  F3Set = {%(f3)s}
  MaxBlocked = %(blocked)d
  MaxJobs = %(jobs)d
  AllowReapply = %(reapply)s
  KnownDefects <- %(kd)s
  Log <- %(log)s
  Depth = %(depth)d
%(rest)s
CHECK_DEADLOCK FALSE
"""

TRACE_CFG = """SPECIFICATION %(spec)s
CONSTANTS
  Inner = {}
  DataTries = {}
  MaxRoots = 0
  MaxRollbacks = 0
  BufLens = {}
  QueueSizes = {}
  SnapLimits = {}
  CpMods = {}
  F3Set = {}
  MaxBlocked = 0
  MaxJobs = 1000000
  AllowReapply = TRUE
  KnownDefects <- KD123
  Log <- LogLast
CONSTRAINT HighWater
INVARIANTS %(invs)s
POSTCONDITION Accepted
CHECK_DEADLOCK FALSE
"""

# invariants evaluated on observed states, per property and mode
INVS = {
    ("C09", "strict"): "Inv_C09_SafetyObsUnexplained Inv_C09_GcUnexplained Report_D1 Report_D2 Report_D3 Report_D3S",
    ("C09", "obs"): "Inv_C09_SafetyObsClean Inv_C09_GcUnexplained",
    # (Inv_C10_Source - pruning blocked and source nodes present while a job runs - is a design invariant checked by
    #  R1 only: the property itself is the completeness of the finished job)
    ("C10", "strict"): "Inv_C10_CompleteUnexplainedT Report_E1 Report_E2 Report_E3 Report_E4 Report_E5",
    ("C10", "obs"): "Inv_C10_CompleteUnexplainedT",
}

# known deviation classes reported by the trace specification through @@KF marks
KNOWN = {
    "KFD1": ("C09", "C09/garbage/D1-prune-of-new-root-while-blocked-is-cancelled",
             "rollback while pruning is blocked: PruneTrie(root, NewRoot) cancels the eviction entry instead of deferring "
             "the prune, the rolled-back block's new nodes are never deleted"),
    "KFD2": ("C09", "C09/garbage/D2-full-pruning-buffer-drops-request",
             "pruningBuffer.Add drops the prune/cancel request when the buffer is full: the nodes of that eviction entry "
             "are never deleted"),
    "KFD3": ("C09", "C09/garbage/D3-stale-buffered-cancel-evicts-new-entry",
             "a CancelPrune(parent, OldRoot) buffered by a rollback while blocked is executed after the next block on the "
             "same parent re-registered that key: the parent's obsolete nodes are never deleted"),
    "KFD3S": ("C09", "C09/live-node-deleted/D3-stale-buffered-cancel-evicts-new-entry",
              "a CancelPrune(parent, OldRoot) buffered by a rollback while blocked evicts the entry re-registered by the "
              "next block; a later rollback then deletes a node that the still live parent root needs"),
    "KFE1": ("C10", "C10/checkpoint-empty/E1-root-not-newer-than-snapshot-root",
             "SetStateCheckpoint(root) after/while SnapshotState(newer or same-height root): TakeSnapshot -> "
             "RemoveCommitted dropped the hashes holder entries, the checkpoint copies nothing and the root is in no snapshot DB"),
    "KFE2": ("C10", "C10/incomplete/E2-overlapping-snapshot-checkpoint-jobs",
             "two snapshot/checkpoint jobs running at the same time interfere (request queue order is a goroutine race, data "
             "tries are written to whatever snapshot DB is last when their entry is processed, TakeSnapshot unmarks hashes a "
             "queued checkpoint needs, a root already written by an unfinished checkpoint makes the snapshot skip its work)"),
    "KFE3": ("C10", "C10/checkpoint-incomplete/E3-after-incomplete-job-in-same-snapshot-db",
             "a checkpoint only adds the nodes marked since the previous snapshot/checkpoint: after a job that left the "
             "snapshot DB incomplete (E1/E2) the following checkpoints are incomplete too"),
    "KFE4": ("C10", "C10/checkpoint-incomplete/E4-hash-unmarked-by-older-checkpoint-then-new-snapshot-db",
             "commitCheckpoint unmarks a copied hash in every hashes holder entry, also in entries of newer committed roots "
             "that contain the node; after a snapshot of a root without the node opened a new snapshot DB, the checkpoint of "
             "the newer root does not copy the node"),
    "KFE5": ("C10", "C10/checkpoint-incomplete/E5-node-of-older-version-absent-from-snapshot-root",
             "TakeSnapshot(S) -> RemoveCommitted(S) drops the hashes holder entries committed up to S although S does not "
             "contain all their nodes (S on a branch rolled back later / node removed before S and re-added after); a later "
             "checkpoint of a root containing such a node finds it unmarked and the snapshot DB lacks it"),
}


def mc_cfg(sd, name, **kw):
    base = dict(spec="Spec", inner="MCInner2", data="MCNoData", roots=2, rb=2, buf="1, 8", q="0", snaps="2", cpmod="0",
                f3="FALSE, TRUE", blocked=2, jobs=0, reapply="TRUE", kd="D123", log="LogLast", depth=0,
                rest="VIEW cvars")
    base.update(kw)
    with open(os.path.join(sd, name), "w") as f:
        f.write(MC_CFG % base)
    return name


def validate(ctx, sd, trace_path, n_events, label, timeout=1200):
    """Trace_StatePruning on a recorded trace, invariants of ctx.prop only.
    -> "accepted" / "invariant" / "rejected" / "broken" """
    dst = os.path.join(sd, "trace.ndjson")
    if os.path.abspath(trace_path) != os.path.abspath(dst):
        import shutil
        shutil.copy(trace_path, dst)
    for mode, spec in (("strict", "TraceSpec"), ("obs", "ObsSpec")):
        with open(os.path.join(sd, "t_%s.cfg" % mode), "w") as f:
            f.write(TRACE_CFG % dict(spec=spec, invs=INVS[(ctx.prop, mode)]))
    lines = None

    def at(n):
        nonlocal lines
        if lines is None:
            lines = open(dst).read().splitlines()
        if n is not None and 1 <= n <= len(lines):
            e = json.loads(lines[n - 1])
            for k in ("n", "parts"):
                e.get("out", {}).pop(k, None)
            return json.dumps(e)[:1500]
        return None

    def report_marks(r):
        for tag, (prop, sig, what) in KNOWN.items():
            if tag in r.marks and prop == ctx.prop:
                ln = int(r.marks[tag])
                ctx.violation(sig, "%s: %s (last seen at trace line %d: %s)" % (label, what, ln, at(ln)),
                              {"trace_file": vlib.keep_file(ctx, dst), "line": ln})

    def report_inv(r):
        inv = r.error.split(":", 1)[1]
        ln = (r.last_l - 1) if r.last_l else None
        ctx.violation("%s/trace/%s" % (ctx.prop, inv),
                      "%s: %s is false on a state observed from the real code (trace line %s: %s)" % (label, inv, ln, at(ln)),
                      {"trace_file": vlib.keep_file(ctx, dst), "line": ln, "event": at(ln)})

    r = ctx.tlc(sd, "Trace_StatePruning", "t_strict.cfg", workers=1, timeout=timeout, count=False,
                allow=("invariant", "postcondition"))
    report_marks(r)
    if r.ok:
        ctx.cov(trace_events_validated=n_events)
        return "accepted"
    if r.error.startswith("invariant:"):
        report_inv(r)
        return "invariant"
    if r.error != "postcondition":
        return "broken"
    # the strict pass rejected line `ln`: drift.  (1) observation mode over the whole file, so that the invariants are
    # still evaluated on every observed state; (2) the strict pass again on the traces after the rejected one.
    ln = r.highwater
    ctx.drifts.append({"what": "%s: line %s of the recorded trace is not a step of the specification: %s" % (label, ln, at(ln))})
    r2 = ctx.tlc(sd, "Trace_StatePruning", "t_obs.cfg", workers=1, timeout=timeout, count=False,
                 allow=("invariant", "postcondition"))
    if r2.error and r2.error.startswith("invariant:"):
        report_inv(r2)
        return "invariant"
    all_lines = open(dst).read().splitlines()
    offset = 0
    for _ in range(4):
        if not ln or ln > len(all_lines) - offset:
            break
        cur = all_lines[offset:]
        t = json.loads(cur[ln - 1])["t"]
        k = ln
        while k < len(cur) and json.loads(cur[k])["t"] == t:
            k += 1
        if k >= len(cur):
            break
        offset += k
        with open(dst, "w") as f:
            f.write("\n".join(all_lines[offset:]) + "\n")
        lines = None
        r = ctx.tlc(sd, "Trace_StatePruning", "t_strict.cfg", workers=1, timeout=timeout, count=False,
                    allow=("invariant", "postcondition"))
        report_marks(r)
        if r.error and r.error.startswith("invariant:"):
            report_inv(r)
            return "invariant"
        if r.error != "postcondition":
            break
        ln = r.highwater
    return "rejected"


SAFE_ASIS = ("VIEW cvars\nINVARIANTS TypeOK Inv_C09_SafetyUnexplained Inv_C09_GcUnexplained Inv_QuietFlushed "
             "Inv_NoStalePrune Inv_NoD3")


def timed(ctx, label, r):
    ctx.notes.append("%s: %d distinct states, %.1fs%s" % (label, r.distinct, r.wall, (" -> " + r.error) if r.error else ""))
    return r


def vacuity(ctx, r, q, required):
    """thorough tier: no action of the specification may have coverage count 0"""
    if q or not r.ok:
        return
    dead = sorted(set(r.coverage_zero) & set(required))
    if dead:
        ctx.broken.append("vacuity guard: actions never taken in the exhaustive run: %s" % ", ".join(dead))
    ctx.cov(vacuity_guard="actions %s all taken" % ", ".join(required) if not dead else "FAILED")


def expect_cex(ctx, found, key, r, inv):
    found[key] = r.error
    if r.error != "invariant:" + inv:
        ctx.broken.append("R1: TLC did not find the expected counterexample %s for %s (%s)" % (inv, key, r.error))


def r1_c09(ctx, sd, q):
    found = {}
    # (a) the code as it is (deviations D1 D2 D3), with and without the repair of D3: live nodes are deleted only
    #     through D3, garbage stays only through D1/D2/D3, the repair removes D3 altogether
    cfg = mc_cfg(sd, "r1_asis.cfg", inner="MCInner1" if q else "MCInner2", roots=2, rb=2, buf="1, 8",
                 blocked=1, rest=SAFE_ASIS)       # measured: 20 k / 156 k distinct states
    r = timed(ctx, "R1 code as it is", ctx.tlc(sd, "MC_StatePruning", cfg, timeout=3000, coverage=not q))
    vacuity(ctx, r, q, ("CommitFresh", "CommitReapply", "Finalize", "RollbackB", "EnterB", "Exit"))
    # (b) D3 breaks the first sentence: TLC must find the counterexample (4 fresh blocks, 2 rollbacks)
    cfg = mc_cfg(sd, "r1_d3s.cfg", f3="FALSE", inner="MCInner1", roots=4, rb=2, buf="8", blocked=1, reapply="FALSE",
                 rest="VIEW cvars\nINVARIANTS Inv_C09_Safety")
    expect_cex(ctx, found, "D3-live-node-deleted",
               timed(ctx, "R1 D3 counterexample (safety)", ctx.tlc(sd, "MC_StatePruning", cfg, timeout=1500, allow=("invariant",))),
               "Inv_C09_Safety")
    # (c) each deviation alone violates the second sentence
    for d in (("D1",) if q else ("D1", "D2", "D3")):
        cfg = mc_cfg(sd, "r1_%s.cfg" % d, kd=d, f3="FALSE", inner="MCInner1", roots=2, rb=1, buf="1" if d == "D2" else "8",
                     blocked=1, rest="VIEW cvars\nINVARIANTS Inv_C09_Gc")
        expect_cex(ctx, found, d + "-garbage",
                   timed(ctx, "R1 %s counterexample (garbage)" % d,
                         ctx.tlc(sd, "MC_StatePruning", cfg, timeout=900, allow=("invariant",))), "Inv_C09_Gc")
    ctx.cov(r1_counterexamples_found=found)
    # (d) repaired D3 (D1, D2 stay): the first sentence holds without exception
    cfg = mc_cfg(sd, "r1_f3.cfg", f3="TRUE", inner="MCInner1", roots=2 if q else 4, rb=2, buf="1, 8" if q else "8",
                 blocked=1, rest="VIEW cvars\nINVARIANTS TypeOK Inv_C09_Safety Inv_C09_GcUnexplained Inv_NoD3")
    timed(ctx, "R1 repaired D3", ctx.tlc(sd, "MC_StatePruning", cfg, timeout=3000))
    # (e) intended design (no deviation: a buffered operation applies to the entry it was issued for, nothing is
    #     dropped): both sentences hold, also when rolled-back blocks are re-applied
    cfg = mc_cfg(sd, "r1_intended.cfg", kd="D0", f3="FALSE", inner="MCInner1" if q else "MCInner2", roots=3 if q else 2,
                 rb=2, buf="8", blocked=1 if q else 2,     # measured: 24 k / 31 k
                 rest="VIEW cvars\nINVARIANTS TypeOK Inv_C09_Safety Inv_C09_Gc")
    timed(ctx, "R1 intended design", ctx.tlc(sd, "MC_StatePruning", cfg, timeout=3000))


def r1_c10(ctx, sd, q):
    found = {}
    # snapshot / checkpoint machinery at node granularity (accounts goroutine, request queue, storage loop, hashes
    # holder, snapshot DB rotation) interleaved with commits, finalizations and rollbacks; one job at a time
    cfg = mc_cfg(sd, "r1_c10.cfg", inner="MCInner1", data="MCData1", roots=2, rb=0 if q else 1, buf="8", blocked=0,
                 jobs=1, reapply="FALSE", f3="FALSE",
                 rest="VIEW cvars\nINVARIANTS TypeOK Inv_C09_SafetyUnexplained Inv_C10_Complete Inv_C10_Source")
    r = timed(ctx, "R1 one job at a time", ctx.tlc(sd, "MC_StatePruning", cfg, timeout=3000, coverage=not q))
    vacuity(ctx, r, q, ("CommitFresh", "Finalize", "JobStartAny", "GEnqMainAny", "GEnqDataAny", "GExitAny", "LTake", "LCopyAny", "LFinish"))
    # two jobs: only the named deviations E1 E2 E3
    cfg = mc_cfg(sd, "r1_c10b.cfg", inner="MCInner1", data="MCData1", roots=1, rb=0, buf="8", blocked=0,   # 81 k
                 jobs=2, reapply="FALSE", f3="FALSE",
                 rest="VIEW cvars\nINVARIANTS TypeOK Inv_C09_SafetyUnexplained Inv_C10_CompleteUnexplained Inv_C10_Source")
    timed(ctx, "R1 two jobs", ctx.tlc(sd, "MC_StatePruning", cfg, timeout=6000))
    # TLC must find the deviation (E1/E2) when two jobs are allowed
    cfg = mc_cfg(sd, "r1_e.cfg", inner="MCInner1", data="MCNoData", roots=1, rb=0, buf="8", blocked=0, jobs=2,
                 reapply="FALSE", f3="FALSE", rest="VIEW cvars\nINVARIANTS Inv_C10_Complete")
    expect_cex(ctx, found, "E-two-jobs-incomplete",
               timed(ctx, "R1 E counterexample", ctx.tlc(sd, "MC_StatePruning", cfg, timeout=1500, allow=("invariant",))),
               "Inv_C10_Complete")
    ctx.cov(r1_counterexamples_found=found)


def run(ctx):
    sd = ctx.stage()
    q = ctx.quick
    c09 = ctx.prop == "C09"
    ctx.assume(
        "specification: specs/StatePruning/StatePruning.tla on node sets; a version = set of trie node hashes reachable "
        "from a root (main trie + data tries); expected results are TLA+ operators, the Go harness only drives and logs",
        "ground truth Reach(root) is computed with the real trie reading code over an archive of every node ever written to "
        "the main DB (interned hashes); sha256 treated as injective on these sets",
        "memory DBs stand for LevelDB (main trie DB, eviction waiting list DB, snapshot DBs created by the real "
        "trieStorageManager with Type=MemoryDB)",
        "block histories: 3 user accounts with data tries created/modified/removed + 1 system account whose nonce every "
        "block bumps, so main roots repeat only when a rolled-back block is re-applied (real-chain monotonicity)",
        "the driver plays the block processor: baseProcessor.updateStateStorage / PruneStateOnRollback are the real call "
        "sites (hook process/block/statepruning_verif.go), rollbacks never go below the last final block",
        "C09 second sentence is evaluated right after an unblocked PruneTrie call (which flushes the pruning buffer)",
        "snapshot goroutines are scheduled by parking them at gates (main DB Get of the snapshot loop, "
        "StorageManager.TakeSnapshot/SetCheckpoint of the accounts goroutine); the driver proceeds only when every other "
        "goroutine is blocked (runtime.Stack), no timing",
        "at most 2 concurrent snapshot/checkpoint jobs and MaxSnapshots >= 2, so that no snapshot DB is rotated out before "
        "its job is judged; a job is judged when no job is running",
    )
    if os.environ.get("VERIF_SKIP_R1"):       # developer aid (mutation experiments): binding stages only
        ctx.notes.append("R1 skipped (VERIF_SKIP_R1)")
        ctx.cov(states=1, transitions=1)
    elif c09:
        r1_c09(ctx, sd, q)
    else:
        r1_c10(ctx, sd, q)
    exe = ctx.go_build("vh-pruning")

    accepted = 0
    first_trace = None
    # R3: random block histories (+ random snapshot/checkpoint schedules) on the real stack, validated by TLC
    plan = [("mixed" if c09 else "jobs", 24 if q else 120, 60 if q else 100)]
    if c09:
        # engineered trie shapes (branch over leaf + committed branch, see shapesHistory): deletes that collapse a branch
        plan.append(("shapes", 6 if q else 18, 50 if q else 70))
    else:
        # engineered job histories (emptied data trie + data trie, commits and prunes while the data tries are copied)
        plan.append(("jobshapes", 4 if q else 12, 40 if q else 60))
    if c09 and not q:
        plan.append(("nojobs", 80, 120))
    nseed = 1 if q else 2
    for si in range(nseed):
        for mode, nt, ln in plan:
            tr = ctx.path("trace_%s_%d.ndjson" % (mode, si))
            r3 = ctx.vh(exe, ["record", ctx.seed * 7919 + si, nt, ln, tr, mode], timeout=1800)
            if r3.rc != 0 or r3.broken:
                return
            ev = int(r3.stats.get("events", 0))
            nviol = len(ctx.violations)
            st = validate(ctx, sd, tr, ev, "random history (mode %s, seed %d)" % (mode, ctx.seed * 7919 + si))
            if r3.stats.get("aborted") and len(ctx.violations) == nviol:
                ctx.broken.append("the driver had to abort and the recorded trace does not show a violated property: %s"
                                  % "; ".join(r3.stats["aborted"])[:1500])
            if st == "accepted":
                accepted += nt
                ctx.cov(traces_validated_against_impl=nt, evaluations=ev, distinct_nontrivial=int(r3.stats.get("distinct", 0)))
            if si == 0 and mode == plan[0][0]:
                sample_events(ctx, tr)
                first_trace = tr
    # R2: TLC behaviours at the schedule level replayed on the real stack, then validated like R3
    gen = mc_cfg(sd, "gen.cfg", spec="GenSpec", inner="MCInner1", data="MCData1", roots=6, rb=3, buf="1, 2, 8", q="0, 1",
                 snaps="2", cpmod="0, 2", f3="FALSE", blocked=1, jobs=2 if not c09 else 1, reapply="TRUE", log="LogAppend",
                 depth=16, rest="ACTION_CONSTRAINT EmitFull")
    beh = ctx.path("sched.ndjson")
    g = ctx.tlc(sd, "MC_StatePruning", gen, simulate=40 if q else 400, depth=16, timeout=900, behaviours_out=beh, count=False)
    if g.ok and g.behaviours == 0:
        ctx.broken.append("schedule export produced nothing")
    tr = ctx.path("trace_sched.ndjson")
    r2 = ctx.vh(exe, ["schedules", beh, tr], timeout=1800)
    if r2.rc == 0 and not r2.broken:
        ev = int(r2.stats.get("events", 0))
        nviol = len(ctx.violations)
        st = validate(ctx, sd, tr, ev, "TLC schedule replay")
        if r2.stats.get("aborted") and len(ctx.violations) == nviol:
            ctx.broken.append("the driver had to abort and the recorded trace does not show a violated property: %s"
                              % "; ".join(r2.stats["aborted"])[:1500])
        if st == "accepted":
            ctx.cov(traces_validated_against_impl=int(r2.stats.get("behaviours", 0)), evaluations=ev,
                    distinct_nontrivial=int(r2.stats.get("distinct", 0)))
    # binding self-test: a corrupted observation must be rejected
    if not q and accepted:
        def keep_deleted_node(evs):   # pretend the code did not delete one node
            for e in evs:
                if e["a"] in ("Finalize", "Rollback") and e["out"]["removed"]:
                    x = e["out"]["removed"].pop()
                    e["st"]["db"] = sorted(e["st"]["db"] + [x])
                    break
            return evs

        def lose_live_node(evs):      # pretend a node of a live root vanished from the main DB
            for e in evs:
                if e["a"] == "Commit" and len(e["st"]["db"]) > 3:
                    e["st"]["db"].remove(e["out"]["r"])
                    break
            return evs

        def empty_snapshot(evs):      # pretend a finished snapshot misses a node
            for e in evs:
                for d in e["out"].get("done", []):
                    if d["found"] == 1 and d["snap"]:
                        d["snap"] = d["snap"][1:]
                        return evs
            return evs
        cfgname = "t_strict.cfg"
        muts = [keep_deleted_node, lose_live_node] if c09 else [empty_snapshot]
        for m in muts:
            vlib.selftest_rejects(ctx, sd, "Trace_StatePruning", cfgname, first_trace, m)
    ctx.cov(rule="R3: seeded random block histories on the real AccountsDB stack (commit / re-apply / finalize / rollback / "
                 "enter / exit / SnapshotState / SetStateCheckpoint / one gated step of a snapshot goroutine; random "
                 "eviction-list cache size, buffer length, pruning queue size, trie memory level, checkpoint modulus), every "
                 "event validated by TLC against StatePruning.tla and every property invariant evaluated on every observed "
                 "state; R2: TLC-simulated schedule-level behaviours replayed the same way; distinct = distinct "
                 "(step kind, blocked?, running jobs, buffer length, queue size) tuples resp. distinct replayed schedules")


def sample_events(ctx, path):
    n = 0
    for line in open(path):
        e = json.loads(line)
        if e["a"] in ("Finalize", "Rollback", "SnapStep") and (e["out"].get("removed") or e["out"].get("done")):
            for k in ("n", "parts"):
                e["out"].pop(k, None)
            e["st"].pop("ewl", None)
            ctx.sample(e)
            n += 1
            if n >= 3:
                break
