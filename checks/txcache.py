"""C25 -- transaction pool indexes stay consistent; C26 -- transaction selection respects nonce order
(storage/txcache.TxCache; family X, specs/TxCache)."""
import json
import os
import time
import vlib

PROPS = ["C25", "C26"]
FAMILY = "TxCache"

CFG = """SPECIFICATION %(spec)s
CONSTANTS
  Senders = {%(senders)s}
  Nonces = {%(nonces)s}
  Prices = {%(prices)s}
  Sizes = {%(sizes)s}
  Configs <- %(configs)s
  SelectNs = {%(ns)s}
  SelectBs = {%(bs)s}
  NotifyNonces = {%(notify)s}
  Scores = {%(scores)s}
  MaxFailed = %(maxfailed)d
  MaxSweepList = %(maxsweep)d
  AsyncSweep = %(async)s
  WithClear = %(clear)s
  KnownDefects = {%(defects)s}
  Log <- %(log)s
  Depth = %(depth)d
  SampleK = %(samplek)d
%(rest)s
CHECK_DEADLOCK FALSE
"""

INV = {
    # the class of the named deviation C25evict1 (Act_C25_SenderLimits_OneEvictionPerAdd) is validated in a pass of its
    # own ("C25known"): TLC stops at the first violated predicate, and a known finding early in a trace must not hide
    # a different violation later in it
    "C25": ["Inv_C25_HashIndex", "Inv_C25_HashIndex_AfterStaleSweep", "Inv_C25_Counts", "Inv_C25_Order",
            "Act_C25_SenderLimits"],
    "C25known": ["Act_C25_SenderLimits_OneEvictionPerAdd"],
    "C26": ["Inv_C26_AtMostN", "Inv_C26_DistinctPooled", "Inv_C26_Prefix", "Inv_C26_NoSkip",
            "Inv_C26_NoSkip_AfterNonce0", "Inv_C26_GapSender"],
}
STATE_INV = "INVARIANTS TypeOK Inv_C25_HashIndex Inv_C25_HashIndex_AfterStaleSweep Inv_C25_Counts Inv_C25_Order"
ACT_C25 = "Act_C25_SenderLimits Act_C25_SenderLimits_OneEvictionPerAdd"
ACT_C26 = ("Act_C26_AtMostN Act_C26_DistinctPooled Act_C26_Prefix Act_C26_NoSkip Act_C26_NoSkip_AfterNonce0 "
           "Act_C26_GapSender")

# the two exhaustive models
STRUCT = dict(spec="Spec", senders="1, 2", nonces="0, 1", prices="1, 2", sizes="1, 3", configs="CfgC25Quick", ns="", bs="",
              notify="", scores="0", maxfailed=4, maxsweep=2, clear="FALSE", defects="", log="LogLast", depth=0,
              samplek=1, rest="VIEW cvars\n" + STATE_INV + "\nPROPERTIES " + ACT_C25)
STRUCT["async"] = "FALSE"
SELECT = dict(STRUCT, nonces="0, 1, 3", prices="1", sizes="1", configs="CfgC26", ns="0, 1, 2, 3", bs="1, 2", notify="0, 1",
              maxfailed=3, maxsweep=1, rest="VIEW cvars\n" + STATE_INV + "\nPROPERTIES " + ACT_C25 + " " + ACT_C26)


def trace_cfgs(sd, prop, which=None):
    """per-property trace configurations: only the invariants of the property being decided are listed, so that a
    violation of the sibling property never stops the validation of this one"""
    which = which or prop
    names = INV[which]
    inv = [n for n in names if n.startswith("Inv_")]
    act = [n for n in names if n.startswith("Act_")]
    for name, spec in (("trace_%s.cfg" % which, "TraceSpec"), ("obs_%s.cfg" % which, "ObsSpec")):
        s = open(os.path.join(sd, "Trace_TxCache.cfg")).read()
        head, _, tail = s.partition("INVARIANTS")
        tail = tail[tail.index("POSTCONDITION"):]
        s = head.replace("SPECIFICATION TraceSpec", "SPECIFICATION " + spec)
        if inv:
            s += "INVARIANTS\n  " + " ".join(inv) + "\n"
        if act:
            s += "PROPERTIES\n  " + " ".join(act) + "\n"
        open(os.path.join(sd, name), "w").write(s + tail)
    return "trace_%s.cfg" % which, "obs_%s.cfg" % which


def thin(path, k):
    lines = open(path).read().splitlines()
    with open(path, "w") as f:
        for i, l in enumerate(lines):
            if i % k == 0:
                f.write(l + "\n")


def validate(ctx, sd, tr, nev, what, ntraces, which=None):
    tc, oc = trace_cfgs(sd, ctx.prop, which)
    st, line = vlib.validate_trace(ctx, sd, "Trace_TxCache", tc, tr, nev, ctx.prop, divergence_is_violation=False,
                                   what=what, obs_cfg=oc, timeout=1500)
    if st == "accepted" and which is None:
        ctx.cov(traces_validated_against_impl=ntraces, evaluations=nev)
    return st


def run(ctx):
    sd = ctx.stage()
    q = ctx.quick
    c25 = ctx.prop == "C25"
    t = [time.time()]

    def lap(name):
        ctx.notes.append("%s: %.0fs" % (name, time.time() - t[0]))
        t[0] = time.time()

    def cfg(name, d):
        open(os.path.join(sd, name), "w").write(CFG % d)
        return name
    tlc0 = ctx.tlc

    def tlc(sdir, mod, cfgname, **kw):
        r = tlc0(sdir, mod, cfgname, **kw)
        ctx.notes.append("tlc %s: %.0fs, %d generated, %d distinct%s" % (cfgname, r.wall, r.generated, r.distinct,
                                                                         (", " + r.error) if r.error else ""))
        return r
    ctx.tlc = tlc
    ctx.assume("a transaction is [sender, nonce, gas price, size]; its hash is derived from these four values by the harness "
               "(distinct transactions have distinct hashes)",
               "sequential histories: one call at a time; SelectTransactions is the selection followed by the sweep that "
               "the code starts in a goroutine (the schedule 'other calls between selection and sweep' is explored "
               "separately and its effect reported under its own signature)",
               "which senders global eviction removes, the order in which selection visits senders of one score bucket and "
               "the score of a sender are not prescribed by C25/C26: relational in the specification, found by TLC / taken "
               "from the observation in trace validation",
               "TxCache.Clear is outside the operations C25 quantifies over; its stale byte counter is tracked by the ghost "
               "`skew` and not reported",
               "TLC integers: sizes, nonces, counters < 2^31")
    # ------------------------------------------------------------------ R1
    if c25:
        r1 = ctx.tlc(sd, "MC_TxCache", cfg("r1.cfg", dict(STRUCT, configs="CfgC25Quick" if q else "CfgC25Thorough")),
                     timeout=3000, coverage=not q, extra=None if q else ["-coverage", "100000"])
        if not q:   # three nonces (insertion in the middle, removal with the early stop), one price
            ctx.tlc(sd, "MC_TxCache", cfg("r1c.cfg", dict(STRUCT, nonces="0, 1, 2", prices="1")), timeout=3000)
        # selections, notifications and sweeps together with eviction (reduced transaction universe)
        r1b = ctx.tlc(sd, "MC_TxCache", cfg("r1b.cfg", dict(SELECT, configs="CfgC26Evict", nonces="0, 2" if q else "0, 1, 3",
                                                          ns="2", bs="1", notify="0" if q else "0, 1")), timeout=3000)
        lap("R1 (intended design)")
        rd = ctx.tlc(sd, "MC_TxCache", cfg("r1d.cfg", dict(STRUCT, defects='"C25evict1"')), timeout=900, count=False,
                     allow=("property", "invariant"))
        ctx.cov(model_counterexample_with_C25evict1=rd.error or "none")
        if rd.ok:
            ctx.broken.append("R1 with deviation C25evict1 found no counterexample")
        lap("R1 (deviation)")
    else:
        r1 = ctx.tlc(sd, "MC_TxCache", cfg("r1.cfg", dict(SELECT, notify="0, 1" if q else "0, 1, 2")), timeout=3000,
                     coverage=not q, extra=None if q else ["-coverage", "100000"])
        if not q:   # two prices per nonce (several transactions with one nonce in a selection), nonces 0 and 3
            ctx.tlc(sd, "MC_TxCache", cfg("r1p.cfg", dict(SELECT, nonces="0, 3", prices="1, 2")), timeout=3000)
        lap("R1 (intended design)")
        rd = ctx.tlc(sd, "MC_TxCache", cfg("r1d.cfg", dict(SELECT, defects='"C26nonce0"')), timeout=900, count=False,
                     allow=("property", "invariant"))
        ctx.cov(model_counterexample_with_C26nonce0=rd.error or "none")
        if rd.ok:
            ctx.broken.append("R1 with deviation C26nonce0 found no counterexample")
        lap("R1 (deviation)")
    if not q and r1.ok:
        zero = [z for z in r1.coverage_zero if z in (("NAdd", "NRemove") if c25 else
                                                      ("NAdd", "NRemove", "NNotify", "NSelect", "NSweep"))]
        if zero:
            ctx.broken.append("vacuity guard: actions never taken in R1: %s" % zero)
        ctx.cov(vacuity_guard="-coverage 1: every action of the model taken (%s)" % ("ok" if not zero else zero))

    exe = ctx.go_build("vh-txcache")
    # ------------------------------------------------------------------ asynchronous sweep (C25 only)
    if c25:
        # TLC explores calls between a selection and its sweep; the counterexample it finds (a sweep through a list
        # object whose sender was re-created) is replayed on the real cache with the two halves of SelectTransactions
        # as separate steps; TLC then judges the recorded trace
        a = dict(SELECT, senders="1", ns="2", bs="1", maxsweep=2, log="LogAppend",
                 rest="VIEW cvars\nINVARIANTS Inv_C25_HashIndex CexStaleSweep Inv_C25_Counts Inv_C25_Order")
        a["async"] = "TRUE"
        cex = ctx.path("stale.ndjson")
        ra = ctx.tlc(sd, "MC_TxCache", cfg("async.cfg", a), timeout=900, count=False, behaviours_out=cex,
                     allow=("invariant",))
        ctx.cov(model_counterexample_async_sweep=ra.error or "none")
        if ra.behaviours:
            tr = os.path.join(sd, "trace.ndjson")
            h = ctx.vh(exe, ["replay", cex, tr, "async"], count_samples=False)
            validate(ctx, sd, tr, int(h.stats.get("events", 0)), "asynchronous sweep counterexample replayed on TxCache",
                     int(h.stats.get("behaviours", 0)))
        if not q:  # the stale sweep is the ONLY way to an inconsistent hash index: exhaustive with calls in between
            a2 = dict(a, senders="1, 2", nonces="0, 2", log="LogLast", notify="0",
                      rest="VIEW cvars\nINVARIANTS Inv_C25_HashIndex Inv_C25_Counts Inv_C25_Order")
            ctx.tlc(sd, "MC_TxCache", cfg("async2.cfg", a2), timeout=3000)
        lap("asynchronous sweep")
    # ------------------------------------------------------------------ R2: TLC-generated histories drive the real cache
    base = STRUCT if c25 else SELECT
    gen = dict(base, spec="GenSpec", defects='"C25evict1", "C26nonce0", "ClearBytes"', log="LogAppend", depth=(5 if c25 else 6) if q else 7,
               clear="TRUE", rest="VIEW cvars\nACTION_CONSTRAINT EmitEdgeSampled")
    if c25:
        gen.update(configs="CfgC25Quick" if q else "CfgC25Thorough", ns="2", bs="1", notify="0",
                   nonces="0, 1", samplek=150 if q else 300)
    else:
        gen.update(configs="CfgC26Evict", prices="1" if q else "1, 2", samplek=60 if q else 150)
    beh = ctx.path("edges.ndjson")
    g = ctx.tlc(sd, "MC_TxCache", cfg("gen.cfg", gen), timeout=1800, behaviours_out=beh, extra=["-seed", str(ctx.seed)])
    if g.ok and g.behaviours == 0:
        ctx.broken.append("behaviour export produced nothing")
    lap("gen (%d behaviours)" % g.behaviours)
    parts = []          # recorded traces; validated together (one TLC start)
    nbeh = 0

    def drive(behfile, name):
        out = ctx.path("tr_%s.ndjson" % name)
        hh = ctx.vh(exe, ["replay", behfile, out, "sync"], count_samples=(name == "gen"))
        parts.append(out)
        return int(hh.stats.get("behaviours", 0)), int(hh.stats.get("distinct", 0))
    n1, d1 = drive(beh, "gen")
    # long random walks of the specification
    sim = dict(gen, depth=30, rest="ACTION_CONSTRAINT EmitFull", senders="1, 2, 3", nonces="0, 1, 2, 4", ns="0, 1, 3, 5",
               bs="0, 1, 2", notify="0, 1, 2", maxfailed=6, maxsweep=3,
               configs="CfgC25Thorough" if c25 else "CfgC26Evict")
    beh2 = ctx.path("sim.ndjson")
    ctx.tlc(sd, "MC_TxCache", cfg("sim.cfg", sim), simulate=6 if q else 60, depth=30, timeout=900, behaviours_out=beh2)
    thin(beh2, 25 if q else 40)   # TLC prints every last-step variant of a walk; keep one in 25/40
    n2, d2 = drive(beh2, "sim")
    # scenario family (random walks in a tiny universe where the pattern is frequent):
    #  C25 churn    -- repeated evictions with "every transaction of a sender removed, sender re-added" in between
    #  C26 rollback -- account-nonce notifications that go DOWN as well as up, followed by selections
    if c25:
        scen = dict(sim, senders="1, 2", nonces="0, 1", prices="1", sizes="3", configs="CfgChurn", ns="", bs="", notify="",
                    clear="FALSE")
    else:
        scen = dict(sim, senders="1", nonces="1, 2, 4", prices="1", sizes="1", configs="CfgRollback", ns="3", bs="2",
                    notify="0, 1, 3", clear="FALSE", maxfailed=4, maxsweep=2)
    beh3 = ctx.path("scen.ndjson")
    ctx.tlc(sd, "MC_TxCache", cfg("scen.cfg", scen), simulate=10 if q else 40, depth=30, timeout=900, behaviours_out=beh3)
    thin(beh3, 6 if q else 10)
    n3, d3 = drive(beh3, "scen")
    lap("sim + scenario + replays (%d+%d+%d behaviours)" % (n1, n2, n3))
    # ------------------------------------------------------------------ R3: seeded random histories, larger universe
    nt, ln = (20, 100) if q else (120, 150)
    rec = ctx.path("tr_random.ndjson")
    r3 = ctx.vh(exe, ["record", ctx.seed, nt, ln, rec, "sync"], count_samples=False)
    parts.append(rec)
    tr = os.path.join(sd, "trace.ndjson")
    with open(tr, "w") as f:
        for p_ in parts:
            f.write(open(p_).read())
    nev = sum(1 for _ in open(tr))
    st = validate(ctx, sd, tr, nev, "TxCache history (TLC-generated, simulated, scenario and random histories)",
                  n1 + n2 + n3 + nt)
    ctx.cov(distinct_nontrivial=d1 + d2 + d3 + int(r3.stats.get("distinct", 0)))
    lap("validate (%d events, %s)" % (nev, st))
    if c25:
        # the named deviation's own class, in a pass of its own on the same recorded histories
        st2 = validate(ctx, sd, tr, nev, "TxCache history", nt, which="C25known")
        lap("class of C25evict1 (%s)" % st2)
    if not q and st == "accepted":
        # binding self-tests.  Each corruption is applied to a pristine copy of the recorded trace (selftest_rejects
        # overwrites trace.ndjson) and is one the respective configuration MUST reject:
        #   strict: a call's logged result is changed            -> no action of the specification explains the event
        #   obs:    the logged state breaks a predicate of the property (C25: a transaction disappears from the logged hash
        #           index / a sender list is reversed; C26: a selected transaction is duplicated / the first one dropped)
        tc, oc = trace_cfgs(sd, ctx.prop)
        src = ctx.path("selftest_src.ndjson")
        with open(src, "w") as f:
            f.write(open(tr).read())

        def selftest(cfgname, corrupt):
            evs = [json.loads(x) for x in open(src).read().splitlines() if x.strip()]
            m = corrupt(evs)
            if m is None:
                ctx.broken.append("binding self-test: the recorded trace has no event to corrupt (%s)" % corrupt.__name__)
                return
            vlib.selftest_rejects(ctx, sd, "Trace_TxCache", cfgname, src, lambda _evs: m)

        def wrong_result(evs):      # strict
            for i, e in enumerate(evs):
                if e["a"] == "AddTx" and e["out"].get("added"):
                    e["out"]["added"] = False
                    return evs[:i + 1]
                if e["a"] == "RemoveTx" and e["out"].get("ok"):
                    e["out"]["ok"] = False
                    return evs[:i + 1]
            return None

        def hash_index_loses_tx(evs):       # obs, C25
            for i, e in enumerate(evs):
                if e["a"] == "AddTx" and len(e["st"]["bh"]) >= 2:
                    e["st"]["bh"] = e["st"]["bh"][1:]
                    return evs[:i + 1]
            return None

        def list_reversed(evs):             # obs, C25
            for i, e in enumerate(evs):
                for l in e["st"]["ls"]:
                    if len(l["txs"]) >= 2 and l["txs"][0]["n"] != l["txs"][-1]["n"]:
                        l["txs"] = list(reversed(l["txs"]))
                        return evs[:i + 1]
            return None

        def selected_twice(evs):            # obs, C26
            for i, e in enumerate(evs):
                if e["a"] == "Select" and len(e["out"]["txs"]) >= 1 and e["in"]["n"] > len(e["out"]["txs"]):
                    e["out"]["txs"] = e["out"]["txs"] + [e["out"]["txs"][0]]
                    return evs[:i + 1]
            return None

        def first_selected_dropped(evs):    # obs, C26
            for i, e in enumerate(evs):
                if e["a"] == "Select" and len(e["out"]["txs"]) >= 2:
                    s0 = e["out"]["txs"][0]["s"]
                    if sum(1 for x in e["out"]["txs"] if x["s"] == s0) >= 2:
                        e["out"]["txs"] = e["out"]["txs"][1:]
                        return evs[:i + 1]
            return None
        selftest(tc, wrong_result)
        if c25:
            selftest(oc, hash_index_loses_tx)
            selftest(oc, list_reversed)
        else:
            selftest(oc, selected_twice)
            selftest(oc, first_selected_dropped)
        lap("binding self-tests")
    ctx.cov(rule="every history is executed on the real TxCache and the recorded trace (result + sender lists in order, hash "
                 "index by lookup, the three counters, account nonces, failed-selection counters, sweepable flags, sweep "
                 "list after EVERY call) is validated by TLC against specs/TxCache with the %s invariants evaluated on every "
                 "observed state. Histories: a seeded sample of the transitions of the bounded state graph (path to the "
                 "source state + the transition), 30-step random walks of the specification (3 senders), 30-step walks of a "
                 "scenario family (C25: eviction churn with senders emptied and re-added between evictions; C26: account "
                 "nonces notified up and down with selections in between), and seeded random "
                 "drivers (up to 4 senders, nonces 0..7 with gaps, sizes 1..100, eviction on/off, sender limits 1..6 txs). "
                 "distinct = distinct call sequences (replays) + distinct (configuration, call, arguments) (random drivers)"
                 % ctx.prop)
