"""C39 -- staking contract: waiting list (doubly linked list in storage), registered/waiting keys and the
staked-node counter stay consistent (family V, specs/Staking).

R1  Staking.tla model-checked exhaustively (a) as designed (named deviation off): all C39 invariants hold;
    (b) as coded (deviation "StalePrev" on): TLC must find the counterexample to Inv_C39_list_prev.
R2  TLC behaviours (transition cover of the abstract state graph + long simulated walks) executed on the REAL
    staking contract over a real vmContext; result and storage projection compared with the prediction after
    every call; a behaviour whose real run differs is handed to TLC as an observed trace.
R3  seeded random histories on the real contract (up to 6 keys, all flag settings, peer statuses, owner funds)
    validated by TLC against Trace_Staking; the C39 invariants are evaluated by TLC on every observed state.
    R3' histories in which wallets call the REAL validator SC, which reaches the staking SC through
    eei.ExecuteOnDestContext (stake/unStake/unBond/unJail/reStake with several keys) mixed with end-of-epoch and
    jailing calls: observed by TLC (no validator specification), same invariants on every observed state.
"""
import json
import os
import vlib

import time


def timed(ctx, name, f, *a, **kw):
    t0 = time.time()
    r = f(*a, **kw)
    ctx.notes.append("stage %s %.0fs" % (name, time.time() - t0))
    return r


PROPS = ["C39"]
FAMILY = "Staking"

KNOWN_SIG = "C39/insertAfterLastJailed/empty-lastJailed/old-first-prev-stale"
INVS = "M_list_chain M_list_prev M_list_lastjailed M_keys Inv_C39_count Inv_C39_max"
STRICT_INVS = "Inv_C39_list_chain Inv_C39_list_prev Inv_C39_list_lastjailed Inv_C39_keys Inv_C39_count Inv_C39_max"

MC_CFG = """SPECIFICATION %(spec)s
CONSTANTS
  Keys = {%(keys)s}
  Owners = {"o1", "o2"}
  Confs <- %(confs)s
  PeerStatuses = {%(peers)s}
  FundVals <- %(funds)s
  NodeNums = {%(nums)s}
  AuthVals = {%(auth)s}
  MaxNJ = %(maxnj)d
  KnownDefects <- %(defects)s
  FixChoices <- CodeAsIs
  Log <- %(log)s
  Depth = %(depth)d
%(rest)s
CHECK_DEADLOCK FALSE
"""

TRACE_CFG = """SPECIFICATION %(spec)s
CONSTANTS
  Keys = {%(keys)s}
  Owners = {"o1", "o2"}
  Confs = {}
  PeerStatuses = {}
  FundVals = {}
  NodeNums = {}
  AuthVals = {}
  MaxNJ = 0
  KnownDefects <- StalePrevDefect
  FixChoices <- Either
  Log <- LogLast
CONSTRAINT HighWater
INVARIANTS %(invs)s
POSTCONDITION Accepted
CHECK_DEADLOCK FALSE
"""


ACTIONS = ["Stake", "UnStake", "UnBond", "Jail", "UnJail", "Switch", "UnStakeEoE", "StakeFromQueue", "CleanQueue",
           "ResetLastUnJailed", "UpdateMax", "UpdateMin", "Elapse", "SetPeer", "SetFunds"]


def note_ok_actions(ctx, h):
    """vacuity guard input: how often each specification action returned Ok on the real contract during replay"""
    acc = ctx.coverage.setdefault("replayed_ok_calls_per_action", {})
    for a, n in (h.stats.get("ok_actions") or {}).items():
        acc[a] = acc.get(a, 0) + int(n)


def vacuity_guard(ctx):
    acc = ctx.coverage.get("replayed_ok_calls_per_action", {})
    missing = [a for a in ACTIONS if acc.get(a, 0) == 0]
    if missing:
        ctx.broken.append("vacuity guard: specification actions that never succeeded on the real contract in any replayed "
                          "behaviour: %s" % ", ".join(missing))


def keyset(n):
    return ", ".join('"%s"' % c for c in "abcdefgh"[:n])


def mc_cfg(sd, name, **kw):
    d = dict(spec="Spec", keys=keyset(3), confs="ConfsTiny", peers='"none"', funds="FundsNone", nums="1, 2",
             auth="TRUE", maxnj=2, defects="NoDefects", log="LogLast", depth=0, rest="VIEW cvars")
    d.update(kw)
    open(os.path.join(sd, name), "w").write(MC_CFG % d)
    return name


def validate(ctx, sd, trace_path, nkeys, n_events, what, timeout=900, obs_only=False):
    """strict validation of an observed trace; on divergence the observation-only pass; returns status.
    Invariant violations on observed states become violations with signature C39/<invariant>/<action>;
    observed occurrences of the named deviation (marks @@KD<line>) are reported with the known-finding signature."""
    import shutil
    dst = os.path.join(sd, "trace.ndjson")
    if os.path.abspath(trace_path) != os.path.abspath(dst):
        shutil.copy(trace_path, dst)
    lines = open(dst).read().splitlines()

    def at(n):
        return lines[n - 1][:1200] if n is not None and 1 <= n <= len(lines) else None

    def action(n):
        try:
            return json.loads(lines[n - 1])["a"]
        except Exception:
            return "?"

    def report(r, mode):
        kd = sorted(int(k[2:]) for k in r.marks if k.startswith("KD"))
        if kd:
            ctx.cov(known_deviation_observed=len(kd))
            ln = kd[0]
            ctx.violation(KNOWN_SIG, "%s: %s put its key in front of a non-empty waiting list whose LastJailedKey was empty; the old "
                          "first element's PreviousKey still points to itself: Inv_C39_list_prev is false on the observed state "
                          "(trace line %d: %s)" % (what, action(ln), ln, at(ln)),
                          {"trace_file": vlib.keep_file(ctx, dst), "line": ln, "occurrences": len(kd)})
        if r.error and (r.error.startswith("invariant:") or r.error.startswith("property:")):
            inv = r.error.split(":", 1)[1]
            ln = (r.last_l - 1) if r.last_l else None
            ctx.violation("C39/%s/%s" % (inv.replace("M_", "Inv_C39_"), action(ln) if ln else "?"),
                          "%s (%s): %s is false on a state observed from the real staking contract after %s (trace line %s: %s)"
                          % (what, mode, inv, action(ln) if ln else "?", ln, at(ln)),
                          {"trace_file": vlib.keep_file(ctx, dst), "line": ln, "event": at(ln), "previous": at(ln - 1 if ln else None)})
            return "invariant"
        return None

    open(os.path.join(sd, "t_strict.cfg"), "w").write(TRACE_CFG % dict(spec="TraceSpec", keys=keyset(nkeys), invs=INVS))
    open(os.path.join(sd, "t_obs.cfg"), "w").write(TRACE_CFG % dict(spec="ObsSpec", keys=keyset(nkeys), invs=INVS))
    if obs_only:
        r2 = ctx.tlc(sd, "Trace_Staking", "t_obs.cfg", workers=1, timeout=timeout, count=False,
                     allow=("invariant", "postcondition", "property"))
        if r2.ok:
            ctx.cov(trace_events_observed=n_events)
            report(r2, "observed")
            return "observed"
        if report(r2, "observed") == "invariant":
            return "invariant"
        ctx.broken.append("observation-only pass failed: %s\n%s" % (r2.error, r2.text(20)))
        return "broken"
    r = ctx.tlc(sd, "Trace_Staking", "t_strict.cfg", workers=1, timeout=timeout, count=False,
                allow=("invariant", "postcondition", "property"))
    if r.ok:
        report(r, "strict")
        ctx.cov(trace_events_validated=n_events)
        return "accepted"
    if report(r, "strict") == "invariant":
        return "invariant"
    if r.error == "postcondition":
        ln = r.highwater
        ctx.drifts.append({"what": "%s: line %s is not a step of the specification: %s (previous: %s)"
                                   % (what, ln, at(ln), at(ln - 1 if ln else None))})
        r2 = ctx.tlc(sd, "Trace_Staking", "t_obs.cfg", workers=1, timeout=timeout, count=False,
                     allow=("invariant", "postcondition", "property"))
        if r2.ok:
            ctx.cov(trace_events_observed=n_events)
            report(r2, "observed")
            return "drift"
        if report(r2, "observed") == "invariant":
            return "invariant"
        ctx.broken.append("observation-only pass failed: %s\n%s" % (r2.error, r2.text(20)))
        return "broken"
    return "broken"


def run(ctx):
    sd = ctx.stage()
    q = ctx.quick
    only = [x for x in os.environ.get("VERIF_STAGES", "").split(",") if x]   # development aid: run a subset of the stages

    def want(name):
        return not only or name in only
    ctx.assume(
        "a top-level call that does not return Ok leaves no trace (the transaction processor drops its VM output); the "
        "harness commits storage updates only on Ok, like vm/process.systemVM + scProcessor",
        "the block nonce moves only through the Elapse event (by the unbond period); the validator statistics (peer list, "
        "rating) and the owners' validator-SC records are environment, set by the driver",
        "a stakeNodesFromQueue(n) request by the end-of-epoch address with n above the free slots is treated like a "
        "lowered maximum (the excess was requested by the protocol), so it does not count against 'never exceeds the maximum'",
        "exhaustive bounds: 3-4 BLS keys, min/max nodes in 1..3, NumJailed <= 2; traces: up to 6 keys",
        "trusted: TLC, the ~60-line storage projection in harness/cmd/vh-staking (proj), harness/families/sysvm (commit rule)")

    # ---- R1 (a) the design without the named deviation: every invariant holds
    inv_rest = "VIEW cvars\nINVARIANTS TypeOK " + STRICT_INVS
    if want("r1"):
        if q:
            mc_cfg(sd, "r1a.cfg", confs="ConfsTiny", log="LogNone", rest=inv_rest)
            ra = ctx.tlc(sd, "MC_Staking", "r1a.cfg", timeout=3000)
            ctx.notes.append("R1a %.0fs %d states" % (ra.wall, ra.distinct))
        else:
            mc_cfg(sd, "r1a.cfg", keys=keyset(4), confs="ConfsOnOff1", log="LogNone", rest=inv_rest)
            ra = ctx.tlc(sd, "MC_Staking", "r1a.cfg", timeout=6000)
            ctx.notes.append("R1a 4 keys %.0fs %d states" % (ra.wall, ra.distinct))
            mc_cfg(sd, "r1a2.cfg", confs="ConfsHist", log="LogNone", rest=inv_rest)
            ra2 = ctx.tlc(sd, "MC_Staking", "r1a2.cfg", timeout=6000, coverage=True)
            ctx.notes.append("R1a 3 keys all historical flag settings %.0fs %d states" % (ra2.wall, ra2.distinct))
            if ra2.coverage_zero:
                ctx.broken.append("vacuity guard (TLC -coverage): never taken: %s" % ", ".join(sorted(set(ra2.coverage_zero))))
        # ---- R1 (b) the code as it is: TLC must find the stale PreviousKey
        mc_cfg(sd, "r1b.cfg", defects="StalePrevDefect", log="LogNone", rest=inv_rest)
        rb = ctx.tlc(sd, "MC_Staking", "r1b.cfg", timeout=900, allow=("invariant",))
        if rb.error != "invariant:Inv_C39_list_prev":
            ctx.broken.append("R1(b): the specification with the named deviation should violate Inv_C39_list_prev, got %s" % rb.error)
        else:
            ctx.cov(model_counterexample_with_deviation="Inv_C39_list_prev violated at depth %d" % rb.depth)

    exe = ctx.go_build("vh-staking")
    if want("gen"):
        timed(ctx, "gen", run_gen, ctx, sd, exe, q)
    if want("sim"):
        timed(ctx, "sim", run_sim, ctx, sd, exe, q)
    if want("r3"):
        timed(ctx, "r3", run_r3, ctx, sd, exe, q)
    if want("rv"):
        timed(ctx, "rv", run_rv, ctx, sd, exe, q)
    if want("gen") and want("sim"):
        vacuity_guard(ctx)
    ctx.cov(rule=RULE)


def run_gen(ctx, sd, exe, q):
    # ---- R2a transition cover: one behaviour per transition of the abstract state graph up to the depth bound
    gen_rest = "VIEW cvars\nACTION_CONSTRAINT EmitEdge\nINVARIANTS " + INVS
    runs = [(3, "ConfsTiny", 6)] if q else [(4, "ConfsTiny", 6), (3, "ConfsOnOff1", 7)]
    for i, (nk, confs, depth) in enumerate(runs):
        mc_cfg(sd, "gen.cfg", spec="GenSpec", defects="StalePrevDefect", log="LogSlim", depth=depth, keys=keyset(nk),
               confs=confs, rest=gen_rest)
        beh = ctx.path("edges%d.ndjson" % i)
        g = ctx.tlc(sd, "MC_Staking", "gen.cfg", timeout=3000, behaviours_out=beh, count=False,
                    workers=1 if q else None)   # one worker: strict BFS order, so the cover is the same on every run
        ctx.notes.append("gen %d keys %s depth %d: %.0fs %d behaviours" % (nk, confs, depth, g.wall, g.behaviours))
        if g.ok and g.behaviours == 0:
            ctx.broken.append("behaviour export produced nothing")
        mm = ctx.path("mismatch1_%d.ndjson" % i)
        h = ctx.vh(exe, ["replay", beh, mm], timeout=1800)
        note_ok_actions(ctx, h)
        ctx.cov(traces_validated_against_impl=int(h.stats.get("behaviours", 0)), evaluations=int(h.stats.get("steps", 0)),
                distinct_nontrivial=int(h.stats.get("distinct_transitions", 0)),
                known_deviation_reproduced_in_replay=int(h.stats.get("known_deviation_reproduced", 0)),
                replay_mismatching=int(h.stats.get("mismatching", 0)))
        if int(h.stats.get("mismatch_events", 0)) > 0:
            validate(ctx, sd, mm, nk, int(h.stats["mismatch_events"]), "replayed TLC behaviour (transition cover)")


def run_sim(ctx, sd, exe, q):
    # ---- R2b long simulated walks through every configuration, environment included
    sim_rest = "ACTION_CONSTRAINT EmitFull\nINVARIANTS " + INVS
    mc_cfg(sd, "sim.cfg", spec="GenSpec", defects="StalePrevDefect", log="LogAppend", depth=40, keys=keyset(4),
           confs="ConfsFull", peers='"none", "eligible", "jailed", "bad"', funds="FundsB", nums="0, 1, 2, 3",
           auth="TRUE, FALSE", maxnj=3, rest=sim_rest)
    beh2 = ctx.path("sim.ndjson")
    ctx.tlc(sd, "MC_Staking", "sim.cfg", simulate=10 if q else 600, depth=40, timeout=1800, behaviours_out=beh2, count=False)
    mm2 = ctx.path("mismatch2.ndjson")
    h2 = ctx.vh(exe, ["replay", beh2, mm2], timeout=1800)
    note_ok_actions(ctx, h2)
    ctx.cov(traces_validated_against_impl=int(h2.stats.get("behaviours", 0)), evaluations=int(h2.stats.get("steps", 0)),
            replay_mismatching=int(h2.stats.get("mismatching", 0)),
            known_deviation_reproduced_in_replay=int(h2.stats.get("known_deviation_reproduced", 0)))
    if int(h2.stats.get("mismatch_events", 0)) > 0:
        validate(ctx, sd, mm2, 4, int(h2.stats["mismatch_events"]), "replayed TLC behaviour (simulation)")



def run_rv(ctx, sd, exe, q):
    # ---- R3' the staking SC reached the production way: wallets -> real validator SC -> ExecuteOnDestContext -> staking SC
    tr = os.path.join(sd, "trace.ndjson")
    nt, ln, nk = (20, 60, 6) if q else (800, 80, 6)
    rv = ctx.vh(exe, ["recordv", ctx.seed, nt, ln, nk, tr])
    st = validate(ctx, sd, tr, nk, int(rv.stats.get("events", 0)),
                  "random history through the real validator SC", obs_only=True)
    if st == "observed":
        ctx.cov(traces_validated_against_impl=nt, evaluations=int(rv.stats.get("events", 0)))
    ctx.cov(rv_actions=rv.stats.get("actions"))


def run_r3(ctx, sd, exe, q):
    # ---- R3 random real histories validated by TLC
    tr = os.path.join(sd, "trace.ndjson")
    nt, ln, nk = (45, 60, 6) if q else (1200, 80, 6)
    r3 = ctx.vh(exe, ["record", ctx.seed, nt, ln, nk, tr])
    st = validate(ctx, sd, tr, nk, int(r3.stats.get("events", 0)), "directed/random history on the real staking contract")
    if st in ("accepted", "drift"):
        ctx.cov(traces_validated_against_impl=nt, evaluations=int(r3.stats.get("events", 0)))
    ctx.cov(r3_actions=r3.stats.get("actions"), r3_unjail_insert_places=r3.stats.get("unjail_places"))
    # vacuity guard: the recorded histories must reach every insertion branch of insertAfterLastJailed on the real contract
    places = r3.stats.get("unjail_places") or {}
    missing = [b for b in ("unjail-into-empty-queue", "unjail-middle", "unjail-end") if not places.get(b)]
    if missing:
        ctx.broken.append("vacuity guard: no recorded history reached %s" % ", ".join(missing))

    if not q and st == "accepted":
        # binding self-tests: a corrupted observation must be rejected / must trip the invariant
        def corrupt_prev(evs):
            for e in evs:
                el = e["st"]["el"]
                ks = [k for k in el if el[k]["in"]]
                if e["a"] == "Stake" and len(ks) >= 3:
                    mid = [k for k in ks if el[k]["p"] != k and el[k]["n"] != ""]
                    if mid:
                        el[mid[0]]["p"] = mid[0]
                        break
            return evs

        def drop_event(evs):
            for i, e in enumerate(evs):
                if e["a"] == "Stake" and e["out"]["ok"] and i > 3 and e["st"] != evs[i - 1]["st"]:
                    return evs[:i] + evs[i + 1:]
            return evs

        def corrupt_count(evs):
            for e in evs:
                if e["a"] == "UnStake" and e["out"]["ok"]:
                    e["st"]["cfg"]["staked"] += 1
                    break
            return evs
        for m in (corrupt_prev, drop_event, corrupt_count):
            vlib.selftest_rejects(ctx, sd, "Trace_Staking", "t_strict.cfg", tr, m)
            vlib.selftest_rejects(ctx, sd, "Trace_Staking", "t_obs.cfg", tr, m) if m is not drop_event else None



RULE = ("R2: every transition of the specification's abstract state graph up to the depth bound (3-4 keys, max nodes 1-2, "
                 "flags on/off) + simulated 40-step walks over all flag/min/max/peer-status/funds settings are executed on the real "
                 "staking SC; after every call the list is walked from storage and compared with the prediction; distinct = distinct "
                 "(source state, action, arguments, configuration) of the last step; non-trivial = the call reaches the contract "
                 "through the real vmContext and its committed storage is re-read. R3: random real histories (6 keys) validated by "
                 "TLC, all six C39 invariants evaluated on every observed state")
