"""C30 -- epoch-partitioned storage keeps and removes data as promised (family K, specs/PruningStorer)."""
import os
import time
import vlib

PROPS = ["C30"]
FAMILY = "PruningStorer"

CFG = """SPECIFICATION %(spec)s
CONSTANTS
  Keys = {%(keys)s}
  Vals = {%(vals)s}
  MaxEpoch = %(maxepoch)d
  PrepEpochs = {%(prep)s}
  ActiveNums = {%(active)s}
  KeepNums = {%(keep)s}
  KnownDefects = {%(defects)s}
  Log <- %(log)s
  Depth = %(depth)d
%(rest)s
CHECK_DEADLOCK FALSE
"""

TRACE_CFG = """SPECIFICATION %(spec)s
CONSTANTS
  Keys = {}
  Vals = {}
  MaxEpoch = 0
  PrepEpochs = {}
  ActiveNums = {}
  KeepNums = {}
  KnownDefects = {%(defects)s}
  Log <- LogLast
CONSTRAINT HighWater
INVARIANTS %(invs)s
POSTCONDITION Accepted
CHECK_DEADLOCK FALSE
"""

# named deviations of the code from the property (PruningStorer.tla header)
DEVIATIONS = ["remove-first-only", "get-window"]
R1_INVS = ("TypeOK Inv_C30_ReadableWhileActive Inv_C30_ReadsNewestValue Inv_C30_ReadableWhileRetained "
           "Inv_C30_RemovedUnreadable Inv_C30_Answers Inv_C30_ObservedReads Inv_C30_PersisterContents")
# on observed states only what was observed counts: recorded answers, recorded read matrix, persister contents
OBS_INVS = ["Inv_C30_Answers", "Inv_C30_ObservedReads", "Inv_C30_PersisterContents"]

_T = [time.time()]


def _t(ctx, label):
    now = time.time()
    ctx.notes.append("%s: %.1fs" % (label, now - _T[0]))
    if os.environ.get("VERIF_TIMING"):
        print("  [timing] %s %.1fs" % (label, now - _T[0]))
    _T[0] = now


def q(names):
    return ", ".join('"%s"' % n for n in names)


def validate_all(ctx, sd, trace, n_events, sig_prefix, defects, strict, what, all_clauses=True):
    """TLC stops at the first invariant that fails; to see every violated C30 clause the validation is repeated
    without the clauses already reported. strict=True: Trace spec first (observation mode only after a rejection);
    strict=False: observation mode directly. Returns the outcome of the first pass and the violated invariants."""
    remaining = list(OBS_INVS)
    first = None
    violated = []
    while remaining:
        for mode, name in (("TraceSpec", "t_strict.cfg"), ("TraceSpecObs", "t_obs.cfg")):
            open(os.path.join(sd, name), "w").write(TRACE_CFG % dict(spec=mode, defects=q(defects), invs=" ".join(remaining)))
        nviol = len(ctx.violations)
        if strict:
            st, line = vlib.validate_trace(ctx, sd, "Trace_PruningStorer", "t_strict.cfg", trace, n_events, sig_prefix,
                                           divergence_is_violation=False, what=what, obs_cfg="t_obs.cfg", timeout=1500)
        else:
            st, line = vlib.validate_trace(ctx, sd, "Trace_PruningStorer", "t_obs.cfg", trace, n_events, sig_prefix,
                                           divergence_is_violation=False, what=what, timeout=1500)
        if first is None:
            first = st
        if st == "invariant" and len(ctx.violations) > nviol:
            inv = ctx.violations[-1]["sig"].split("/")[-1]
            violated.append(inv)
            if inv in remaining and all_clauses:
                remaining.remove(inv)
                continue
        break
    return first, violated


def run(ctx):
    sd = ctx.stage()
    _T[0] = time.time()
    quick = ctx.quick
    ctx.assume("pruning enabled, no bloom filter, LRU cache large enough never to evict by itself (ClearCache models eviction)",
               "epoch numbers advance by one or repeat the current epoch (as the epoch start trigger produces them); under this "
               "assumption persistersMapByEpoch[e] is the persister created for e",
               "persisters are memory maps keyed by path that survive Close/Create like a database directory; a closed handle "
               "answers every call with an error (as leveldb does); several handles on one path are allowed",
               "activePersisters / persistersMapByEpoch / isClosed / epochForPutOperation / cacher are projected by reflection on "
               "unexported fields (no hook file); persister contents come from the harness' own maps; Has, SearchFirst and "
               "GetFromEpoch are asked for every key and epoch after every call, Get where a behaviour calls it and at the end",
               "after Close() only reads are issued; DestroyUnit and FullHistoryPruningStorer are outside the specification")
    base = dict(keys='"a"', vals="1", maxepoch=2, prep="0, 1", active="1, 2", keep="2", defects="", log="LogLast", depth=0)
    # ---- R1: the intended design (no deviation) satisfies C30
    open(os.path.join(sd, "r1.cfg"), "w").write(CFG % dict(
        base, spec="Spec", maxepoch=2 if quick else 3, keep="2" if quick else "2, 3", prep="0" if quick else "0, 1, 2",
        rest="VIEW cvars\nINVARIANTS " + R1_INVS))
    ctx.tlc(sd, "MC_PruningStorer", "r1.cfg", timeout=3000, coverage=not quick)
    _t(ctx, "R1 intended design")
    # ---- R1 with each named deviation: TLC must find counterexamples; they are exported as witnesses
    exe = ctx.go_build("vh-pruningstorer")
    present = []
    for d in DEVIATIONS:
        open(os.path.join(sd, "wit.cfg"), "w").write(CFG % dict(
            base, spec="WitSpec", defects=q([d]), log="LogAppend", depth=5 if quick else 6, keep="2, 3",
            rest="VIEW cvars\nACTION_CONSTRAINT EmitBad"))
        wit = ctx.path("wit-%s.ndjson" % d)
        g = ctx.tlc(sd, "MC_PruningStorer", "wit.cfg", timeout=900, behaviours_out=wit, count=False)
        if g.ok and g.behaviours == 0:
            ctx.broken.append("the model with deviation %s has no counterexample within the bound: model is wrong" % d)
            continue
        ctx.cov(**{"model_counterexamples_" + d.replace("-", "_"): g.behaviours})
        # replay the counterexamples on the real storer; every observed run is judged by TLC (observation mode)
        lim = ctx.path("wit-%s-lim.ndjson" % d)
        with open(lim, "w") as f:
            f.writelines(open(wit).readlines()[:150 if quick else 600])
        obs = ctx.path("wit-%s-obs.ndjson" % d)
        r = ctx.vh(exe, ["replay", lim, obs, "all"], timeout=900)
        ctx.cov(traces_validated_against_impl=int(r.stats.get("behaviours", 0)), evaluations=int(r.stats.get("steps", 0)))
        st, violated = validate_all(ctx, sd, obs, int(r.stats.get("suspect_events", 0)), "C30/witness/" + d, [d],
                                    strict=False, what="counterexample of deviation `%s` replayed on the real storer" % d,
                                    all_clauses=False)
        if violated:
            present.append(d)
    ctx.cov(deviations_reproduced_on_real_code=present)
    _t(ctx, "witnesses of named deviations")
    # ---- R2a: one behaviour per transition of the state graph (bounded number of calls), code as it is
    open(os.path.join(sd, "gen.cfg"), "w").write(CFG % dict(
        base, spec="GenSpec", defects=q(present), log="LogAppend", depth=5 if quick else 6,
        keep="2" if quick else "2, 3", rest="VIEW cvars\nACTION_CONSTRAINT EmitEdge"))
    beh = ctx.path("edges.ndjson")
    g = ctx.tlc(sd, "MC_PruningStorer", "gen.cfg", timeout=2400, behaviours_out=beh)
    sus = ctx.path("suspects.ndjson")
    r = ctx.vh(exe, ["replay", beh, sus], timeout=2400)
    ctx.cov(traces_validated_against_impl=int(r.stats.get("behaviours", 0)), evaluations=int(r.stats.get("steps", 0)),
            distinct_nontrivial=int(r.stats.get("distinct_transitions", 0)))
    if g.ok and g.behaviours == 0:
        ctx.broken.append("behaviour export produced nothing")
    if int(r.stats.get("suspect_events", 0)) > 0:
        validate_all(ctx, sd, sus, int(r.stats.get("suspect_events", 0)), "C30/replay", present, strict=False,
                     what="replayed behaviour, observed run")
    _t(ctx, "R2a transition cover + replay")
    # ---- R2b: long random behaviours (2 keys, 2 values, 7 epochs, 1-3 active persisters, 2-4 epochs kept)
    open(os.path.join(sd, "sim.cfg"), "w").write(CFG % dict(
        base, spec="GenSpec", defects=q(present), log="LogAppend", depth=40, keys='"a", "b"', vals="1, 2", maxepoch=6,
        active="1, 2, 3", keep="2, 3, 4", prep="0, 1, 2, 3, 4, 5", rest="ACTION_CONSTRAINT EmitFull"))
    beh2 = ctx.path("sim.ndjson")
    ctx.tlc(sd, "MC_PruningStorer", "sim.cfg", simulate=8 if quick else 150, depth=40, timeout=1500, behaviours_out=beh2)
    sus2 = ctx.path("suspects2.ndjson")
    r2 = ctx.vh(exe, ["replay", beh2, sus2], timeout=2400)
    ctx.cov(traces_validated_against_impl=int(r2.stats.get("behaviours", 0)), evaluations=int(r2.stats.get("steps", 0)))
    if int(r2.stats.get("suspect_events", 0)) > 0:
        validate_all(ctx, sd, sus2, int(r2.stats.get("suspect_events", 0)), "C30/replay", present, strict=False,
                     what="replayed simulated behaviour, observed run")
    _t(ctx, "R2b simulation + replay")
    # ---- R3: random histories on the real storer (5 keys, 3 values, many epochs, stuck-shard extensions)
    tr = os.path.join(sd, "trace.ndjson")
    nt, ln = (12, 80) if quick else (150, 250)
    r3 = ctx.vh(exe, ["record", ctx.seed, nt, ln, tr])
    ne = int(r3.stats.get("events", 0))
    st, violated = validate_all(ctx, sd, tr, ne, "C30/trace", present, strict=True, what="PruningStorer trace")
    if st == "accepted":
        ctx.cov(traces_validated_against_impl=nt, evaluations=ne)
    if not quick and st == "accepted":
        def lost_answer(evs):          # a live key is not found by a plain read
            for e in evs:
                if e["a"] in ("SearchFirst", "Has") and e["out"].get("ok"):
                    e["out"]["ok"] = False
                    break
            return evs

        def kept_after_remove(evs):    # Remove leaves the key in one active persister
            for i, e in enumerate(evs):
                if e["a"] == "Remove" and i > 0 and len(evs[i - 1]["st"]["db"]) > len(e["st"]["db"]):
                    e["st"]["db"] = evs[i - 1]["st"]["db"]
                    break
            return evs
        for mode, name in (("TraceSpec", "t_strict.cfg"), ("TraceSpecObs", "t_obs.cfg")):
            open(os.path.join(sd, name), "w").write(TRACE_CFG % dict(spec=mode, defects=q(present), invs=" ".join(OBS_INVS)))
        for mut in (lost_answer, kept_after_remove):
            vlib.selftest_rejects(ctx, sd, "Trace_PruningStorer", "t_strict.cfg", tr, mut)
            vlib.selftest_rejects(ctx, sd, "Trace_PruningStorer", "t_obs.cfg", tr, mut)
    _t(ctx, "R3 record + trace validation")
    ctx.cov(rule="every transition of the PruningStorer specification's state graph reachable within 4-5 calls (1 key, every "
                 "NumOfActivePersisters/NumOfEpochsToKeep/ShouldClean configuration, epoch changes with and without a stuck "
                 "shard, duplicate epoch notifications, put-epoch changes, cache clears, Close) replayed on the real storer, "
                 "comparing the answer, the active list, epoch map, open persisters, cache, persister contents and the answers "
                 "of Has/SearchFirst/GetFromEpoch for every key and epoch after each call; distinct = distinct (configuration, "
                 "source state, call, arguments); plus TLC counterexamples of the two named deviations, simulated 40-call "
                 "behaviours and random real histories validated by TLC")
