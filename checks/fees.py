"""C21 / C22 -- fee arithmetic of process/economics/economicsData.go (family F, specs/Fees).

R1  Fees.tla model-checked exhaustively over small configuration x epoch x transaction domains: once as the intended
    design (KnownDefects = {}: every invariant holds) and once as the code is (KnownDefects = all named deviations:
    TLC must find the counterexamples, recorded in the evidence).
R2  TLC enumerates the same input space with the specification's expected outputs; vh-fees evaluates every case on a
    real economicsData (real builtInFunctionsCost, real GenericEpochNotifier) and compares.  Cases whose output differs
    are judged by TLC on the *observed* record (property invariants); a difference that keeps every invariant is drift.
R3  seeded random configurations / epoch changes / queries with numbers up to 2^31 on the real object, validated by
    TLC against Trace_Fees (strict: output = specification operator; every invariant on every observed record).
Known-deviation input classes ("legacy", "builtinAboveLimit") are judged by the InvK_ invariants in separate passes.
Supplementary: main-net scale numbers (beyond TLC's 32-bit integers) with the inequalities evaluated in Go.
"""
import os
import re
import subprocess
import vlib

PROPS = ["C21", "C22"]
FAMILY = "Fees"

CFG = """SPECIFICATION %(spec)s
CONSTANTS
  Cfgs <- MCCfgs
  Txs <- MCTxs
  Epochs = {%(epochs)s}
  GasUseds = {%(gasuseds)s}
  Refunds = {%(refunds)s}
  Balances = {%(balances)s}
  Kinds = {%(kinds)s}
  KnownDefects = {%(defects)s}
  Log <- %(log)s
  Depth = %(depth)d
  MinPrices = {%(minprices)s}
  MinLimits = {%(minlimits)s}
  PerBytes = {%(perbytes)s}
  MaxGases = {%(maxgases)s}
  Mods <- %(mods)s
  PenEpochs = {%(penepochs)s}
  ModEpochs = {%(modepochs)s}
  Supplies = {300}
  Prices = {%(prices)s}
  GasLimits = {%(gaslimits)s}
  DataLens = {%(datalens)s}
  Values = {%(values)s}
  BiPrices = {%(biprices)s}
  BiGasLimits = {%(bigaslimits)s}
  BiDataLens = {8, 11}
  BuiltIns = {%(builtins)s}
%(rest)s
CHECK_DEADLOCK FALSE
"""

ALL_DEFECTS = '"legacyGasUsedFee", "builtInAboveLimit"'
CORE = {"C21": ["Inv_C21_FeeBounds", "Inv_C21_GasUsedMonotone", "Inv_C21_GasUsedBelowFull", "Inv_C21_GasUsedReported",
                "Inv_C21_RefundExact"],
        "C22": ["Inv_C22_Affordable"]}
KNOWN = {"C21": {"legacy": ["InvK_C21_GasUsedBelowFull_legacy", "InvK_C21_GasUsedReported_legacy",
                            "InvK_C21_RefundExact_legacy"],
                 "builtinAboveLimit": ["InvK_C21_GasUsedReported_builtinAboveLimit",
                                       "InvK_C21_RefundExact_builtinAboveLimit"]},
         "C22": {}}
KINDS = {"C21": '"Fee", "GasUsed", "Refund"', "C22": '"Balance"'}

TRACE_CFG = """SPECIFICATION TraceSpec
CONSTANTS
  Cfgs = {}
  Epochs = {}
  Txs = {}
  GasUseds = {}
  Refunds = {}
  Balances = {}
  Kinds = {}
  KnownDefects = {%(defects)s}
  Log <- LogLast
  Strict = %(strict)s
CONSTRAINT HighWater
INVARIANTS %(invs)s
POSTCONDITION Accepted
CHECK_DEADLOCK FALSE
"""


def domains(prop, tier):
    q = tier == "quick"
    d = dict(epochs="0, 1, 2", gasuseds="0, 3, 4, 7, 12", refunds="0, 1, 3, 8", balances="0, 5, 17, 40, 90",
             minprices="1, 3", minlimits="2, 5", perbytes="0, 2" if q else "0, 1, 2", maxgases="60",
             mods="ModsQuick" if q else "ModsThorough",
             penepochs="1" if q else "0, 1, 2", modepochs="0, 2" if q else "0, 2, 3",
             prices="0, 1, 3, 6" if q else "0, 1, 2, 3, 5, 6", gaslimits="0, 2, 3, 6, 7, 12, 59, 60" if q else
             "0, 2, 3, 5, 6, 7, 9, 12, 13, 58, 59, 60",
             datalens="0, 1, 2", values="0, 7, 300, 301, 70000",
             biprices="3, 6", bigaslimits="3, 6, 9, 10, 11, 14, 17, 31, 59" if q else
             "3, 5, 6, 7, 9, 10, 11, 14, 15, 17, 20, 21, 31, 59",
             builtins="1, 4")
    if prop == "C22":
        d.update(balances="0, 1, 4, 5, 6, 7, 12, 17, 18, 19, 40, 41, 90, 307, 400, 2000",
                 prices="0, 1, 2, 3, 5, 6, 7", perbytes="0, 1, 2", values="0, 1, 7, 300, 301",
                 penepochs="1" if q else "0, 1, 2", mods="ModsThorough")
    if not q:
        d.update(epochs="0, 1, 2, 3")
    return d


def write_cfg(sd, name, prop, tier, **kw):
    d = domains(prop, tier)
    d.update(spec="Spec", log="LogLast", depth=0, defects="", kinds=KINDS[prop], rest="")
    d.update(kw)
    with open(os.path.join(sd, name), "w") as f:
        f.write(CFG % d)
    return name


def class_pass(ctx, sd, cls, invs, n_events, what):
    """observation-only pass over trace.ndjson (already staged) with the invariants of one known-deviation class"""
    with open(os.path.join(sd, "cls_%s.cfg" % cls), "w") as f:
        f.write(TRACE_CFG % dict(defects=ALL_DEFECTS, strict="FALSE", invs=" ".join(invs)))
    r = ctx.tlc(sd, "Trace_Fees", "cls_%s.cfg" % cls, workers=1, timeout=600, count=False,
                allow=("invariant", "postcondition"))
    if r.ok:
        return
    if r.error.startswith("invariant:"):
        inv = r.error.split(":", 1)[1]
        lines = open(os.path.join(sd, "trace.ndjson")).read().splitlines()
        ln = (r.last_l - 1) if r.last_l else None
        ev = lines[ln - 1][:1200] if ln and 1 <= ln <= len(lines) else None
        ctx.violation("%s/trace/%s" % (ctx.prop, inv),
                      "%s: %s is false on a record observed from the real economicsData (line %s: %s)"
                      % (what, inv, ln, ev), {"line": ln, "event": ev})
    else:
        ctx.broken.append("class pass %s: %s\n%s" % (cls, r.error, r.text(20)))


def validate(ctx, sd, trace, n_events, what):
    """strict pass with the core invariants, then one observation pass per known-deviation class"""
    prop = ctx.prop
    with open(os.path.join(sd, "strict.cfg"), "w") as f:
        f.write(TRACE_CFG % dict(defects=ALL_DEFECTS, strict="TRUE", invs=" ".join(CORE[prop])))
    with open(os.path.join(sd, "obs.cfg"), "w") as f:
        f.write(TRACE_CFG % dict(defects=ALL_DEFECTS, strict="FALSE", invs=" ".join(CORE[prop])))
    st, line = vlib.validate_trace(ctx, sd, "Trace_Fees", "strict.cfg", trace, n_events, prop + "/trace",
                                   divergence_is_violation=False, what=what, obs_cfg="obs.cfg")
    for cls, invs in sorted(KNOWN[prop].items()):
        if ctx.quick:
            class_pass(ctx, sd, cls, invs, n_events, what)
            continue
        for inv in invs:        # one pass per invariant: TLC stops at the first violation, a known one must not hide another
            class_pass(ctx, sd, cls + "_" + inv, [inv], n_events, what)
    return st


def apalache(ctx, sd, lemmas):
    """discharge the inequalities of FeesLemmas.tla for unbounded Int (--length=0). A stall is only noted; a violated
    lemma is a model-level counterexample (never a verdict about the code) -> the check reports itself broken."""
    res = {}
    out = os.path.join(ctx.scratch, "apalache-out")
    for inv in ["VacuityProbe"] + lemmas:
        try:
            p = subprocess.run(["timeout", "-s", "KILL", "300", "apalache-mc", "check", "--length=0", "--inv=" + inv,
                                "--out-dir=" + out, "FeesLemmas.tla"], cwd=sd, stdout=subprocess.PIPE,
                               stderr=subprocess.STDOUT, universal_newlines=True)
            m = re.search(r"The outcome is: (\w+)", p.stdout)
            res[inv] = m.group(1) if m else ("timeout" if p.returncode in (137, 124) else "unknown(rc=%d)" % p.returncode)
        except OSError as e:
            res[inv] = "not-run(%s)" % e
    if res.get("VacuityProbe") == "NoError":
        ctx.broken.append("Apalache: the vacuity probe of FeesLemmas.tla holds, i.e. Init is unsatisfiable where it matters")
    for inv in lemmas:
        if res.get(inv) == "Error":
            ctx.broken.append("Apalache: lemma %s of FeesLemmas.tla has a counterexample over unbounded Int (model-level)" % inv)
    ctx.cov(apalache_unbounded_int_lemmas={k: v for k, v in res.items() if k != "VacuityProbe"},
            apalache_vacuity_probe_violated=(res.get("VacuityProbe") == "Error"))


def run(ctx):
    prop, q = ctx.prop, ctx.quick
    sd = ctx.stage()
    ctx.assume("specification: specs/Fees/Fees.tla (one action per public call of economicsData; arithmetic written "
               "branch by branch like the Go code)",
               "minGasPrice * gasPriceModifier >= 1, i.e. the processing gas price of a valid transaction is >= 1 "
               "(otherwise ComputeGasUsedAndFeeBasedOnRefundValue / ComputeGasLimitBasedOnBalance divide by zero)",
               "TLC integers are 32-bit: R1/R2/R3 use numbers whose products stay below 2^31; main-net scale numbers "
               "are covered only by the supplementary Go evaluation of the same inequalities",
               "refund domain: 0 <= refund <= full fee - move-balance fee; gas-used domain: gasUsed <= gasLimit; "
               "the call is made for ordinary transactions (not smart-contract results)",
               "the processing price is float64(price)*modifier truncated: the specification takes the price the code "
               "reports and only requires it to be within 1 of floor(price*num/den) and <= price",
               "trusted: TLC, encoding/json, the projection code in harness/cmd/vh-fees")
    invs = CORE[prop] + [i for v in KNOWN[prop].values() for i in v]
    # ---- R1: intended design, exhaustive
    write_cfg(sd, "r1.cfg", prop, ctx.tier, rest="INVARIANTS TypeOK " + " ".join(invs))
    dev = bool(os.environ.get("VERIF_DEV_SKIP_R1"))     # mutation-testing aid only: skips the code-independent R1 runs
    r1 = vlib.TlcResult() if dev else ctx.tlc(sd, "MC_Fees", "r1.cfg", timeout=1500, coverage=not q)
    if not q and r1.ok and r1.coverage_zero:
        ctx.broken.append("vacuity guard: actions/expressions never evaluated in R1: %s" % sorted(set(r1.coverage_zero))[:10])
    # ---- R1 with the code's named deviations: TLC must find the counterexamples
    if KNOWN[prop] and not dev:
        found = []
        for cls, kinvs in sorted(KNOWN[prop].items()):
            write_cfg(sd, "r1d.cfg", prop, "quick", defects=ALL_DEFECTS, rest="INVARIANTS " + " ".join(kinvs))
            rd = ctx.tlc(sd, "MC_Fees", "r1d.cfg", timeout=900, count=False, allow=("invariant",))
            if rd.error and rd.error.startswith("invariant:"):
                found.append(rd.error.split(":", 1)[1])
            else:
                ctx.broken.append("R1 with KnownDefects: TLC found no counterexample for class %s (%s)" % (cls, rd.error))
        ctx.cov(r1_counterexamples_with_known_defects=found)
    exe = ctx.go_build("vh-fees")
    # ---- R2: TLC-enumerated inputs + expected outputs evaluated on the real economicsData
    gd = dict(epochs="1, 2" if q else "0, 1, 2")       # the state after New is the epoch-0 state
    if q:   # the quick tier enumerates a sub-domain for R2 (R1 above covers the full quick domain)
        gd.update(minprices="3", minlimits="2", prices="1, 3, 6" if prop == "C21" else "1, 2, 3, 6", mods="ModsGen")
    # thorough: R2 enumerates the whole quick R1 domain (the thorough R1 domain is too large to export)
    write_cfg(sd, "gen.cfg", prop, "quick", spec="GenSpec", log="LogAppend", depth=3, defects=ALL_DEFECTS,
              rest="ACTION_CONSTRAINT EmitEdge", **gd)
    beh = ctx.path("cases.ndjson")
    g = ctx.tlc(sd, "MC_Fees", "gen.cfg", timeout=1500, behaviours_out=beh, count=False)
    if g.ok and g.behaviours == 0:
        ctx.broken.append("behaviour export produced nothing")
    mism, clsev = ctx.path("mismatch.ndjson"), ctx.path("classes.ndjson")
    h = ctx.vh(exe, ["eval", beh, mism, clsev, 150 if q else 400, 40 if q else 100], timeout=1500)
    ctx.cov(traces_validated_against_impl=int(h.stats.get("behaviours", 0)), evaluations=int(h.stats.get("queries", 0)),
            distinct_nontrivial=int(h.stats.get("distinct", 0)), code_paths_distinguished=int(h.stats.get("branches", 0)),
            r2_outputs_differing_from_spec=int(h.stats.get("mismatches", 0)))
    if int(h.stats.get("mismatches", 0)) > 0:
        # the real output differs from the specification's: TLC judges the observed records (invariants only)
        with open(os.path.join(sd, "judge.cfg"), "w") as f:
            f.write(TRACE_CFG % dict(defects=ALL_DEFECTS, strict="FALSE", invs=" ".join(CORE[prop])))
        vlib.validate_trace(ctx, sd, "Trace_Fees", "judge.cfg", mism, int(h.stats.get("mismatch_events", 0)),
                            prop + "/r2", divergence_is_violation=False, what="R2 case evaluated on the real economicsData")
    # ---- R3: random real histories (+ the R2 cases of the known-deviation classes + a sample of R2) validated by TLC
    seeds = [ctx.seed] if q else [ctx.seed, ctx.seed + 100, ctx.seed + 200]
    tr = os.path.join(sd, "trace.ndjson")
    n_ev = 0
    with open(tr, "w") as out:
        for i, sdv in enumerate(seeds):
            part = ctx.path("rec%d.ndjson" % i)
            r3 = ctx.vh(exe, ["record", sdv, 30 if q else 150, 120 if q else 200, part, KINDS[prop].replace('"', "").replace(" ", "")])
            n_ev += int(r3.stats.get("events", 0))
            ctx.cov(traces_validated_against_impl=int(r3.stats.get("traces", 0)), evaluations=int(r3.stats.get("queries", 0)))
            out.write(open(part).read())
        out.write(open(clsev).read())
        n_ev += int(h.stats.get("class_events", 0))
    st = validate(ctx, sd, tr, n_ev, "economicsData trace")
    # ---- supplementary: main-net scale numbers, the same inequalities evaluated in Go (big.Int)
    rs = ctx.vh(exe, ["real", ctx.seed, 60 if q else 600], timeout=900)
    ctx.cov(supplementary_real_scale_cases=int(rs.stats.get("real_scale_cases", 0)))
    # ---- the pure inequalities for unbounded integers (Apalache, typed copy FeesLemmas.tla), thorough tier only
    if not q:
        apalache(ctx, sd, {"C21": ["FeeBounds", "GasUsedMonotone", "GasUsedBelowFull", "RefundGasUsed"], "C22": ["Affordable"]}[prop])
    # ---- binding self-test
    if not q and st == "accepted":
        def corrupt_functional(evs):
            for e in evs:
                if prop == "C21" and e["a"] == "Fee" and e["out"]["valid"] == "ok":
                    e["out"]["fee"] += 1
                    return evs
                if prop == "C22" and e["a"] == "Balance" and e["out"]["err"] == "ok":
                    e["out"]["gl"] += 1
                    return evs
            return evs

        def corrupt_property(evs):
            for e in evs:
                if prop == "C21" and e["a"] == "Refund" and e["out"]["valid"] == "ok" and e["in"]["r"] > 0:
                    e["out"]["gasUsed"] = e["in"]["tx"]["gl"] + 1
                    return evs
                if prop == "C22" and e["a"] == "Balance" and e["out"]["err"] == "ok":
                    e["out"]["feeAt"] = e["in"]["bal"] - e["in"]["tx"]["value"] + 1
                    return evs
            return evs
        vlib.selftest_rejects(ctx, sd, "Trace_Fees", "strict.cfg", tr, corrupt_functional)
        vlib.selftest_rejects(ctx, sd, "Trace_Fees", "obs.cfg", tr, corrupt_property)
    ctx.cov(rule="R2: every (configuration, epoch history, call, input) of the TLC domain evaluated on a real economicsData and "
                 "compared with the specification's output; distinct = distinct (cfg, epoch, call, input); "
                 "code_paths_distinguished = distinct (flags, call, validity class, built-in/refund/all-gas-used branch); "
                 "R3: random configurations and inputs up to 2^31 validated by TLC (strict + invariants)")
