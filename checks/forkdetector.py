"""C20 -- fork choice is stable (independent of arrival order) and respects finality (family B, specs/ForkDetector)."""
import os
import time
import vlib

PROPS = ["C20"]
FAMILY = "ForkDetector"

CFG = """SPECIFICATION %(spec)s
CONSTANTS
  Kinds = {"shard", "meta"}
  Universes <- %(univ)s
  RoundVals = {%(rounds)s}
  RollNonces = {%(roll)s}
  MaxList = %(maxlist)d
  NotaLists = %(nota)d
  Log <- %(log)s
  Depth = %(depth)d
  EmitDepth = %(emit)d
%(twin)s%(rest)s
CHECK_DEADLOCK FALSE
"""


def cfg(sd, name, **kw):
    d = dict(univ="MCUniversesQuick", rounds="1, 2, 3, 15", roll="1", maxlist=3, nota=0, log="LogLast", depth=4,
             emit=0, twin="", rest="")
    d.update(kw)
    if d.get("groups") is not None:
        d["twin"] = "  MaxGroups = %d\n" % d["groups"]
    with open(os.path.join(sd, name), "w") as f:
        f.write(CFG % d)
    return name


def run(ctx):
    sd = ctx.stage()
    q = ctx.quick
    t0 = [time.time()]

    def lap(name):
        ctx.notes.append("%s: %.0fs" % (name, time.time() - t0[0]))
        t0[0] = time.time()
    ctx.assume(
        "ForkDetectorOps.tla is a statement-by-statement transcription of baseForkDetector/shardForkDetector/"
        "metaForkDetector; every call of the public API is one atomic step (the detectors' two mutexes are not modelled, "
        "calls are replayed sequentially)",
        "hashes are interned as small integers whose order is the lexicographic order of the 32-byte hashes the harness "
        "uses; header universes are small fixed sets (<= 6 headers exhaustively, <= 12 in simulation, random <= 18 in "
        "trace validation); rounds <= 40",
        "environment stubs: process/mock.RoundHandlerMock (round index set by the driver), real storage/timecache "
        "black list with a one hour span (no expiry within a run), process/mock.BlockTrackerMock (genesis nonce 0 round 0)",
        "C20b is checked for permutations of competing received headers (same nonce) that arrive back to back within "
        "one round; arrival at different rounds legitimately matters (too-late rule)",
        "a difference between the real detector and the specification that does not falsify C20a/C20b is reported as "
        "drift, not as a violation")
    exe = ctx.go_build("vh-forkdetector")
    lap("build")
    inv1 = "INVARIANTS Inv_C20a Inv_StateOK Inv_ForkNamesCompetitor"
    inv2 = "INVARIANTS Inv_C20b Inv_TwinFinal Inv_C20a"
    if not q:
        # ---- R1 (thorough): deeper exhaustive runs, no export; -coverage as vacuity guard
        cfg(sd, "r1.cfg", spec="BoundedSpec", univ="MCUniverses", rounds="1, 2, 3, 15", depth=5, nota=0,
            rest="VIEW cvars\n" + inv1)
        c = ctx.tlc(sd, "MC_ForkDetector", "r1.cfg", timeout=3000, coverage=True)
        if c.ok and c.coverage_zero:
            ctx.broken.append("vacuity: never evaluated in r1: %s" % sorted(set(c.coverage_zero))[:8])
        cfg(sd, "t1.cfg", spec="BoundedSpec", univ="MCUniverses", maxlist=4, rounds="2, 15", depth=5, groups=2,
            rest="VIEW cvars\n" + inv2)
        ctx.tlc(sd, "MC_ForkTwin", "t1.cfg", timeout=3000)
    lap("R1 deep")
    # ---- R1 + R2a: exhaustive within the depth bound with all invariants; one behaviour per transition of the abstract
    #      state graph (up to EmitDepth) is exported and replayed on the real detectors
    cfg(sd, "gen.cfg", spec="GenSpec", log="LogAppend", univ="MCUniversesQuick" if q else "MCUniverses",
        rounds="2, 15" if q else "2, 3, 15", depth=4, emit=3 if q else 4, nota=0,
        rest="VIEW cvars\nACTION_CONSTRAINT EmitEdge\n" + inv1)
    beh = ctx.path("edges.ndjson")
    g = ctx.tlc(sd, "MC_ForkDetector", "gen.cfg", timeout=3000, behaviours_out=beh)
    if g.ok and g.behaviours == 0:
        ctx.broken.append("behaviour export produced nothing")
    r = ctx.vh(exe, ["replay", beh], timeout=1800)
    ctx.cov(traces_validated_against_impl=int(r.stats.get("behaviours", 0)), evaluations=int(r.stats.get("steps", 0)),
            distinct_nontrivial=int(r.stats.get("distinct_transitions", 0)),
            checkfork_observations=int(r.stats.get("checkfork_observations", 0)),
            distinct_forks_reported=int(r.stats.get("distinct_forks_reported", 0)))
    if r.stats and int(r.stats.get("distinct_forks_reported", 0)) == 0:
        ctx.broken.append("vacuous: no replayed behaviour made the real detector report a fork")
    lap("edges+replay")
    # ---- R1 + R2b: the twin product (C20b for every permutation of <= 3 competing headers and every continuation
    #      within the bound); behaviours that contain a permuted group are replayed on two real detectors each
    cfg(sd, "tgen.cfg", spec="GenSpec", log="LogAppend", univ="MCUniversesQuick" if q else "MCUniverses", maxlist=4,
        rounds="2, 15", depth=3 if q else 4, emit=3 if q else 4, groups=1,
        rest="VIEW cvars\nACTION_CONSTRAINT EmitTwinEdge\n" + inv2)
    tbeh = ctx.path("twins.ndjson")
    ctx.tlc(sd, "MC_ForkTwin", "tgen.cfg", timeout=3000, behaviours_out=tbeh)
    t = ctx.vh(exe, ["twin", tbeh], timeout=1800, count_samples=False)
    ctx.cov(traces_validated_against_impl=int(t.stats.get("behaviours", 0)), evaluations=int(t.stats.get("steps", 0)),
            twin_states_with_fork=int(t.stats.get("twin_states_with_fork", 0)))
    if t.stats and int(t.stats.get("twin_states_with_fork", 0)) == 0:
        ctx.broken.append("vacuous: no twin behaviour reached a state in which a fork is reported")
    # ---- named deviation "black-list-order": a competitor whose parent is another (invalid, black-listed) member of the
    #      group is stored only when it arrives before that parent.  R1 on the universe that contains such a pair: the strict
    #      Inv_C20b must FAIL (TLC runs with -continue so that the export is complete), Inv_C20b_ModuloBlackList must hold;
    #      the twins are replayed: the real detectors reproduce it -> known finding with its own signature
    cfg(sd, "dgen.cfg", spec="GenSpec", log="LogAppend", univ="MCUniversesDefect", maxlist=4, rounds="2, 15", depth=3,
        emit=3, groups=1, rest="VIEW cvars\nACTION_CONSTRAINT EmitTwinEdge\nINVARIANTS Inv_C20b_ModuloBlackList Inv_C20a Inv_C20b")
    dbeh = ctx.path("dtwins.ndjson")
    dr = ctx.tlc(sd, "MC_ForkTwin", "dgen.cfg", timeout=1200, behaviours_out=dbeh, count=False, extra=["-continue"],
                 allow=("invariant:Inv_C20b",))
    if dr.error != "invariant:Inv_C20b":
        ctx.broken.append("the black-list-order deviation is modelled but TLC did not find the Inv_C20b counterexample (%s)" % dr.error)
    else:
        ctx.cov(r1_counterexample_black_list_order="Inv_C20b violated on MCUniversesDefect (expected: deviation of the code "
                                                   "as it is); Inv_C20b_ModuloBlackList and Inv_C20a hold")
    td = ctx.vh(exe, ["twin", dbeh], timeout=600, count_samples=False)
    ctx.cov(traces_validated_against_impl=int(td.stats.get("behaviours", 0)), evaluations=int(td.stats.get("steps", 0)))
    lap("twins+replay")
    # ---- R2c: long simulated behaviours over the larger universes (single and twin)
    cfg(sd, "sim.cfg", spec="SimSpec", log="LogAppend", univ="MCUniversesSim", rounds="1, 2, 3, 4, 5, 6, 15, 20, 40",
        roll="1, 2", maxlist=5, nota=0 if q else 1, depth=25, rest="ACTION_CONSTRAINT EmitFull")
    sbeh = ctx.path("sim.ndjson")
    ctx.tlc(sd, "MC_ForkDetector", "sim.cfg", simulate=30 if q else 1000, depth=25, timeout=1800, behaviours_out=sbeh,
            count=False)
    r2 = ctx.vh(exe, ["replay", sbeh], timeout=1800, count_samples=False)
    ctx.cov(traces_validated_against_impl=int(r2.stats.get("behaviours", 0)), evaluations=int(r2.stats.get("steps", 0)))
    cfg(sd, "tsim.cfg", spec="SimSpec", log="LogAppend", univ="MCUniversesSim", rounds="1, 2, 3, 4, 5, 6, 15, 20",
        roll="1, 2", maxlist=6, nota=0 if q else 1, depth=14, groups=3, rest="ACTION_CONSTRAINT EmitTwinFull")
    tsbeh = ctx.path("tsim.ndjson")
    ctx.tlc(sd, "MC_ForkTwin", "tsim.cfg", simulate=60 if q else 3000, depth=14, timeout=1800, behaviours_out=tsbeh,
            count=False)
    t2 = ctx.vh(exe, ["twin", tsbeh], timeout=1800, count_samples=False)
    ctx.cov(traces_validated_against_impl=int(t2.stats.get("behaviours", 0)), evaluations=int(t2.stats.get("steps", 0)))
    lap("simulation+replay")
    # ---- R3: random histories on real detectors over random universes, validated by TLC (Inv_C20a on every state)
    tr = os.path.join(sd, "trace.ndjson")
    nt, ln = (10, 60) if q else (200, 200)
    r3 = ctx.vh(exe, ["record", ctx.seed, nt, ln, tr], count_samples=False)
    st, line = vlib.validate_trace(ctx, sd, "Trace_ForkDetector", "Trace_ForkDetector.cfg", tr,
                                   int(r3.stats.get("events", 0)), "C20/trace", divergence_is_violation=False,
                                   what="fork detector trace", timeout=1800)
    if st == "accepted":
        ctx.cov(traces_validated_against_impl=nt, evaluations=int(r3.stats.get("events", 0)))
    if not q and st == "accepted":
        def corrupt(evs):
            for e in evs:
                if e["a"] == "AddHeader" and e["st"]["chk"]["det"]:
                    e["st"]["chk"]["h"] = e["st"]["chk"]["h"] + 1     # another competitor selected
                    break
            return evs
        vlib.selftest_rejects(ctx, sd, "Trace_ForkDetector", "Trace_ForkDetector.cfg", tr, corrupt)
    lap("trace validation")
    ctx.cov(rule="R2: every transition of ForkDetector.tla's state graph within the depth bound (shard and meta detector, "
                 "universes with same-round competitors / later-epoch competitors / black-listed parents / 3-nonce chains; "
                 "received, processed, proposed, notarized, remove, resets, roll back, round jumps) replayed on the real "
                 "detector comparing AddHeader error, CheckFork answer, final nonce+hash, probable highest nonce, "
                 "notarized hashes after every step; C20a evaluated literally on every real CheckFork answer; twin "
                 "behaviours (permuted arrival of 2..3 competing headers) on two real detectors compared with each other "
                 "after every step; distinct = distinct (configuration, projected source state, action, arguments)")
