"""C42 -- per-peer flood quotas are enforced (family N, specs/Quota)."""
import os
import vlib

PROPS = ["C42"]
FAMILY = "Quota"

CFG = """SPECIFICATION %(spec)s
CONSTANTS
  Peers = {%(peers)s}
  Sizes = {%(sizes)s}
  ConsensusSizes = {%(cs)s}
  Configs <- MCConfigs
  MaxRecv = %(maxrecv)d
  Bases = {%(bases)s}
  MaxSizes = {%(maxsizes)s}
  PrTs = {%(prts)s}
  Thrs = {%(thrs)s}
  FQs = {%(fqs)s}
  WithInvalid = %(invalid)s
  Depth = %(depth)d
  Log <- %(log)s
%(rest)s
CHECK_DEADLOCK FALSE
"""
INVS = "INVARIANTS TypeOK Inv_C42_Num Inv_C42_Size Inv_Bookkeeping Inv_Reserved"


def run(ctx):
    sd = ctx.stage()
    q = ctx.quick
    ctx.assume("the cacher holding the per-peer quota entries is large enough for all peers seen between two resets "
               "(real LRU cache with 1000 slots in the harness): an evicted entry would restart that peer's quota",
               "message quota = the computed maximum (base + consensus-size increase); when ApplyConsensusSize changes "
               "it between two resets the bound is the largest value in force since the last reset; byte quota = "
               "MaxTotalSizePerPeer; the reserved percentage only lowers what is accepted (lemma Inv_Reserved, R1 only)",
               "PercentReserved in steps of 0.1 and IncreaseFactor in steps of 0.25 (exactly representable / far from a "
               "float32 rounding border); counters < 2^31 (uint32/uint64 wrap-around is out of TLC's reach)",
               "IncreaseLoad is one atomic step in the model (lookup + decision + update in one critical section); the "
               "concurrent stage calls the real IncreaseLoad from 8 goroutines and checks the same bounds on the totals of "
               "every reset window (first size = largest accepted size, an upper bound of the first one)")

    def write(name, **kw):
        d = dict(spec="Spec", peers="1, 2", sizes="0, 1, 3, 5", cs="0, 2, 3", maxrecv=3, bases="1, 2", maxsizes="1, 4",
                 prts="0, 500", thrs="2", fqs="4", invalid="TRUE", depth=0, log="LogLast", rest="VIEW cvars\n" + INVS)
        d.update(kw)
        open(os.path.join(sd, name), "w").write(CFG % d)

    # ---- R1: all histories within the bounds, all configurations
    write("r1.cfg", **({} if q else dict(maxrecv=4, thrs="0, 2", fqs="0, 2, 4", prts="0, 125, 500", cs="0, 1, 2, 3")))
    ctx.tlc(sd, "MC_Quota", "r1.cfg", timeout=2400, coverage=not q)

    exe = ctx.go_build("vh-quota")
    traces = []

    def replay(beh, name, every):
        tr = ctx.path(name)
        h = ctx.vh(exe, ["replay", beh, tr, every], timeout=1200)
        ctx.cov(traces_validated_against_impl=int(h.stats.get("behaviours", 0)), evaluations=int(h.stats.get("steps", 0)),
                distinct_nontrivial=int(h.stats.get("distinct", 0)),
                results_equal_prediction=int(h.stats.get("results_equal_prediction", 0)),
                results_differ=int(h.stats.get("results_differ", 0)),
                runs_handed_to_tlc=int(h.stats.get("runs_logged", 0)))
        traces.append((tr, int(h.stats.get("events", 0))))

    # ---- R2a: one behaviour per transition of the abstract state graph
    gen = dict(spec="GenSpec", log="LogAppend", rest="VIEW cvars\nACTION_CONSTRAINT EmitEdge")
    write("gen.cfg", **dict(gen, sizes="1, 3, 5" if q else "0, 1, 3, 5", cs="2, 3" if q else "0, 2, 3",
                            maxsizes="4", depth=8 if q else 9))
    beh = ctx.path("edges.ndjson")
    g = ctx.tlc(sd, "MC_Quota", "gen.cfg", timeout=1800, behaviours_out=beh, count=False)
    if g.ok and g.behaviours == 0:
        ctx.broken.append("behaviour export produced nothing")
    replay(beh, "trace-edges.ndjson", 40)
    # ---- R2b: long random behaviours, wider configurations (fractional reserve, factors 0.5 / 1.5, threshold 0)
    write("sim.cfg", spec="GenSpec", log="LogAppend", rest="ACTION_CONSTRAINT EmitFull", peers="1, 2, 3",
          sizes="0, 1, 2, 3, 5, 9", cs="0, 1, 2, 3, 5", maxrecv=9, bases="1, 2, 3", maxsizes="1, 4, 8",
          prts="0, 5, 125, 500, 900", thrs="0, 2", fqs="0, 2, 4, 6", depth=30)
    beh2 = ctx.path("sim.ndjson")
    ctx.tlc(sd, "MC_Quota", "sim.cfg", simulate=30 if q else 300, depth=30, timeout=900, behaviours_out=beh2, count=False)
    replay(beh2, "trace-sim.ndjson", 10)
    # ---- R3: random histories with real-scale numbers on the real preventer
    tr = ctx.path("trace-rand.ndjson")
    nt, ln = (30, 250) if q else (300, 400)
    h = ctx.vh(exe, ["record", ctx.seed, nt, ln, tr], timeout=900)
    traces.append((tr, int(h.stats.get("events", 0))))
    ctx.cov(traces_validated_against_impl=nt, evaluations=int(h.stats.get("steps", 0)), distinct_nontrivial=nt)
    # ---- TLC: strict validation; on divergence the observation-only pass evaluates Inv_C42_* on the observed accounting
    allp = ctx.path("observations.ndjson")
    with open(allp, "w") as f:
        for t, _ in traces:
            f.write(open(t).read())
    nev = sum(ev for _, ev in traces)
    st, line = vlib.validate_trace(ctx, sd, "Trace_Quota", "Trace_Quota.cfg", allp, nev, "C42/observed",
                                   divergence_is_violation=False, what="real quotaFloodPreventer run", timeout=1500,
                                   obs_cfg="Trace_QuotaObs.cfg")
    # ---- concurrent stage: IncreaseLoad from 8 goroutines at once right after each Reset; TLC evaluates the C42 bounds
    #      on the accepted totals of every (reset window, peer)
    trc = ctx.path("trace-concurrent.ndjson")
    hc = ctx.vh(exe, ["concurrent", ctx.seed, 1200 if q else 12000, trc], timeout=900)
    ctx.cov(traces_validated_against_impl=int(hc.stats.get("windows", 0)), evaluations=int(hc.stats.get("calls", 0)),
            concurrent_windows=int(hc.stats.get("windows", 0)),
            concurrent_windows_with_more_than_one_accepted=int(hc.stats.get("windows_with_more_than_one_accepted", 0)))
    vlib.validate_trace(ctx, sd, "Trace_Quota", "Trace_QuotaObs.cfg", trc, int(hc.stats.get("events", 0)), "C42/concurrent",
                        divergence_is_violation=False, what="concurrent IncreaseLoad calls (totals of a reset window)",
                        timeout=900)
    if not q:
        exer = ctx.go_build("vh-quota", race=True)
        ctx.vh(exer, ["concurrent", ctx.seed, 600, ctx.path("trace-concurrent-race.ndjson")], timeout=900,
               env={"GORACE": "halt_on_error=0 exitcode=66"})
    if not q and st == "accepted":
        def accept_everything(evs):
            # the trace with the most rejections: pretend every message was accepted
            rej = {}
            for e in evs:
                if e["a"] == "IncreaseLoad" and not e["out"]["ok"]:
                    rej[e["t"]] = rej.get(e["t"], 0) + 1
            t = max(rej, key=rej.get)
            for e in evs:
                if e["t"] == t and e["a"] == "IncreaseLoad":
                    e["out"]["ok"] = True
            return evs
        vlib.selftest_rejects(ctx, sd, "Trace_Quota", "Trace_QuotaObs.cfg", tr, accept_everything)

        def one_flip(evs):
            for e in evs:
                if e["a"] == "IncreaseLoad" and not e["out"]["ok"]:
                    e["out"]["ok"] = True
                    break
            return evs
        vlib.selftest_rejects(ctx, sd, "Trace_Quota", "Trace_Quota.cfg", tr, one_flip)
    ctx.cov(rule="behaviours = call sequences New(config) / IncreaseLoad(peer, size) / Reset / ApplyConsensusSize(n) generated "
                 "by TLC from Quota.tla: one per transition of the abstract state graph (2 peers, sizes below/at/above the "
                 "byte quota, reserved 0 % and 50 %, consensus sizes that raise and lower the quota, configurations the "
                 "constructor must reject) plus simulated 30-step behaviours over 3 peers and fractional reserve / "
                 "factors; each is executed on the real quotaFloodPreventer comparing every accept/reject and the "
                 "statistics reported at Reset; plus seeded random real-scale histories validated by Trace_Quota; "
                 "distinct = distinct (configuration, call history)")
