"""C38 -- delegation contract bookkeeping stays consistent (family V, specs/Delegation).

R1  Delegation.tla model-checked exhaustively to a depth bound (a) as designed: the five clauses of C38 hold;
    (b) as coded (named deviation "StaleCheckpoint"): TLC must find the counterexample to the rewards clause.
R2  TLC behaviours (transition cover + long simulated walks) executed on the REAL delegation contract, created through
    the real delegation manager and staking through the real validator SC on a real vmContext; result, value paid to the
    caller and the storage projection compared with the prediction after every call; behaviours whose real run differs
    are handed to TLC as observed traces.
R3  seeded random histories on the real contract validated by TLC against Trace_Delegation; every clause of C38 is
    evaluated by TLC on every observed state.
"""
import json
import os
import shutil
import vlib

import time


def timed(ctx, name, f, *a, **kw):
    t0 = time.time()
    r = f(*a, **kw)
    ctx.notes.append("stage %s %.0fs" % (name, time.time() - t0))
    return r


PROPS = ["C38"]
FAMILY = "Delegation"

KNOWN_SIG = "C38/computeAndUpdateRewards/no-active-fund/stale-checkpoint-overpays"
INVS = "Inv_C38_active Inv_C38_unstaked Inv_C38_refs Inv_C38_withdrawn M_rewards M_rewards_owed_obs"
MC_INVS = "TypeOK Inv_C38_active Inv_C38_unstaked Inv_C38_withdrawn Inv_C38_rewards Inv_C38_rewards_owed"
GEN_INVS = "Inv_C38_active Inv_C38_unstaked Inv_C38_withdrawn M_rewards M_rewards_owed"

MC_CFG = """SPECIFICATION %(spec)s
CONSTANTS
  D = {"o", "x", "y"}
  Owner = "o"
  Confs <- %(confs)s
  Amounts = {%(amounts)s}
  RewardVals = {%(rewards)s}
  Fees = {%(fees)s}
  Caps = {%(caps)s}
  MaxEpoch = %(maxepoch)d
  MaxTotal = %(maxtotal)d
  MaxRew = %(maxrew)d
  KnownDefects <- %(defects)s
  FixChoices <- CodeAsIs
  Log <- %(log)s
  Depth = %(depth)d
%(rest)s
CHECK_DEADLOCK FALSE
"""

TRACE_CFG = """SPECIFICATION %(spec)s
CONSTANTS
  D = {%(ds)s}
  Owner = "o"
  Confs = {}
  Amounts = {}
  RewardVals = {}
  Fees = {}
  Caps = {}
  MaxEpoch = 0
  MaxTotal = 0
  MaxRew = 0
  KnownDefects <- StaleCheckpointDefect
  FixChoices <- Either
  Log <- LogLast
CONSTRAINT HighWater
INVARIANTS %(invs)s
POSTCONDITION Accepted
CHECK_DEADLOCK FALSE
"""


def mc_cfg(sd, name, **kw):
    d = dict(spec="MCSpec", confs="ConfsTiny", amounts="2, 3, 5", rewards="0, 6", fees="0", caps="0", maxepoch=3,
             maxtotal=10, maxrew=2, defects="NoDefects", log="LogLast", depth=6, rest="VIEW cvars")
    d.update(kw)
    open(os.path.join(sd, name), "w").write(MC_CFG % d)
    return name


def validate(ctx, sd, trace_path, n_events, what, timeout=900, ds='"o", "x", "y"'):
    """strict validation of an observed trace, observation-only pass on divergence (see checks/staking.py)."""
    dst = os.path.join(sd, "trace.ndjson")
    if os.path.abspath(trace_path) != os.path.abspath(dst):
        shutil.copy(trace_path, dst)
    lines = open(dst).read().splitlines()

    def at(n):
        return lines[n - 1][:1200] if n is not None and 1 <= n <= len(lines) else None

    def action(n):
        try:
            return json.loads(lines[n - 1])["a"]
        except Exception:
            return "?"

    def report(r, mode):
        kd = sorted(int(k[2:]) for k in r.marks if k.startswith("KD"))
        if kd:
            ctx.cov(known_deviation_observed=len(kd))
            ln = kd[0]
            ctx.violation(KNOWN_SIG, "%s: a delegator whose active fund had been emptied delegated again with a RewardsCheckpoint that was "
                          "not advanced while it had no stake; rewards paid + owed exceed rewards received on the observed state "
                          "(trace line %d: %s)" % (what, ln, at(ln)),
                          {"trace_file": vlib.keep_file(ctx, dst), "line": ln, "occurrences": len(kd)})
        if r.error and (r.error.startswith("invariant:") or r.error.startswith("property:")):
            inv = r.error.split(":", 1)[1]
            ln = (r.last_l - 1) if r.last_l else None
            ctx.violation("C38/%s/%s" % (inv.replace("M_", "Inv_C38_"), action(ln) if ln else "?"),
                          "%s (%s): %s is false on a state observed from the real delegation contract after %s (trace line %s: %s)"
                          % (what, mode, inv, action(ln) if ln else "?", ln, at(ln)),
                          {"trace_file": vlib.keep_file(ctx, dst), "line": ln, "event": at(ln), "previous": at(ln - 1 if ln else None)})
            return "invariant"
        return None

    open(os.path.join(sd, "t_strict.cfg"), "w").write(TRACE_CFG % dict(spec="TraceSpec", invs=INVS, ds=ds))
    open(os.path.join(sd, "t_obs.cfg"), "w").write(TRACE_CFG % dict(spec="ObsSpec", invs=INVS, ds=ds))
    r = ctx.tlc(sd, "Trace_Delegation", "t_strict.cfg", workers=1, timeout=timeout, count=False,
                allow=("invariant", "postcondition", "property"))
    if r.ok:
        report(r, "strict")
        ctx.cov(trace_events_validated=n_events)
        return "accepted"
    if report(r, "strict") == "invariant":
        return "invariant"
    if r.error == "postcondition":
        ln = r.highwater
        ctx.drifts.append({"what": "%s: line %s is not a step of the specification: %s (previous: %s)"
                                   % (what, ln, at(ln), at(ln - 1 if ln else None))})
        r2 = ctx.tlc(sd, "Trace_Delegation", "t_obs.cfg", workers=1, timeout=timeout, count=False,
                     allow=("invariant", "postcondition", "property"))
        if r2.ok:
            ctx.cov(trace_events_observed=n_events)
            report(r2, "observed")
            return "drift"
        if report(r2, "observed") == "invariant":
            return "invariant"
        ctx.broken.append("observation-only pass failed: %s\n%s" % (r2.error, r2.text(20)))
        return "broken"
    return "broken"


ACTIONS = ["Delegate", "ReDelegate", "UnDelegate", "Withdraw", "Claim", "UpdateRewards", "ChangeFee", "ModifyCap", "NextEpoch"]


def vacuity_guard(ctx):
    acc = ctx.coverage.get("replayed_ok_calls_per_action", {})
    missing = [a for a in ACTIONS if acc.get(a, 0) == 0]
    if missing:
        ctx.broken.append("vacuity guard: specification actions that never succeeded on the real contract in any replayed "
                          "behaviour: %s" % ", ".join(missing))


def replay_and_check(ctx, sd, exe, beh, name, what, distinct=False):
    mm = ctx.path(name)
    h = ctx.vh(exe, ["replay", beh, mm], timeout=1800)
    acc = ctx.coverage.setdefault("replayed_ok_calls_per_action", {})
    for a, n in (h.stats.get("ok_actions") or {}).items():
        acc[a] = acc.get(a, 0) + int(n)
    kw = dict(traces_validated_against_impl=int(h.stats.get("behaviours", 0)), evaluations=int(h.stats.get("steps", 0)),
              known_deviation_reproduced_in_replay=int(h.stats.get("known_deviation_reproduced", 0)),
              replay_mismatching=int(h.stats.get("mismatching", 0)))
    if distinct:
        kw["distinct_nontrivial"] = int(h.stats.get("distinct_transitions", 0))
    ctx.cov(**kw)
    if int(h.stats.get("mismatch_events", 0)) > 0:
        validate(ctx, sd, mm, int(h.stats["mismatch_events"]), what)
    return h


def run(ctx):
    sd = ctx.stage()
    q = ctx.quick
    only = [x for x in os.environ.get("VERIF_STAGES", "").split(",") if x]   # development aid

    def want(name):
        return not only or name in only
    ctx.assume(
        "a top-level call that does not return Ok leaves no trace (transaction processor semantics); the harness commits storage "
        "updates, balance deltas and deployed code only on Ok, like vm/process.systemVM + scProcessor",
        "the contract instance has no nodes (addNodes/stakeNodes are not driven): the validator SC then holds exactly TotalActive "
        "for the contract and never returns data to unStakeTokens/unBondTokens",
        "staking v2 rounding (GetIntTrimmedPercentageOfValue) and service fees with an exact decimal form (0, 10, 25, 100 %)",
        "the epoch moves only through the NextEpoch event; amounts stay far below 2^31 (TLC integers)",
        "clause 'rewards paid <= rewards received' is also evaluated on the continuation in which every delegator claims now "
        "(Inv_C38_rewards_owed: paid + claimable <= received): the property quantifies over all histories, and the random "
        "driver ends every trace with a claim by every delegator so that the plain clause is observed as well",
        "trusted: TLC, the storage projection in harness/cmd/vh-delegation (proj), harness/families/sysvm (commit rule)")

    ctx.notes.append("t+%.0fs before r1" % (time.time() - ctx.t0))
    if want("r1"):
        inv_rest = "VIEW cvars\nCONSTRAINT LevelBound\nINVARIANTS " + MC_INVS
        if q:
            mc_cfg(sd, "r1a.cfg", confs="ConfsTiny", depth=6, log="LogNone", rest=inv_rest)
            ra = ctx.tlc(sd, "MC_Delegation", "r1a.cfg", timeout=3000)
            ctx.notes.append("R1a %.0fs %d states" % (ra.wall, ra.distinct))
        else:
            mc_cfg(sd, "r1a.cfg", confs="ConfsMedium", fees="0, 2500", caps="0, 9", depth=6, log="LogNone", rest=inv_rest)
            ra = ctx.tlc(sd, "MC_Delegation", "r1a.cfg", timeout=6000)
            ctx.notes.append("R1a 8 configurations depth 6: %.0fs %d states" % (ra.wall, ra.distinct))
            mc_cfg(sd, "r1a2.cfg", confs="ConfsTiny", depth=7, log="LogNone", rest=inv_rest)
            ra2 = ctx.tlc(sd, "MC_Delegation", "r1a2.cfg", timeout=6000)
            ctx.notes.append("R1a depth 7: %.0fs %d states" % (ra2.wall, ra2.distinct))
            mc_cfg(sd, "r1a3.cfg", confs="ConfsSmall", fees="0, 2500", caps="0, 9", depth=5, log="LogNone", rest=inv_rest)
            ra3 = ctx.tlc(sd, "MC_Delegation", "r1a3.cfg", timeout=3000, coverage=True)     # vacuity guard
            if ra3.coverage_zero:
                ctx.broken.append("vacuity guard (TLC -coverage): never taken: %s" % ", ".join(sorted(set(ra3.coverage_zero))))
        mc_cfg(sd, "r1b.cfg", defects="StaleCheckpointDefect", depth=7, log="LogNone", rest=inv_rest)
        rb = ctx.tlc(sd, "MC_Delegation", "r1b.cfg", timeout=900, allow=("invariant",))
        if rb.error not in ("invariant:Inv_C38_rewards_owed", "invariant:Inv_C38_rewards"):
            ctx.broken.append("R1(b): the specification with the named deviation should violate the rewards clause, got %s" % rb.error)
        else:
            ctx.cov(model_counterexample_with_deviation="%s violated at depth %d" % (rb.error.split(":")[1], rb.depth))

    exe = ctx.go_build("vh-delegation")

    ctx.notes.append("t+%.0fs before gen" % (time.time() - ctx.t0))
    if want("gen"):
        gen_rest = "VIEW cvars\nACTION_CONSTRAINT EmitEdge\nINVARIANTS " + GEN_INVS
        if q:
            mc_cfg(sd, "gen.cfg", spec="GenSpec", defects="StaleCheckpointDefect", log="LogSlim", depth=5, rest=gen_rest)
        else:
            mc_cfg(sd, "gen.cfg", spec="GenSpec", defects="StaleCheckpointDefect", log="LogSlim", depth=6, confs="ConfsSmall",
                   rest=gen_rest)
        beh = ctx.path("edges.ndjson")
        g = ctx.tlc(sd, "MC_Delegation", "gen.cfg", timeout=3000, behaviours_out=beh, count=False,
                    workers=1 if q else None)   # one worker: strict BFS order, so the cover is the same on every run
        ctx.notes.append("gen %.0fs %d behaviours" % (g.wall, g.behaviours))
        if g.ok and g.behaviours == 0:
            ctx.broken.append("behaviour export produced nothing")
        replay_and_check(ctx, sd, exe, beh, "mismatch1.ndjson", "replayed TLC behaviour (transition cover)", distinct=True)

    ctx.notes.append("t+%.0fs before sim" % (time.time() - ctx.t0))
    if want("sim"):
        sim_rest = "ACTION_CONSTRAINT EmitFull\nINVARIANTS " + GEN_INVS
        mc_cfg(sd, "sim.cfg", spec="GenSpec", defects="StaleCheckpointDefect", log="LogAppend", depth=40, confs="ConfsSim",
               amounts="1, 2, 3, 4, 5, 6, 9, 14", rewards="0, 7, 10, 41", fees="0, 1000, 2500, 3333, 10000", caps="0, 14, 30",
               maxepoch=8, maxtotal=60, maxrew=12, rest=sim_rest)
        beh2 = ctx.path("sim.ndjson")
        g2 = ctx.tlc(sd, "MC_Delegation", "sim.cfg", simulate=20 if q else 600, depth=40, timeout=1800, behaviours_out=beh2, count=False)
        ctx.notes.append("sim %.0fs %d behaviours" % (g2.wall, g2.behaviours))
        replay_and_check(ctx, sd, exe, beh2, "mismatch2.ndjson", "replayed TLC behaviour (simulation)")

    ctx.notes.append("t+%.0fs before r3" % (time.time() - ctx.t0))
    if want("r3"):
        tr = os.path.join(sd, "trace.ndjson")
        nt, ln = (80, 60) if q else (1200, 80)
        r3 = ctx.vh(exe, ["record", ctx.seed, nt, ln, tr])
        st = validate(ctx, sd, tr, int(r3.stats.get("events", 0)), "directed/random history on the real delegation contract",
                      ds='"o", "x", "y", "z"')
        if st in ("accepted", "drift"):
            ctx.cov(traces_validated_against_impl=nt, evaluations=int(r3.stats.get("events", 0)))
        ctx.cov(r3_actions=r3.stats.get("actions"))
        if not q and st == "accepted":
            def corrupt_total(evs):
                for e in evs:
                    if e["a"] == "UnDelegate" and e["out"]["ok"]:
                        e["st"]["tot"]["active"] += 1
                        break
                return evs

            def corrupt_ref(evs):
                for e in evs:
                    if e["a"] == "UnDelegate" and e["out"]["ok"]:
                        for d in e["st"]["del"].values():
                            if d["un"]:
                                d["un"][0]["ok"] = False
                                return evs
                return evs

            def corrupt_paid(evs):
                for e in evs:
                    if e["a"] == "Claim" and e["out"]["ok"] and e["out"]["paid"] > 0:
                        e["out"]["paid"] += 1000
                        break
                return evs

            def drop_event(evs):
                for i, e in enumerate(evs):
                    if e["a"] == "Delegate" and e["out"]["ok"] and i > 3:
                        return evs[:i] + evs[i + 1:]
                return evs
            for m in (corrupt_total, corrupt_ref, corrupt_paid, drop_event):
                vlib.selftest_rejects(ctx, sd, "Trace_Delegation", "t_strict.cfg", tr, m)
                if m is not drop_event:
                    vlib.selftest_rejects(ctx, sd, "Trace_Delegation", "t_obs.cfg", tr, m)

    if want("gen") and want("sim"):
        vacuity_guard(ctx)
    ctx.notes.append("t+%.0fs end" % (time.time() - ctx.t0))
    ctx.cov(rule="R2: every transition of the specification's abstract state graph up to the depth bound (3 delegators, amounts "
                 "around minDelegation = 3, rewards, epochs) + simulated 40-step walks over the configuration space (min amounts, "
                 "unbond periods 0-2, caps, fees, flags) are executed on the real delegation contract; after every call "
                 "GlobalFundData, every DelegatorData, every referenced Fund and the reward records are read from storage and "
                 "compared with the prediction, as is the value paid to the caller; distinct = distinct operation sequence + "
                 "configuration; non-trivial = the call goes through the real vmContext, delegation, validator SC and committed "
                 "storage is re-read. R3: random real histories validated by TLC with all C38 clauses evaluated on every observed state")
