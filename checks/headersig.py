"""C17 -- accepted block headers carry a BFT quorum of signatures (family B, specs/HeaderSig).

R1  TLC: the stage machine of HeaderSigVerifier.VerifySignature over every (group size, bitmap byte string,
    fallback flag, who-really-signed) of the bounded input space; Inv_C17_Quorum / Inv_C17_PaddingNeverCounts hold in
    the intended design, and TLC must FIND the counterexample when the named deviation "paddingCounted" (popcount over
    the whole bitmap, the code as it was written) is switched on.
R2  every enumerated case is replayed on the REAL HeaderSigVerifier with the real BLS multi-signer (keys per group,
    aggregate produced for exactly the members TLA+ says signed).  Oracle (from TLA+): accepted => Quorum.
R3  random headers (groups up to 70 members) on the real verifier, validated by Trace_HeaderSig.
"""
import os
import time
import vlib

PROPS = ["C17"]
FAMILY = "HeaderSig"

CFG = """SPECIFICATION Spec
CONSTANTS
  IsCase <- MCCase
  KnownDefects = {%(defects)s}
  MaxRoundsNoSoE = %(maxrounds)d
  Log <- LogLast
  NsFull = {%(full)s}
  NsSampled = {%(sampled)s}
  SampleMod = %(mod)d
  SampleRes = %(res)d
  ModeMod = %(modemod)d
  NsAlpha = {%(alpha)s}
  AlphaBytes = {%(abytes)s}
  NsBig = {%(big)s}
  NsFb = {%(nsfb)s}
  Modes = {%(modes)s}
VIEW cvars
%(rest)s
CHECK_DEADLOCK FALSE
"""
ALLMODES = '"sel", "dropHi", "dropLeader", "addLo", "all", "foreign"'
INVS = "INVARIANTS TypeOK Inv_MachineIsVerdict Inv_C17_Quorum Inv_C17_PaddingNeverCounts Inv_ThresholdSane"


def never_taken(res):
    """actions whose count is 0:0 in the FINAL coverage report (TLC also prints interim reports, in which an action
    may legitimately still be at 0 while the initial states are being computed; vlib collects zeros from all reports)"""
    import re
    last = {}
    for line in res.tail:
        m = re.match(r"^<(\w+) line .*>: (\d+):(\d+)$", line)
        if m:
            last[m.group(1)] = (int(m.group(2)), int(m.group(3)))
    return sorted(a for a in set(res.coverage_zero) if last.get(a) == (0, 0))


def run(ctx):
    sd = ctx.stage()
    q = ctx.quick
    t0 = [time.time()]

    def lap(name):
        ctx.notes.append("%s %.1fs" % (name, time.time() - t0[0]))
        t0[0] = time.time()
    ctx.assume(
        "BLS multi-signature soundness (trusted): an aggregate verifies over a key set for the header hash iff it was "
        "aggregated from the shares of exactly those keys; the harness produces the aggregate for exactly the members the "
        "specification says signed (or over a foreign message)",
        "the nodes coordinator returns a consensus group of distinct members (stubbed: fresh BLS keys per group size); "
        "member 0 is the leader",
        "the required quorum is 2n/3+1, except that the protocol's fallback threshold n/2+1 is allowed exactly when the documented "
        "fallback condition holds (transcribed from fallback/headerValidator.go at HEAD as FallbackApplies: start-of-epoch "
        "METAblock, previous metablock available in pool or storage, SIGNED round difference >= "
        "core.MaxRoundsWithoutCommittedStartInEpochBlock, constant read from the tree); the harness uses the real "
        "fallback.NewFallbackHeaderValidator over a headers pool stub / storage mock holding the previous headers",
        "bounds: exhaustive bitmaps for groups of 1..%s members, sampled/structured bitmaps for larger groups "
        "(up to 400 in the thorough tier); bitmap length 0..3 bytes for wrong-length cases" % ("8" if q else "10"))
    res = ctx.seed
    exe = ctx.go_build("vh-headersig")
    c = ctx.vh(exe, ["config"], count_samples=False)
    try:
        maxrounds = int(c.stats["MaxRoundsWithoutCommittedStartInEpochBlock"])
    except KeyError:
        ctx.broken.append("could not read core.MaxRoundsWithoutCommittedStartInEpochBlock")
        return
    for f in ("Trace_HeaderSig.cfg", "TracePad_HeaderSig.cfg", "TraceObs_HeaderSig.cfg", "TracePadObs_HeaderSig.cfg"):
        t = open(os.path.join(sd, f)).read().replace("MaxRoundsNoSoE = 50", "MaxRoundsNoSoE = %d" % maxrounds)
        open(os.path.join(sd, f), "w").write(t)
    # ---- R1a: the named deviations must be found by TLC (guards the invariant against vacuity)
    for dev, extra in (("paddingCounted", dict(full="1, 2, 3, 5", nsfb="")), ("unsignedRoundDiff", dict(full="", nsfb="3"))):
        open(os.path.join(sd, "defect.cfg"), "w").write(CFG % dict(
            dict(defects='"%s"' % dev, maxrounds=maxrounds, sampled="", mod=1, res=0, modemod=1, alpha="", abytes="", big="",
                 modes='"sel"', rest="INVARIANTS TypeOK Inv_MachineIsVerdict Inv_C17_Quorum"), **extra))
        d = ctx.tlc(sd, "MC_HeaderSig", "defect.cfg", timeout=600, allow=("invariant",), count=False)
        if d.error != "invariant:Inv_C17_Quorum":
            ctx.broken.append("R1: with the deviation %r TLC did not report Inv_C17_Quorum (got %r)" % (dev, d.error))
        else:
            ctx.cov(**{"design_counterexample_found_with_deviation_" + dev: "Inv_C17_Quorum violated"})
    lap("R1a defect runs")
    # ---- R1b (+ export for R2): intended design, invariants hold
    beh = ctx.path("cases.ndjson")
    if q:
        gen = dict(defects="", maxrounds=maxrounds, full="1, 2, 3, 4, 5, 6, 7, 8", sampled="9, 10", mod=32, res=res, modemod=8,
                   alpha="17", abytes="1, 127, 255", big="63", nsfb="3, 9", modes=ALLMODES)
        g = ctx.tlc(sd, "MC_HeaderSig", _cfg(sd, "gen.cfg", gen, INVS + "\nACTION_CONSTRAINT EmitDone"), timeout=900,
                    behaviours_out=beh)
    else:
        # exhaustive model check of the whole space (all modes on every bitmap, groups 1..10, alphabets, 63 and 400)
        full = dict(defects="", maxrounds=maxrounds, full="1, 2, 3, 4, 5, 6, 7, 8, 9, 10", sampled="", mod=1, res=0, modemod=1,
                    alpha="11, 16, 17, 24", abytes="0, 1, 15, 127, 128, 254, 255", big="21, 63, 400", nsfb="3, 6, 9, 10, 63",
                    modes=ALLMODES)
        r1 = ctx.tlc(sd, "MC_HeaderSig", _cfg(sd, "r1.cfg", full, INVS), timeout=1800, coverage=True)
        if r1.ok and never_taken(r1):
            ctx.broken.append("vacuity: actions never taken in R1: %s" % never_taken(r1))
        # export: honest aggregates on every bitmap of groups 1..9 and a quarter of those of 10 members, dishonest
        # aggregates on a residue class (volume: ~200 k cases, ~100 MB)
        gen = dict(full, full="1, 2, 3, 4, 5, 6, 7, 8, 9", sampled="10", mod=4, modemod=8, res=res)
        g = ctx.tlc(sd, "MC_HeaderSig", _cfg(sd, "gen.cfg", gen, INVS + "\nACTION_CONSTRAINT EmitDone"), timeout=1800,
                    behaviours_out=beh, count=False)
    lap("R1b+export")
    if g.ok and g.behaviours == 0:
        ctx.broken.append("case export produced nothing")
    # ---- R2: every exported case on the real verifier
    h = ctx.vh(exe, ["replay", beh], timeout=3000)
    ctx.cov(traces_validated_against_impl=int(h.stats.get("behaviours", 0)), evaluations=int(h.stats.get("steps", 0)),
            distinct_nontrivial=int(h.stats.get("distinct", 0)),
            real_results_by_class=h.stats.get("by_class"), accepted=h.stats.get("accepted"),
            accepted_with_padding_bits_set=h.stats.get("accepted_with_padding_bits"),
            violating_cases=h.stats.get("violating_cases"), header_kinds_replayed=h.stats.get("header_kinds"),
            real_fallback_validator_said_true=h.stats.get("real_fallback_true"))
    if h.rc == 0 and int(h.stats.get("real_fallback_true", 0)) == 0:
        ctx.broken.append("R2: the real fallback validator never answered true -- header construction is wrong")
    if h.rc == 0 and int(h.stats.get("accepted", 0)) == 0:
        ctx.broken.append("R2: the real verifier accepted no header at all -- harness signatures are wrong")
    lap("R2 replay")
    # ---- R3: random headers on the real verifier -> TLC
    tr = os.path.join(sd, "trace.ndjson")
    n = 400 if q else 4000
    r3 = ctx.vh(exe, ["record", ctx.seed, n, tr], timeout=1200, count_samples=False)
    nev = int(r3.stats.get("events", 0))
    # two passes over the same trace: every input class except the known deviation, then the known deviation's class
    # (separate signatures: the listed finding never hides a different violation)
    st, line = vlib.validate_trace(ctx, sd, "Trace_HeaderSig", "Trace_HeaderSig.cfg", tr, nev,
                                   "C17/accepted-without-quorum", divergence_is_violation=False,
                                   obs_cfg="TraceObs_HeaderSig.cfg", what="HeaderSigVerifier trace (random headers)")
    st2, line2 = vlib.validate_trace(ctx, sd, "Trace_HeaderSig", "TracePad_HeaderSig.cfg", tr, 0,
                                     "C17/accepted-without-quorum", divergence_is_violation=False,
                                     obs_cfg="TracePadObs_HeaderSig.cfg", what="HeaderSigVerifier trace (random headers)")
    if st == "accepted":
        ctx.cov(traces_validated_against_impl=1, evaluations=nev)
    lap("R3 record+validate")
    if not q and st == "accepted":
        def corrupt(evs):
            for e in evs:
                if e["a"] == "Verify" and e["out"]["res"] == "notEnough":
                    e["out"]["res"] = "ok"     # a header below the threshold reported as accepted
                    break
            return evs
        vlib.selftest_rejects(ctx, sd, "Trace_HeaderSig", "Trace_HeaderSig.cfg", tr, corrupt)
    ctx.cov(rule="R2: one case per (group size n, bitmap byte string, header kind, set of members that really signed); header kind = "
                 "(shard header / metablock, start of epoch or not, previous header in pool / storage / missing / wrong type, "
                 "signed round difference in {-900,-1,0,3,49,50,51,900}) -- all 40 kinds x every honest signer count between the "
                 "two thresholds for the fallback family, the two principal kinds (plain shard header, fallback metablock) elsewhere: every "
                 "bitmap of the expected length for the exhaustive sizes, a seed-dependent residue class for the sampled "
                 "sizes, byte-alphabet bitmaps for 11..24 members, prefix-shaped bitmaps around the threshold for 63/400 "
                 "members, wrong-length bitmaps, and dishonest aggregates (one signer dropped, leader dropped, one added, all, "
                 "foreign message); a case is non-trivial when the real verifier reached the BLS aggregate verification "
                 "(result ok or invalid signature); distinct = distinct (n, bitmap, fallback, signers). R3: random headers.")


def _cfg(sd, name, d, rest):
    open(os.path.join(sd, name), "w").write(CFG % dict(d, rest=rest))
    return name
