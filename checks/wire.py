"""C18 -- accepted encodings with equal content have equal hashes (family B, specs/WireMalleability)."""
import collections
import json
import os
import vlib

PROPS = ["C18"]
FAMILY = "WireMalleability"

SMALL = """SPECIFICATION Spec
CONSTANTS
  Schemas <- SmallSchemas
  HashMode = "%(mode)s"
  MaxRecs = %(recs)d
  Deltas <- MCDeltas
  AlphabetSel = %(alpha)d
INVARIANTS Inv_C18 Inv_CanonSound Inv_ClassComplete Inv_SizeCheckMonotone
%(rest)s
CHECK_DEADLOCK FALSE
"""

REAL = """SPECIFICATION Spec
CONSTANTS
  Schemas <- RealSchemas
  HashMode = "canonical"
  Deltas <- MCDeltas
  Depth = %(depth)d
  Pairs = %(pairs)d
INVARIANTS Inv_DescribedCanonical Inv_C18
ACTION_CONSTRAINT Emit
CHECK_DEADLOCK FALSE
"""


def write(sd, name, text):
    with open(os.path.join(sd, name), "w") as f:
        f.write(text)
    return name


def run(ctx):
    sd = ctx.stage()
    q = ctx.quick
    ctx.assume(
        "WireMalleability.tla transcribes the gogo-generated Unmarshal/Size of the pinned tree (last scalar wins, repeated "
        "append, embedded messages merge, unknown fields skipped and dropped, non-minimal varints accepted, uint32/enum "
        "fields drop bits >= 32), data.BigIntCaster and marshal.sizeCheckUnmarshalizer; groups (wire types 3/4), "
        "truncated buffers and varints wider than 10 bytes beyond the first record are not enumerated",
        "the hash function is injective on the byte strings used (a collision would only hide a violation)",
        "schemas of the intercepted types are reflected from the Go structs' protobuf tags at run time; instances are "
        "fixed valid headers / miniblocks / ed25519-signed transactions built by the harness",
        "header signature / integrity / epoch-start collaborators of the interceptors are the stubs of process/mock (they "
        "see the decoded content only, which is equal for the encodings compared); transactions are verified with the real "
        "ed25519 single signer over the real JSON signing format",
        "accepted = interceptor constructor succeeds and CheckValidity() returns nil; same content = the decoded object "
        "re-marshals to the canonical bytes; size-check configurations: none (SizeCheckDelta = 0), 0, 10 (production), 100; boundary "
        "mutants also 20 and under 7 wrapping histories of the shared marshalizer (wrap 10 then outer MaxUint32, reversed, "
        "two wrappers of one base), built with the real NewSizeCheckUnmarshalizer")
    # ---- R1: every encoding of <= MaxRecs records over the small alphabet, intended design (hash of canonical content)
    runs = [(2, 0)] if q else [(2, 1), (3, 2)]
    table = collections.Counter()
    for i, (recs, alpha) in enumerate(runs):
        write(sd, "small%d.cfg" % i, SMALL % dict(mode="canonical", recs=recs, alpha=alpha, rest="ACTION_CONSTRAINT EmitClass"))
        out = ctx.path("classes%d.ndjson" % i)
        r = ctx.tlc(sd, "MC_WireSmall", "small%d.cfg" % i, timeout=3000, behaviours_out=out)
        if r.ok and r.behaviours == 0:
            ctx.broken.append("R1 found no malleable encoding at all in the small model (vacuous)")
        if r.ok and r.coverage_zero:
            ctx.broken.append("vacuity: never evaluated in MC_WireSmall: %s" % sorted(set(r.coverage_zero))[:8])
        for line in open(out):
            m = json.loads(line)
            table["%s @ %s" % ("+".join(sorted(m["classes"])), "nocheck" if m["delta"] < 0 else "delta%d" % m["delta"])] += 1
    ctx.cov(r1_malleable_encodings_by_class_and_sizecheck=dict(sorted(table.items())))
    # vacuity guard (instead of -coverage, which exhausts the heap on this model under load): every class of the taxonomy
    # must have been exhibited by at least one accepted non-canonical encoding of the small model
    seen = set()
    for k in table:
        seen.update(k.split(" @ ")[0].split("+"))
    missing = {"reordered-fields", "duplicated-field", "unknown-field", "non-minimal-varint", "explicit-default",
               "uint32-high-bits", "bigint-zero-any-sign-byte", "bigint-nil-any-byte", "bigint-padded",
               "omitted-always-written-field"} - seen
    if missing and not ctx.broken:
        ctx.broken.append("vacuity: R1 never exhibited the classes %s" % sorted(missing))
    # ---- R1 with the named deviation (code as it is: hash of the received bytes): TLC must find the counterexample
    write(sd, "defect.cfg", SMALL % dict(mode="received", recs=1, alpha=0, rest=""))
    d = ctx.tlc(sd, "MC_WireSmall", "defect.cfg", timeout=1200, allow=("invariant",), count=False)
    if d.error != "invariant:Inv_C18":
        ctx.broken.append("with HashMode = received the model must violate Inv_C18 (got %s)" % d.error)
    else:
        ctx.cov(r1_counterexample_with_hash_of_received_bytes="Inv_C18 violated (expected: deviation of the code as it is)")
    # ---- R2: reflected schemas + real canonical instances -> TLC mutants with predictions -> real interceptors
    exe = ctx.go_build("vh-wire")
    desc = os.path.join(sd, "describe.ndjson")
    dres = ctx.vh(exe, ["describe", desc, ctx.tier], count_samples=False)
    if dres.broken:
        return
    write(sd, "real.cfg", REAL % dict(depth=1 if q else 2, pairs=0 if q else 1))
    mut = ctx.path("mutants.ndjson")
    g = ctx.tlc(sd, "MC_WireReal", "real.cfg", timeout=6000, behaviours_out=mut)
    if g.ok and g.behaviours == 0:
        ctx.broken.append("mutant export produced nothing")
    h = ctx.vh(exe, ["replay", mut, ctx.tier], timeout=3000)
    ctx.cov(traces_validated_against_impl=int(h.stats.get("mutants", 0)), evaluations=int(h.stats.get("evaluations", 0)),
            distinct_nontrivial=int(h.stats.get("distinct_type_class", 0)),
            malleable_signatures=int(h.stats.get("malleable_signatures", 0)),
            prediction_mismatches=int(h.stats.get("drifts", 0)),
            wrapping_history_evaluations=int(h.stats.get("handle_evaluations", 0)))
    if h.stats and int(h.stats.get("handle_evaluations", 0)) == 0:
        ctx.broken.append("vacuous: no boundary mutant was run under the wrapping histories")
    # ---- binding self-test (thorough): a falsified prediction must be noticed by the replay
    if not q and g.ok and not h.broken:
        lines = open(mut).read().splitlines()
        picked = None
        for ln in lines:
            m = json.loads(ln)
            if m["classes"] == ["reordered-fields"] and m["deceq"] and m["acc"].get("0"):
                picked = m
                break
        if picked is None:
            ctx.broken.append("binding self-test: no reordered mutant to falsify")
        else:
            picked["acc"]["0"] = False
            st = ctx.path("selftest.ndjson")
            with open(st, "w") as f:
                f.write(json.dumps(picked) + "\n")
            nd, nv = len(ctx.drifts), len(ctx.violations)
            h2 = ctx.vh(exe, ["replay", st, ctx.tier], count_samples=False)
            noticed = int(h2.stats.get("drifts", 0)) + sum(1 for v in h2.violations if "+beyond-tolerance/" in v["sig"])
            del ctx.drifts[nd:]          # what the self-test provokes is not a finding about the code
            del ctx.violations[nv:]
            if noticed < 1:
                ctx.broken.append("binding self-test: a falsified prediction was not noticed by vh-wire replay")
            else:
                ctx.cov(binding_selftests_rejected=1)
    ctx.cov(rule="R2: for each intercepted type (shard header, meta header, miniblock, transaction) TLC enumerates every "
                 "single re-encoding step (reorder, duplicate, non-minimal tag/value/length varint, dropped high bits, "
                 "unknown field, explicit default, big-int re-encoding, dropped / split record, wrong wire type; thorough: "
                 "also inside embedded messages and after a shortening step) of the real canonical instance with the "
                 "predicted (decodes, same content, accepted per size check, classes); each is built as bytes and given to "
                 "the real interceptor under 4 size-check configurations; distinct = distinct (type, class set)")
