"""C01 C02 C03 C04 -- the Merkle-Patricia state trie (family T, specs/Trie).

C01-C03 share one pipeline around the node-level state machine Trie.tla:
  R1  exhaustive TLC run of the specification (the invariants of the property being decided),
  R2  TLC behaviours (one per transition of the abstract state graph + long simulated walks) replayed on the
      real patriciaMerkleTrie by harness/cmd/vh-trie (reads, root-hash partition, leaves, recreate), and
  R3  random histories recorded from the real trie validated by TLC against Trace_Trie.tla.
C04 uses TrieProof.tla: TLC enumerates (trie, probe key, node sequence) cases with the specification's verdicts;
they are replayed on the real GetProof / VerifyProof; verdicts logged from random larger tries are validated by TLC.
"""
import json
import os
import time
import vlib

PROPS = ["C01", "C02", "C03", "C04"]
FAMILY = "Trie"

CFG = """SPECIFICATION %(spec)s
CONSTANTS
  Keys <- %(keys)s
  Vals = {%(vals)s}
  MaxLevels = {%(levels)s}
  RichKeys <- %(rich)s
  Acts <- %(acts)s
  MaxParked = %(parked)d
  MaxCommits = %(commits)d
  Log <- %(log)s
  Depth = %(depth)d
%(rest)s
CHECK_DEADLOCK FALSE
"""

INVS = {
    "C01": ("TypeOK Inv_C01_Get Inv_C01_Leaves Inv_C01_Probes", ""),
    "C02": ("TypeOK Inv_C02_Shape Inv_C02_Hash Inv_C02_CacheFresh", ""),
    "C03": ("TypeOK Inv_C03_RootsInDb Inv_C03_MemoryBacked Inv_DirtyHashes",
            "Act_C03_Commit Act_C03_Recreate Act_C03_Independent Act_C03_RecreateKeep"),
}
# invariants of the trace specification that talk about logged data (the others are functions of the
# specification's own state: if one of them fails on a trace the model is wrong, not the code)
OBSERVED_INVS = {"Inv_C02_Partition"}
TRACE_INVS = {
    "C01": "TypeOK Inv_C01_Get Inv_C01_Leaves",
    "C02": "Inv_C02_Shape Inv_C02_Hash Inv_C02_Partition",
    "C03": "Inv_C03_RootsInDb Inv_C03_MemoryBacked",
}

ASSUME_TRIE = [
    "hashing (keccak) is injective on the inputs used: the specification models a node's hash as its canonical subtree",
    "the trie DB is a MemoryDB behind NewTrieStorageManagerWithoutPruning (no pruning, no snapshots); GogoProtoMarshalizer",
    "values are 1..3 bytes long (value v = v bytes v); keys are 0..4 bytes (32 bytes in some recorded traces)",
    "several live trie instances over one storage are interleaved call by call (no goroutine concurrency)",
    "bounds of the exhaustive runs: see `rule`",
]


def note(ctx, stage, t0):
    ctx.notes.append("%s: %.1fs" % (stage, time.time() - t0))
    return time.time()


def write(sd, name, text):
    with open(os.path.join(sd, name), "w") as f:
        f.write(text)


def run(ctx):
    if ctx.prop == "C04":
        return run_proofs(ctx)
    return run_trie(ctx)


# ------------------------------------------------------------------------------------------ C01 C02 C03
def run_trie(ctx):
    sd = ctx.stage()
    q = ctx.quick
    ctx.assume(*ASSUME_TRIE)
    invs, props = INVS[ctx.prop]
    t0 = time.time()
    # R1: the node-level state machine, exhaustively
    rest = "VIEW cvars\nINVARIANTS %s\n" % invs + ("PROPERTIES %s\n" % props if props else "")
    r1 = dict(spec="Spec", log="LogLast", depth=0, rest=rest, acts="AllActs", parked=0)
    if q:
        r1.update(keys="K4", vals="1", rich="Rich1", levels="1, 2", commits=1)
    else:
        r1.update(keys="K4", vals="1, 2", rich="Rich1", levels="1, 2, 5", commits=2)
    write(sd, "r1.cfg", CFG % r1)
    res1 = ctx.tlc(sd, "MC_Trie", "r1.cfg", timeout=900 if q else 3000, coverage=not q)
    t0 = note(ctx, "R1", t0)
    if not q and res1.ok:
        missing = [a for a in ("Update", "DeleteKey", "Get", "RootHash", "GetDirtyHashes", "Commit", "Recreate", "RecreateEmpty")
                   if a in res1.coverage_zero]
        if missing:
            ctx.broken.append("vacuity guard: actions never taken in the exhaustive run: %s" % missing)
    exe = ctx.go_build("vh-trie")
    # R2a: one behaviour per transition of the abstract state graph (bounded depth)
    gen = dict(spec="GenSpec", log="LogAppend", rest="VIEW cvars\nACTION_CONSTRAINT EmitEdge", acts="AllActs", parked=0)
    if q:
        gen.update(keys="K6", vals="1, 2", rich="Rich1", levels="1, 2", commits=2, depth=6)
    else:
        gen.update(keys="K6", vals="1, 2", rich="Rich1", levels="1, 2, 5", commits=2, depth=6)
    write(sd, "gen.cfg", CFG % gen)
    beh = ctx.path("edges.ndjson")
    t0 = time.time()
    g = ctx.tlc(sd, "MC_Trie", "gen.cfg", timeout=900 if q else 3000, behaviours_out=beh, count=False)
    t0 = note(ctx, "R2a export", t0)
    if g.ok and g.behaviours == 0:
        ctx.broken.append("behaviour export produced nothing")
    keys = g.marks.get("KEYS", "[]")
    write(ctx.scratch, "keys.json", keys)
    r = ctx.vh(exe, ["replay", beh, "@" + ctx.path("keys.json")], timeout=1800)
    t0 = note(ctx, "R2a replay", t0)
    ctx.cov(traces_validated_against_impl=int(r.stats.get("behaviours", 0)), evaluations=int(r.stats.get("steps", 0)),
            distinct_nontrivial=int(r.stats.get("distinct_transitions", 0)),
            distinct_after_commit_or_recreate=int(r.stats.get("distinct_after_reopen", 0)),
            distinct_contents=int(r.stats.get("distinct_contents", 0)))
    # R2c: several live instances over one storage (C03: the recreated trie behaves like the original, instances are
    # independent views).  Exhaustive to the depth bound over Update / Commit / RecreateKeep(own or older root) / Switch;
    # the run also checks the property's invariants over all instances (the design with instances, R1 at bounded depth)
    inst = dict(spec="GenSpec", log="LogAppend", keys="K3", vals="1", rich="RichAll", levels="1, 2", commits=2,
                acts="InstActs", parked=1, depth=8 if q else 9,
                rest="VIEW cvars\nACTION_CONSTRAINT EmitEdge\nINVARIANTS %s\n" % invs + ("PROPERTIES %s\n" % props if props else ""))
    write(sd, "inst.cfg", CFG % inst)
    beh3 = ctx.path("inst.ndjson")
    gi = ctx.tlc(sd, "MC_Trie", "inst.cfg", timeout=900 if q else 3000, behaviours_out=beh3)
    t0 = note(ctx, "R2c export", t0)
    write(ctx.scratch, "keys3.json", gi.marks.get("KEYS", "[]"))
    r4 = ctx.vh(exe, ["replay", beh3, "@" + ctx.path("keys3.json")], timeout=1800, count_samples=False)
    t0 = note(ctx, "R2c replay", t0)
    ctx.cov(traces_validated_against_impl=int(r4.stats.get("behaviours", 0)), evaluations=int(r4.stats.get("steps", 0)),
            multi_instance_behaviours=int(r4.stats.get("multi_instance_behaviours", 0)))
    if gi.ok and int(r4.stats.get("multi_instance_behaviours", 0)) == 0:
        ctx.broken.append("the instance cover contains no behaviour with two live instances")
    # R2b (thorough): long random walks of the specification over a larger key universe, up to 3 live instances
    if not q:
        sim = dict(spec="GenSpec", log="LogAppend", acts="AllActs", parked=2, keys="K7", vals="1, 2", rich="RichAll",
                   levels="1, 2, 3, 5", commits=6, depth=30, rest="ACTION_CONSTRAINT EmitFull")
        write(sd, "sim.cfg", CFG % sim)
        beh2 = ctx.path("sim.ndjson")
        s = ctx.tlc(sd, "MC_Trie", "sim.cfg", simulate=300, depth=sim["depth"], timeout=1800, behaviours_out=beh2, count=False)
        t0 = note(ctx, "R2b simulate", t0)
        write(ctx.scratch, "keys2.json", s.marks.get("KEYS", "[]"))
        r2 = ctx.vh(exe, ["replay", beh2, "@" + ctx.path("keys2.json")], timeout=1800, count_samples=False)
        t0 = note(ctx, "R2b replay", t0)
        ctx.cov(traces_validated_against_impl=int(r2.stats.get("behaviours", 0)), evaluations=int(r2.stats.get("steps", 0)))
    # R3: random histories on the real trie, validated by TLC
    tr = os.path.join(sd, "trace.ndjson")
    nt, ln = (8, 50) if q else (60, 150)
    r3 = ctx.vh(exe, ["record", ctx.seed, nt, ln, tr])
    tcfg = open(os.path.join(sd, "Trace_Trie.cfg")).read()
    tcfg = "\n".join(("INVARIANTS " + TRACE_INVS[ctx.prop]) if x.startswith("INVARIANTS") else x for x in tcfg.splitlines())
    write(sd, "trace.cfg", tcfg + "\n")
    st, line = validate_trie_trace(ctx, sd, tr, int(r3.stats.get("events", 0)))
    t0 = note(ctx, "R3 record+validate", t0)
    if st == "accepted":
        ctx.cov(traces_validated_against_impl=nt, evaluations=int(r3.stats.get("events", 0)))
    if not q and st == "accepted":
        selftests_trie(ctx, sd, tr)
    ctx.cov(rule="R1: exhaustive over %s (one instance), values {%s}, maxTrieLevelInMemory {%s}, <= %d committed roots. "
                 "R2a: one behaviour per transition of the abstract state graph up to %d operations (%s, values {1,2} on key 1122, "
                 "levels {%s}); R2c: the same over %d operations of Update/Commit/RecreateKeep/Switch with two live instances on one "
                 "storage (3 keys)%s. All replayed on the real trie: every Get / RootHash / Commit / Recreate result is compared "
                 "with the specification; every live instance is kept as a real object in its slot, the root hash of the "
                 "instances not addressed is checked after every step, and each multi-instance behaviour is run a second time "
                 "with a full read (all keys + never-written probes, root hash) of EVERY instance after EVERY step; after the "
                 "last step all instances are read, the addressed one is committed, its leaves enumerated and every root "
                 "committed in the behaviour is recreated (also from a trie with another maxTrieLevelInMemory) and read back; "
                 "root hashes of all behaviours of the run are compared as partitions with the specification's contents. "
                 "distinct = distinct (contents of all instances before, action, arguments, maxLevel). R3: random real "
                 "histories (6-16 structured keys, commits, recreates, up to 4 live instances) validated by TLC."
                 % (r1["keys"], r1["vals"], r1["levels"], r1["commits"], gen["depth"] - 1, gen["keys"], gen["levels"],
                    inst["depth"] - 1, "" if q else "; R2b: 300 simulated walks of 29 steps over 7 keys, up to 3 instances"))


def event_property(ev, recreated):
    """which property a rejected trace line contradicts (the specification predicts every logged result)"""
    a = ev.get("a")
    if a in ("Get", "Update", "Delete"):
        return ["C01", "C03"] if recreated else ["C01"]
    if a == "Commit":
        return ["C01", "C03"]
    if a == "Recreate":
        return ["C03"]
    if a == "RootHash":
        return ["C02"]
    return []


def validate_trie_trace(ctx, sd, tr, n_events):
    before = len(ctx.violations)
    st, line = vlib.validate_trace(ctx, sd, "Trace_Trie", "trace.cfg", tr, n_events, ctx.prop + "/trace",
                                   divergence_is_violation=False, what="patriciaMerkleTrie trace", timeout=1800)
    if st == "invariant":
        # only invariants over logged data are verdicts about the code
        keep = []
        for v in ctx.violations[before:]:
            inv = v["sig"].rsplit("/", 1)[-1]
            if inv in OBSERVED_INVS:
                keep.append(v)
            else:
                ctx.broken.append("model invariant %s fails on a state driven by a recorded trace (model error): %s"
                                  % (inv, v["what"][:400]))
        ctx.violations[before:] = keep
    if st == "rejected" and line:
        lines = open(tr).read().splitlines()
        ev = json.loads(lines[line - 1]) if 1 <= line <= len(lines) else {}
        recreated = False
        for x in lines[:line - 1][::-1]:
            e = json.loads(x)
            if e.get("t") != ev.get("t"):
                break
            if e.get("a") == "Recreate":
                recreated = True
                break
        if ctx.prop in event_property(ev, recreated):
            ctx.drifts[:] = [d for d in ctx.drifts if "is not a step of the specification" not in d.get("what", "")]
            ctx.violation("%s/trace/%s/differs-from-specification" % (ctx.prop, ev.get("a")),
                          "recorded trace line %d: the real trie's result is not what the specification predicts: %s"
                          % (line, lines[line - 1][:800]),
                          {"trace_file": vlib.keep_file(ctx, tr), "line": line, "event": ev})
    return st, line


def selftests_trie(ctx, sd, tr):
    """binding self-tests: a corrupted log must be rejected"""
    def wrong_get(evs):
        for e in evs:
            if e["a"] == "Get" and e["out"]["v"] > 0:
                e["out"]["v"] = e["out"]["v"] % 3 + 1
                break
        return evs

    def merged_roots(evs):
        # two different root ids are logged as one: "different contents, same root hash"
        ids = [e["out"]["rid"] for e in evs if e["a"] in ("RootHash", "Commit") and not e["out"]["empty"]]
        first = ids[0]
        other = next((i for i in ids if i != first), None)
        for e in evs:
            if other is None:
                if e["a"] in ("RootHash", "Commit") and e["out"].get("rid") == first:
                    e["out"]["rid"] = 1  # the id of the empty-trie hash
                    break
            elif e["a"] in ("RootHash", "Commit") and e["out"].get("rid") == other:
                e["out"]["rid"] = first
        return evs

    def dropped_update(evs):
        # drop an Update that changes a key's value and whose next event on that key (same trace, no Recreate in
        # between) is a Get: the specification then predicts the old value for that Get
        cur = {}
        for i, e in enumerate(evs):
            if e["a"] == "New":
                cur = {}
            if e["a"] == "Recreate":
                cur = None
            if cur is None or e["a"] not in ("Update", "Delete"):
                continue
            k = json.dumps(e["in"]["k"])
            v = e["in"].get("v", 0)
            if e["a"] == "Update" and v > 0 and cur.get(k, 0) != v:
                for f in evs[i + 1:]:
                    if f["t"] != e["t"] or f["a"] == "Recreate":
                        break
                    if f["a"] in ("Update", "Delete", "Get") and json.dumps(f["in"]["k"]) == k:
                        if f["a"] == "Get":
                            del evs[i]
                            return evs
                        break
            cur[k] = v
        evs[1]["a"] = "Nonsense"   # no suitable pair in this trace: any unknown event must be rejected as well
        return evs
    tests = {"C01": [wrong_get, dropped_update], "C02": [merged_roots], "C03": [wrong_get]}[ctx.prop]
    for t in tests:
        vlib.selftest_rejects(ctx, sd, "Trace_Trie", "trace.cfg", tr, t, timeout=1800)


# ------------------------------------------------------------------------------------------ C04
PCFG = """SPECIFICATION Spec
CONSTANTS
  PKeys <- %(pkeys)s
  Probes <- %(probes)s
  KnownDefects = {%(defects)s}
%(rest)s
CHECK_DEADLOCK FALSE
"""
DEFECT = '"ExtNoPrefixCheck"'


def run_proofs(ctx):
    sd = ctx.stage()
    q = ctx.quick
    ctx.assume("hashing (keccak) is injective on the inputs used: a node sequence passes the hash chain only if it consists of "
               "real nodes of the trie, so the specification enumerates node sequences spliced from real proofs; byte-level "
               "corruptions are additionally run on the real code (seeded) against the soundness / no-crash predicates",
               "tries are served in two forms: built in memory, and committed + recreated from the root hash (the API path "
               "facade.VerifyProof -> GetTrie(rootHash) -> VerifyProof); the HTTP layer (api/proof, hex decoding) is not bound",
               "MemoryDB behind NewTrieStorageManagerWithoutPruning, GogoProtoMarshalizer, keccak")
    n = "4" if q else "6"
    t0 = time.time()
    inv_all = "INVARIANTS Inv_C04_Complete Inv_C04_Sound Inv_C04_NoPanic Inv_C04_Exact Inv_Cache"
    found = []
    if not q:
        # R1a: the intended design is sound, complete, crash-free (exhaustive over the case space)
        write(sd, "p1.cfg", PCFG % dict(pkeys="P" + n, probes="Probes" + n, defects="", rest=inv_all))
        ctx.tlc(sd, "MC_TrieProof", "p1.cfg", timeout=3000, coverage=True)
        t0 = note(ctx, "R1a", t0)
        # R1b: with the named deviation of the code TLC must find both counterexamples (recorded, never a verdict)
        for inv in ("Inv_C04_Sound", "Inv_C04_NoPanic"):
            write(sd, "p1d.cfg", PCFG % dict(pkeys="P3", probes="Probes3", defects=DEFECT, rest="INVARIANTS " + inv))
            rd = ctx.tlc(sd, "MC_TrieProof", "p1d.cfg", timeout=600, count=False, allow=("invariant",))
            if rd.error == "invariant:" + inv:
                found.append(inv)
            elif rd.ok:
                ctx.broken.append("the specification with the deviation ExtNoPrefixCheck no longer violates %s" % inv)
        t0 = note(ctx, "R1b", t0)
    exe = ctx.go_build("vh-trie")
    # R2: every case of the specification on the real GetProof / VerifyProof
    # (the same run checks the intended design -- Inv_C04_Design / Inv_C04_Exact do not depend on KnownDefects --
    # and exports every case with both verdicts: intended and code-as-is)
    write(sd, "pgen.cfg", PCFG % dict(pkeys="P" + n, probes="Probes" + n, defects=DEFECT,
                                      rest="INVARIANTS Inv_C04_Design Inv_C04_Exact Inv_Cache\nACTION_CONSTRAINT Emit"))
    cases = ctx.path("cases.ndjson")
    t0 = time.time()
    g = ctx.tlc(sd, "MC_TrieProof", "pgen.cfg", timeout=900 if q else 3000, behaviours_out=cases, count=q)
    # counterexamples of the specification *with* the named deviation, as TLC evaluated them (never a verdict)
    ncex = {"accepts-absent-key": 0, "panic": 0}
    for line in open(cases):
        for rec in json.loads(line):
            if rec["a"] == "Verify" and rec["out"]["code"] == "true" and not rec["out"]["present"]:
                ncex["accepts-absent-key"] += 1
            if rec["a"] == "Verify" and rec["out"]["code"] == "panic":
                ncex["panic"] += 1
    if g.ok and min(ncex.values()) == 0:
        ctx.broken.append("the specification with the deviation ExtNoPrefixCheck shows no counterexample: %s" % ncex)
    ctx.cov(model_counterexamples_with_known_deviation=found, model_cases_violating_with_known_deviation=ncex)
    t0 = note(ctx, "R2 export", t0)
    if g.ok and g.behaviours == 0:
        ctx.broken.append("case export produced nothing")
    r = ctx.vh(exe, ["proofs", cases], timeout=1800)
    t0 = note(ctx, "R2 replay", t0)
    ctx.cov(traces_validated_against_impl=int(r.stats.get("cases", 0)),
            evaluations=2 * int(r.stats.get("cases", 0)) + int(r.stats.get("corrupted", 0)),
            distinct_nontrivial=int(r.stats.get("distinct_past_root", 0)), tries=int(r.stats.get("tries", 0)),
            corrupted_proofs=int(r.stats.get("corrupted", 0)))
    # R3: verdicts of the real code on random larger tries, decided by TLC
    tr = os.path.join(sd, "trace.ndjson")
    nt = 12 if q else 80
    r3 = ctx.vh(exe, ["proofrec", ctx.seed, nt, tr])
    st, line = vlib.validate_trace(ctx, sd, "Trace_TrieProof", "Trace_TrieProof.cfg", tr, int(r3.stats.get("events", 0)),
                                   "C04/trace", divergence_is_violation=False, what="GetProof/VerifyProof log",
                                   obs_cfg="Trace_TrieProof_obs.cfg", timeout=1800)
    t0 = note(ctx, "R3 record+validate", t0)
    if st == "accepted":
        ctx.cov(traces_validated_against_impl=int(r3.stats.get("cases", 0)), evaluations=int(r3.stats.get("cases", 0)))
    if not q:
        def accept_absent(evs):
            for e in evs:
                if e["a"] == "Verify" and e["out"]["mem"] == "false" and len(e["in"]["pf"]) > 0:
                    e["out"]["mem"] = "true"
                    break
            return evs
        if st == "accepted":
            vlib.selftest_rejects(ctx, sd, "Trace_TrieProof", "Trace_TrieProof.cfg", tr, accept_absent, timeout=1800)
    ctx.cov(rule="R1/R2: every trie over the %s stored-key universe x %s probe keys (stored, absent with the same length but "
                 "differing only in nibbles an extension skips, shorter, longer, empty) x every node sequence "
                 "prefix(proof a)++suffix(proof b) (own proofs, proofs of other keys, truncated, extended, shifted, mixed): "
                 "the specification's verdict (intended design and code-as-is) against the real VerifyProof on the in-memory "
                 "and on the recreated trie; GetProof for every probe key. distinct_nontrivial = distinct cases whose first "
                 "node is the root (they pass the first hash check). Plus seeded byte-level corruptions of real proofs. "
                 "R3: %d random tries (4-12 structured keys), 40 probes each, verdicts decided by TLC." % ("P" + n, "Probes" + n, nt))
