"""C35 -- end-of-epoch rewards distribute exactly the computed amount (family E, specs/Rewards)."""
import os
import vlib

PROPS = ["C35"]
FAMILY = "Rewards"

CFG = """SPECIFICATION %(spec)s
CONSTANTS
  Inputs = {}
  Log <- %(log)s
  Depth = %(depth)d
  Totals = {%(totals)s}
  Devs = {%(devs)s}
  Leaders = {%(leaders)s}
  Prots = {%(prots)s}
  BlockSets <- %(blocks)s
  ConsSets <- %(cons)s
  Sels = {%(sels)s}
  TopUps = {%(topups)s}
  FeesSet = {%(fees)s}
  TuPoints = {%(tus)s}
  NodeCount = %(nodes)d
  EcoInfls = {%(ecoinfls)s}
  EcoBlocks = {1, 3, 10}
  EcoAccs = {0, 1, 6, 7, 8, 21, 120, 121, 399, 400, 401, 1000}
  EcoDevs = {0, 1, 5, 100}
  EcoPcts = {0, 10, 25, 50}
%(rest)s
CHECK_DEADLOCK FALSE
"""
OBS = "Trace_Rewards_obs.cfg"


CFG_V1 = """SPECIFICATION %(spec)s
CONSTANTS
  Inputs = {}
  Log <- %(log)s
  KnownDefects = {%(known)s}
  Depth = %(depth)d
  Totals = {%(totals)s}
  Devs = {%(devs)s}
  Leaders = {%(leaders)s}
  Prots = {%(prots)s}
  Rpbs = {%(rpbs)s}
  Sels = {%(sels)s}
  FeesSet = {0, 2}
  BlockSets <- %(blocks)s
  ConsSets <- %(cons)s
%(rest)s
CHECK_DEADLOCK FALSE
"""
V1_KNOWN_SIG = "C35/v1/inactive-validators-rewards-paid-twice"


def validate_v1(ctx, sd, trace, n_events, sig_prefix, what):
    """Trace_RewardsV1: like vlib.validate_trace, plus the count of runs showing the named deviation (@@KNOWN)."""
    import shutil
    shutil.copy(trace, os.path.join(sd, "trace.ndjson"))
    lines = open(trace).read().splitlines()
    status = None
    for cfgname in ("Trace_RewardsV1.cfg", "Trace_RewardsV1_obs.cfg"):
        r = ctx.tlc(sd, "Trace_RewardsV1", cfgname, workers=1, timeout=1800, count=False,
                    allow=("invariant", "postcondition", "property"))
        known = int(r.marks.get("KNOWN", "0") or 0)
        kline = int(r.marks.get("KNOWNLINE", "0") or 0)
        if known > 0 and status is None:
            ev = lines[kline - 1][:1200] if 1 <= kline <= len(lines) else ""
            ctx.violation(V1_KNOWN_SIG,
                          "%s: in %d run(s) the reward transactions add up to TotalToDistribute - DevFeesInEpoch PLUS the rewards "
                          "of the inactive validators (first: trace line %d: %s)" % (what, known, kline, ev),
                          {"trace_file": vlib.keep_file(ctx, trace), "line": kline})
        if r.ok:
            ctx.cov(trace_events_validated=n_events)
            return status or "accepted"
        if r.error.startswith("invariant:"):
            inv = r.error.split(":", 1)[1]
            ln = (r.last_l - 1) if r.last_l else None
            ev = lines[ln - 1][:1200] if ln and 1 <= ln <= len(lines) else ""
            ctx.violation("%s/%s" % (sig_prefix, inv), "%s: %s is false on an observed run (trace line %s: %s)" % (what, inv, ln, ev),
                          {"trace_file": vlib.keep_file(ctx, trace), "line": ln})
            return "invariant"
        if r.error == "postcondition" and cfgname.endswith("V1.cfg"):
            ln = r.highwater
            ctx.drifts.append({"what": "%s: line %s of the recorded trace is not a run of the specification: %s"
                                       % (what, ln, lines[ln - 1][:600] if ln and 1 <= ln <= len(lines) else "")})
            status = "rejected"
            continue
        return "broken"
    return status


def run_v1(ctx, sd, exe, q):
    """the legacy creator (rewards.go): R1 for the intended design and for the code as it is, TLC-enumerated and random runs"""
    base = dict(spec="MCSpec", log="LogLast", known="", depth=0, totals="101", devs="0, 3", leaders="0, 4",
                prots="0, 6", rpbs="0, 5, 20", sels="0, 2", blocks="MCBlockOne", cons="MCConsFew",
                rest="VIEW cvars\nINVARIANTS Inv_C35_V1_NoClauseViolated")
    if q:
        base.update(totals="101", devs="3", leaders="4", rpbs="5, 20", blocks="MCBlockOne", cons="MCConsOne")

    def cfg(name, **kw):
        open(os.path.join(sd, name), "w").write(CFG_V1 % dict(base, **kw))
        return name
    rv = ctx.tlc(sd, "MC_RewardsV1", cfg("v1.cfg"), timeout=3000, heap="8g")
    if rv.ok and rv.depth != 2:
        ctx.broken.append("vacuity guard: no legacy run was evaluated (search depth %s, expected 2)" % rv.depth)
    r = ctx.tlc(sd, "MC_RewardsV1", cfg("v1asis.cfg", known='"V1-inactive-counted-twice"'), timeout=3000, heap="8g", count=False,
                allow=("invariant",))
    ctx.cov(v1_model_counterexample_with_named_deviation=r.error or "none found")
    if r.ok:
        ctx.broken.append("the code-as-it-is variant of the V1 model no longer violates C35: the named deviation is not modelled")
    inp = ctx.path("inputs-v1.ndjson")
    g = ctx.tlc(sd, "MC_RewardsV1", cfg("v1gen.cfg", spec="GenSpec", log="LogAppend", depth=2, totals="101", devs="3", leaders="4",
                                        prots="6", rpbs="20" if q else "0, 5, 20", sels="2" if q else "0, 2",
                                        blocks="MCBlockOne", cons="MCConsOne" if q else "MCConsFew",
                                        rest="VIEW cvars\nACTION_CONSTRAINT EmitInput"),
                timeout=1500, behaviours_out=inp, count=False)
    if g.ok and g.behaviours == 0:
        ctx.broken.append("V1 input export produced nothing")
    tr = ctx.path("trace-v1.ndjson")
    h = ctx.vh(exe, ["runv1", inp, tr], timeout=1500)
    st = validate_v1(ctx, sd, tr, int(h.stats.get("events", 0)), "C35/v1/small-inputs", "legacy rewardsCreator on a TLC-enumerated input")
    if st == "accepted":
        ctx.cov(traces_validated_against_impl=int(h.stats.get("events", 0)), evaluations=int(h.stats.get("events", 0)))
    for mode in ("clean", "inactive"):
        tr = ctx.path("trace-v1-%s.ndjson" % mode)
        h = ctx.vh(exe, ["recordv1", ctx.seed, 150 if q else 800, tr] + (["inactive"] if mode == "inactive" else []), timeout=1500)
        st = validate_v1(ctx, sd, tr, int(h.stats.get("events", 0)), "C35/v1/trace-" + mode,
                         "legacy rewardsCreator on a random consistent input (%s)" % mode)
        if st == "accepted":
            ctx.cov(traces_validated_against_impl=int(h.stats.get("events", 0)), evaluations=int(h.stats.get("events", 0)))


def run(ctx):
    sd = ctx.stage()
    q = ctx.quick
    ctx.assume(
        "'the total that the epoch economics says must be distributed' by reward transactions is TotalToDistribute - "
        "DevFeesInEpoch = RewardsToBeDistributedForBlocks + LeaderFees + RewardsForProtocolSustainability (developer fees are "
        "part of TotalToDistribute in economics.go but are paid when claimed, not by reward transactions)",
        "inputs are consistent with what economics.go / the validator statistics produce: forBlocks = total - dev - leader - "
        "protocol >= 0, number of blocks = sum over shards, per shard the NumSelectedInSuccessBlocks of the listed nodes add up "
        "to at most blocks x consensus size, validators' accumulated fees add up to at most the epoch's leader fees, offline "
        "nodes (LeaderSuccess = ValidatorSuccess = 0) have no accumulated fees, every shard has an entry in the validators map",
        "the top-up share computed by computeTopUpRewards (atan of float64 values) is not modelled: it is a parameter in "
        "0..rewardsForBlocks, observed from the real code by a probe run (one validator, one block, consensus size 1)",
        "'no reward transaction has a zero or negative value' is required of validator reward transactions; the protocol "
        "sustainability transaction is always created and only required to be >= 0 (it is 0 when the economics give it 0 and "
        "nothing is left over)",
        "amounts below 2^17 in TLC-checked runs so that every product fits TLC's 32-bit integers; real-scale runs (10^16..10^23) "
        "are checked by TLC for the sum identity and positivity only (limb addition), and in Go with math/big as a supplement",
        "the legacy creator (rewards.go, before staking V2) is specified separately (RewardsV1.tla); its inputs additionally "
        "satisfy RewardsPerBlock x blocks <= TotalToDistribute - dev - leader - protocol",
        "end-to-end stage: the identity checked is  sum of reward txs (incl. protocol sustainability) = Economics.TotalToDistribute "
        "- MetaBlock.DevFeesInEpoch  with TotalToDistribute as returned by the real ComputeEndOfEpochEconomics (the header figure "
        "VerifyRewardsPerBlock compares) and the rewards for blocks / leader fees as the real economics published them; the float "
        "inflation formula is not modelled: the inflation-based total of an epoch is observed from the real economics with zero "
        "fees; staking-V2 epochs only (epoch > StakingV2EnableEpoch); developer fees at most 30 % of the accumulated fees",
        "stubs: staking data provider, rewards handler (top-up factor / gradient point), accounts (delegation contract marker), "
        "nodes coordinator (consensus sizes); real: rewardsCreatorV2, multi-shard coordinator, epoch economics statistics, "
        "current-block tx pool, marshalizer, hasher")
    base = dict(spec="MCSpec", log="LogLast", depth=0, totals="0, 7, 101", devs="0, 3", leaders="0, 4", prots="6",
                blocks="MCBlockFew", cons="MCConsFew", sels="0, 2", topups="0, 3", fees="0, 2", tus="0, 3, 10", nodes=3, ecoinfls="",
                rest="VIEW cvars\nINVARIANTS Inv_C35_NoClauseViolated Inv_C35_DustNonNegative Inv_C35_StagesBounded")
    if q:
        base.update(totals="101", tus="0, 10")
    else:
        base.update(totals="7, 101", tus="0, 3, 10")

    def cfg(name, **kw):
        open(os.path.join(sd, name), "w").write(CFG % dict(base, **kw))
        return name

    # R1: every consistent small input through the five stages: sum identity, positivity, destinations, non-negative
    #     remainders, per-node rewards bounded
    r1 = ctx.tlc(sd, "MC_Rewards", cfg("r1.cfg"), timeout=3000, heap="8g")
    ctx.notes.append("R1 V2: %.0fs" % r1.wall)
    # vacuity guard: the run is a linear pipeline New -> SplitTopUp -> BasePerNode -> TopUpPerNode -> Aggregate ->
    # AdjustProtocol, so a complete search of depth 6 means every stage action was taken and the "done" antecedent of
    # the invariants was reached (TLC's -coverage output is not used: its interim reports list not-yet-reached actions
    # and the helper operator `Step` with count 0)
    if r1.ok and r1.depth != 6:
        ctx.broken.append("vacuity guard: the five-stage pipeline was not walked to the end (search depth %s, expected 6)" % r1.depth)
    if not q:
        # four validators (a waiting / eligible node in shard 2 with its own address), narrower figures
        ctx.tlc(sd, "MC_Rewards", cfg("r1b.cfg", nodes=4, totals="101", devs="3", leaders="4", prots="6", sels="0, 2",
                                      blocks="MCBlockFew", tus="7"), timeout=3000, heap="8g")
    # R1 of the economics stage (economics.go): inflation, the fees-exceed-inflation correction, what is published for the
    #    rewards creator; the published figures add up to TotalToDistribute - DevFeesInEpoch in every branch
    re = ctx.tlc(sd, "MC_Rewards", cfg("eco.cfg", spec="EcoSpec", ecoinfls="0, 1, 7, 40",
                                       rest="VIEW cvars\nINVARIANT Inv_C35_EcoPublishedAddUp"), timeout=900)
    if re.ok and re.depth != 4:
        ctx.broken.append("vacuity guard: the economics stage was not walked to the end (search depth %s, expected 4)" % re.depth)
    exe = ctx.go_build("vh-rewards")

    # End to end: real economics -> real EpochEconomicsStatistics -> real rewardsCreatorV2, epochs with fees below /
    # equal / above the inflation; TLC checks the economics figures, the run and the C35 identity on the real numbers
    tr0 = ctx.path("trace-e2e.ndjson")
    h0 = ctx.vh(exe, ["e2e", ctx.seed, 160 if q else 1500, tr0], timeout=1500)
    st0, _ = vlib.validate_trace(ctx, sd, "Trace_Rewards", "Trace_Rewards.cfg", tr0, int(h0.stats.get("events", 0)),
                                 "C35/e2e", divergence_is_violation=False, obs_cfg=OBS, timeout=1800,
                                 what="real economics + real rewardsCreatorV2 (end to end)")
    if st0 == "accepted":
        ctx.cov(traces_validated_against_impl=int(h0.stats.get("events", 0)), evaluations=int(h0.stats.get("events", 0)),
                end_to_end_epochs=h0.stats.get("stats", {}))
    if int(h0.stats.get("events", 0)) == 0:
        ctx.broken.append("the end-to-end stage produced no run")
    if not q and st0 == "accepted":
        def published_short(evs):           # the economics publishes rewards for blocks that are one unit short
            for e in evs:
                if e["a"] == "RunE2E" and e["in"]["eco"]["forBlocks"] > 1:
                    e["in"]["eco"]["forBlocks"] -= 1
                    e["in"]["run"]["forBlocks"] -= 1
                    break
            return evs
        vlib.selftest_rejects(ctx, sd, "Trace_Rewards", OBS, tr0, published_short)

        def wrong_branch(evs):              # fees above inflation but the uncorrected total reported
            for e in evs:
                ep = e["in"]["epoch"]
                if e["a"] == "RunE2E" and ep["acc"] > ep["infl"]:
                    e["in"]["eco"]["minted"] += 1
                    break
            return evs
        vlib.selftest_rejects(ctx, sd, "Trace_Rewards", "Trace_Rewards.cfg", tr0, wrong_branch)

    # R2/R3 (a): TLC-enumerated small inputs run on the real rewardsCreatorV2, the observed runs validated by TLC
    inp = ctx.path("inputs.ndjson")
    g = ctx.tlc(sd, "MC_Rewards", cfg("gen.cfg", spec="GenSpec", log="LogAppend", depth=2, tus="0",
                                      totals="101" if q else "7, 60, 101", devs="3" if q else "0, 3",
                                      leaders="4" if q else "0, 4", sels="0, 2",
                                      blocks="MCBlockFew", rest="VIEW cvars\nACTION_CONSTRAINT EmitInput"),
                timeout=1500, behaviours_out=inp, count=False)
    if g.ok and g.behaviours == 0:
        ctx.broken.append("input export produced nothing")
    tr = os.path.join(sd, "trace.ndjson")
    h = ctx.vh(exe, ["run", inp, tr], timeout=1500)
    st, line = vlib.validate_trace(ctx, sd, "Trace_Rewards", "Trace_Rewards.cfg", tr, int(h.stats.get("events", 0)),
                                   "C35/small-inputs", divergence_is_violation=False, obs_cfg=OBS, timeout=1800,
                                   what="rewardsCreatorV2 on a TLC-enumerated input")
    if st == "accepted":
        ctx.cov(traces_validated_against_impl=int(h.stats.get("events", 0)), evaluations=int(h.stats.get("events", 0)),
                distinct_nontrivial=int(h.stats.get("distinct", 0)))

    # R3 (b): seeded random validator sets / economics at larger scale + real-scale runs
    runs, big = (250, 60) if q else (1500, 300)
    tr2 = ctx.path("trace-random.ndjson")
    r3 = ctx.vh(exe, ["record", ctx.seed, runs, big, tr2], timeout=1500)
    st, line = vlib.validate_trace(ctx, sd, "Trace_Rewards", "Trace_Rewards.cfg", tr2, int(r3.stats.get("events", 0)),
                                   "C35/trace", divergence_is_violation=False, obs_cfg=OBS, timeout=1800,
                                   what="rewardsCreatorV2 on a random consistent input")
    if st == "accepted":
        ctx.cov(traces_validated_against_impl=int(r3.stats.get("events", 0)), evaluations=int(r3.stats.get("events", 0)),
                distinct_nontrivial=int(r3.stats.get("distinct", 0)), run_classes=r3.stats.get("stats", {}))
    if not q and st == "accepted":
        def lose_one(evs):                  # one unit of a validator's reward disappears
            for e in evs:
                if e["a"] == "Run" and e["out"]["txs"] and e["out"]["txs"][0][1] > 1:
                    e["out"]["txs"][0][1] -= 1
                    break
            return evs
        vlib.selftest_rejects(ctx, sd, "Trace_Rewards", OBS, tr2, lose_one)

        def move_dust(evs):                 # the sum is kept, but a unit moves from the protocol reward to a validator
            for e in evs:
                if e["a"] == "Run" and e["out"]["txs"] and e["out"]["prot"] > 0:
                    e["out"]["txs"][0][1] += 1
                    e["out"]["prot"] -= 1
                    break
            return evs
        vlib.selftest_rejects(ctx, sd, "Trace_Rewards", "Trace_Rewards.cfg", tr2, move_dust)

        def big_loss(evs):                  # a real-scale run that loses one unit
            for e in evs:
                if e["a"] == "RunBig" and e["out"]["prot"] and e["out"]["prot"][0] > 0:
                    e["out"]["prot"][0] -= 1
                    break
            return evs
        vlib.selftest_rejects(ctx, sd, "Trace_Rewards", OBS, tr2, big_loss)
    run_v1(ctx, sd, exe, q)
    ctx.cov(rule="(a) TLC-enumerated consistent inputs (2 shards + meta, 3 validators: online/offline, shared reward address, "
                 "delegation contract / unsupported metachain address, delegation flag on/off, top-up stakes, blocks per "
                 "shard, consensus sizes, fees) run on the real rewardsCreatorV2 with 7 top-up handler settings; (b) random "
                 "consistent inputs (1-3 shards + meta, up to 6 nodes per shard, eligible/leaving/jailed/waiting lists, "
                 "amounts < 2^17) and real-scale runs; every run validated by Trace_Rewards (strict: equals the five-stage "
                 "specification; clauses of C35 as invariants); distinct = distinct (validators, offline?, shared address?, "
                 "metachain address?, top-up share > 0?, delegation flag, number of reward txs, shards) classes")
