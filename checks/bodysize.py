"""C33 -- the block body size estimate does not undershoot beyond the safety margin (family B, specs/BodySize).

R1  TLC: the proposer loop over the estimator (calibration exactly as coded in precomputeValues, counters, both
    IsMaxBlockSize* predicates, MaxTransactionsInOneMiniblock) with the exact protobuf wire size of block.Body, over a grid
    of miniblock counts (incl. the boundary counts computed from the estimator itself), tx counts per miniblock, shard id
    pairs (0, 127/128, 999, 16384, metachain, all-shards) and types.  With the worst-case calibration dummy (intended
    design) `size <= network limit` holds; with the calibration as coded TLC must FIND the counterexample.
R2  every transition of that graph replayed on the REAL blockSizeComputation and the REAL marshalled block.Body; the real
    messenger check (checkSendableData) decides the property on real numbers.
R3  random proposer loops on the real estimator (boundary counts by bisection on its own answers), validated by TLC:
    the logged real sizes must equal the wire-size model, the logged answers the calibration model, and the invariants
    are evaluated on every observed state with the real limit.
"""
import os
import time
import vlib

PROPS = ["C33"]
FAMILY = "BodySize"

CFG = """SPECIFICATION MCSpec
CONSTANTS
  Configs <- MCConfigs
  Log <- %(log)s
  MaxSizeCfg = %(maxsize)d
  NetLimitCfg = %(netlimit)d
  Depth = %(depth)d
  Calibs = {%(calibs)s}
  CurMaxes = {%(curmaxes)s}
  Counts = {%(counts)s}
  NTxs = {%(ntxs)s}
  IdPairs = {%(ids)s}
  Types = {%(types)s}
  WithFill = TRUE
  WithMaxTx = TRUE
  WithConc = %(conc)s
VIEW cvars
%(rest)s
CHECK_DEADLOCK FALSE
"""
INVS = "INVARIANTS TypeOK Inv_C33_WithinNetLimit Inv_EstimateBounded Inv_UndershootWithinMargin"

TCFG = """SPECIFICATION GenSpec
CONSTANTS
  MinSizes = {%(mins)s}
  MaxSizes = {%(maxs)s}
  Rounds = {1, 2}
  Sizes = {5}
  MaxStats = %(maxstats)d
  RemoveStats = %(remove)d
  Log <- LogAppend
  Depth = %(depth)d
VIEW cvars
%(rest)s
CHECK_DEADLOCK FALSE
"""


def _cfg(sd, name, **d):
    open(os.path.join(sd, name), "w").write(CFG % d)
    return name


def throttle_stage(ctx, sd, exe, q, minsize, maxsize):
    """the throttled limit used by IsMaxBlockSizeReached: Throttle.tla vs the real process/throttle.blockSizeThrottle.
    C33 relies on minSize <= GetCurrentMaxSize() <= maxSize."""
    tinv = "INVARIANTS Inv_CurWithinBounds Inv_StatsBounded"
    # R1: small statistics window so that the trimming is explored
    open(os.path.join(sd, "t-r1.cfg"), "w").write(TCFG % dict(mins="10, 100", maxs="100, 1000", maxstats=3, remove=1,
                                                              depth=9 if q else 11, rest=tinv))
    ctx.tlc(sd, "MC_Throttle", "t-r1.cfg", timeout=1800)
    # R2: one behaviour per transition with the real configuration and the real window (600/100)
    open(os.path.join(sd, "t-gen.cfg"), "w").write(TCFG % dict(mins="%d" % minsize, maxs="%d" % maxsize, maxstats=600, remove=100,
                                                               depth=7 if q else 9, rest=tinv + "\nACTION_CONSTRAINT EmitEdge"))
    tb = ctx.path("throttle-edges.ndjson")
    g = ctx.tlc(sd, "MC_Throttle", "t-gen.cfg", timeout=1800, behaviours_out=tb, count=False)
    if g.ok and g.behaviours == 0:
        ctx.broken.append("throttle behaviour export produced nothing")
    h = ctx.vh(exe, ["throttle-replay", tb], timeout=900, count_samples=False)
    ctx.cov(throttle_behaviours_replayed=int(h.stats.get("behaviours", 0)), throttle_steps=int(h.stats.get("steps", 0)))
    # R3: long random histories on the real throttle (crosses the 600-entry trimming), validated by TLC
    tr = os.path.join(sd, "trace.ndjson")
    r3 = ctx.vh(exe, ["throttle-record", ctx.seed, 5 if q else 30, 60 if q else 150, tr], timeout=600, count_samples=False)
    st, _ = vlib.validate_trace(ctx, sd, "Trace_Throttle", "Trace_Throttle.cfg", tr, 0, "C33/throttle", divergence_is_violation=False,
                                obs_cfg="TraceObs_Throttle.cfg", what="blockSizeThrottle trace")
    if st == "accepted":
        ctx.cov(throttle_trace_events_validated=int(r3.stats.get("events", 0)))


def never_taken(res):
    """actions whose count is 0:0 in the FINAL coverage report (TLC also prints interim reports, in which an action
    may legitimately still be at 0 while the initial states are being computed; vlib collects zeros from all reports)"""
    import re
    last = {}
    for line in res.tail:
        m = re.match(r"^<(\w+) line .*>: (\d+):(\d+)$", line)
        if m:
            last[m.group(1)] = (int(m.group(2)), int(m.group(3)))
    return sorted(a for a in set(res.coverage_zero) if last.get(a) == (0, 0))


def run(ctx):
    sd = ctx.stage()
    q = ctx.quick
    t0 = [time.time()]

    def lap(name):
        ctx.notes.append("%s %.1fs" % (name, time.time() - t0[0]))
        t0[0] = time.time()
    exe = ctx.go_build("vh-bodysize")
    c = ctx.vh(exe, ["config"], count_samples=False)
    try:
        maxsize, minsize, netlimit = int(c.stats["maxSize"]), int(c.stats["minSize"]), int(c.stats["netLimit"])
    except KeyError:
        ctx.broken.append("could not read the real configuration")
        return
    ctx.cov(real_config={"BlockSizeThrottleConfig.MaxSizeInBytes": maxsize, "MinSizeInBytes": minsize,
                         "p2p/libp2p maxSendBuffSize": netlimit})
    ctx.assume(
        "the network message size limit is p2p/libp2p maxSendBuffSize (1 MiB minus the 64 KiB reserve the messenger keeps for "
        "the pubsub envelope), read from the tree through the verif exporter; the body travels marshalled as block.Body (the "
        "consensus message / batch envelope is assumed to be covered by that reserve)",
        "maxSize is BlockSizeThrottleConfig.MaxSizeInBytes of cmd/node/config/config.toml (read by the harness with the node's "
        "own loader); the throttler's current max lies in [MinSizeInBytes, MaxSizeInBytes]",
        "tx hashes are 32 bytes; the Reserved field of MiniBlock is empty",
        "TLC integers are 32-bit: counts are bounded so that every product stays below 2^31; the uint32 wrap-around of the "
        "estimate in the Go code (more than ~126 million tx hashes) is out of reach and not explored",
        "AddNumMiniBlocks / AddNumTxs are atomic (commutative) increments, as their documentation promises: after concurrent "
        "accounting the counters are the sum of all increments whatever the interleaving (concurrency stage: 8 real goroutines "
        "behind a spin barrier, one call per miniblock / tx hash; needs >1 CPU to interleave)",
        "shard ids are handled as int32 views of the uint32 ids (-1 = metachain 0xFFFFFFFF, -16 = all shards 0xFFFFFFF0)")
    base = dict(maxsize=maxsize, netlimit=netlimit, log="LogLast", conc="TRUE")
    mid = (minsize + maxsize) // 2
    # ---- R1a: the calibration as coded -> TLC must find the counterexample
    d = ctx.tlc(sd, "MC_BodySize", _cfg(sd, "defect.cfg", depth=1, calibs='"asCoded"', curmaxes=str(maxsize), counts="1",
                                        ntxs="0, 1", ids='"cal", "meta"', types="0, 255",
                                        rest="INVARIANTS TypeOK Inv_C33_WithinNetLimit", **base),
                timeout=600, allow=("invariant",), count=False)
    if d.error != "invariant:Inv_C33_WithinNetLimit":
        ctx.broken.append("R1: with the calibration as coded TLC did not report Inv_C33_WithinNetLimit (got %r)" % (d.error,))
    else:
        ctx.cov(design_counterexample_found_with_calibration_as_coded=True)
    lap("R1a")
    # ---- R1b: intended design (worst-case calibration dummy) on the full grid
    grid = dict(counts="1, 10, 1000", ntxs="0, 1, 2, 10, 481, 482", ids='"zero", "cal", "big", "metaall"',
                types="0, 255")
    if q:
        r1 = ctx.tlc(sd, "MC_BodySize", _cfg(sd, "r1.cfg", depth=2, calibs='"worstCase"', curmaxes="%d, %d" % (maxsize, mid),
                                             rest=INVS, **dict(base, **grid)), timeout=900)
    else:
        big = dict(counts="1, 10, 100, 1000, 10000", ntxs="0, 1, 2, 4, 10, 481, 482",
                   ids='"zero", "b127", "cal", "big", "tometa", "meta", "metaall"', types="0, 90, 255")
        r1 = ctx.tlc(sd, "MC_BodySize", _cfg(sd, "r1.cfg", depth=2, calibs='"worstCase"',
                                             curmaxes="%d, %d" % (maxsize, mid), rest=INVS, **dict(base, **big)),
                     timeout=3000, coverage=True)
        if r1.ok and never_taken(r1):
            ctx.broken.append("vacuity: actions never taken in R1: %s" % never_taken(r1))
        ctx.tlc(sd, "MC_BodySize", _cfg(sd, "r1d3.cfg", depth=3, calibs='"worstCase"', curmaxes="%d, %d" % (maxsize, mid),
                                        rest=INVS, **dict(base, counts="1, 1000", ntxs="0, 1, 10, 482",
                                                          ids='"zero", "cal", "metaall"', types="0, 255")), timeout=3000)
    lap("R1b")
    # ---- R2: one behaviour per transition, both modelled calibrations (the harness keeps the one the real code has)
    beh = ctx.path("edges.ndjson")
    gen = dict(counts="1, 1000", ntxs="0, 1, 10, 482", ids='"zero", "cal", "metaall"', types="0, 255")
    g = ctx.tlc(sd, "MC_BodySize", _cfg(sd, "gen.cfg", depth=2, calibs='"asCoded", "worstCase"', curmaxes=str(mid),
                                        rest="ACTION_CONSTRAINT EmitEdge", **dict(dict(base, log="LogAppend", conc="FALSE"), **gen)),
                timeout=3000, behaviours_out=beh, count=False, allow=("invariant",))
    if g.ok and g.behaviours == 0:
        ctx.broken.append("behaviour export produced nothing")
    if not q:
        # plus random walks of depth 3 over the big grid (every last-step variant of each walk is printed)
        beh2 = ctx.path("walks.ndjson")
        sim = dict(counts="1, 10, 1000", ntxs="0, 1, 3, 10, 481, 482", ids='"zero", "b127", "cal", "big", "tometa", "metaall"',
                   types="0, 90, 255")
        cfgname = _cfg(sd, "sim.cfg", depth=3, calibs='"asCoded", "worstCase"', curmaxes="%d, %d" % (maxsize, mid),
                       rest="ACTION_CONSTRAINT EmitFull", **dict(dict(base, log="LogAppend", conc="FALSE"), **sim))
        txt = open(os.path.join(sd, cfgname)).read().replace("VIEW cvars\n", "")
        open(os.path.join(sd, cfgname), "w").write(txt)
        ctx.tlc(sd, "MC_BodySize", cfgname, simulate=120, depth=4, timeout=3000, behaviours_out=beh2, count=False)
        h2 = ctx.vh(exe, ["replay", beh2], timeout=3000)
        ctx.cov(traces_validated_against_impl=int(h2.stats.get("behaviours", 0)), evaluations=int(h2.stats.get("steps", 0)),
                violating_walks=h2.stats.get("violating_behaviours"))
    h = ctx.vh(exe, ["replay", beh], timeout=3000)
    ctx.cov(traces_validated_against_impl=int(h.stats.get("behaviours", 0)), evaluations=int(h.stats.get("steps", 0)),
            distinct_nontrivial=int(h.stats.get("distinct", 0)), accepted_additions=h.stats.get("accepted_additions"),
            max_real_body_bytes=h.stats.get("max_real_body_bytes"), violating_behaviours=h.stats.get("violating_behaviours"),
            behaviours_of_the_other_calibration_skipped=h.stats.get("behaviours_other_calibration"))
    if h.rc == 0 and int(h.stats.get("behaviours", 0)) == 0:
        ctx.broken.append("R2: no exported behaviour matches the real calibration")
    lap("R2")
    # ---- R3: random proposer loops on the real estimator
    tr = os.path.join(sd, "trace.ndjson")
    nt = 150 if q else 1500
    r3 = ctx.vh(exe, ["record", ctx.seed, nt, tr], timeout=900, count_samples=False)
    nev = int(r3.stats.get("events", 0))
    pre = "C33/estimate-fits-body-exceeds-network-limit"
    st, line = vlib.validate_trace(ctx, sd, "Trace_BodySize", "Trace_BodySize.cfg", tr, nev, pre, divergence_is_violation=False,
                                   obs_cfg="TraceObs_BodySize.cfg", what="blockSizeComputation trace (random proposer loops)")
    vlib.validate_trace(ctx, sd, "Trace_BodySize", "TraceKnown_BodySize.cfg", tr, 0, pre, divergence_is_violation=False,
                        obs_cfg="TraceKnownObs_BodySize.cfg", what="blockSizeComputation trace (random proposer loops)")
    if st == "accepted":
        ctx.cov(traces_validated_against_impl=nt + int(r3.stats.get("concurrent_rounds", 0)), evaluations=nev)
    ctx.cov(concurrent_accounting_rounds=r3.stats.get("concurrent_rounds"),
            concurrent_rounds_violating_on_real_numbers=r3.stats.get("concurrent_violating_rounds"))
    if r3.rc == 0 and not r3.stats.get("concurrent_rounds"):
        ctx.broken.append("R3: the concurrency stage did not run")
    lap("R3")
    if not q and st == "accepted":
        def corrupt(evs):
            for e in evs:
                if e["a"] == "Add" and e["out"]["fits"] and e["in"]["count"] > 0:
                    e["st"]["size"] += 1          # the codec wrote one byte more than the size model says
                    break
            return evs
        vlib.selftest_rejects(ctx, sd, "Trace_BodySize", "Trace_BodySize.cfg", tr, corrupt)
    throttle_stage(ctx, sd, exe, q, minsize, maxsize)
    lap("throttle")
    ctx.cov(rule="R2: one behaviour per transition of the proposer-loop graph (depth 2): addition = (throttled?, count, tx hashes per "
                 "miniblock, sender/receiver ids, type) from the grid, count including the largest count the estimator still "
                 "lets in (and +1) and the MaxTransactionsInOneMiniblock miniblock (and +1); non-trivial = additions the real "
                 "estimator accepted (real body marshalled and checked against the real send limit); distinct = distinct "
                 "(throttled, body length, count, ntx, ids, type). R3: random loops, boundary counts by bisection.")
