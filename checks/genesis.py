"""C47 -- an accepted genesis accounts file accounts for the whole supply (family G, specs/Genesis).

R1  Genesis.tla: the input space (converter, configured total, list of <= 3 abstract entries) is enumerated
    exhaustively by TLC; `AsCoded` follows accountsParser.process(); invariant: accepted => the four clauses of C47.
    Checked for the intended design (holds) and for the model of the code that exists (TLC must find the
    counterexample of every deviation `vh-genesis probe` finds on the real code).
R2  every enumerated input is written as a real genesis JSON file (bech32 library / hex, requested letter case) and
    run through the real NewAccountsParser with the real converter and the ed25519 key generator.
    accepted /\ ~Required -> violation (signature = failed clause, computed by TLA+); other disagreement -> drift.
"""
import json
import os
import vlib

PROPS = ["C47"]
FAMILY = "Genesis"

CFG = """SPECIFICATION Spec
CONSTANTS
  Modes <- %(modes)s
  ConvsOf <- MCConvsOf
  LensOf <- MCLensOf
  EntriesAt <- MCEntriesAt
  OffsetsOf <- MCOffsetsOf
  AddrClass <- MCAddrClass
  UnitsOf <- MCUnitsOf
  MagsOf <- MCMagsOf
  Defects = {%(defects)s}
  Log <- %(log)s
%(rest)s
CHECK_DEADLOCK FALSE
"""


def run(ctx):
    sd = ctx.stage()
    quick = ctx.quick
    ctx.assume("a text form is one of: canonical lower case, all upper case, mixed case of the same characters (the bech32 "
               "library rejects non-zero padding bits and mixed case, so these are all texts that can denote one address)",
               "amounts are small symbolic integers in TLA+; the big-number modes write them with a unit (1, 10^18, 6.67*10^24) and write "
               "every mismatch with a magnitude class (2^32 .. 3*2^64) -- a linear map, so the clauses keep their truth value",
               "address converter of length 32 (bech32 and hex), ed25519 key generator as in node/nodeRunner.go",
               "C47 is 'accepted only if': a parser stricter than the four clauses is not a violation (recorded as drift "
               "only when it differs from the model of the code)")

    def cfg(name, **kw):
        d = dict(modes="ModesQuick" if quick else "ModesThorough", defects="", log="LogLast", rest="")
        d.update(kw)
        open(os.path.join(sd, name), "w").write(CFG % d)
        return name

    exe = ctx.go_build("vh-genesis")
    work = ctx.path("files")
    os.makedirs(work, exist_ok=True)
    pr = ctx.vh(exe, ["probe", work])
    present = [x for x in str(pr.stats.get("defects", "")).split(",") if x]
    ctx.cov(code_deviations_present=",".join(present) or "none")
    dq = ", ".join('"%s"' % x for x in present)

    # R1 intended design: accepted => Required on the whole input space (and, if the code has no deviation, the same
    # run exports the cases)
    cases = ctx.path("cases.ndjson")
    if not present:
        g = r1 = ctx.tlc(sd, "MC_Genesis", cfg("r1.cfg", log="LogAppend", rest="INVARIANTS Inv_C47_AcceptedOnlyIfRequired\nACTION_CONSTRAINT Emit"),
                    timeout=1500, behaviours_out=cases, coverage=not quick)
    else:
        r1 = ctx.tlc(sd, "MC_Genesis", cfg("r1.cfg", rest="INVARIANTS Inv_C47_AcceptedOnlyIfRequired"), timeout=1500, coverage=not quick)
        # model of the code that exists: TLC must find the counterexample ...
        r = ctx.tlc(sd, "MC_Genesis", cfg("r1c.cfg", modes="ModesCex", defects=dq, rest="INVARIANTS Inv_C47_AcceptedOnlyIfRequired"),
                    timeout=600, allow=("invariant",), count=False)
        if r.ok:
            ctx.broken.append("model with {%s}: TLC did not find the expected counterexample of Inv_C47_AcceptedOnlyIfRequired" % dq)
        else:
            ctx.cov(model_counterexamples={",".join(present): ["Inv_C47_AcceptedOnlyIfRequired"]})
        # ... and its cases are the ones replayed (so that the modelled verdict follows the code)
        g = ctx.tlc(sd, "MC_Genesis", cfg("gen.cfg", defects=dq, log="LogAppend", rest="ACTION_CONSTRAINT Emit"),
                    timeout=1500, behaviours_out=cases, count=False)
    if g.ok and g.behaviours == 0:
        ctx.broken.append("case export produced nothing")
    if not quick and r1.coverage_zero:
        ctx.broken.append("vacuity guard: actions never taken in R1: %s" % r1.coverage_zero)
    h = ctx.vh(exe, ["replay", cases, work], timeout=3000)
    ctx.cov(traces_validated_against_impl=int(h.stats.get("cases", 0)), evaluations=int(h.stats.get("cases", 0)),
            distinct_nontrivial=int(h.stats.get("distinct_not_required", 0)),
            accepted_by_real_parser=int(h.stats.get("accepted", 0)),
            duplicate_address_cases=int(h.stats.get("duplicate_address_cases", 0)),
            big_number_cases=int(h.stats.get("big_number_cases", 0)),
            drift_cases=int(h.stats.get("drift_cases", 0)), exhaustive=True)
    if present and not any(v["sig"].startswith("C47/accepted/duplicate-address") for v in h.violations):
        ctx.broken.append("the probe found the deviation {%s} but no replayed case reproduces it" % dq)
    if int(h.stats.get("accepted", 0)) == 0:
        ctx.broken.append("vacuous: the real parser accepted none of the generated files")

    # binding self-test: cases whose `required` flag is flipped to FALSE although the real parser accepts them must be reported
    if not quick:
        picked = []
        for ln in open(cases):
            c = json.loads(ln)
            if c[-1]["out"]["accept"] and c[-1]["out"]["required"]:
                c[-1]["out"]["required"] = False
                c[-1]["out"]["why"] = "selftest"
                picked.append(c)
            if len(picked) >= 20:
                break
        p = ctx.path("selftest.ndjson")
        with open(p, "w") as f:
            for c in picked:
                f.write(json.dumps(c) + "\n")
        rs = ctx.vh(exe, ["replay", p, work], env={"VERIF_SELFTEST": "1"}, count_samples=False)
        if not picked or not any(v["sig"] == "C47/accepted/selftest" for v in rs.violations):
            ctx.broken.append("binding self-test: an accepted file with a falsified requirement was not reported")
        else:
            ctx.cov(binding_selftests_rejected=1)
    ctx.cov(rule="every (converter, total, list) of the bounded input space of Genesis.tla: lists of <= 2 entries over all amount "
                 "tuples supply 0..3 / balance 0..2 / staked 0..1 / delegated 0..1 and of 3 entries over a reduced set (distinct "
                 "addresses), lists of <= 3 entries over {2 user, 1 almost-contract, 1 contract address} x {lower, upper, mixed case} "
                 "for the bech32 and the hex converter, lists of <= 2 entries mixing both with every delegation address kind; "
                 "configured total = sum-1 / sum / sum+1; big-number modes: 1- and 2-entry lists (incl. negative parts) written with unit "
                 "1 / 10^18 / 6.67*10^24 and every mismatch (entry supply, total) written with magnitude 1, 2^32, 2^63, 2^64, 2^64-1, "
                 "2^64+1, 3*2^64, 10^18 (Required unchanged: the map is linear); distinct_nontrivial = distinct inputs violating at least one clause "
                 "of C47 (the parser must reject each)")
