"""C16 -- after an epoch change each validator has exactly one place (family S, specs/NodesCoord).

R1  NodesCoord.tla / MC_NodesCoord.tla
      StepSpec  from EVERY well-formed configuration (optionally with an older epoch in which every key sat in another
                shard): one EpochStartPrepare with every consistent validator-info set and EVERY conserving shuffler
                result (or a shuffler error) -> Inv_C16_OnePlace, Inv_C16_Lookup.
      DeepSpec  consecutive epochs (prepare / re-prepare / epoch start action, waiting-list-fix flag switching on the
                way, old epochs dropped) with representative conserving shuffler results.
      AllowInconsistent (thorough): a leaving info with a foreign shard must break Inv_C16_OnePlace (vacuity guard; the
                named deviation in addValidatorToPreviousMap).
R2  the transitions of both state graphs are executed on a REAL indexHashedNodesCoordinator(+WithRater) whose shuffler is
    a stub returning the result TLC chose; observable state and shuffler arguments are compared with the prediction
    after every call; a sample (and every mismatching behaviour) is validated by TLC (Trace_NodesCoord).
R3  real coordinators with the real hash shuffler over 3-7 epochs, validator infos derived from the previous
    configuration like the metachain derives them; TLC validates every step and evaluates Inv_C16_* on every state.
"""
import os
import time
import vlib

PROPS = ["C16"]
FAMILY = "NodesCoord"

CFG = """SPECIFICATION %(spec)s
CONSTANTS
  Keys = {%(keys)s}
  MCShards <- %(shards)s
  FixEpochs = {%(fix)s}
  Classes = {%(classes)s}
  MaxEpoch = %(maxepoch)d
  AllowInconsistent = %(inc)s
  Depth = %(depth)d
  OlderSet = {%(older)s}
  SampleMod = %(mod)d
  MaxChanges = %(maxch)d
  Log <- %(log)s
VIEW cvars
INVARIANTS TypeOK Inv_C16_OnePlace Inv_C16_Lookup
%(rest)s
CHECK_DEADLOCK FALSE
"""
BASE = dict(keys="1, 2, 3", shards="Shards2", fix="0, 9", classes='"plain"', maxepoch=2, inc="FALSE", depth=0,
            older="TRUE, FALSE", mod=1, maxch=1, log="LogNone", rest="")


def run(ctx):
    sd = ctx.stage()
    q = ctx.quick
    ctx.assume(
        "the shuffler is relational in the specification: any result that conserves the validators handed in (nothing "
        "new, nothing duplicated, what disappears is reported leaving, only validators asked to leave do) or an error; "
        "the real hashValidatorShuffler is C12-C14's subject",
        "precondition 'consistent with the previous epoch' = one info per key; an eligible/waiting info names the list "
        "and shard the key has in the previous epoch; a leaving info of a key of the previous epoch names its shard "
        "(NodesCoord!Consistent); new/inactive/jailed infos may concern any key",
        "lists handed to the shuffler and leaving lists are compared as bags (their order is not C16's business)",
        "R1 bounds: 3 keys x {shard 0, metachain} (thorough also 3 shards, rater class) for the exhaustive step, 4 keys / "
        "%d epochs with <= 1 status change per epoch for the multi-epoch model; minimum list sizes 1" % (2 if q else 3),
        "a mismatch between the real coordinator and the specification's prediction is drift unless an Inv_C16 "
        "invariant fails on the observed state")
    exe = ctx.go_build("vh-nodescoord")

    def gen_replay(name, cfg, every, timeout=3000):
        """one TLC run = exhaustive check (R1) + behaviour export; replay on the real code; validate the written trace"""
        open(os.path.join(sd, name + ".cfg"), "w").write(CFG % cfg)
        beh = ctx.path(name + ".ndjson")
        t0 = time.time()
        g = ctx.tlc(sd, "MC_NodesCoord", name + ".cfg", timeout=timeout, behaviours_out=beh)
        ctx.notes.append("%s: TLC check+export %.0fs, %d behaviours" % (name, time.time() - t0, g.behaviours))
        if not g.ok:
            return False
        if g.behaviours == 0:
            ctx.broken.append("behaviour export %s produced nothing" % name)
            return False
        tr = ctx.path(name + ".trace")
        t0 = time.time()
        h = ctx.vh(exe, ["replay", beh, tr, every], timeout=timeout)
        ctx.notes.append("%s: replay on the real coordinator %.0fs" % (name, time.time() - t0))
        if h.rc != 0:
            return False
        ctx.cov(traces_validated_against_impl=int(h.stats.get("behaviours", 0)), evaluations=int(h.stats.get("steps", 0)),
                distinct_nontrivial=int(h.stats.get("distinct", 0)), replay_mismatches=int(h.stats.get("mismatches", 0)))
        ev = int(h.stats.get("events", 0))
        if ev:
            t0 = time.time()
            vlib.validate_trace(ctx, sd, "Trace_NodesCoord", "Trace_NodesCoord.cfg", tr, ev, "C16/replay-" + name,
                                divergence_is_violation=False, timeout=timeout, obs_cfg="Trace_NodesCoord_obs.cfg",
                                what="real coordinator driven by TLC behaviour (%s)" % name)
            ctx.notes.append("%s: TLC validation of %d events %.0fs" % (name, ev, time.time() - t0))
        return True

    # ---- R1 + R2: exhaustive one-epoch step
    if q:
        ok = gen_replay("step", dict(BASE, spec="GenStepSpec", depth=2, older="TRUE", mod=6, log="LogSample",
                                     rest="ACTION_CONSTRAINT EmitAppended"), every=40)
    else:
        ok = gen_replay("step", dict(BASE, spec="GenStepSpec", depth=2, log="LogAppend",
                                     rest="ACTION_CONSTRAINT EmitEdge"), every=200)
        ok = ok and gen_replay("step3", dict(BASE, spec="GenStepSpec", depth=2, shards="Shards3", log="LogSample", mod=4,
                                             rest="ACTION_CONSTRAINT EmitAppended"), every=200)
        ok = ok and gen_replay("steprater", dict(BASE, spec="GenStepSpec", depth=2, classes='"rater"', older="TRUE",
                                                 log="LogSample", mod=3, rest="ACTION_CONSTRAINT EmitAppended"), every=200)
    if not ok:
        return
    # ---- R1 + R2: several epochs
    ok = gen_replay("deep", dict(BASE, spec="GenDeepSpec", keys="1, 2, 3, 4", fix="2", maxepoch=2 if q else 3,
                                 maxch=1, depth=14, log="LogAppend", mod=3 if q else 8,
                                 rest="ACTION_CONSTRAINT EmitSome"), every=10 if q else 100)
    if not ok:
        return
    if not q:
        open(os.path.join(sd, "inc.cfg"), "w").write(CFG % dict(BASE, spec="StepSpec", inc="TRUE", older="FALSE"))
        ri = ctx.tlc(sd, "MC_NodesCoord", "inc.cfg", timeout=1200, count=False, allow=("invariant",))
        if ri.ok:
            ctx.broken.append("vacuity: inconsistent validator infos do not break Inv_C16 in the model")
        else:
            ctx.cov(model_with_inconsistent_infos_fails=ri.error)
    # ---- R3: real shuffler
    tr = ctx.path("real.trace")
    h = ctx.vh(exe, ["record", tr, 12 if q else 120], timeout=1800)
    if h.rc != 0:
        return
    ev = int(h.stats.get("events", 0))
    st, _ = vlib.validate_trace(ctx, sd, "Trace_NodesCoord", "Trace_NodesCoord.cfg", tr, ev, "C16/real",
                                divergence_is_violation=False, timeout=3000, obs_cfg="Trace_NodesCoord_obs.cfg",
                                what="real coordinator + real shuffler over consecutive epochs")
    if st in ("accepted", "rejected"):
        ctx.cov(traces_validated_against_impl=int(h.stats.get("scenarios", 0)), evaluations=int(h.stats.get("prepares", 0)),
                distinct_nontrivial=int(h.stats.get("distinct", 0)), real_shuffler_prepares=int(h.stats.get("prepares", 0)),
                reprepared=int(h.stats.get("reprepares", 0)))
    if st == "accepted" and not q:
        def dup(evs):           # a key shows up in a second shard's waiting list
            for e in evs:
                if e["a"] == "Prepare" and len(e["st"]["cfgs"]) >= 2:
                    c = e["st"]["cfgs"][-1]
                    if c["elig"][0]["l"] and len(c["wait"]) >= 2:
                        c["wait"][-1]["l"].append(c["elig"][0]["l"][0])
                        break
            return evs

        def stale(evs):         # the lookup still reports the shard of the previous epoch
            for e in evs:
                if e["a"] == "Prepare" and len(e["st"]["cfgs"]) >= 2:
                    c = e["st"]["cfgs"][-1]
                    for x in c["elig"] + c["wait"]:
                        for k in x["l"]:
                            for ix in e["st"]["idx"]:
                                if ix["k"] == k:
                                    ix["s"] = 98 if ix["s"] != 98 else 0
                                    return evs
            return evs
        for m in (dup, stale):
            vlib.selftest_rejects(ctx, sd, "Trace_NodesCoord", "Trace_NodesCoord.cfg", tr, m)
            vlib.selftest_rejects(ctx, sd, "Trace_NodesCoord", "Trace_NodesCoord_obs.cfg", tr, m)
    ctx.cov(rule="R2: transitions of the specification's state graphs (every well-formed 3-key configuration x every "
                 "consistent info set x every conserving shuffler result incl. errors; multi-epoch histories with "
                 "re-prepare / epoch start action / flag switch) executed on the real coordinator with a scripted shuffler, "
                 "state + shuffler arguments compared after every call; distinct = distinct (parameters, source "
                 "configuration, action, infos, shuffler result). R3: real shuffler scenarios; distinct = distinct (class, "
                 "shards, flag, which list kinds occur, re-prepare, number of infos)")
