"""C05 -- trie synchronisation reconstructs exactly the requested trie (family T, specs/TrieSync).

R1  TrieSync.tla: both real syncers (doubleListTrieSyncer, trieSyncer) modelled step by step (one action per
    cache/DB lookup, commit, request, loop end, hard-cap break) with the interceptor, honest peers and an adversary;
    TLC checks the C05 invariants exhaustively, the liveness "completes under fair delivery", and -- as a sensitivity
    guard -- that the invariants break as soon as the cache is not content-addressed (threat "poison").
R2  TLC simulation behaviours -> adversarial delivery schedules replayed on BOTH real syncers (honest and silent
    tail); the oracle is the property itself (fresh trie on the destination DB alone, every key = hash of value).
R3  the real runs (TLC schedules and seeded random tries/adversaries at larger sizes) are logged at every
    cache/DB/request interaction and validated by TLC against the same specification (Trace_TrieSync).
"""
import json
import os
import vlib

PROPS = ["C05"]
FAMILY = "TrieSync"

CFG = """SPECIFICATION %(spec)s
CONSTANTS
  Shapes <- MCShapes
  ShapeNames = {%(shapes)s}
  Caps = {%(caps)s}
  Algos = {%(algos)s}
  FaultSets = {%(faults)s}
  Budgets = {%(budgets)s}
  InitDBs <- %(initdbs)s
  Threats = {%(threats)s}
  Log <- %(log)s
  Depth = %(depth)d
%(rest)s
CHECK_DEADLOCK FALSE
"""

SAFETY = ("VIEW cvars\nINVARIANTS TypeOK Inv_C05_Complete Inv_C05_OwnHash Inv_C05_Recreate Inv_C05_Avail "
          "Inv_C05_CacheOwnHash Inv_C05_Frontier\nPROPERTIES Act_C05_WriteOwnHash")
ALLF = '{"cancel", "timeout", "evict", "lose", "shared"}'


def q(names):
    return ", ".join('"%s"' % n for n in names)


def cfg(sd, name, **kw):
    d = dict(spec="Spec", shapes=q(["branch2"]), caps="1", algos=q(["double", "single"]), faults=ALLF, budgets="1",
             initdbs="MCInitDBs", threats="", log="LogLast", depth=0, rest=SAFETY)
    d.update(kw)
    with open(os.path.join(sd, name), "w") as f:
        f.write(CFG % d)
    return name


def run(ctx):
    import time
    t0 = [time.time()]

    def lap(what):
        ctx.notes.append("%s: %.1fs" % (what, time.time() - t0[0]))
        t0[0] = time.time()
    _run(ctx, lap)


def _run(ctx, lap):
    sd = ctx.stage()
    qk = ctx.quick
    ctx.assume(
        "the hash function is collision free (nodes are identified with the hash of their content)",
        "model-checked node DAGs are the real layouts of 6 small tries (<= 10 nodes incl. another trie and forged "
        "nodes), hard cap in {1,2,3}, bounded number of adversary moves; larger tries only in trace validation",
        "deliveries reach the cache through trie.NewInterceptedTrieNode + CheckValidity + "
        "TrieNodeInterceptorProcessor.Save (and, in net mode, TrieNodeResolver + MultiDataInterceptor); the p2p "
        "layer below is not exercised",
        "the verif hook data/trie/sync_verif.go only sets the poll interval and reads the frontier maps",
        "Go map iteration is modelled as: entries present at the start are produced unless deleted, entries "
        "inserted during the range may or may not be produced",
        "non-completion (cancel, timeout, livelock) is not a violation of C05; it is reported as drift")

    # ------------------------------------------------------------------ R1 safety, exhaustive
    LAZY = '{"lazy", "cancel", "timeout"}'
    # (a) lazy environment = every delivery schedule of valid nodes; both syncers, all resumption DBs
    cfg(sd, "r1a.cfg", shapes=q(["leaf", "branch2", "dupleaf"] if qk else ["leaf", "branch2", "dupleaf", "ext", "slot16"]),
        caps="1, 3", budgets="0", faults=LAZY)
    ra = ctx.tlc(sd, "MC_TrieSync", "r1a.cfg", timeout=3000, coverage=not qk)
    # (b) the double list syncer on the larger layouts (shared sub-tries, hard-cap shape, slot-16 leaf)
    cfg(sd, "r1b.cfg", shapes=q(["ext", "deep", "cap", "slot16"] + ([] if qk else ["wide"])), caps="1, 2" if qk else "1, 2, 3",
        algos=q(["double"]), budgets="0", faults=LAZY)
    rb = ctx.tlc(sd, "MC_TrieSync", "r1b.cfg", timeout=3000, coverage=not qk)
    # (c) explicit environment: cache, requests in flight, honest answers in any order, 1 (thorough: 2) adversary
    #     moves out of deliver-anything / evict / lose, cancellation and timeout
    cfg(sd, "r1c.cfg", shapes=q(["branch2"] if qk else ["leaf", "branch2", "dupleaf"]), caps="1, 3", budgets="1",
        faults='{"cancel", "timeout", "evict", "lose"}' if qk else ALLF)
    rc = ctx.tlc(sd, "MC_TrieSync", "r1c.cfg", timeout=3000, coverage=not qk)
    if not qk:
        # (d) trieSyncer on the hard-cap shape
        cfg(sd, "r1d.cfg", shapes=q(["cap"]), caps="1, 2", algos=q(["single"]), budgets="0", faults=LAZY, initdbs="NoResume")
        rd = ctx.tlc(sd, "MC_TrieSync", "r1d.cfg", timeout=3000, coverage=True)
        # vacuity guard: every action of the specification is taken in at least one exhaustive run
        runs = [r for r in (ra, rb, rc, rd) if r.ok]
        if len(runs) == 4:
            never = set(runs[0].coverage_zero)
            for r in runs[1:]:
                never &= set(r.coverage_zero)
            # TLC reports the disjuncts of Adversary/Honest under those names; the Poison and batch disjuncts are
            # disabled in every safety run, so these two names always show a zero line
            expected = {"Poison", "DeliverAllHonest", "Adversary", "Honest"}
            if never - expected:
                ctx.broken.append("vacuity guard: actions never taken in any exhaustive run: %s" % sorted(never - expected))
            ctx.cov(coverage_guard="actions with zero coverage in all exhaustive runs: %s (expected at most %s)"
                    % (sorted(never), sorted(expected)))

    lap("R1 safety")
    # sensitivity: if the cache is not content-addressed the invariants must break (otherwise they are vacuous)
    cfg(sd, "poison.cfg", shapes=q(["branch2"]), caps="3", budgets="0", threats='"poison"', faults='{"lazy"}',
        initdbs="NoResume", rest="VIEW cvars\nINVARIANTS Inv_C05_Complete Inv_C05_OwnHash Inv_C05_Recreate")
    p = ctx.tlc(sd, "MC_TrieSync", "poison.cfg", timeout=600, count=False, allow=("invariant",))
    if p.ok:
        ctx.broken.append("sensitivity guard: with a poisoned cache TLC found no violation of the C05 invariants")
    else:
        ctx.cov(sensitivity="threat 'poison' (content stored under a foreign key): TLC finds %s" % p.error)

    lap("R1 poison")
    # liveness under fair delivery: no state constraint, fairness on the syncer and on honest answers
    live = "PROPERTIES Live_C05_Completes"
    cfg(sd, "live_d.cfg", spec="LiveSpec", shapes=q(["branch2"] if qk else ["leaf", "branch2", "dupleaf", "slot16"]),
        algos=q(["double"]), caps="1", budgets="1", faults='{"evict", "lose"}', rest=live)
    ctx.tlc(sd, "MC_TrieSync", "live_d.cfg", timeout=3000)
    if not qk:
        # trieSyncer: completes when a request is answered as one batch (and no node occurs twice under one parent)
        cfg(sd, "live_s.cfg", spec="LiveSpec", shapes=q(["leaf", "branch2"]), algos=q(["single"]), caps="1, 3",
            budgets="1", faults='{"batch", "evict"}', rest=live)
        ctx.tlc(sd, "MC_TrieSync", "live_s.cfg", timeout=3000)
        cfg(sd, "live_s2.cfg", spec="LiveSpec", shapes=q(["slot16"]), algos=q(["single"]), caps="1, 3",
            budgets="0", faults='{"batch"}', rest=live)
        ctx.tlc(sd, "MC_TrieSync", "live_s2.cfg", timeout=3000)
        # (the fair livelocks of trieSyncer for one-node-at-a-time answers / duplicate children are documented in
        #  docs/triesync.md; they are outside C05, which is conditional on completion)

    lap("R1 liveness")
    # ------------------------------------------------------------------ R2: TLC schedules on the real syncers
    exe = ctx.go_build("vh-triesync")
    lap("go build")
    allshapes = q(["leaf", "branch2", "ext", "dupleaf", "deep", "cap", "wide", "slot16"])
    cfg(sd, "sim.cfg", spec="GenSpec", shapes=allshapes, caps="1, 2, 3", log="LogAppend", depth=140,
        faults='{"evict", "lose"}, {"cancel", "evict", "lose"}', budgets="2, 4, 8", rest="ACTION_CONSTRAINT EmitFull")
    beh = ctx.path("sim.ndjson")
    g = ctx.tlc(sd, "MC_TrieSync", "sim.cfg", simulate=300 if qk else 2500, depth=150, timeout=1800, behaviours_out=beh)
    if g.ok and g.behaviours == 0:
        ctx.broken.append("behaviour export produced nothing")
    lap("R2 generate")
    tr = os.path.join(sd, "trace.ndjson")
    h = ctx.vh(exe, ["replay", beh, tr, 200 if qk else 1500], timeout=1800)
    runs = int(h.stats.get("runs", 0))
    if int(h.stats.get("hung", 0)):
        ctx.drifts.append({"what": "%s replayed runs never reached a scheduling point again and were ended by the harness watchdog" % h.stats.get("hung")})
    if runs and int(h.stats.get("ok", 0)) == 0:
        ctx.broken.append("no replayed run completed: the oracle was never evaluated")
    ctx.cov(traces_validated_against_impl=runs, evaluations=int(h.stats.get("events", 0)),
            distinct_nontrivial=int(h.stats.get("distinct", 0)),
            replay=dict((k, h.stats.get(k)) for k in ("behaviours", "runs", "ok", "cancelled", "no_completion", "hung")))
    lap("R2 replay")
    # R3 on the replayed runs
    ev = int(h.stats.get("trace_events", 0))
    st1 = "skipped"
    if ev:
        st1, _ = vlib.validate_trace(ctx, sd, "Trace_TrieSync", "Trace_TrieSync.cfg", tr, ev, "C05/trace",
                                     divergence_is_violation=False, what="real syncer run (TLC schedule)",
                                     obs_cfg="TraceObs_TrieSync.cfg", timeout=1800)
        if st1 == "accepted":
            ctx.cov(trace_runs_validated=int(h.stats.get("traces", 0)))

    lap("R3 validate replays")
    # ------------------------------------------------------------------ R3: seeded random tries and adversaries
    tr2 = ctx.path("rec.ndjson")
    nseeds = 1 if qk else 4
    for i in range(nseeds):
        r3 = ctx.vh(exe, ["record", ctx.seed * 1000 + i, 150 if qk else 1200, tr2, 12 if qk else 60], timeout=1800)
        ctx.cov(traces_validated_against_impl=int(r3.stats.get("runs", 0)), evaluations=int(r3.stats.get("events", 0)),
                distinct_nontrivial=int(r3.stats.get("distinct", 0)),
                random_runs=dict((k, r3.stats.get(k)) for k in ("runs", "ok", "cancelled", "no_completion", "resumed", "duo")))
        ev2 = int(r3.stats.get("trace_events", 0))
        if ev2:
            st2, _ = vlib.validate_trace(ctx, sd, "Trace_TrieSync", "Trace_TrieSync.cfg", tr2, ev2, "C05/trace",
                                         divergence_is_violation=False, what="real syncer run (random trie, random adversary)",
                                         obs_cfg="TraceObs_TrieSync.cfg", timeout=1800)
            if st2 == "accepted":
                ctx.cov(trace_runs_validated=int(r3.stats.get("traces", 0)))
    lap("R3 random")
    if not qk:
        # end to end: real TrieNodeResolver (GetSerializedNodes batches) -> real MultiDataInterceptor -> syncer
        r4 = ctx.vh(exe, ["record", ctx.seed * 1000 + 77, 400, ctx.path("net.ndjson"), 0, "net"], timeout=1800)
        ctx.cov(traces_validated_against_impl=int(r4.stats.get("runs", 0)), evaluations=int(r4.stats.get("events", 0)),
                net_mode=dict((k, r4.stats.get(k)) for k in ("runs", "ok", "cancelled", "no_completion")))
        # real watchdog: withheld nodes end in ErrTimeIsOut / never in nil
        r5 = ctx.vh(exe, ["timeouts", ctx.seed, 24], timeout=600)
        ctx.cov(traces_validated_against_impl=int(r5.stats.get("runs", 0)), timeouts=dict(r5.stats))

    # ------------------------------------------------------------------ binding self-tests
    if not qk and st1 == "accepted":
        def drop_put(evs):
            for i, e in enumerate(evs):
                if e["a"] == "Put":
                    return evs[:i] + evs[i + 1:]
            return evs

        def taint_put(evs):
            for e in evs:
                if e["a"] == "Put":
                    e["out"]["c"] = 0      # the bytes stored do not hash to the key
                    break
            return evs

        def early_ok(evs):
            # a run that returns nil right after its first request
            for i, e in enumerate(evs):
                if e["a"] == "Request":
                    j = i + 1
                    while j < len(evs) and evs[j]["a"] != "New":
                        j += 1
                    ret = {"t": e["t"], "i": e["i"] + 1, "a": "Return", "in": {"x": 0},
                           "out": {"res": "ok", "rec": "ok", "dbkeys": []}, "st": {}}
                    return evs[:i + 1] + [ret] + evs[j:]
            return evs
        for m in (drop_put, taint_put, early_ok):
            vlib.selftest_rejects(ctx, sd, "Trace_TrieSync", "Trace_TrieSync.cfg", tr, m)
        # the oracle on the real code: a deliberately poisoned cache must be reported by the harness
        s = ctx.vh(exe, ["selftest"], timeout=300, count_samples=False)
        if int(s.stats.get("poison_detected", 0)) < 1:
            ctx.broken.append("oracle self-test: a poisoned cache (node stored under a foreign key) was not detected on the real syncers")
        else:
            ctx.cov(oracle_selftests_detected=int(s.stats.get("poison_detected", 0)))

    ctx.cov(rule="R2: TLC simulation behaviours of TrieSync (6 real trie layouts incl. shared sub-tries, duplicate "
                 "children, slot-16 leaf, resumption DBs; hard cap 1..3) give adversarial schedules (deliveries of target/"
                 "foreign/forged/invalid nodes, duplicates, evictions, cancellation, positioned between the syncer's "
                 "cache/DB/request interactions); each is run on both real syncers with an honest and a silent tail; "
                 "oracle: nil => fresh trie on the destination DB alone has the root hash and the source contents, "
                 "every DB key = hash of its value, and never nil when a target node was never available. distinct = "
                 "distinct (shape, cap, initial DB, schedule) with at least one adversary action. R3: those runs and "
                 "seeded random tries (up to ~100 nodes) are validated by TLC against the specification event by event")
