"""C06 C07 C08 -- accounts DB: journal revert, code reference counting, storage read-back (family A, specs/Accounts).

  Accounts.tla   AccountsDB as main trie + code leaves + data-trie objects + dataTries holder + undo journal  (C06 C07)
  DataTrie.tla   TrackableDataTrie at byte level with explicit caller memory (slices: backing, off, len, cap)  (C08)

Per property: R1 exhaustive TLC check of the intended design; R1 of the code as it exists (KnownDefects) where TLC
must find the counterexample, which is then replayed on the real code; R2 TLC behaviours (transition cover of small
configurations + sampled random walks of larger ones) replayed on the real AccountsDB / TrackableDataTrie by
harness/cmd/vh-accounts, comparing every account field, code, storage value, code leaf and root hash per step.
"""
import json
import os
import subprocess

import vlib

PROPS = ["C06", "C07", "C08"]
FAMILY = "Accounts"

ACC_CFG = """SPECIFICATION %(spec)s
CONSTANTS
  Addr = {%(addr)s}
  Code = {%(code)s}
  SKey = {%(skey)s}
  SVal = {%(sval)s}
  Changes <- %(changes)s
  KnownDefects = {%(defects)s}
  Log <- %(log)s
  Depth = %(depth)d
  SetupAddrs = {%(setup)s}
  MaxHandles = %(handles)d
  HChanges <- %(hchanges)s
%(rest)s
CHECK_DEADLOCK FALSE
"""

DT_CFG = """SPECIFICATION %(spec)s
CONSTANTS
  KeyNames = {%(keys)s}
  KB <- %(kb)s
  Addrs <- %(addrs)s
  Shapes = {%(shapes)s}
  Layouts = {%(layouts)s}
  BufCap = %(cap)d
  KnownDefects = {%(defects)s}
  Log <- %(log)s
  Depth = %(depth)d
%(rest)s
CHECK_DEADLOCK FALSE
"""

ACC_INV = ("INVARIANTS TypeOK Inv_C06_RevertRestores Inv_C06_ZeroIsCommitted Inv_C06_StorageMatchesRoot Inv_Loadable "
           "Inv_C07_RefCount Inv_C07_Committed")
ALL_LAYOUTS = '"fresh","val-spare","val-spare-2","val-tight","key-spare","key-then-val","val-then-key","val-1-key-2"'


def q(*names):
    return ",".join('"%s"' % n for n in names)


def write(sd, name, text):
    with open(os.path.join(sd, name), "w") as f:
        f.write(text)
    return name


def acc_cfg(sd, name, **kw):
    d = dict(spec="Spec", addr=q("A", "B"), code=q("c1"), skey=q("k1"), sval=q("v1"), changes="ChMixed", defects="",
             log="LogLast", depth=4, rest="", setup=q("A"), handles=0, hchanges="HCode")
    d.update(kw)
    return write(sd, name, ACC_CFG % d)


def dt_cfg(sd, name, **kw):
    d = dict(spec="Spec", keys=q("p", "pq"), kb="MCKB2", addrs="MCAddrsSmall", shapes=q("empty", "x", "KA"),
             layouts=ALL_LAYOUTS, cap=12, defects="", log="LogLast", depth=3, rest="")
    d.update(kw)
    return write(sd, name, DT_CFG % d)


def replay(ctx, exe, cmd, path, count=True, timeout=1500):
    """replay a behaviour file on the real code; adds the coverage numbers"""
    r = ctx.vh(exe, [cmd, path], timeout=timeout)
    if count:
        ctx.cov(traces_validated_against_impl=int(r.stats.get("behaviours", 0)),
                evaluations=int(r.stats.get("steps", 0)),
                distinct_nontrivial=int(r.stats.get("distinct_nontrivial", 0)))
    nb = int(r.stats.get("behaviours", 0))
    dr = int(r.stats.get("drifted", 0))
    if nb >= 20 and dr * 5 > nb and not ctx.violations:
        ctx.broken.append("%d of %d behaviours of %s drifted from the specification: the model no longer follows the code"
                          % (dr, nb, os.path.basename(path)))
    return r


def selftest(ctx, exe, cmd, path, mutate, what):
    """binding self-test: corrupt the expected values of behaviours and require the harness to notice"""
    out = ctx.path("selftest-" + os.path.basename(path))
    n = 0
    with open(path) as f, open(out, "w") as g:
        for line in f:
            if n >= 200:
                break
            b = json.loads(line)
            if mutate(b):
                g.write(json.dumps(b) + "\n")
                n += 1
    if n == 0:
        ctx.broken.append("binding self-test (%s): no behaviour to corrupt" % what)
        return
    env = dict(os.environ, VERIF_SEED=str(ctx.seed), VERIF_PROP=ctx.prop)
    p = subprocess.run([exe, cmd, out], stdout=subprocess.PIPE, stderr=subprocess.STDOUT, universal_newlines=True,
                       env=env, cwd=ctx.scratch, timeout=600)
    noticed = 0
    for line in p.stdout.splitlines():
        if line.startswith("@@VH "):
            m = json.loads(line[5:])
            if m.get("kind") == "stat" and m.get("name") in ("violations", "drifted"):
                noticed += int(m["value"])
    if noticed < n:
        ctx.broken.append("binding self-test (%s): %d corrupted behaviours, only %d noticed by the replay" % (what, n, noticed))
    else:
        ctx.cov(binding_selftests_rejected=n)


def obs_validate(ctx, sd, module, cfg, tag, trace, what, sig):
    """observation-only trace validation: TLC evaluates the property on every observed state (Check* constraint of
    the Obs_* module prints @@BADxx <line> for the first state on which it is false)"""
    import shutil
    dst = os.path.join(sd, "trace.ndjson")
    if os.path.abspath(trace) != os.path.abspath(dst):
        shutil.copy(trace, dst)
    r = ctx.tlc(sd, module, cfg, workers=1, timeout=1500, count=False, allow=("postcondition",))
    lines = open(dst).read().splitlines()
    if r.error == "postcondition":
        ctx.broken.append("%s: the observation specification stopped at line %s of %d: %s"
                          % (what, r.highwater, len(lines), (lines[r.highwater - 1][:300] if r.highwater and r.highwater <= len(lines) else "")))
        return None
    if not r.ok:
        return None
    bad = r.marks.get(tag)
    if bad is not None:
        ln = int(bad)
        ev = lines[ln - 1] if 1 <= ln <= len(lines) else ""
        try:
            a = json.loads(ev).get("a", "?")
        except ValueError:
            a = "?"
        ctx.violation("%s/after-%s" % (sig, a),
                      "%s: the property is false on the state observed after line %d of the recorded trace: %s"
                      % (what, ln, ev[:1200]), {"trace_file": vlib.keep_file(ctx, dst), "line": ln, "event": ev[:4000]})
        return ln
    ctx.cov(trace_events_validated=len(lines))
    return 0


def obs_selftest(ctx, sd, module, cfg, tag, trace, mutate, what):
    """binding self-test of the trace channel: a corrupted observation must make the property fail"""
    evs = [json.loads(x) for x in open(trace).read().splitlines() if x.strip()]
    if not mutate(evs):
        ctx.broken.append("trace self-test (%s): nothing to corrupt" % what)
        return
    with open(os.path.join(sd, "trace.ndjson"), "w") as f:
        for e in evs:
            f.write(json.dumps(e) + "\n")
    r = ctx.tlc(sd, module, cfg, workers=1, timeout=900, count=False, allow=("postcondition",))
    if r.marks.get(tag) is None:
        ctx.broken.append("trace self-test (%s): the corrupted trace passed" % what)
    else:
        ctx.cov(binding_selftests_rejected=1)


def vacuity(ctx, r, what, no_handles=False):
    # configurations with MaxHandles = 0 cannot take the account-handle actions (Load / SaveH): not a vacuity
    zero = set(r.coverage_zero) - ({"HandleActs", "Load", "SaveH"} if no_handles else set())
    if zero:
        ctx.broken.append("vacuity guard (%s): actions never taken: %s" % (what, ", ".join(sorted(zero))))


# ------------------------------------------------------------------------------------------------ C06 / C07
def run_accounts(ctx):
    sd = ctx.stage()
    qk = ctx.quick
    c06 = ctx.prop == "C06"
    ctx.assume(
        "Save = LoadAccount, setters, SaveKeyValue, SaveAccount on a fresh object; Load/SaveH = account objects kept by the "
        "caller (up to 2 per address) and saved later, also when stale (after a revert or a save through another "
        "object); kept objects are used without storage writes",
        "JournalLen is observed at every call boundary; snapshots are call boundaries; a snapshot is invalidated by "
        "reverting below it or by Commit",
        "identifiers (addresses, code, keys, values, owner, metadata) are concretised by a fixed injective map; blake2b "
        "is treated as injective on them",
        "in-memory persister (memorydb) stands for LevelDB; trie storage manager without pruning (every 4th behaviour: "
        "with pruning enabled + real storagePruningManager; nothing is pruned during a behaviour)",
        "the code leaf (state.CodeEntry) of the working main trie is read through GetExistingAccount with an account "
        "factory that hands out a CodeEntry wrapper for non-address keys",
        "the journal length itself is not part of the property: snapshots are mapped by position")
    exe = ctx.go_build("vh-accounts")

    # ---- R1: the intended design, exhaustive within a search depth
    if c06:
        r1 = [("r1-storage.cfg", dict(addr=q("A"), code="", skey=q("k1"), sval=q("v1"), changes="ChSto",
                                      depth=7 if qk else 9)),
              ("r1-mixed.cfg", dict(depth=3 if qk else 4)),
              # start from a committed state with an empty data tries holder (a "new block")
              ("r1-committed-start.cfg", dict(spec="SetupSpec", addr=q("A", "B"), code="", skey=q("k1"), sval=q("v1", "v2"),
                                              changes="ChSto", depth=5 if qk else 7)),
              ("r1-two-keys.cfg", dict(addr=q("A", "B") if qk else q("A", "B", "C"), code="", skey=q("k1", "k2"),
                                       sval=q("v1", "v2"), changes="ChSto2", depth=3))]
    else:
        r1 = [("r1-code.cfg", dict(addr=q("A", "B", "C") if not qk else q("A", "B"), code=q("c1", "c2"), skey="", sval="",
                                   changes="ChCode", depth=4)),
              ("r1-mixed.cfg", dict(depth=3 if qk else 4)),
              ("r1-code-storage.cfg", dict(addr=q("A", "B"), code=q("c1"), skey=q("k1"), sval=q("v1"),
                                           changes="ChCodeSto", depth=3 if qk else 4))]
        # kept account objects (handles) saved after reverts / after saves through other objects
        r1.append(("r1-handles.cfg", dict(spec="HandleSpec", addr=q("A", "B"), code=q("c1", "c2"), skey="", sval="",
                                          changes="ChCodeSet", handles=2, hchanges="HCode", depth=4 if qk else 5)))
        if not qk:
            r1.append(("r1-code-deep.cfg", dict(addr=q("A", "B"), code=q("c1", "c2"), skey="", sval="",
                                                changes="ChCode", depth=5)))
    for name, kw in r1:
        acc_cfg(sd, name, rest="VIEW cvars\nCONSTRAINT DepthBound\n" + ACC_INV, **kw)
        r = ctx.tlc(sd, "MC_Accounts", name, timeout=1500, coverage=not qk)
        if not qk:
            vacuity(ctx, r, name, no_handles=not kw.get("handles"))

    # ---- R1 on the code as it exists: TLC must find the counterexample; it is replayed on the real code
    if c06:
        acc_cfg(sd, "dev.cfg", spec="GenCoreSpec", addr=q("A"), code="", skey=q("k1"), sval=q("v1"), changes="ChSto",
                defects=q("stale-data-trie"), log="LogAppend", depth=7, rest="VIEW cvars\nINVARIANTS EmitViolationC06")
        inv = "EmitViolationC06"
    else:
        acc_cfg(sd, "dev.cfg", spec="GenCoreSpec", addr=q("A"), code=q("c1"), skey=q("k1"), sval=q("v1"),
                changes="ChCodeSto", defects=q("partial-remove"), log="LogAppend", depth=4,
                rest="VIEW cvars\nINVARIANTS EmitViolationC07")
        inv = "EmitViolationC07"
    cex = ctx.path("deviation.ndjson")
    d = ctx.tlc(sd, "MC_Accounts", "dev.cfg", timeout=900, behaviours_out=cex, count=False, allow=("invariant",))
    if d.error != "invariant:" + inv or d.behaviours == 0:
        ctx.broken.append("R1 with KnownDefects did not produce the expected counterexample (%s, %d behaviours)"
                          % (d.error, d.behaviours))
    else:
        rr = replay(ctx, exe, "replay", cex, count=False)
        ctx.cov(deviation_counterexample_steps=d.depth, deviation_reproduced_on_code=bool(rr.violations),
                deviation_not_present_in_code=int(rr.stats.get("drifted", 0)) > 0 and not rr.violations)

    if not c06:
        # second named deviation: a stale kept object that never called SetCode overwrites the leaf's code hash
        acc_cfg(sd, "dev2.cfg", spec="GenHandleSpec", addr=q("A"), code=q("c1"), skey="", sval="", changes="ChCodeSet",
                handles=1, hchanges="HCode", defects=q("stale-code-hash-overwrite"), log="LogAppend", depth=4,
                rest="VIEW cvars\nINVARIANTS EmitViolationC07")
        cex2 = ctx.path("deviation2.ndjson")
        d2 = ctx.tlc(sd, "MC_Accounts", "dev2.cfg", timeout=900, behaviours_out=cex2, count=False, allow=("invariant",))
        if d2.error != "invariant:EmitViolationC07" or d2.behaviours == 0:
            ctx.broken.append("R1 with KnownDefects={stale-code-hash-overwrite} did not produce a counterexample (%s)" % d2.error)
        else:
            rr2 = replay(ctx, exe, "replay", cex2, count=False)
            ctx.cov(stale_object_deviation_reproduced_on_code=bool(rr2.violations))

    # ---- R2a: transition cover of small configurations (one behaviour per transition of the state graph)
    if c06:
        gens = [("gen-storage.cfg", dict(spec="GenCoreSpec", addr=q("A"), code="", skey=q("k1"), sval=q("v1"),
                                         changes="ChSto", depth=7)),
                ("gen-mixed.cfg", dict(spec="GenSpec", depth=4)),
                # committed start: removal / saves of an account whose data trie is not in the holder, snapshots > 0
                # provided by the other account
                ("gen-committed-start.cfg", dict(spec="GenSetupSpec", addr=q("A", "B"), code="", skey=q("k1"),
                                                 sval=q("v1", "v2"), changes="ChSto", depth=5 if qk else 6))]
        if not qk:
            gens.append(("gen-storage-2.cfg", dict(spec="GenCoreSpec", addr=q("A", "B"), code="", skey=q("k1"), sval=q("v1"),
                                                   changes="ChSto", depth=5)))
    else:
        gens = [("gen-code.cfg", dict(spec="GenCoreSpec", addr=q("A", "B"), code=q("c1", "c2"), skey="", sval="",
                                      changes="ChCode", depth=5)),
                ("gen-code-storage.cfg", dict(spec="GenCoreSpec", addr=q("A", "B"), code=q("c1"), skey=q("k1"), sval=q("v1"),
                                              changes="ChCodeSto", depth=4))]
        # kept objects: account A through 2 kept objects and fresh calls, B through fresh calls (shares the codes)
        gens.append(("gen-handles.cfg", dict(spec="GenHandleSpec", addr=q("A", "B"), code=q("c1", "c2"), skey="", sval="",
                                             changes="ChCodeSet", handles=2, hchanges="HCode", depth=5 if qk else 6)))
        if not qk:
            gens.append(("gen-code-3.cfg", dict(spec="GenCoreSpec", addr=q("A", "B", "C"), code=q("c1", "c2"), skey="",
                                                sval="", changes="ChCode", depth=4)))
    first = None
    for name, kw in gens:
        acc_cfg(sd, name, log="LogAppend", rest="VIEW cvars\nACTION_CONSTRAINT EmitEdge", **kw)
        out = ctx.path(name[:-4] + ".ndjson")
        g = ctx.tlc(sd, "MC_Accounts", name, timeout=1500, behaviours_out=out)
        if g.ok and g.behaviours == 0:
            ctx.broken.append("behaviour export %s produced nothing" % name)
        replay(ctx, exe, "replay", out)
        first = first or out

    # ---- R2b: sampled random walks of a larger configuration (3 accounts, 2 codes, 2 keys, all change kinds)
    # (the walks start from a committed state in which A and B have storage and no data trie is loaded)
    acc_cfg(sd, "sim.cfg", spec="SimSetupSpec", setup=q("A", "B"), addr=q("A", "B", "C"), code=q("c1", "c2"), skey=q("k1", "k2"),
            sval=q("v1", "v2"), changes="ChAll", log="LogAppend", depth=16, rest="ACTION_CONSTRAINT EmitFull")
    sim = ctx.path("sim.ndjson")
    ctx.tlc(sd, "MC_Accounts", "sim.cfg", simulate=150 if qk else 1500, depth=16, timeout=1500, behaviours_out=sim)
    replay(ctx, exe, "replay", sim)

    if not c06:
        # walks with kept objects (3 accounts, 2 codes, 2 objects per account, no storage)
        acc_cfg(sd, "sim-handles.cfg", spec="SimHandleSpec", addr=q("A", "B", "C"), code=q("c1", "c2"), skey="", sval="",
                changes="ChCode", handles=2, hchanges="HAll", log="LogAppend", depth=14, rest="ACTION_CONSTRAINT EmitFull")
        simh = ctx.path("sim-handles.ndjson")
        ctx.tlc(sd, "MC_Accounts", "sim-handles.cfg", simulate=100 if qk else 1000, depth=14, timeout=1500, behaviours_out=simh)
        replay(ctx, exe, "replay", simh)

    # ---- R3: random histories on the real AccountsDB (6 accounts, 3 codes, 4 keys; removal followed by re-creation
    # favoured) -> TLC evaluates the property on every observed state (Obs_Accounts.tla, no implementation model);
    # thorough: the same trace must also be a behaviour of Accounts.tla (Trace_Accounts.tla; divergence = drift)
    tr = ctx.path("trace.ndjson")
    nt, ln = (25, 40) if qk else (150, 60)
    r3 = ctx.vh(exe, ["record", ctx.seed, nt, ln, tr])
    tag = "BADC06" if c06 else "BADC07"
    res = obs_validate(ctx, sd, "Obs_Accounts", "Obs_C06.cfg" if c06 else "Obs_C07.cfg", tag, tr,
                       "random history on the real AccountsDB", "%s/trace" % ctx.prop)
    if res == 0:
        ctx.cov(traces_validated_against_impl=nt, evaluations=int(r3.stats.get("events", 0)))
        if not qk:
            vlib.validate_trace(ctx, sd, "Trace_Accounts", "Trace_Accounts.cfg", tr, int(r3.stats.get("events", 0)),
                                "%s/trace-strict" % ctx.prop, divergence_is_violation=False, timeout=1500,
                                what="random history on the real AccountsDB")

            def corrupt_trace(evs):
                for e in evs:
                    if c06 and e["a"] == "Revert" and not e["out"]["err"] and e["i"] > 3:
                        e["st"]["acc"]["A"]["nonce"] += 1
                        return True
                    if not c06 and e["a"] == "Save" and e["in"]["code"] not in ("keep", ""):
                        e["st"]["code"][e["in"]["code"]]["refs"] += 1
                        return True
                return False
            obs_selftest(ctx, sd, "Obs_Accounts", "Obs_C06.cfg" if c06 else "Obs_C07.cfg", tag, tr, corrupt_trace,
                         "observed state of one event changed")

    # ---- binding self-test
    if not qk and first:
        def corrupt(b):
            for s in b[1:]:
                if c06 and s["a"] == "Revert" and not s["out"]["err"]:
                    a = sorted(s["st"]["acc"])[0]
                    s["st"]["acc"][a]["nonce"] += 1          # a field "not restored"
                    return True
                if not c06 and s["a"] == "Save" and isinstance(s["st"]["code"], dict):
                    c = sorted(s["st"]["code"])[0]
                    s["st"]["code"][c] += 1                  # one reference too many
                    return True
            return False
        selftest(ctx, exe, "replay", first, corrupt, "expected state of a step changed")

    ctx.cov(rule=("R2: every transition (<= depth) of the specification's state graph for small configurations and "
                  "sampled random walks (3 accounts, 2 codes, 2 keys, 16 calls) replayed on the real AccountsDB, once "
                  "reading the whole state after every call and once only at the end; compared per step: existence, "
                  "nonce, balance, owner, metadata, code hash + GetCode, RetrieveValue of every key, code leaf "
                  "(exists, NumReferences, code) of every code, root hash (equal abstract states => equal roots). "
                  "distinct_nontrivial = distinct call histories that " +
                  ("revert at least one call" if c06 else "change code or remove an account at least once")))


# ------------------------------------------------------------------------------------------------ C08
def run_storage(ctx):
    sd = ctx.stage()
    qk = ctx.quick
    ctx.assume(
        "keys, values and the address are byte strings taken literally from the specification (address of 2 and of "
        "32 bytes); values up to 70 bytes; the 64 MB leaf-size limit is exercised by the `limits` stage only",
        "caller memory: two caller buffers + fresh arrays; layouts are the eight named in DataTrie.tla (Place)",
        "reads go through RetrieveValue of a freshly loaded account object after SaveAccount / Commit / reload; an "
        "account that never had a data trie (ErrNilTrie) has empty storage",
        "in-memory persister (memorydb) stands for LevelDB; `reloaded` = new trie + AccountsDB over the same persister",
        "a read that returns an error is not a read that returns empty (decision documented in docs/accounts.md)")
    exe = ctx.go_build("vh-accounts")
    shapes_all = q("empty", "x", "xyx", "K", "A", "KA", "xKA", "KAKA")

    # ---- R1: intended design (SaveKeyValue copies; deleted key reads empty)
    inv = "INVARIANTS TypeOK Inv_C08_ReadBack Inv_C08_DeletedReadsEmpty"
    dt_cfg(sd, "r1.cfg", shapes=q("empty", "x", "KA", "xKA") if qk else q("empty", "x", "KA", "xKA", "KAKA"), depth=3,
           addrs="MCAddrsSmall" if qk else "MCAddrsBoth", cap=12 if qk else 76,
           rest="VIEW cvars\nCONSTRAINT DepthBound\n" + inv)
    r = ctx.tlc(sd, "MC_DataTrie", "r1.cfg", timeout=1500, coverage=not qk)
    if not qk:
        vacuity(ctx, r, "r1.cfg")
        dt_cfg(sd, "r1-deep.cfg", keys=q("p"), kb="MCKB1", shapes=q("empty", "x", "KA"), depth=5,
               layouts=q("fresh", "val-spare", "key-then-val", "val-then-key"),
               rest="VIEW cvars\nCONSTRAINT DepthBound\n" + inv)
        ctx.tlc(sd, "MC_DataTrie", "r1-deep.cfg", timeout=1500)

    # ---- R1 on the code as it exists: one run per named deviation; counterexamples replayed on the real code
    reproduced = {}
    for dev in ("alias", "dirty-delete-error"):
        dt_cfg(sd, "dev.cfg", spec="GenSpec", defects=q(dev), log="LogAppend", depth=4,
               rest="VIEW cvars\nINVARIANTS EmitViolation")
        cex = ctx.path("deviation-%s.ndjson" % dev)
        d = ctx.tlc(sd, "MC_DataTrie", "dev.cfg", timeout=900, behaviours_out=cex, count=False, allow=("invariant",))
        if d.error != "invariant:EmitViolation" or d.behaviours == 0:
            ctx.broken.append("R1 with KnownDefects={%s} did not produce a counterexample (%s)" % (dev, d.error))
            continue
        rr = replay(ctx, exe, "replay8", cex, count=False)
        reproduced[dev] = bool(rr.violations)
    ctx.cov(deviation_reproduced_on_code=reproduced)

    # ---- R2a: transition cover
    dt_cfg(sd, "gen.cfg", spec="GenSpec", log="LogAppend", depth=3, shapes=q("empty", "x", "KA") if qk else q("empty", "x", "KA", "xKA"),
           addrs="MCAddrsSmall", rest="VIEW cvars\nACTION_CONSTRAINT EmitEdge")
    out = ctx.path("gen8.ndjson")
    # one worker: with VIEW, states are reachable by paths of different length and only strict breadth-first order
    # makes the set of exported transitions deterministic
    g = ctx.tlc(sd, "MC_DataTrie", "gen.cfg", timeout=1500, behaviours_out=out, workers=1)
    if g.ok and g.behaviours == 0:
        ctx.broken.append("behaviour export produced nothing")
    replay(ctx, exe, "replay8", out)
    if not qk:
        dt_cfg(sd, "gen32.cfg", spec="GenSpec", log="LogAppend", depth=3, shapes=q("empty", "xyx", "KAKA"), keys=q("p"), kb="MCKB1",
               addrs="MCAddrs32", cap=140, rest="VIEW cvars\nACTION_CONSTRAINT EmitEdge")
        out32 = ctx.path("gen8-32.ndjson")
        ctx.tlc(sd, "MC_DataTrie", "gen32.cfg", timeout=1500, behaviours_out=out32, workers=1)
        replay(ctx, exe, "replay8", out32)

    # ---- R2b: sampled random walks: all shapes, 3 keys (one a prefix of another), 2- and 32-byte address
    dt_cfg(sd, "sim.cfg", spec="SimSpec", log="LogAppend", depth=14, keys=q("p", "pq", "q"), kb="MCKB", shapes=shapes_all,
           addrs="MCAddrsBoth", cap=140, rest="ACTION_CONSTRAINT EmitFull")
    sim = ctx.path("sim8.ndjson")
    ctx.tlc(sd, "MC_DataTrie", "sim.cfg", simulate=200 if qk else 2000, depth=14, timeout=1500, behaviours_out=sim)
    replay(ctx, exe, "replay8", sim)

    # ---- R3: random writes with arbitrary caller slices on the real tracker -> TLC evaluates C08 on every observed state
    tr = ctx.path("trace8.ndjson")
    nt, ln = (30, 40) if qk else (300, 60)
    r3 = ctx.vh(exe, ["record8", ctx.seed, nt, ln, tr])
    res = obs_validate(ctx, sd, "Obs_DataTrie", "Obs_C08.cfg", "BADC08", tr,
                       "random caller slices on the real TrackableDataTrie", "C08/trace")
    if res == 0:
        ctx.cov(traces_validated_against_impl=nt, evaluations=int(r3.stats.get("events", 0)))
        if not qk:
            def corrupt_trace(evs):
                for e in evs:
                    if e["a"] == "Write" and e["in"]["vb"]:
                        e["st"]["read"][e["in"]["k"]][0] ^= 1
                        return True
                return False
            obs_selftest(ctx, sd, "Obs_DataTrie", "Obs_C08.cfg", "BADC08", tr, corrupt_trace, "one read byte flipped")

    # ---- sizes up to the leaf-size limit (expected outcome from the specification's LeafLimit operator)
    dt_cfg(sd, "limits.cfg", spec="LimitSpec", log="LogAppend", depth=2, rest="ACTION_CONSTRAINT EmitEdge")
    lim = ctx.path("limits.ndjson")
    ctx.tlc(sd, "MC_DataTrie", "limits.cfg", timeout=300, behaviours_out=lim, count=False)
    rl = ctx.vh(exe, ["limits8", lim, "quick" if qk else "thorough"], timeout=900)
    ctx.cov(evaluations=int(rl.stats.get("sizes", 0)))

    if not qk:
        def corrupt(b):
            for s in b[1:]:
                if s["a"] == "Write" and s["in"]["vb"]:
                    k = s["in"]["k"]
                    s["st"]["exp"][k] = list(s["st"]["exp"][k]) + [9]   # "written" one more byte than the code was given
                    return True
            return False
        selftest(ctx, exe, "replay8", out, corrupt, "expected bytes of a write changed")

    ctx.cov(rule=("R2: every transition (<= 2 calls before it) of DataTrie.tla for 2 keys x value shapes (empty, plain, "
                  "tail = key||address, ...) x 8 caller layouts, and sampled random walks of 13 calls (3 keys, 8 shapes, "
                  "8 layouts, Scribble/SaveAccount/Commit/Reload, 2- and 32-byte address) replayed on the real "
                  "TrackableDataTrie through AccountsDB with exactly the described slices (backing array, offset, len, "
                  "cap); after every call every key is read back and compared with the bytes written last. "
                  "distinct_nontrivial = distinct (address, source state, call, arguments) whose history contains a write "
                  "into a caller buffer or a delete"))


def run(ctx):
    if ctx.prop == "C08":
        run_storage(ctx)
    else:
        run_accounts(ctx)
