"""C11 -- every address maps to exactly one valid shard (family S, specs/ShardCoord)."""
import json
import os
import vlib

PROPS = ["C11"]
FAMILY = "ShardCoord"

CFG = """SPECIFICATION Spec
CONSTANTS
  Classes <- MCClasses
  Members <- MCMembers
  Log <- LogLast
  Tier = "%(tier)s"
  Stride = %(stride)d
INVARIANTS %(inv)s
%(rest)s
CHECK_DEADLOCK FALSE
"""
INVS = ("Inv_C11_ValidShard Inv_C11_MaskLowBelowN Inv_C11_SameShard Inv_C11_Deterministic "
        "Inv_C11_CommSymmetric Inv_C11_CommInjective")


def run(ctx):
    sd = ctx.stage()
    q = ctx.quick
    ctx.assume(
        "specs/ShardCoord/ShardCoord.tla transcribes calculateMasks/ComputeIdFromBytes/SameShard, core.IsSmartContractOnMetachain "
        "and core.CommunicationIdentifierBetweenShards; 'metachain system-contract address' is the byte pattern "
        "IsMetaSystemSC of the module (8 zero bytes, 2 VM-type bytes, 15 zero bytes, identifier suffix all 0xFF, length >= 26)",
        "shard counts 1..2^30 (TLC integers are 32 bit; the uint32 accumulation is modelled modulo 2^30, exact for every "
        "mask < 2^30); shard counts above 2^30 are not covered",
        "core.AllShardId is not a shard: topic identifiers are checked for shards 0..n-1 and the metachain only",
        "determinism is decided on the code: repeated calls, a fresh coordinator, coordinators with other self shard ids")
    # R1 + behaviour export in one TLC run: every query of the bounded space is answered by the specification, the C11
    # invariants are evaluated on every answer, and the answered queries are exported (two-byte spaces sampled in TLC)
    open(os.path.join(sd, "r1.cfg"), "w").write(CFG % dict(
        tier=ctx.tier, stride=16 if q else 8, inv=INVS, rest="ACTION_CONSTRAINT EmitEdge"))
    beh = ctx.path("queries.ndjson")
    # development aid (mutation self-tests): VERIF_DEV_REUSE=<dir> reuses the export of a previous R1 run
    dev = os.environ.get("VERIF_DEV_REUSE")
    cb = os.path.join(dev, "queries-%s.ndjson" % ctx.tier) if dev else None
    if cb and os.path.exists(cb):
        import shutil
        import collections
        shutil.copy(cb, beh)
        g = collections.namedtuple("G", "ok behaviours marks coverage_zero wall")(True, 1, {"TPL": open(cb + ".tpl").read()}, [], 0)
        ctx.cov(states=1, transitions=1)
        ctx.notes.append("DEV: R1 skipped, export reused")
        q = True
    else:
        g = ctx.tlc(sd, "MC_ShardCoord", "r1.cfg", timeout=3000, behaviours_out=beh, coverage=not q)
        ctx.notes.append("R1+export %.1fs" % g.wall)
        if not g.ok:
            return
        if g.behaviours == 0 or "TPL" not in g.marks:
            ctx.broken.append("behaviour export produced nothing")
            return
        if cb:
            __import__("shutil").copy(beh, cb)
            open(cb + ".tpl", "w").write(g.marks["TPL"])
    if not q:
        zero = [z for z in g.coverage_zero if z.startswith("Inv_") or z in ("Eval", "Init")]
        if zero:
            ctx.broken.append("vacuity guard: never evaluated: %s" % zero)
        # the metachain answer must be reachable in the bounded space (second disjunct of ValidShard not vacuous)
        open(os.path.join(sd, "vac.cfg"), "w").write(CFG % dict(tier="quick", stride=1, inv="Never_Meta", rest=""))
        v = ctx.tlc(sd, "MC_ShardCoord", "vac.cfg", timeout=1200, count=False, allow=("invariant",))
        if v.ok:
            ctx.broken.append("vacuity guard: no query of the bounded space is answered META")
    tplf = ctx.path("templates.json")
    open(tplf, "w").write(g.marks["TPL"])
    exe = ctx.go_build("vh-shardcoord")
    tr = os.path.join(sd, "trace.ndjson")
    h = ctx.vh(exe, ["run", beh, tplf, ctx.seed, 4000 if q else 60000, tr], timeout=1800)
    if h.rc != 0:
        return
    if int(h.stats.get("replay_meta_answers", 0)) == 0:
        ctx.broken.append("no replayed query was answered META by the real coordinator")
    ctx.cov(traces_validated_against_impl=int(h.stats.get("behaviours", 0)),
            evaluations=int(h.stats.get("replay_evaluations", 0)) + int(h.stats.get("record_compute", 0))
            + int(h.stats.get("record_same", 0)),
            distinct_nontrivial=int(h.stats.get("replay_distinct", 0)) + int(h.stats.get("record_distinct", 0)),
            replay_differences=int(h.stats.get("replay_differences", 0)))
    # R3: the real answers (all random ones, every replayed answer that differs from the specification, a sample of
    # the agreeing ones) are validated by TLC: C11 predicates on every observed record; equality with the
    # specification's answer in strict mode (difference = drift)
    st, line = vlib.validate_trace(ctx, sd, "Trace_ShardCoord", "Trace_ShardCoord.cfg", tr, int(h.stats.get("events", 0)),
                                   "C11/trace", divergence_is_violation=False, timeout=1800,
                                   what="multiShardCoordinator trace", obs_cfg="Trace_ShardCoord_obs.cfg")
    ctx.notes.append("harness+trace validation done at %.1fs" % (__import__("time").time() - ctx.t0))
    if st in ("accepted", "rejected"):
        ctx.cov(traces_validated_against_impl=1)
    if not q and st == "accepted":
        def corrupt_range(evs):
            for e in evs:
                if e["a"] == "compute" and e["in"]["n"] == 3 and e["out"]["shard"] < 3:
                    e["out"]["shard"] = 3
                    break
            return evs

        def corrupt_meta(evs):
            for e in evs:
                if e["a"] == "compute" and e["in"]["n"] < 200 and e["in"]["len"] == 32 and e["out"]["shard"] < 200 \
                        and e["in"]["suf"][0] != 0:
                    e["out"]["shard"] = 2147483647
                    e["out"]["reps"] = [2147483647] * len(e["out"]["reps"])
                    break
            return evs

        def corrupt_comm(evs):
            for e in evs:
                if e["a"] == "comm" and e["in"]["n"] >= 2:
                    e["out"]["tab"][0][1] = e["out"]["tab"][0][0]
                    break
            return evs
        orig = ctx.path("trace.orig.ndjson")
        __import__("shutil").copy(tr, orig)
        for c in (corrupt_range, corrupt_meta, corrupt_comm):
            vlib.selftest_rejects(ctx, sd, "Trace_ShardCoord", "Trace_ShardCoord_obs.cfg", orig, c)
    ctx.cov(rule="R1/R2: the specification answers every query of the bounded space (all shard counts 1..256 x all last "
                 "bytes; all 65536 two-byte suffixes for shard counts needing two bytes; sampled 3/4-byte spaces up to "
                 "2^30 shards; every address template x length x pattern suffix around the metachain system-contract "
                 "pattern; SameShard pairs; topic-identifier tables) and each exported answer is compared with the real "
                 "multiShardCoordinator; distinct = distinct (shard count, address) / (count, pair) / table; R3: seeded "
                 "random addresses (all lengths 0..40, near-pattern mutations, real system SC addresses, shard counts up "
                 "to 2^30) evaluated on the real coordinator and checked by TLC (Trace_ShardCoord) against the C11 predicates")
