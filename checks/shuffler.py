"""C12 C13 C14 -- validator reshuffling at epoch change (family S, specs/Shuffler).

C12 conservation, C13 determinism, C14 minimum shard sizes of sharding.randHashShuffler.UpdateNodeLists.
One pipeline, decided per property:
  R1   TLC checks the transcription Shuffler.tla exhaustively on a bounded space of calls (per-property invariants)
       and exports a sample of the enumerated calls;
  bind the exported calls + seeded random chains of bigger calls are executed on the REAL shuffler (8 repetitions with
       rebuilt maps each) by harness/cmd/vh-shuffler, which logs inputs, observed hash order and outputs;
  R3   TLC (Trace_Shuffler) evaluates the property's invariants on every logged call and compares the logged result
       with the transcription (difference = drift, not an alarm).
"""
import os
import time
import vlib

PROPS = ["C12", "C13", "C14"]
FAMILY = "Shuffler"

DEFECT = '"C12-unknown-reported-leaving"'

MC = """SPECIFICATION MCSpec
CONSTANTS
  KnownDefects = {%(defects)s}
  Log <- LogLast
  NbSet = {%(nb)s}
  MinSet = "%(mins)s"
  CrossSet = {%(cross)s}
  FixEpochs = {%(fix)s}
  BalEpochs = {%(bal)s}
  SwapKinds = {%(swap)s}
  DropSet = {%(drop)s}
  MaxList = %(maxlist)d
  MaxTotal = %(maxtotal)d
  MaxNew = %(maxnew)d
  MaxUnstake = %(maxunstake)d
  MaxAddl = %(maxaddl)d
  MaxLeave = %(maxleave)d
  BigLeave = %(bigleave)s
  RankKinds = {%(ranks)s}
  Depth = %(depth)d
  ExportMod = %(exportmod)d
%(rest)s
CHECK_DEADLOCK FALSE
"""

TRACE = """SPECIFICATION %(spec)s
CONSTANTS
  KnownDefects = {%(defects)s}
  Log <- LogLast
CONSTRAINT HighWater
INVARIANTS %(inv)s
POSTCONDITION Accepted
CHECK_DEADLOCK FALSE
"""

# calls happen at epoch 5 (E0 = 4, Depth 1): enable epoch 5 = switched on exactly now, 0 = long ago, 6 / 9 = not yet
BASE = dict(defects=DEFECT, nb="1", mins="diag", cross="FALSE", fix="5, 6", bal="9", swap='"default", "cap1"',
            drop="FALSE", maxlist=2, maxtotal=4, maxnew=1, maxunstake=2, maxaddl=1, maxleave=2, bigleave="TRUE",
            ranks='"id"', depth=1, exportmod=1, rest="")

C12_INV = "Inv_C12_Conservation Inv_C12_NoForeign Inv_C12_UnhonouredStay Inv_C12_LeavingMembersOrUnknownRequest"
SANITY = "Inv_ErrIffTooSmall Inv_LeavingWereRequested"


def sweeps(prop, quick):
    """(name, cfg dict, export?) -- bounded spaces fitted to measured TLC speed (about 3 ms CPU per call)"""
    if prop == "C12":
        inv = "INVARIANTS " + C12_INV + " " + SANITY
        ex = "\nACTION_CONSTRAINT EmitEdge"
        if quick:
            return [("leaving", dict(BASE, mins="diag", rest=inv + ex, exportmod=41), True)]
        return [
            # 1 shard + meta (and meta only), every minimum pair, three swap configurations, leaving lists up to 2+1
            ("leaving-1shard", dict(BASE, nb="0, 1", mins="all", swap='"default", "cap1", "multi"', maxtotal=5, maxleave=3,
                                    ranks='"mix"', rest=inv + ex, exportmod=1499), True),
            # 2 shards + meta, up to 6 validators
            ("leaving-2shards", dict(BASE, nb="2", swap='"default"', maxtotal=6, rest=inv + ex, exportmod=997), True),
            # both distributors, balancing on/off, up to 2 new nodes, two hash orders
            ("distribution", dict(BASE, nb="1, 2", cross="FALSE, TRUE", bal="5, 9", fix="5", maxtotal=6, maxnew=2,
                                  maxunstake=1, maxaddl=0, maxleave=1, bigleave="FALSE", ranks='"rev", "mix"',
                                  swap='"default"', rest=inv + ex, exportmod=499), True),
            # two consecutive epoch changes (the second call starts from the lists the first one produced; the
            # "multi" swap configuration changes between the two epochs, the fix flag switches on at the second)
            ("two-epochs", dict(BASE, depth=2, maxtotal=5, maxleave=1, maxunstake=1, maxaddl=1, mins="two", swap='"multi"',
                                fix="6", rest=inv), False),
        ]
    if prop == "C14":
        inv = "INVARIANTS Inv_C14_MinSizes " + SANITY
        ex = "\nACTION_CONSTRAINT EmitEdge"
        if quick:
            return [("minsizes", dict(BASE, mins="all", fix="5", swap='"default", "cap1", "cap0"', maxtotal=5, maxnew=0,
                                      rest=inv + ex, exportmod=31), True)]
        return [
            ("minsizes-1shard", dict(BASE, nb="0, 1", mins="diag", fix="0, 5", swap='"default", "cap1", "cap0"', maxlist=3,
                                     maxtotal=6, maxnew=0, maxleave=3, rest=inv + ex, exportmod=1999), True),
            ("minsizes-2shards", dict(BASE, nb="2", mins="all", fix="5", swap='"default"', maxtotal=6, maxnew=0,
                                      cross="FALSE, TRUE", rest=inv + ex, exportmod=499), True),
            ("minsizes-new+off", dict(BASE, nb="1", mins="two", fix="5, 6", swap='"default", "multi"', maxtotal=5, maxnew=1,
                                      drop="FALSE, TRUE", rest=inv + ex, exportmod=499), True),
        ]
    # C13: the result must not depend on the order in which map keys are visited (all permutations of the keys)
    inv = "INVARIANTS Inv_C13_OrderIndependent"
    ex = "\nACTION_CONSTRAINT EmitEdge"
    if quick:
        return [("order", dict(BASE, nb="1, 2", mins="low", cross="FALSE, TRUE", bal="5, 9", fix="5", swap='"multi"',
                               maxtotal=4, maxnew=2, maxunstake=1, maxaddl=1, maxleave=1, bigleave="FALSE",
                               ranks='"mix"', rest=inv + ex, exportmod=23), True)]
    return [("order", dict(BASE, nb="1, 2", mins="two", cross="FALSE, TRUE", bal="5, 9", fix="5, 6", swap='"default", "multi"',
                           maxtotal=5, maxnew=1, maxunstake=1, maxaddl=1, maxleave=1, ranks='"mix"',
                           rest=inv + ex, exportmod=199), True)]


def run(ctx):
    sd = ctx.stage()
    q = ctx.quick
    prop = ctx.prop
    ctx.assume(
        "specs/Shuffler/Shuffler.tla transcribes UpdateNodeLists/shuffleNodes and both validator distributors over validator "
        "ids; shuffleList (sha256 order) is the parameter `rank`, observed from the real keys and logged with every call",
        "inputs list every validator once among eligible / waiting / new; leaving requests name eligible/waiting validators or "
        "unknown keys, with duplicates within and across the two leaving lists (a node registering in the same call is never "
        "also requested to leave); shard keys of the input maps are within 0..NbShards-1 and the metachain, keys may be missing",
        "splitShards/mergeShards only copy the maps in this version: adaptivity and hysteresis are randomised in the driver "
        "but not modelled",
        "sha256 gives distinct values for distinct keys")
    # ---------------------------------------------------------------- R1 (+ export of enumerated calls)
    calls = ctx.path("calls.ndjson")
    open(calls, "w").close()
    # development aid (mutation self-tests): VERIF_DEV_REUSE=<dir> reuses the calls exported by a previous R1 run
    # instead of repeating R1; never set by the registered commands
    dev = os.environ.get("VERIF_DEV_REUSE")
    cached = os.path.join(dev, "calls-%s-%s.ndjson" % (prop, ctx.tier)) if dev else None
    if cached and os.path.exists(cached):
        __import__("shutil").copy(cached, calls)
        ctx.notes.append("DEV: R1 skipped, calls reused from %s" % cached)
        ctx.cov(states=1, transitions=1)
    for name, cfg, export in ([] if cached and os.path.exists(cached) else sweeps(prop, q)):
        open(os.path.join(sd, "r1.cfg"), "w").write(MC % cfg)
        out = ctx.path("calls-%s.ndjson" % name)
        r = ctx.tlc(sd, "MC_Shuffler", "r1.cfg", timeout=5400, behaviours_out=out if export else None)
        ctx.notes.append("R1 %s: %d states %.0fs" % (name, r.distinct, r.wall))
        if not r.ok:
            return
        if export:
            with open(calls, "a") as f:
                f.write(open(out).read())
    if cached and not os.path.exists(cached):
        __import__("shutil").copy(calls, cached)
    if prop == "C12" and not (cached and ctx.notes and ctx.notes[0].startswith("DEV")):
        # the named deviation: with it (the code as it is) TLC must find the counterexample of the full C12 clause,
        # without it (intended design) the clause holds
        small = dict(BASE, maxtotal=3, mins="two", fix="5", swap='"default"', maxleave=2, maxnew=0, bigleave="FALSE")
        open(os.path.join(sd, "dev.cfg"), "w").write(MC % dict(small, rest="INVARIANTS Inv_C12_LeavingWereMembers"))
        d = ctx.tlc(sd, "MC_Shuffler", "dev.cfg", timeout=1200, count=False, allow=("invariant",))
        if d.ok:
            ctx.broken.append("the modelled deviation %s does not violate Inv_C12_LeavingWereMembers in R1" % DEFECT)
        ctx.cov(r1_counterexample_with_deviation=d.error or "")
        open(os.path.join(sd, "int.cfg"), "w").write(MC % dict(
            BASE if not q else small, defects="", rest="INVARIANTS Inv_C12_LeavingWereMembers " + C12_INV))
        ctx.tlc(sd, "MC_Shuffler", "int.cfg", timeout=3600)
    if not q:
        # vacuity guards: the situations the invariants talk about are reachable in the bounded model
        guards = {"C12": ["Never_Leaves", "Never_Unhonoured", "Never_ShuffledOut"], "C14": ["Never_FixPreLeaving"],
                  "C13": ["Inv_C13_Unsorted"]}[prop]
        gbase = dict(BASE, maxtotal=5, mins="all", fix="5", swap='"default", "cap1"') if prop != "C13" else \
            dict(BASE, nb="2", mins="low", fix="5", swap='"default"', maxtotal=4, maxleave=2, bigleave="FALSE")
        for g in guards:
            open(os.path.join(sd, "vac.cfg"), "w").write(MC % dict(gbase, rest="INVARIANTS " + g))
            v = ctx.tlc(sd, "MC_Shuffler", "vac.cfg", timeout=1800, count=False, allow=("invariant",))
            if v.ok:
                ctx.broken.append("vacuity guard %s was not violated: the bounded model never reaches that situation" % g)
            else:
                ctx.cov(vacuity_guards_passed=1)
    # ---------------------------------------------------------------- the real shuffler
    exe = ctx.go_build("vh-shuffler")
    tr = os.path.join(sd, "trace.ndjson")
    h = ctx.vh(exe, ["run", calls, ctx.seed, 200 if q else 2500, tr], timeout=3600)
    if h.rc != 0:
        return
    ctx.notes.append("harness done at %.0fs: %s calls" % (time.time() - ctx.t0, h.stats.get("calls")))
    ncalls = int(h.stats.get("calls", 0))
    ctx.cov(traces_validated_against_impl=ncalls, evaluations=int(h.stats.get("runs", 0)),
            distinct_nontrivial=int(h.stats.get("distinct_classes", 0)),
            replayed_tlc_calls=int(h.stats.get("replayed_calls", 0)), random_calls=int(h.stats.get("random_calls", 0)),
            random_calls_20plus_validators=int(h.stats.get("random_calls_20plus_validators", 0)),
            error_calls=int(h.stats.get("error_calls", 0)))
    if int(h.stats.get("replayed_calls", 0)) == 0:
        ctx.broken.append("no TLC-enumerated call was replayed")
    # ---------------------------------------------------------------- R3: TLC on the recorded calls
    inv = {"C12": C12_INV, "C13": "Inv_C13_SameOutputs", "C14": "Inv_C14_MinSizes"}[prop]
    for nm, spec in (("t_strict.cfg", "TraceSpec"), ("t_obs.cfg", "TraceSpecObs")):
        open(os.path.join(sd, nm), "w").write(TRACE % dict(spec=spec, defects=DEFECT, inv=inv))
    st, line = vlib.validate_trace(ctx, sd, "Trace_Shuffler", "t_strict.cfg", tr, ncalls, "%s/trace" % prop,
                                   divergence_is_violation=False, timeout=3600, what="randHashShuffler.UpdateNodeLists",
                                   obs_cfg="t_obs.cfg")
    ctx.notes.append("trace validation (%s) done at %.0fs" % (st, time.time() - ctx.t0))
    if prop == "C12":
        # the full clause "validators reported as leaving were eligible or waiting before" on the observed calls
        open(os.path.join(sd, "t_members.cfg"), "w").write(TRACE % dict(spec="TraceSpecObs", defects=DEFECT,
                                                                      inv="Inv_C12_LeavingWereMembers"))
        vlib.validate_trace(ctx, sd, "Trace_Shuffler", "t_members.cfg", tr, 0, "C12/unknown-key-reported-leaving",
                            divergence_is_violation=False, timeout=3600, what="randHashShuffler.UpdateNodeLists")
    if not q and st == "accepted":
        selftest(ctx, sd, tr, prop)
    ctx.cov(rule="a case = one UpdateNodeLists call executed on the real shuffler (10 runs: 8 with rebuilt maps / slices / objects, 2 on "
                 "shufflers that served later / earlier epochs before; public keys of six shape classes: 32-byte, 96-byte, mixed "
                 "lengths, nested prefixes, prefix+decimal, last-byte-only); "
                 "TLC-enumerated calls (all size vectors / leaving lists / flags of the bounded space, sampled 1-in-k, keys "
                 "chosen so that sha256 realises the enumerated rank) + seeded random chains of epochs (0-4 shards, up to "
                 "~45 validators, leaving lists with duplicates and unknown keys, enable epochs before/at/after the call); "
                 "distinct = distinct (shard count, minimums, distributor, flags, swap configs, list sizes, leaving sizes, "
                 "outcome sizes); every logged call is checked by TLC against the property invariants and the transcription")
    if prop == "C13":
        coordinator_determinism(ctx)


def coordinator_determinism(ctx):
    """C13 one level up (stage owned by the NodesCoord family, harness/cmd/vh-nodescoord determinism): the lists the
    shuffler is handed are BUILT by indexHashedNodesCoordinator.EpochStartPrepare (computeNodesConfigFromList,
    createSortedListFromMap, ComputeAdditionalLeaving) from maps.  K = 8 fresh real coordinators with the real shuffler are
    built from the same arguments (maps filled in different insertion orders) and process the same epoch start blocks:
    leaving validators in every shard, one shard above its removal limit, jailed / low-rated (additional leaving) / new
    nodes, both waiting-list-fix settings, 2-3 shards + metachain, 3 epochs.  The order-sensitive eligible / waiting /
    leaving lists of all K coordinators are compared after every epoch (signature
    C13/coordinator/outputs-differ-across-identical-runs) and every (scenario, epoch, run) record is evaluated by TLC:
    specs/NodesCoord/Determinism.tla, Inv_C13_CoordinatorDeterministic = equal inputs => equal outputs."""
    import shutil
    exe = ctx.go_build("vh-nodescoord")
    dd = ctx.path("spec-determinism")
    os.makedirs(dd, exist_ok=True)
    for f in ("Determinism.tla", "Determinism.cfg"):
        shutil.copy(os.path.join(vlib.VERIF, "specs", "NodesCoord", f), dd)
    tr = os.path.join(dd, "trace.ndjson")
    h = ctx.vh(exe, ["determinism", tr, 16 if ctx.quick else 150, 8], timeout=1800)
    if h.rc != 0:
        return
    ev = int(h.stats.get("events", 0))
    st, _ = vlib.validate_trace(ctx, dd, "Determinism", "Determinism.cfg", tr, ev, "C13/coordinator",
                                divergence_is_violation=False, timeout=1800,
                                what="K coordinators built from the same arguments, same epoch start blocks")
    ctx.cov(traces_validated_against_impl=int(h.stats.get("scenarios", 0)), evaluations=int(h.stats.get("prepares", 0)),
            distinct_nontrivial=int(h.stats.get("distinct", 0)), coordinator_prepares=int(h.stats.get("prepares", 0)),
            coordinator_epochs_with_leaving_in_2plus_shards=int(h.stats.get("epochs_with_leaving_in_2plus_shards", 0)),
            coordinator_runs_differing=int(h.stats.get("differing", 0)))
    if not ctx.quick and st == "accepted":
        def other_order(evs):   # one coordinator holds the same validators in another order
            for e in evs:
                if e["st"]["run"] > 0 and e["out"]["ok"] and any(len(x["l"]) > 1 for x in e["out"]["wait"]):
                    x = next(x for x in e["out"]["wait"] if len(x["l"]) > 1)
                    x["l"].reverse()
                    break
            return evs
        orig = ctx.path("determinism.orig.ndjson")
        shutil.copy(tr, orig)
        vlib.selftest_rejects(ctx, dd, "Determinism", "Determinism.cfg", orig, other_order, timeout=900)
    ctx.coverage["rule"] += ("; coordinator level: a case = one epoch start block processed by 8 fresh real coordinators "
                             "(real shuffler) built from the same arguments; distinct = distinct (class, shards, fix setting, "
                             "swap limit, shards with leaving validators, number leaving, epoch)")
    ctx.assume("coordinator-level determinism is decided on the (scenario, epoch, run) records of 8 coordinators per "
               "scenario; Go randomises map iteration per range statement, so a map-order dependence shows with "
               "probability growing with the number of scenarios (16 quick / 150 thorough, 3 epochs each)")


def selftest(ctx, sd, tr, prop):
    """binding self-test: a corrupted record must be rejected by the property invariants (observation mode)"""
    def lose(evs):          # C12: a waiting validator disappears
        for e in evs:
            if not e["out"]["err"] and any(len(x["l"]) > 1 for x in e["out"]["wait"]):
                next(x for x in e["out"]["wait"] if len(x["l"]) > 1)["l"].pop()
                break
        return evs

    def dup(evs):           # C12: an eligible validator is also reported as leaving
        for e in evs:
            if not e["out"]["err"] and e["out"]["elig"] and e["out"]["elig"][0]["l"]:
                e["out"]["leaving"].append(e["out"]["elig"][0]["l"][0])
                break
        return evs

    def nondet(evs):        # C13: one repetition gave another result
        for e in evs:
            e["out"]["runs"][-1] += 1000
            break
        return evs

    def below(evs):         # C14: a shard ends below its minimum although the fix is active
        for e in evs:
            c, o = e["in"], e["out"]
            if not o["err"] and c["epoch"] >= c["fixEpoch"] and c["nb"] > 0 and o["elig"] and len(o["elig"][0]["l"]) == c["minS"] \
                    and o["elig"][0]["sh"] == 0 and o["wait"] and o["wait"][0]["sh"] == 0:
                o["wait"][0]["l"].append(o["elig"][0]["l"].pop())
                break
        return evs
    orig = ctx.path("trace.orig.ndjson")
    __import__("shutil").copy(tr, orig)
    for m in {"C12": (lose, dup), "C13": (nondet,), "C14": (below,)}[prop]:
        vlib.selftest_rejects(ctx, sd, "Trace_Shuffler", "t_obs.cfg", orig, m, timeout=1800)
