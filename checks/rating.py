"""C37 -- validator ratings stay in range and move in the right direction (family E, specs/Rating)."""
import os
import vlib

PROPS = ["C37"]
FAMILY = "Rating"

CFG = """SPECIFICATION %(spec)s
CONSTANTS
  Configs <- MCConfigs
  Currents <- MCCurrents
  Streaks = {%(streaks)s}
  Reverts = {%(reverts)s}
  Log <- %(log)s
  Depth = %(depth)d
  Mins = {%(mins)s}
  Maxs = {%(maxs)s}
  IncPs = {%(incps)s}
  DecPs <- %(decps)s
  IncVs = {%(incvs)s}
  DecVs <- MCDecVs
  Pens <- %(pens)s
  Layouts = {%(layouts)s}
%(rest)s
CHECK_DEADLOCK FALSE
"""
R1_REST = ("VIEW cvars\nINVARIANTS Inv_C37_Range Inv_C37_StreakMonotone Inv_C37_ChanceBand\n"
           "PROPERTIES Act_C37_NoClauseViolated")
OBS = "Trace_Rating_obs.cfg"


def run(ctx):
    sd = ctx.stage()
    q = ctx.quick
    ctx.assume(
        "a configuration is what BlockSigningRater sees: min/max/start rating, the four integer steps and the "
        "consecutive-missed-blocks penalty per chain, the selection-chance bands; the float32 derivation of the "
        "steps inside NewRatingsData is not modelled -- the derived steps are read back from the real RatingsData "
        "and the clauses are checked for whatever it derived",
        "ComputeDecreaseProposer's float64 power is specified exactly for dyadic penalties pn/pd (pd <= 8) while "
        "the exact value fits TLC's 32-bit integers, otherwise only its range (min <= result <= result for streak 0) "
        "and the streak clause across observed calls are specified",
        "current ratings fed to the methods lie in 0..max+1 (direction clauses only for min <= current <= max); "
        "ratings and steps below 2^30; NaN / infinite floats in the configuration are not explored",
        "trusted: TLC, mock.RatingsInfoMock + rating.NewRatingStepData used to build a rater from a model configuration")
    base = dict(spec="Spec", streaks="0, 1, 2, 3, 5", reverts="0, 1, 2, 7", log="LogLast", depth=0,
                mins="1, 2", maxs="5" if q else "4, 7", incps="1, 3", decps="MCDecPs" if q else "MCDecPsBig",
                incvs="1, 2", pens="MCPensAll", layouts="1, 2, 3", rest=R1_REST)

    def cfg(name, **kw):
        open(os.path.join(sd, name), "w").write(CFG % dict(base, **kw))
        return name

    # R1: every small configuration x current rating x call: clauses of C37 hold for the specified rater; the scan of
    #     the sorted bands agrees with the declarative band of a rating; streak monotonicity of the specified power
    r1 = ctx.tlc(sd, "MC_Rating", cfg("r1.cfg"), timeout=1500, coverage=not q)
    if not q and r1.ok and r1.coverage_zero:
        ctx.broken.append("vacuity guard: never taken: %s" % sorted(set(r1.coverage_zero)))
    exe = ctx.go_build("vh-rating")

    # R2: the same input space (exactly specified part) exported with the specification's results and evaluated on a
    #     real BlockSigningRater built from each configuration
    beh = ctx.path("edges.ndjson")
    g = ctx.tlc(sd, "MC_Rating", cfg("gen.cfg", spec="GenSpec", log="LogAppend", depth=2, pens="MCPensExact",
                                     maxs="4" if q else "7", layouts="2, 3" if q else "1, 2, 3", decps="MCDecPs",
                                     incvs="1, 2" if q else "1",
                                     rest="VIEW cvars\nACTION_CONSTRAINT EmitEdge"),
                timeout=1500, behaviours_out=beh, count=False)
    if g.ok and g.behaviours == 0:
        ctx.broken.append("behaviour export produced nothing")
    mm = ctx.path("mismatch.ndjson")
    h = ctx.vh(exe, ["replay", beh, mm], timeout=1500)
    nmis = int(h.stats.get("mismatches", 0))
    ctx.cov(traces_validated_against_impl=int(h.stats.get("configs", 0)), evaluations=int(h.stats.get("steps", 0)),
            distinct_nontrivial=int(h.stats.get("distinct", 0)), replay_mismatches=nmis)
    if nmis > 0:
        # the real rater is not the specified function: TLC evaluates the C37 clauses on a sweep of observed results
        vlib.validate_trace(ctx, sd, "Trace_Rating", OBS, mm, int(h.stats.get("mismatch_events", 0)),
                            "C37/replay-observed", divergence_is_violation=False,
                            what="BlockSigningRater built from a model configuration (observed results)")

    # R3: random RatingsConfig values through the real NewRatingsData + NewBlockSigningRater; derived steps read back
    tr = os.path.join(sd, "trace.ndjson")
    nconf = 25 if q else 80
    r3 = ctx.vh(exe, ["record", ctx.seed, nconf, tr])
    st, line = vlib.validate_trace(ctx, sd, "Trace_Rating", "Trace_Rating.cfg", tr, int(r3.stats.get("events", 0)),
                                   "C37/trace", divergence_is_violation=False, obs_cfg=OBS, timeout=1500,
                                   what="rater built by NewRatingsData from a random RatingsConfig")
    if st == "accepted":
        ctx.cov(traces_validated_against_impl=int(r3.stats.get("configs_accepted", 0)),
                evaluations=int(r3.stats.get("events", 0)),
                configs_rejected_by_real_validation=int(r3.stats.get("configs_rejected", 0)))
    if not q and st == "accepted":
        def off_by_one(evs):              # a rating one above max reported by an increase
            c = None
            for e in evs:
                if e["a"] == "New":
                    c = e["in"]
                elif e["a"] == "IncP" and e["in"]["cur"] == c["max"]:
                    e["out"]["r"] = c["max"] + 1
                    break
            return evs
        vlib.selftest_rejects(ctx, sd, "Trace_Rating", OBS, tr, off_by_one)

        def streak(evs):                  # a longer streak giving a higher rating than the previous one
            for i, e in enumerate(evs):
                if (e["a"] == "DecP" and e["in"]["k"] >= 2 and evs[i - 1]["a"] == "DecP"
                        and evs[i - 1]["out"]["r"] + 1 <= e["in"]["cur"] and evs[i - 1]["in"]["cur"] == e["in"]["cur"]):
                    e["out"]["r"] = evs[i - 1]["out"]["r"] + 1
                    break
            return evs
        vlib.selftest_rejects(ctx, sd, "Trace_Rating", OBS, tr, streak)

        def band(evs):                    # the chance of the neighbouring band
            c = None
            for e in evs:
                if e["a"] == "New":
                    c = e["in"]
                elif e["a"] == "Chance" and c["min"] <= e["in"]["cur"] <= c["max"]:
                    others = [b["ch"] for b in c["bands"] if b["ch"] != e["out"]["r"]]
                    if others:
                        e["out"]["r"] = others[0]
                        break
            return evs
        vlib.selftest_rejects(ctx, sd, "Trace_Rating", OBS, tr, band)
    ctx.cov(rule="R2: every (configuration, current rating 0..max+1, method, chain, streak / revert count) of the small "
                 "configuration space (min, max, start, 4 steps x 2 chains, dyadic penalties, 3 band layouts given "
                 "unsorted) evaluated on a real BlockSigningRater and compared with the TLA+ result; distinct = distinct "
                 "(configuration, call, arguments); R3: random RatingsConfig values (hours, consensus/shard sizes, "
                 "importance, decrease factors, penalties, real-scale and small ratings, random bands) through the real "
                 "NewRatingsData; per accepted configuration a sweep of calls (currents at range ends and band borders, "
                 "streaks 0..1000) validated by Trace_Rating")
