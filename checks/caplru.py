"""C28 -- size-bounded LRU cache matches a reference LRU (family K, specs/CapLRU)."""
import os
import vlib

PROPS = ["C28"]
FAMILY = "CapLRU"

CFG = """SPECIFICATION %(spec)s
CONSTANTS
  Keys = {%(keys)s}
  Sizes <- %(sizes)s
  Vals = {%(vals)s}
  ItemLimits = {%(items)s}
  ByteLimits = {%(bytes)s}
  Log <- %(log)s
  Depth = %(depth)d
%(rest)s
CHECK_DEADLOCK FALSE
"""


def run(ctx):
    sd = ctx.stage()
    q = ctx.quick
    ctx.assume("the reference model is specs/CapLRU/CapLRU.tla (one action per public call of capacityLRU)",
               "values are small integers; key universe <= 8 keys; TLC integers (sizes < 2^31)",
               "the `evicted` flag returned for an update of an existing key is modelled as the code reports it "
               "(always false) -- the flag is not part of C28")
    base = dict(keys='"a","b","c"', vals="1, 2", log="LogLast", depth=0)
    # R1: the reference machine itself: bounds, newest kept, eviction takes the oldest -- exhaustive
    open(os.path.join(sd, "r1.cfg"), "w").write(CFG % dict(
        base, spec="Spec", sizes="MCSizes", items="1, 2, 3", bytes="1, 3, 4" if q else "1, 3, 4, 7",
        rest="VIEW cvars\nINVARIANTS TypeOK Inv_C28_Bounded\nPROPERTIES Act_C28_KeepsNewest Act_C28_EvictsOldest"))
    ctx.tlc(sd, "MC_CapLRU", "r1.cfg", timeout=600)
    exe = ctx.go_build("vh-caplru")
    # R2a: one behaviour per transition of the abstract state graph (path to the source state + transition)
    open(os.path.join(sd, "gen.cfg"), "w").write(CFG % dict(
        base, spec="GenSpec", log="LogAppend", depth=12,
        vals="1" if q else "1, 2", sizes="MCSizesSmall" if q else "MCSizes",
        items="2, 3" if q else "1, 2, 3", bytes="3, 4" if q else "1, 3, 4",
        rest="VIEW cvars\nACTION_CONSTRAINT EmitEdge"))
    beh = ctx.path("edges.ndjson")
    g = ctx.tlc(sd, "MC_CapLRU", "gen.cfg", timeout=900, behaviours_out=beh)
    r = ctx.vh(exe, ["replay", beh], timeout=900)
    ctx.cov(traces_validated_against_impl=int(r.stats.get("behaviours", 0)),
            evaluations=int(r.stats.get("steps", 0)),
            distinct_nontrivial=int(r.stats.get("distinct_transitions", 0)), exhaustive=True)
    if g.ok and g.behaviours == 0:
        ctx.broken.append("behaviour export produced nothing")
    # R2b: long random behaviours of the specification
    open(os.path.join(sd, "sim.cfg"), "w").write(CFG % dict(
        base, spec="GenSpec", log="LogAppend", depth=25, vals="1, 2", sizes="MCSizes",
        items="1, 2, 3", bytes="1, 3, 4, 7", rest="ACTION_CONSTRAINT EmitFull"))
    beh2 = ctx.path("sim.ndjson")
    ctx.tlc(sd, "MC_CapLRU", "sim.cfg", simulate=40 if q else 400, depth=25, timeout=600, behaviours_out=beh2)
    r2 = ctx.vh(exe, ["replay", beh2], timeout=900)
    ctx.cov(traces_validated_against_impl=int(r2.stats.get("behaviours", 0)), evaluations=int(r2.stats.get("steps", 0)))
    # R3: random histories on the real caches (8 keys, limits up to 6 items / 20 bytes) validated by TLC
    tr = os.path.join(sd, "trace.ndjson")
    nt, ln = (40, 150) if q else (400, 300)
    r3 = ctx.vh(exe, ["record", ctx.seed, nt, ln, tr])
    st, line = vlib.validate_trace(ctx, sd, "Trace_CapLRU", "Trace_CapLRU.cfg", tr, int(r3.stats.get("events", 0)),
                                   "C28/trace", divergence_is_violation=True, what="capacityLRU/lruCache trace")
    if st == "accepted":
        ctx.cov(traces_validated_against_impl=nt, evaluations=int(r3.stats.get("events", 0)))
    if not q and st == "accepted":
        def corrupt(evs):
            for e in evs:
                if e["a"] == "Get" and e["out"].get("ok") and len(e["st"]["keys"]) >= 2:
                    e["st"]["keys"] = list(reversed(e["st"]["keys"]))  # recency not refreshed
                    break
            return evs
        vlib.selftest_rejects(ctx, sd, "Trace_CapLRU", "Trace_CapLRU.cfg", tr, corrupt)
    ctx.cov(rule="R2: every transition of the reference LRU's abstract state graph (3 keys, sizes incl. negative/zero/"
                 "over-limit, all item/byte limit pairs) replayed on capacityLRU and on the lruCache wrapper, comparing "
                 "result + Keys() + SizeInBytesContained() after each step; distinct = distinct (source state, action, "
                 "args, config); plus simulated long behaviours; R3: random real histories validated by Trace_CapLRU")
