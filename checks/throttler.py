"""C43 -- goroutine throttler bounds concurrent work (family N, specs/Throttler)."""
import os
import vlib

PROPS = ["C43"]
FAMILY = "Throttler"

CFG = """SPECIFICATION %(spec)s
CONSTANTS
  Threads = {%(threads)s}
  Maxes = {%(maxes)s}
  Paths = {%(paths)s}
  KindsOf <- %(kinds)s
  OthersOf <- %(others)s
  KindIndex <- MCKindIndex
  Sorted = %(sorted)s
  KnownDefects = {%(defects)s}
  Depth = %(depth)d
  Log <- %(log)s
%(rest)s
CHECK_DEADLOCK FALSE
"""
DEFECT = '"C43-check-then-start"'
ALLP = '"single", "multi", "resolver"'
BASE = "TypeOK Inv_C43_WorkCovered Inv_C43_FreshBound Inv_C43_Balanced Inv_C43_Quiescent Inv_Counter"


def run(ctx):
    sd = ctx.stage()
    q = ctx.quick
    ctx.assume("a task is 'running' from the completion of StartProcessing to the grant of EndProcessing, and it 'asked' when "
               "its caller path calls CanProcess first (messages from preferred peers / self-to-self messages start without "
               "asking, by design, and are not counted)",
               "each concurrent message is handled by its own interceptor/resolver instance; all instances share one real "
               "NumGoRoutinesThrottler (as the node's interceptors share one global throttler); the three throttler calls "
               "are gated by a decorator and released in the order of the TLC schedule",
               "callers covered: SingleDataInterceptor, MultiDataInterceptor, TxResolver (the other resolvers use the same "
               "messageProcessor.canProcessMessage + StartProcessing/defer EndProcessing shape); "
               "networkMessenger.BroadcastOnChannelBlocking, the REST middleware and userAccountsSyncer are not driven",
               "a missing EndProcessing is detected by a 20 s watchdog on the gate and by measuring how many tasks the "
               "throttler admits at rest; no other use of wall-clock time")

    def write(name, **kw):
        d = dict(spec="Spec", threads="1, 2, 3", maxes="1, 2", paths=ALLP, kinds="MCKindsSmall", others=None, sorted="TRUE",
                 defects=DEFECT, depth=0, log="LogLast", rest="VIEW cvars\nINVARIANTS " + BASE)
        d.update(kw)
        if d["others"] is None:
            d["others"] = d["kinds"]
        open(os.path.join(sd, name), "w").write(CFG % d)

    # ---- R1 (protocol as it is): what holds in spite of the race
    write("r1.cfg")
    ctx.tlc(sd, "MC_Throttler", "r1.cfg", timeout=900, coverage=not q)
    star = dict(others="MCPartners", sorted="FALSE") if q else {}
    write("r1full.cfg", threads="1, 2", maxes="1" if q else "1, 2", kinds="MCKindsFull", **star)
    ctx.tlc(sd, "MC_Throttler", "r1full.cfg", timeout=900)
    # ---- the property itself on the protocol as it is: TLC must find check/check/start/start
    write("r1race.cfg", threads="1, 2", maxes="1", rest="VIEW cvars\nINVARIANTS Inv_C43_Bound")
    rr = ctx.tlc(sd, "MC_Throttler", "r1race.cfg", timeout=600, allow=("invariant",), count=False)
    if rr.error == "invariant:Inv_C43_Bound":
        ctx.cov(model_counterexample_with_known_defect="Inv_C43_Bound violated by Check/Check/Start/Start when CanProcess and "
                "StartProcessing are separate steps (TLC counterexample; the same schedule is replayed on the real callers)")
    elif rr.ok:
        ctx.broken.append("R1 on the protocol as it is did not find the check-then-start race")
    # ---- intended design (atomic check-and-start): the property holds
    write("r1atomic.cfg", defects="", rest="VIEW cvars\nINVARIANTS " + BASE + " Inv_C43_Bound Inv_C43_WorkBound")
    ctx.tlc(sd, "MC_Throttler", "r1atomic.cfg", timeout=900)

    exe = ctx.go_build("vh-throttler")
    gen = dict(spec="GenSpec", log="LogAppend", depth=20, rest="VIEW cvars\nACTION_CONSTRAINT EmitEdge")
    jobs = [("gen2.cfg", dict(gen, threads="1, 2", maxes="1", kinds="MCKindsFull", **star), 10),
            ("gen3.cfg", dict(gen, maxes="1, 2" if not q else "2", paths=ALLP if not q else '"single", "resolver"'), 20)]
    alls, noraces = [], []
    for n, (cfg, kw, every) in enumerate(jobs):
        write(cfg, **kw)
        beh = ctx.path("sched%d.ndjson" % n)
        g = ctx.tlc(sd, "MC_Throttler", cfg, timeout=1500, behaviours_out=beh, count=False)
        if g.ok and g.behaviours == 0:
            ctx.broken.append("schedule export %s produced nothing" % cfg)
            continue
        ta, tn = ctx.path("all%d.ndjson" % n), ctx.path("norace%d.ndjson" % n)
        h = ctx.vh(exe, ["replay", beh, ta, tn, every if q else max(1, every // 4)], timeout=1500)
        ctx.cov(traces_validated_against_impl=int(h.stats.get("behaviours", 0)), evaluations=int(h.stats.get("steps", 0)),
                distinct_nontrivial=int(h.stats.get("distinct", 0)),
                schedules_diverged_from_prediction=int(h.stats.get("diverged", 0)),
                schedules_with_more_than_max_running=int(h.stats.get("behaviours_over_max_observed", 0)),
                runs_handed_to_tlc=int(h.stats.get("runs_logged", 0)))
        alls.append((ta, int(h.stats.get("events_all", 0))))
        noraces.append((tn, int(h.stats.get("events_norace", 0))))

    def cat(parts, name):
        p = ctx.path(name)
        with open(p, "w") as f:
            for t, _ in parts:
                f.write(open(t).read())
        return p, sum(e for _, e in parts)
    # ---- TLC on the observed runs: race-independent invariants on all of them ...
    pa, na = cat(alls, "observed-all.ndjson")
    st, _ = vlib.validate_trace(ctx, sd, "Trace_Throttler", "Trace_Throttler.cfg", pa, na, "C43/observed",
                                divergence_is_violation=False, what="real throttler schedule", timeout=1500,
                                obs_cfg="Trace_ThrottlerObs.cfg")
    # ... and the bound itself on every run the specification does not label as raced
    pn, nn = cat(noraces, "observed-norace.ndjson")
    vlib.validate_trace(ctx, sd, "Trace_Throttler", "Trace_ThrottlerNoRace.cfg", pn, nn, "C43/observed-no-race",
                        divergence_is_violation=False, what="real throttler schedule without stale admission",
                        timeout=1500, obs_cfg="Trace_ThrottlerNoRaceObs.cfg")
    if not q and st == "accepted":
        def drop_end(evs):
            for i, e in enumerate(evs):
                if e["a"] == "End":
                    t = e["t"]
                    del evs[i]
                    for f in evs:
                        if f["t"] == t and f["a"] == "Quiesce":
                            f["out"]["free"] -= 1
                    break
            return evs
        vlib.selftest_rejects(ctx, sd, "Trace_Throttler", "Trace_ThrottlerObs.cfg", pa, drop_end)

        def admit_when_full(evs):
            # a sequential overshoot: a refused CanProcess is turned into an admission followed by a start
            for i, e in enumerate(evs):
                if e["a"] == "Check" and not e["out"]["ok"]:
                    e["out"]["ok"] = True
                    evs.insert(i + 1, {"t": e["t"], "i": 0, "a": "Start", "in": {"t": e["in"]["t"]}, "out": {"x": 0}, "st": {}})
                    break
            return evs
        vlib.selftest_rejects(ctx, sd, "Trace_Throttler", "Trace_ThrottlerObs.cfg", pa, admit_when_full)
    ctx.cov(rule="schedules = interleavings of the CanProcess / StartProcessing / EndProcessing calls of 2-3 concurrent messages "
                 "generated by TLC from Throttler.tla (one per transition of the state graph): 2 threads x every branch of "
                 "SingleDataInterceptor / MultiDataInterceptor / TxResolver.ProcessReceivedMessage (60 path x message-class combinations: "
                 "rejected before the throttler, every early return after StartProcessing incl. wrong version / wrong chain ID / not-eligible / blacklisting branches and two-element batches with the failing element first or last, asynchronous completion, "
                 "preferred-peer and self messages), and 3 threads x a small class set with max 1 and 2; each schedule is "
                 "executed on the real callers sharing one real NumGoRoutinesThrottler through gating decorators; the number "
                 "of admitted running tasks is compared with max after every StartProcessing and the counter is measured at "
                 "rest; distinct = distinct (max, path, message classes, schedule)")
