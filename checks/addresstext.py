"""C48 -- address text encoding round-trips (family G, specs/AddressText).  Thin relation model: level "exploration".

R1  AddressText.tla: every (converter kind, configured length, abstract text class) of the bounded space; AsCoded follows
    Decode check by check, Required is the accept/reject table of C48; invariant: they agree wherever C48 speaks.
R2  every class is concretised on seeded random payloads with the bech32 library / encoding/hex and decoded by the real
    converter (panics are caught); the canonical class goes through the converter's own Encode (round trip).
"""
import json
import os
import vlib

PROPS = ["C48"]
FAMILY = "AddressText"

CFG = """SPECIFICATION Spec
CONSTANTS
  Lens <- %(lens)s
  Deltas <- %(deltas)s
  Defects = {%(defects)s}
  Log <- %(log)s
%(rest)s
CHECK_DEADLOCK FALSE
"""


def run(ctx):
    sd = ctx.stage()
    quick = ctx.quick
    ctx.level = "exploration"
    ctx.assume("a text is described by its class: prefix, decoded payload length relative to the configured length, checksum, letter "
               "case, padding bits, foreign character, separator (bech32); length, odd digit count, letter case, foreign character (hex); "
               "classes are concretised on random payloads by the btcutil bech32 library and encoding/hex (trusted)",
               "C48 names three reject reasons (prefix, checksum, decoded length) and the round trip; the verdict on every other class "
               "(upper case, mixed case, non-zero padding, foreign characters, missing separator) is compared with the model of the code "
               "and reported as drift only",
               "a configured length for which no converter can be constructed is outside C48")

    def cfg(name, **kw):
        d = dict(lens="MCLensAll", deltas="MCDeltas" if quick else "MCDeltasWide", defects="",
                 log="LogLast", rest="")
        d.update(kw)
        open(os.path.join(sd, name), "w").write(CFG % d)
        return name

    exe = ctx.go_build("vh-addresstext")
    pr = ctx.vh(exe, ["probe"])
    present = [x for x in str(pr.stats.get("defects", "")).split(",") if x]
    ctx.cov(code_deviations_present=",".join(present) or "none")
    dq = ", ".join('"%s"' % x for x in present)
    cases = ctx.path("cases.ndjson")
    if not present:
        g = r1 = ctx.tlc(sd, "MC_AddressText", cfg("r1.cfg", log="LogAppend", rest="INVARIANTS Inv_C48_DecodeAsRequired\nACTION_CONSTRAINT Emit"),
                    timeout=900, behaviours_out=cases, coverage=not quick)
    else:
        r1 = ctx.tlc(sd, "MC_AddressText", cfg("r1.cfg", rest="INVARIANTS Inv_C48_DecodeAsRequired"), timeout=900, coverage=not quick)
        r = ctx.tlc(sd, "MC_AddressText", cfg("r1c.cfg", defects=dq, rest="INVARIANTS Inv_C48_DecodeAsRequired"), timeout=900,
                    allow=("invariant",), count=False)
        if r.ok:
            ctx.broken.append("model with {%s}: TLC did not find the expected counterexample of Inv_C48_DecodeAsRequired" % dq)
        else:
            ctx.cov(model_counterexamples={",".join(present): ["Inv_C48_DecodeAsRequired"]})
        g = ctx.tlc(sd, "MC_AddressText", cfg("gen.cfg", defects=dq, log="LogAppend", rest="ACTION_CONSTRAINT Emit"), timeout=900,
                    behaviours_out=cases, count=False)
    if g.ok and g.behaviours == 0:
        ctx.broken.append("case export produced nothing")
    if not quick and r1.coverage_zero:
        ctx.broken.append("vacuity guard: actions never taken in R1: %s" % r1.coverage_zero)
    per, percanon = (3, 60) if quick else (10, 400)
    h = ctx.vh(exe, ["replay", cases, per, percanon], timeout=1800)
    ctx.cov(traces_validated_against_impl=int(h.stats.get("cases", 0)), evaluations=int(h.stats.get("evaluations", 0)),
            distinct_nontrivial=int(h.stats.get("specified_classes", 0)), classes=int(h.stats.get("classes", 0)),
            round_trips=int(h.stats.get("round_trips", 0)), rejects_checked=int(h.stats.get("rejects_checked", 0)),
            configurations_not_constructible=int(h.stats.get("not_constructible", 0)), drift_evaluations=int(h.stats.get("drift", 0)),
            exhaustive=True)
    if present and not any("round-trip/text-longer" in v["sig"] for v in h.violations):
        ctx.broken.append("the probe found the deviation {%s} but no replayed case reproduces it" % dq)
    if int(h.stats.get("round_trips", 0)) == 0 or int(h.stats.get("rejects_checked", 0)) == 0:
        ctx.broken.append("vacuous: no round trip / no required rejection was exercised")
    # binding self-test: flip the requirement of classes the converter accepts / rejects; the replay must notice
    if not quick:
        picked = []
        for ln in open(cases):
            c = json.loads(ln)
            o = c[-1]["out"]
            if o["constructible"] and o["coded"] == "accept" and not o["canonical"]:     # e.g. upper case: accepted by the code
                o["required"] = "reject"
                o["why"] = "selftest"
                picked.append(c)
            if len(picked) >= 10:
                break
        p = ctx.path("selftest.ndjson")
        with open(p, "w") as f:
            for c in picked:
                f.write(json.dumps(c) + "\n")
        rs = ctx.vh(exe, ["replay", p, 2, 2], env={"VERIF_SELFTEST": "1"}, count_samples=False)
        if not picked or not any(v["sig"].endswith("/accepted/selftest") for v in rs.violations):
            ctx.broken.append("binding self-test: a falsified requirement was not noticed by the replay")
        else:
            ctx.cov(binding_selftests_rejected=1)
    ctx.cov(rule="one case per (converter kind, configured length, text class): bech32 classes = prefix {erd, other, erdt, erdtest, erd1, er, e, erx, empty; the near misses with valid checksum} x decoded length "
                 "{configured-2..+2 (thorough -5..+5)} x checksum {ok, bad} x case {lower, upper, mixed} x padding bits {zero, non-zero} "
                 "x foreign character x separator; hex classes = length x odd digit count x case x foreign character; configured "
                 "lengths 0..66 (odd and zero lengths: constructor refuses); each class concretised on 3/10 random payloads, the "
                 "canonical class (round trip through Encode) on 60/400; distinct_nontrivial = classes of constructible configurations "
                 "on which C48 prescribes the verdict")
