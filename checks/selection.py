"""C15 -- consensus groups are well-formed and reproducible (family S, specs/Selection).

R1  Selection.tla       SelectionBasedProvider.Get as a state machine (one action per loop iteration): all weight
                        vectors / sample sizes / hash values within the bounds -> distinct, members, size, never
                        exhausted, leader = first hit, range bookkeeping.
    ConsensusGroup.tla  ComputeConsensusGroup with the group cache (cached node vs uncached node, re-configuration):
                        well-formed + reproducible; the variant that does not clear the cache must fail (thorough).
R2  one behaviour per completing transition of Selection's state graph (+ every rejected request) is run on the real
    sharding.selectorExpandedList with a scripted hasher; the logged calls are validated by TLC (Trace_Selection:
    result = SelectAll(...), C15 invariants on every observed result).
R3  real indexHashedNodesCoordinator(+WithRater) instances (LRU cache / no cache / fresh from the epoch's lists /
    restored from the boot storage), real shuffler, several epochs incl. re-prepared ones; every
    ComputeConsensusGroup call is logged with the hash values it consumed and validated by TLC.
    Concurrent use: 8 goroutines call ComputeConsensusGroup on ONE coordinator for the same shard (identical and
    different inputs); results are compared with the sequential reference, logged for TLC (ComputeConc: calls are
    atomic, the result is a function of the input), and the stage is repeated under the Go race detector.
"""
import glob
import os
import vlib

PROPS = ["C15"]
FAMILY = "Selection"

INV = "Inv_C15_GroupSize Inv_C15_GroupDistinct Inv_C15_GroupMembers Inv_C15_NoError Inv_C15_Reproducible"

ALG_CFG = """SPECIFICATION %(spec)s
CONSTANTS
  MaxN = %(n)d
  Weights = {%(weights)s}
  FullRange = %(full)s
  Log <- %(log)s
  Depth = %(depth)d
VIEW acvars
%(rest)s
CHECK_DEADLOCK FALSE
"""

CG_CFG = """SPECIFICATION CSpec
CONSTANTS
  Seeds = {%(seeds)s}
  Epochs = {1}
  ShardIds = {0}
  Classes = {%(classes)s}
  MCKeys = {1, 2}
  MCChances = {1, 2}
  MaxLen = 2
  MaxCh = 2
  ClearOnPrepare = %(clear)s
INVARIANTS %(inv)s
CHECK_DEADLOCK FALSE
"""


def run(ctx):
    sd = ctx.stage()
    q = ctx.quick
    ctx.assume(
        "the hash is abstracted as an arbitrary sequence of 64 bit values (logged from the real run as 16 bit limbs); "
        "sha256 itself is trusted to be a function",
        "R1 bounds: eligible lists <= %d validators, weights 0..3 (0 = rejected), every sample size 0..n+1, every hash "
        "value residue; R3 lists up to 40 validators / chances up to 30 (total weight < 32768 so that x %% m stays in "
        "TLC's 32 bit integers)" % (4 if q else 5),
        "the configured group size is what the harness passed to the constructor; eligible lists / chances are read "
        "through GetAllEligibleValidatorsPublicKeys and NodesCoordinatorToRegistry",
        "which entries the LRU group cache keeps is not modelled (C28); a cache hit must return what was stored since "
        "the last clear, a recomputation is always allowed",
        "concurrent calls are required to be atomic (ConsensusGroup!ComputeConc); the concurrent stage sees only "
        "interleavings that 8 goroutines x 800 calls per coordinator (and the race detector run) expose",
        "a divergence of the real result from the transcribed sampling algorithm is reported as drift, not as a "
        "violation: C15 does not prescribe the algorithm, only size / distinctness / membership / reproducibility")
    # ---- R1 layer 1: the sampling algorithm, exhaustive
    open(os.path.join(sd, "r1.cfg"), "w").write(ALG_CFG % dict(
        spec="ASpec", n=4 if q else 5, weights="0, 1, 2, 3", full="TRUE", log="LogLast", depth=0,
        rest="INVARIANTS ATypeOK Inv_C15_Distinct Inv_C15_Members Inv_C15_Size Inv_C15_NeverExhausted Inv_Sel_Ranges\n"
             "PROPERTIES Act_C15_LeaderFirst Act_C15_LeaderIsFirstHit"))
    r1 = ctx.tlc(sd, "MC_Selection", "r1.cfg", timeout=1500, coverage=not q)
    if not q and r1.ok and r1.coverage_zero:
        ctx.broken.append("vacuity: never evaluated in MC_Selection: %s" % sorted(set(r1.coverage_zero))[:8])
    # ---- R1 layer 2: ComputeConsensusGroup + cache
    open(os.path.join(sd, "r1b.cfg"), "w").write(CG_CFG % dict(
        seeds='"s1"' if q else '"s1", "s2"', classes='"rater"', clear="TRUE", inv=INV))
    ctx.tlc(sd, "MC_ConsensusGroup", "r1b.cfg", timeout=1500)
    if not q:
        open(os.path.join(sd, "r1c.cfg"), "w").write(CG_CFG % dict(
            seeds='"s1"', classes='"plain"', clear="TRUE", inv=INV))
        ctx.tlc(sd, "MC_ConsensusGroup", "r1c.cfg", timeout=900)
        # vacuity guard: without the Clear() of EpochStartPrepare TLC must find a stale group
        open(os.path.join(sd, "r1d.cfg"), "w").write(CG_CFG % dict(
            seeds='"s1"', classes='"rater"', clear="FALSE", inv=INV))
        rd = ctx.tlc(sd, "MC_ConsensusGroup", "r1d.cfg", timeout=900, count=False, allow=("invariant",))
        if rd.ok:
            ctx.broken.append("vacuity: the model without cache clearing satisfies the C15 invariants")
        else:
            ctx.cov(model_without_cache_clear_fails=rd.error)
    exe = ctx.go_build("vh-selection")
    # ---- R2: behaviours of the algorithm -> real selectorExpandedList (scripted hasher) -> TLC
    gens = [dict(n=4, weights="0, 1, 2, 3")] if q else [dict(n=4, weights="0, 1, 2, 3"), dict(n=5, weights="1, 2")]
    nb = 0
    for gi, g in enumerate(gens):
        open(os.path.join(sd, "gen.cfg"), "w").write(ALG_CFG % dict(
            spec="GenSpec", n=g["n"], weights=g["weights"], full="FALSE", log="LogAppend", depth=9,
            rest="ACTION_CONSTRAINT EmitEdge\nCONSTRAINT EmitErr"))
        beh = ctx.path("sel%d.ndjson" % gi)
        gr = ctx.tlc(sd, "MC_Selection", "gen.cfg", timeout=1500, behaviours_out=beh, count=False)
        if gr.ok and gr.behaviours == 0:
            ctx.broken.append("behaviour export produced nothing")
            return
        if not gr.ok:
            return
        tr = ctx.path("select%d.trace" % gi)
        h = ctx.vh(exe, ["replay", beh, tr], timeout=900)
        if h.rc != 0:
            return
        ev = int(h.stats.get("events", 0))
        st, _ = vlib.validate_trace(ctx, sd, "Trace_Selection", "Trace_Selection.cfg", tr, ev, "C15/select",
                                    divergence_is_violation=False, timeout=1800, obs_cfg="Trace_Selection_obs.cfg",
                                    what="selectorExpandedList.Select on TLC-chosen weights / hash values")
        if st in ("accepted", "rejected"):
            nb += int(h.stats.get("behaviours", 0))
            ctx.cov(traces_validated_against_impl=int(h.stats.get("behaviours", 0)), evaluations=ev,
                    distinct_nontrivial=int(h.stats.get("distinct", 0)))
        if st == "accepted" and gi == 0 and not q:
            def corrupt(evs):
                for e in evs:
                    if e["a"] == "Select" and len(e["out"]["sel"]) >= 2 and len(set(e["in"]["w"])) > 1:
                        e["out"]["sel"][-1] = e["out"]["sel"][0]      # duplicate member
                        break
                return evs
            vlib.selftest_rejects(ctx, sd, "Trace_Selection", "Trace_Selection.cfg", tr, corrupt)
    # ---- R3: real coordinators
    tr = ctx.path("coord.trace")
    h = ctx.vh(exe, ["record", tr, 8 if q else 60], timeout=1200)
    if h.rc != 0:
        return
    ev = int(h.stats.get("events", 0))
    st, _ = vlib.validate_trace(ctx, sd, "Trace_Selection", "Trace_Selection.cfg", tr, ev, "C15/coord",
                                divergence_is_violation=False, timeout=2400, obs_cfg="Trace_Selection_obs.cfg",
                                what="indexHashedNodesCoordinator.ComputeConsensusGroup trace")
    if st in ("accepted", "rejected"):
        ctx.cov(traces_validated_against_impl=int(h.stats.get("scenarios", 0)), evaluations=int(h.stats.get("calls", 0)),
                distinct_nontrivial=int(h.stats.get("distinct", 0)), coordinator_epochs=int(h.stats.get("epochs", 0)),
                reprepared_epochs=int(h.stats.get("reprepares", 0)))
    if st == "accepted" and not q:
        def corrupt2(evs):
            seen = {}
            for e in evs:       # the uncached node reports another leader than the cached one
                if e["a"] == "Compute" and e["in"]["kind"] == "none" and len(e["out"]["group"]) >= 2:
                    g = e["out"]["group"]
                    g[0], g[1] = g[1], g[0]
                    break
            return evs
        vlib.selftest_rejects(ctx, sd, "Trace_Selection", "Trace_Selection.cfg", tr, corrupt2)
        # ... and the observation-only configuration must flag it through the property invariants
        vlib.selftest_rejects(ctx, sd, "Trace_Selection", "Trace_Selection_obs.cfg", ctx.path("coord.trace"), corrupt2)
    # ---- concurrent use: G goroutines on ONE coordinator, same shard; results vs the sequential reference
    tr = ctx.path("conc.trace")
    h = ctx.vh(exe, ["concurrent", tr, 4 if q else 16, 8, 800], timeout=900)
    if h.rc != 0:
        return
    ev = int(h.stats.get("events", 0))
    st, _ = vlib.validate_trace(ctx, sd, "Trace_Selection", "Trace_Selection.cfg", tr, ev, "C15/concurrent",
                                divergence_is_violation=False, timeout=1800, obs_cfg="Trace_Selection_obs.cfg",
                                what="ComputeConsensusGroup called from 8 goroutines on one coordinator")
    if st in ("accepted", "rejected"):
        ctx.cov(traces_validated_against_impl=int(h.stats.get("scenarios", 0)),
                evaluations=int(h.stats.get("concurrent_calls", 0)), distinct_nontrivial=int(h.stats.get("distinct", 0)),
                concurrent_calls=int(h.stats.get("concurrent_calls", 0)),
                concurrent_results_differing_from_sequential=int(h.stats.get("concurrent_differ", 0)))
    # ... and under the race detector (a racing ComputeConsensusGroup has no defined result at all)
    rexe = ctx.go_build("vh-selection", race=True)
    rlog = ctx.path("racelog")
    hr = ctx.vh(rexe, ["concurrent", ctx.path("conc-race.trace"), 2 if q else 6, 8, 150], timeout=900, count_samples=False,
                env={"GORACE": "exitcode=0 halt_on_error=0 log_path=" + rlog})
    reports = []
    for f in sorted(glob.glob(rlog + ".*")):
        reports += [r for r in open(f, errors="replace").read().split("==================") if "DATA RACE" in r]
    mine = [r for r in reports if "/sharding." in r and "ComputeConsensusGroup" in r]
    ctx.cov(race_detector_calls=int(hr.stats.get("concurrent_calls", 0)), race_reports=len(reports))
    if mine:
        ctx.violation("C15/concurrent/data-race",
                      "data race inside concurrent ComputeConsensusGroup calls on one coordinator (the group is not a "
                      "function of the inputs): " + mine[0].strip()[:1500], {"report": mine[0][:6000], "reports": len(mine)})
    elif reports:
        ctx.notes.append("race detector reports outside sharding.ComputeConsensusGroup (not C15): %d" % len(reports))
    ctx.cov(rule="R2: every transition of the sampling state machine that completes a call (weights 0..3, lists <= %d, "
                 "every sample size 0..n+1, every residue of every pick; distinct = distinct (weights, size, residue "
                 "sequence)) executed on the real selectorExpandedList with scripted 64 bit hash values and validated by "
                 "TLC; R3: ComputeConsensusGroup on real coordinators (plain / with rater; LRU cache, no cache, fresh, "
                 "restored from storage; 1-3 shards + metachain; list sizes from exactly the group size upward; current "
                 "and previous epoch; re-prepared epochs); distinct = distinct (class, shards, group size, list size, "
                 "meta?, old epoch?, resulting group); concurrent stage: 8 goroutines x 800 calls per coordinator (no cache / "
                 "2-entry LRU; plain / rater; one shard; 16 inputs incl. a hot one), every result compared with the "
                 "sequential reference, differing results + a sample validated by TLC; plus a run under the Go race "
                 "detector" % (4 if q else 5))
