"""C40 -- a failed nested system-contract call leaves no storage effects (family V, specs/VmContext)."""
import json
import os
import vlib

PROPS = ["C40"]
FAMILY = "VmContext"

CFG = """SPECIFICATION %(spec)s
CONSTANTS
  SCs = {%(scs)s}
  Others = {"U"}
  Keys = {%(keys)s}
  Vals = {%(vals)s}
  BaseVals = {%(base)s}
  CallValues = {0, 3}
  Amounts = {1}
  Codes <- %(codes)s
  MaxDepth = %(maxdepth)d
  MaxTransfers = %(maxtr)d
  Deploys = %(deploys)s
  Balances = %(balances)s
  KnownDefects <- %(defects)s
  Log <- %(log)s
  StepBound = %(bound)d
%(rest)s
CHECK_DEADLOCK FALSE
"""

ALL_INV = "INVARIANTS TypeOK Inv_C40_Storage Inv_C40_OutputAccounts Inv_C40_CallValue Inv_C40_Context"

KIND_OF_INV = {
    "Storage": "storage-write-survives-failed-inner-call",
    "OutputAccounts": "output-accounts-changed-by-failed-inner-call",
    "CallValue": "call-value-transfer-survives-failed-inner-call",
    "Context": "caller-context-not-restored-after-failed-inner-call",
}


def write(sd, name, **kw):
    d = dict(scs='"A", "B"', keys='"k1", "k2"', vals="0, 1", base="2", maxdepth=2, maxtr=2, deploys="FALSE", balances="FALSE", codes="AllCodes",
             defects="AllOn", log="LogLast", bound=0, spec="Spec", rest="VIEW cvars")
    d.update(kw)
    with open(os.path.join(sd, name), "w") as f:
        f.write(CFG % d)
    return name


def leaks_from_marks(ctx, r, trace_lines, what):
    """Trace_VmContext prints one mark per (class, call site) whose invariant is false on an observed state:
    @@LEAK:<Inv>:<via>:<site> <line>.  Each becomes a violation with a class signature."""
    n = 0
    for tag, val in sorted(r.marks.items()):
        if not tag.startswith("LEAK:"):
            continue
        _, inv, via, site = tag.split(":", 3)
        sig = "C40/%s/%s" % (KIND_OF_INV.get(inv, inv), via)
        if site and site != "stub":
            sig += "/" + site
        ln = int(val)
        ev = trace_lines[ln - 1][:1200] if 1 <= ln <= len(trace_lines) else None
        ctx.violation(sig, "%s: after the failed inner call at %s the %s clause of C40 is false on the state observed from the "
                           "real vmContext (trace line %d: %s)" % (what, site or "a stub contract", inv, ln, ev),
                      {"line": ln, "event": ev, "invariant": "Inv_C40_" + inv})
        n += 1
    return n


def validate(ctx, sd, exe, trace, what):
    """strict validation against the VmContext actions (code as it is); on divergence the observation-only
    specification evaluates the property on every observed state.  Returns number of events validated."""
    lines = open(trace).read().splitlines()
    dst = os.path.join(sd, "trace.ndjson")
    if os.path.abspath(trace) != os.path.abspath(dst):
        with open(dst, "w") as f:
            f.write("\n".join(lines) + "\n")
    r = ctx.tlc(sd, "Trace_VmContext", "Trace_VmContext.cfg", workers=1, timeout=900, count=False,
                allow=("postcondition",))
    if r.ok:
        ctx.cov(trace_events_validated=len(lines))
        leaks_from_marks(ctx, r, lines, what)
        return len(lines), "accepted"
    if r.error == "postcondition":
        ln = r.highwater
        ctx.drifts.append({"what": "%s: line %s of the recorded trace is not a step of the VmContext specification "
                                   "(code as it is): %s" % (what, ln, lines[ln - 1][:600] if ln and ln <= len(lines) else None)})
        r2 = ctx.tlc(sd, "Trace_VmContext", "Obs_VmContext.cfg", workers=1, timeout=900, count=False,
                     allow=("postcondition",))
        if r2.ok:
            leaks_from_marks(ctx, r2, lines, what)
            return len(lines), "observed"
        if r2.error == "postcondition":
            ctx.broken.append("observation-only trace specification rejected line %s of %s" % (r2.highwater, what))
    return 0, "broken"


def run(ctx):
    sd = ctx.stage()
    q = ctx.quick
    import time
    t = [time.time()]

    def _stage(name):
        ctx.notes.append("stage %s: %.1fs" % (name, time.time() - t[0]))
        t[0] = time.time()
    ctx.assume("one transaction on one vmContext; contracts are addressed by their own address (no code indirection)",
               "storage values and transfer amounts are small integers (TLC); gas, return data and return messages "
               "are not part of C40 and not modelled",
               "R2 stub contracts issue exactly the EEI calls of the TLC behaviour; the observation is "
               "GetStorage/GetStorageFromAddress for every slot and CreateVMOutput (balance deltas, output transfers)",
               "zero-value output-transfer records (created by a call with value 0) are not counted as an effect",
               "trusted: TLC, mock.BlockChainHookStub / SystemSCContainerStub, the projection in harness/cmd/vh-vmcontext")
    # ---- R1a: the intended design (no deviation): all four clauses hold, exhaustively
    write(sd, "r1a.cfg", defects="NoneOn", deploys="TRUE", balances="FALSE" if q else "TRUE", log="LogNone",
          rest="VIEW cvars\n" + ALL_INV, keys='"k1"', vals="0, 1", maxtr=2, maxdepth=2)
    r = ctx.tlc(sd, "MC_VmContext", "r1a.cfg", timeout=1500, coverage=not q)
    if not q:
        if r.coverage_zero:
            ctx.broken.append("vacuity guard: actions never taken in R1a: %s" % sorted(set(r.coverage_zero)))
        ctx.cov(coverage_actions_never_taken=sorted(set(r.coverage_zero)))
        # deeper bounds, codes {Ok, UserError} only: in the model the code never influences the successor (measured: 22.8 M and 23.9 M transitions, 2.5 and 3.5 min with 4 workers)
        write(sd, "r1a2.cfg", defects="NoneOn", deploys="TRUE", log="LogNone", rest="VIEW cvars\n" + ALL_INV,
              keys='"k1", "k2"', vals="0, 1", maxtr=3, maxdepth=2, codes="TwoCodes")
        ctx.tlc(sd, "MC_VmContext", "r1a2.cfg", timeout=3000, heap="12g")
        write(sd, "r1a3.cfg", defects="NoneOn", deploys="TRUE", log="LogNone", rest="VIEW cvars\n" + ALL_INV,
              keys='"k1"', vals="0, 1", maxtr=4, maxdepth=3, codes="TwoCodes")
        ctx.tlc(sd, "MC_VmContext", "r1a3.cfg", timeout=3000, heap="12g")
    # ---- R1b: the code as it is: TLC must find the storage leak and the call-value leak by itself
    found = {}
    for inv in ("Inv_C40_Storage", "Inv_C40_CallValue"):
        write(sd, "r1b.cfg", defects="AllOn", keys='"k1"', vals="1", log="LogNone", rest="VIEW cvars\nINVARIANTS " + inv)
        r = ctx.tlc(sd, "MC_VmContext", "r1b.cfg", timeout=600, allow=("invariant",), count=False)
        found[inv] = r.error
        if r.error != "invariant:" + inv:
            ctx.broken.append("R1b: TLC did not find the %s counterexample in the code-as-it-is model (%s)" % (inv, r.error))
    ctx.cov(model_counterexamples_code_as_is=sorted(k for k, v in found.items() if v))
    # ---- R1c: the code as it is still keeps the clauses it keeps today (ExecuteOnDestContext: inner transfers
    #      are dropped, the caller's address is restored)
    write(sd, "r1c.cfg", defects="AllOn", deploys="FALSE", keys='"k1"', vals="1" if q else "0, 1", log="LogNone",
          maxtr=2 if q else 3, maxdepth=2 if q else 3,
          rest="VIEW cvars\nINVARIANTS TypeOK Inv_C40_OutputAccounts Inv_C40_Context")
    ctx.tlc(sd, "MC_VmContext", "r1c.cfg", timeout=1500)

    _stage("R1 model checking")
    exe = ctx.go_build("vh-vmcontext")
    _stage("build")
    # ---- R2a: every failed-inner-call transition of the abstract state graph, replayed with stub contracts.
    #      The failure CODE returned by the scripted callee is chosen by TLC: pass A replays every failing transition
    #      with one code that rotates over all twelve non-Ok vmcommon codes with the state, pass B replays every
    #      failing transition of the shallower graph with EACH of the twelve codes.
    tot = dict(b=0, s=0, d=0, f=0, dr=0)
    sigs, codes_seen = set(), {}
    passes = [("genA.cfg", dict(spec="GenSpecRot", bound=6 if q else 7)),
              ("genB.cfg", dict(spec="GenSpec", bound=4 if q else 5))]
    for name, kw in passes:
        write(sd, name, log="LogAppend", defects="AllOn", deploys="TRUE", keys='"k1"', vals="1", maxtr=3, maxdepth=2,
              rest="VIEW cvars\nACTION_CONSTRAINT EmitFailEdge", **kw)
        beh = ctx.path(name + ".ndjson")
        g = ctx.tlc(sd, "MC_VmContext", name, timeout=1500, behaviours_out=beh, count=False)
        if g.ok and g.behaviours == 0:
            ctx.broken.append("behaviour export %s produced nothing" % name)
        h = ctx.vh(exe, ["replay", beh], timeout=1500)
        for k, n in (("b", "behaviours"), ("s", "steps"), ("d", "distinct"), ("f", "failed_inner_calls"), ("dr", "drifts")):
            tot[k] += int(h.stats.get(n, 0))
        sigs |= set(h.stats.get("signatures", []))
        for c in h.stats.get("failure_codes", []):
            nm, _, cnt = c.rpartition(" x")
            codes_seen[nm] = codes_seen.get(nm, 0) + int(cnt)
    _stage("R2a edges gen+replay")
    # ---- R2b: long random behaviours (3 nested activations, 2 keys, deletes, all base values)
    write(sd, "sim.cfg", spec="GenSpec", log="LogAppend", defects="AllOn", deploys="TRUE", balances="TRUE", base="0, 2", maxtr=6,
          maxdepth=3, bound=14, rest="ACTION_CONSTRAINT EmitFullFail")
    beh2 = ctx.path("sim.ndjson")
    ctx.tlc(sd, "MC_VmContext", "sim.cfg", simulate=150 if q else 3000, depth=14, timeout=900, behaviours_out=beh2,
            count=False)
    h2 = ctx.vh(exe, ["replay", beh2], timeout=1500)
    for k, n in (("b", "behaviours"), ("s", "steps"), ("d", "distinct"), ("f", "failed_inner_calls"), ("dr", "drifts")):
        tot[k] += int(h2.stats.get(n, 0))
    sigs |= set(h2.stats.get("signatures", []))
    for c in h2.stats.get("failure_codes", []):
        nm, _, cnt = c.rpartition(" x")
        codes_seen[nm] = codes_seen.get(nm, 0) + int(cnt)
    ctx.cov(traces_validated_against_impl=tot["b"], evaluations=tot["s"], distinct_nontrivial=tot["d"],
            failed_inner_calls_checked=tot["f"], replay_drift_steps=tot["dr"])
    ctx.cov(replay_signature_counts=sorted(sigs), failure_codes_replayed=codes_seen)
    if len(codes_seen) < 12:
        ctx.broken.append("only %d of the 12 failure codes were exercised by the replay: %s" % (len(codes_seen), sorted(codes_seen)))
    _stage("R2b simulation gen+replay")
    # ---- R3: traces recorded from the real vmContext through the recording EEI decorator, validated by TLC
    if os.path.exists(os.path.join(sd, "Trace_VmContext.tla")):
        tr = ctx.path("stub-trace.ndjson")
        nt, ln = (30, 40) if q else (300, 60)
        r3 = ctx.vh(exe, ["record-stub", ctx.seed, nt, ln, tr])
        n, how = validate(ctx, sd, exe, tr, "random stub-contract scripts")
        if n:
            ctx.cov(traces_validated_against_impl=nt, evaluations=n, stub_trace_validation=how)
        _stage("R3 stub traces")
        tr2 = ctx.path("real-trace.ndjson")
        r4 = ctx.vh(exe, ["record-real", ctx.seed, 6 if q else 60, tr2])
        n2, how2 = validate(ctx, sd, exe, tr2, "real validator/staking/delegation contracts")
        if n2:
            ctx.cov(traces_validated_against_impl=int(r4.stats.get("traces", 0)), evaluations=n2,
                    real_trace_validation=how2, real_failed_inner_calls=int(r4.stats.get("failed_inner_calls", 0)),
                    real_call_sites=r4.stats.get("sites", [])[:40])
            ctx.sample({"real_contract_trace_first_events": [json.loads(x) for x in open(tr2).read().splitlines()[1:4]]})
        _stage("R3 real-contract traces")
        if not q and how == "accepted":
            def corrupt(evs):
                # a failed inner call whose write is reported as rolled back although the code kept it
                for i, e in enumerate(evs):
                    if e["a"] == "Return" and not e["in"]["ok"] and e["st"]["stor"]:
                        k = sorted(e["st"]["stor"])[0]
                        e["st"]["stor"][k] = e["st"]["stor"][k] + 17
                        break
                return evs
            vlib.selftest_rejects(ctx, sd, "Trace_VmContext", "Trace_VmContext.cfg", tr, corrupt)
    ctx.cov(rule="R2: every transition of the VmContext state graph that is a failed inner call (ExecuteOnDestContext, "
                 "DeploySystemSC, call to an address without contract; 2 contracts + user, nesting <= 2 (simulation 3), "
                 "failure at any position of the caller's script) is replayed with scripted stub contracts on the real "
                 "vmContext; after each failed call the observed storage view / output accounts are compared with the "
                 "pre-call state computed by TLC, after every step with the specification's state; distinct = distinct "
                 "action sequences containing at least one failed inner call")
