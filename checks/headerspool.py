"""C29 -- headers pool: indexes stay consistent + race freedom (family K, specs/HeadersPool)."""
import os
import time
import vlib

PROPS = ["C29"]
FAMILY = "HeadersPool"

CFG = """SPECIFICATION %(spec)s
CONSTANTS
  Hashes = {%(hashes)s}
  Shards = {%(shards)s}
  Nonces = {%(nonces)s}
  MaxPerShard = {%(maxper)s}
  NumToRemove = {%(numrem)s}
  Log <- %(log)s
  Depth = %(depth)d
  Pairs <- %(pairs)s
%(rest)s
CHECK_DEADLOCK FALSE
"""

LOCKS = """SPECIFICATION %(spec)s
CONSTANTS
  Threads = {%(threads)s}
  Table <- HPTable
  OpOrder <- HPOrder
  KnownDefects = {%(defects)s}
%(rest)s
CHECK_DEADLOCK FALSE
"""

AS_IS = '"nonces-creates-shard-map"'
INVS = ("INVARIANTS TypeOK Inv_C29_HashToNonce Inv_C29_NonceToHash Inv_C29_ListsWellFormed Inv_C29_Counts "
        "Inv_C29_Answers")


_T = [time.time()]


def _t(ctx, label):
    """stage timing into the evidence notes (and stderr when VERIF_TIMING is set)"""
    now = time.time()
    ctx.notes.append("%s: %.1fs" % (label, now - _T[0]))
    if os.environ.get("VERIF_TIMING"):
        print("  [timing] %s %.1fs" % (label, now - _T[0]))
    _T[0] = now


def judge_suspects(ctx, sd, path, n_events):
    """behaviours on which the real pool did not follow the (deterministic) specification are re-logged as observed
    traces; TLC evaluates the C29 invariants on every observed state and answer (observation mode). Only an
    invariant failure is a violation -- a different eviction victim etc. is property-neutral drift."""
    if n_events <= 0:
        return
    vlib.validate_trace(ctx, sd, "Trace_HeadersPool", "Trace_HeadersPool_obs.cfg", path, n_events, "C29/replay",
                        divergence_is_violation=False, what="replayed behaviour, observed run")


def run(ctx):
    sd = ctx.stage()
    _T[0] = time.time()
    q = ctx.quick
    ctx.assume("the three indexes and the per-nonce timestamps are projected by reflection on the unexported fields of "
               "headersPool/headersCache (no hook file, no perturbation of timestamps)",
               "timestamps are made strictly increasing by the harness (it waits for time.Now() to advance between calls), "
               "so the recency order is the call order; which nonce eviction removes is not part of C29 -- a deviation "
               "there is reported as drift after TLC has evaluated the C29 invariants on the observed states",
               "hashes are small integers mapped to distinct byte strings; shard 2 of the specification is the metachain "
               "(block.MetaBlock), other shards use block.Header",
               "race freedom is decided by the Go race detector on the scenarios enumerated from the lock-discipline table "
               "(MC_HeadersPoolLocks.tla); the detector sees only races that the executed iterations expose")
    base = dict(hashes="1, 2, 3", shards="0, 2", nonces="1, 2", maxper="2, 3", numrem="1, 2", log="LogLast", depth=0, pairs="PairsAll")
    # ---- R1: sequential specification, exhaustive
    open(os.path.join(sd, "r1.cfg"), "w").write(CFG % dict(
        base, spec="Spec", hashes="1, 2, 3" if q else "1, 2, 3, 4", maxper="2, 3" if q else "1, 2, 3, 4",
        numrem="1, 2" if q else "1, 2, 3", rest="VIEW cvars\n" + INVS))
    ctx.tlc(sd, "MC_HeadersPool", "r1.cfg", timeout=1200, coverage=not q)
    # ---- R1: lock discipline. intended design: race free; code as it is: TLC must find the race
    open(os.path.join(sd, "locks_ok.cfg"), "w").write(LOCKS % dict(
        spec="Spec", threads="1, 2" if q else "1, 2, 3", defects="", rest="INVARIANTS TypeOK Inv_RaceFree Inv_StaticSound"))
    ctx.tlc(sd, "MC_HeadersPoolLocks", "locks_ok.cfg", timeout=900)
    open(os.path.join(sd, "locks_asis.cfg"), "w").write(LOCKS % dict(
        spec="Spec", threads="1, 2", defects=AS_IS, rest="INVARIANTS TypeOK Inv_StaticSound Inv_RaceFree"))
    ra = ctx.tlc(sd, "MC_HeadersPoolLocks", "locks_asis.cfg", timeout=600, count=False, allow=("invariant",))
    if ra.error == "invariant:Inv_RaceFree":
        ctx.cov(model_counterexample_with_known_deviations="Inv_RaceFree violated (Nonces creates the shard map under RLock)")
    elif ra.ok:
        ctx.broken.append("lock-discipline model with the code's deviation switched on found no race: model is wrong")

    _t(ctx, "R1 model checking")
    only = os.environ.get("VERIF_ONLY", "")   # development aid: "seq" or "race" runs one half only
    if only != "race":
        exe = ctx.go_build("vh-headerspool")
        # ---- R2a: one behaviour per transition of the abstract state graph
        open(os.path.join(sd, "gen.cfg"), "w").write(CFG % dict(
            base, spec="GenSpec", log="LogAppend", depth=10, maxper="2, 3" if q else "1, 2, 3",
            pairs="PairsQuick" if q else "PairsAll",
            shards="0, 2" if q else "0, 1, 2", hashes="1, 2, 3",
            rest="VIEW cvars\nACTION_CONSTRAINT EmitEdge"))
        beh = ctx.path("edges.ndjson")
        g = ctx.tlc(sd, "MC_HeadersPool", "gen.cfg", timeout=1500, behaviours_out=beh)
        sus = ctx.path("suspects.ndjson")
        r = ctx.vh(exe, ["replay", beh, sus], timeout=1500)
        ctx.cov(traces_validated_against_impl=int(r.stats.get("behaviours", 0)), evaluations=int(r.stats.get("steps", 0)),
                distinct_nontrivial=int(r.stats.get("distinct_transitions", 0)))
        if g.ok and g.behaviours == 0:
            ctx.broken.append("behaviour export produced nothing")
        judge_suspects(ctx, sd, sus, int(r.stats.get("suspect_events", 0)))
        _t(ctx, "R2a transition cover + replay")
        # ---- R2b: long random behaviours of the specification (4 hashes, 3 shards, 3 nonces)
        open(os.path.join(sd, "sim.cfg"), "w").write(CFG % dict(
            base, spec="GenSpec", log="LogAppend", depth=40, hashes="1, 2, 3, 4", shards="0, 1, 2", nonces="1, 2, 3",
            maxper="1, 2, 3, 4", numrem="1, 2, 3", rest="ACTION_CONSTRAINT EmitFull"))
        beh2 = ctx.path("sim.ndjson")
        ctx.tlc(sd, "MC_HeadersPool", "sim.cfg", simulate=30 if q else 400, depth=40, timeout=900, behaviours_out=beh2)
        sus2 = ctx.path("suspects2.ndjson")
        r2 = ctx.vh(exe, ["replay", beh2, sus2], timeout=1500)
        ctx.cov(traces_validated_against_impl=int(r2.stats.get("behaviours", 0)), evaluations=int(r2.stats.get("steps", 0)))
        judge_suspects(ctx, sd, sus2, int(r2.stats.get("suspect_events", 0)))
        _t(ctx, "R2b simulation + replay")
        # ---- R3: random histories on the real pool (up to 15 hashes, limits up to 7) validated by TLC
        tr = os.path.join(sd, "trace.ndjson")
        nt, ln = (30, 100) if q else (300, 250)
        r3 = ctx.vh(exe, ["record", ctx.seed, nt, ln, tr])
        ne = int(r3.stats.get("events", 0))
        st, line = vlib.validate_trace(ctx, sd, "Trace_HeadersPool", "Trace_HeadersPool.cfg", tr, ne, "C29/trace",
                                       divergence_is_violation=False, what="headersPool trace",
                                       obs_cfg="Trace_HeadersPool_obs.cfg", timeout=1200)
        if st == "accepted":
            ctx.cov(traces_validated_against_impl=nt, evaluations=ne)
        if not q and st == "accepted":
            def stale_hash_entry(evs):     # a removal that forgets the by-hash index
                for e in evs:
                    if e["a"] == "RemoveHeaderByNonce" and e["st"]["byHash"]:
                        pass
                for i, e in enumerate(evs):
                    if e["a"] in ("RemoveHeaderByNonce", "RemoveHeaderByHash") and i > 0 and \
                            len(evs[i - 1]["st"]["byHash"]) > len(e["st"]["byHash"]) and evs[i - 1]["a"] != "New":
                        e["st"]["byHash"] = evs[i - 1]["st"]["byHash"]
                        break
                return evs

            def wrong_count(evs):
                for e in evs:
                    if e["st"].get("cnt"):
                        e["st"]["cnt"][0]["c"] += 1
                        break
                return evs
            for mut in (stale_hash_entry, wrong_count):
                vlib.selftest_rejects(ctx, sd, "Trace_HeadersPool", "Trace_HeadersPool.cfg", tr, mut)
                vlib.selftest_rejects(ctx, sd, "Trace_HeadersPool", "Trace_HeadersPool_obs.cfg", tr, mut)
        _t(ctx, "R3 record + trace validation")
    if only != "seq":
        # ---- race half
        rexe = ctx.go_build("vh-headerspool", race=True)
        scen = ctx.path("scenarios.ndjson")
        with open(scen, "w") as out:
            for th in (["1, 2"] if q else ["1, 2", "1, 2, 3"]):
                open(os.path.join(sd, "scen.cfg"), "w").write(LOCKS % dict(
                    spec="GenSpec", threads=th, defects=AS_IS, rest="ACTION_CONSTRAINT EmitEdge"))
                part = ctx.path("scen-part.ndjson")
                gs = ctx.tlc(sd, "MC_HeadersPoolLocks", "scen.cfg", timeout=600, behaviours_out=part, count=False)
                if gs.ok and gs.behaviours == 0:
                    ctx.broken.append("scenario export produced nothing")
                out.write(open(part).read())
        rr = ctx.vh(rexe, ["race", scen, 120 if q else 300], timeout=3000)
        ctx.cov(traces_validated_against_impl=int(rr.stats.get("scenarios", 0)),
                evaluations=int(rr.stats.get("goroutine_iterations", 0)),
                distinct_nontrivial=int(rr.stats.get("distinct_scenarios", 0)),
                race_scenarios=int(rr.stats.get("scenarios", 0)), race_observed=int(rr.stats.get("race_observed", 0)),
                race_predicted_by_model=int(rr.stats.get("race_predicted", 0)),
                race_predicted_not_observed=int(rr.stats.get("race_predicted_not_observed", 0)))
        _t(ctx, "race scenarios")
    ctx.cov(rule="sequential half: every transition of the HeadersPool specification's state graph (3 hashes incl. the empty "
                 "hash, 2-3 shards incl. metachain, 2 nonces, all limit pairs) replayed on the real pool comparing the answer "
                 "and the three indexes + recency order after each call; distinct = distinct (configuration, source state, "
                 "call, arguments); plus simulated long behaviours; plus random real histories validated by TLC. Race half: "
                 "every multiset of 2 (thorough: 3) operation classes of the lock-discipline table (19 classes: known/unseen "
                 "shard, present/absent hash) run with real goroutines under the race detector")
