"""C36 -- percentage splits of amounts are exact and bounded (family E, specs/Percent)."""
import os
import vlib

PROPS = ["C36"]
FAMILY = "Percent"

CFG = """SPECIFICATION %(spec)s
CONSTANTS
  Amounts = {%(amounts)s}
  MaxK = %(maxk)d
  BigSamples <- MCSamples
  Rewards = {%(rewards)s}
  Fees <- MCFees
  StakeSets <- MCStakeSets
  Log <- %(log)s
  Depth = %(depth)d
%(rest)s
CHECK_DEADLOCK FALSE
"""
OBS = "Trace_Percent_obs.cfg"


def run(ctx):
    sd = ctx.stage()
    q = ctx.quick
    ctx.assume(
        "'the amount times p rounded down' is checked for p read as the shortest decimal that strconv.FormatFloat(p,'f',-1,64) "
        "yields (num/10^k -- the digits the code itself multiplies with), NOT for the binary value of the float64; the two "
        "readings differ from amounts of about 10^17 on",
        "amounts and digit strings of any size are handled in TLA+ as base-10000 limb sequences (BigMul/BigPct); TLC model-checks "
        "that this arithmetic agrees with its native integers on all sample pairs, the harness converts big.Int <-> limbs",
        "percentages explored: 0, 1, short decimals, ratios of integers, random float64 in [0,1) down to 1e-18 (denormal-size "
        "fractions with hundreds of digits are not explored); amounts 0 .. 10^30",
        "delegation split: a real delegation contract deployed through the real delegation manager, validator and staking "
        "contracts on a real vmContext (harness/families/sysvm world); stakes fixed before the first rewarded epoch, every "
        "delegator claims at the end; amounts < 2^16 so that pool*stake fits TLC's integers; 'exactly' = owner part + pool = "
        "rewards, paid <= rewards, and less than one unit per delegator and epoch is lost to rounding",
        "GetApproximatePercentageOfValue (pre-stakingV2 path) is only required to stay within [0, amount]")
    base = dict(spec="Spec", amounts="0, 1, 2, 3, 7, 9, 10, 11, 99, 100, 101, 999, 1000, 1001, 1999, 2000", maxk=3,
                rewards="0, 1, 2, 9, 10, 11, 99, 100, 101, 1000", log="LogLast", depth=0,
                rest="VIEW cvars\nINVARIANTS Inv_C36_NoClauseViolated Inv_C36_NativeBounds Inv_C36_SplitExact "
                     "Inv_BigAgreesWithNative")
    if q:
        base.update(amounts="0, 1, 3, 9, 10, 11, 99, 101, 1000, 1999", rewards="0, 1, 9, 10, 11, 100, 101")

    def cfg(name, **kw):
        open(os.path.join(sd, name), "w").write(CFG % dict(base, **kw))
        return name

    # R1: all small inputs: bounds, floor identity, identity at 100 %, zero at 0 %, monotone in p, limb arithmetic =
    #     native arithmetic, owner part + pool = rewards, shares within the pool
    r1 = ctx.tlc(sd, "MC_Percent", cfg("r1.cfg"), timeout=1500, coverage=not q)
    if not q and r1.ok and r1.coverage_zero:
        ctx.broken.append("vacuity guard: never taken: %s" % sorted(set(r1.coverage_zero)))
    exe = ctx.go_build("vh-percent")

    # R2: the small Pct inputs with the specification's result, evaluated on the real function
    beh = ctx.path("edges.ndjson")
    g = ctx.tlc(sd, "MC_Percent", cfg("gen.cfg", spec="GenSpec", log="LogAppend", depth=2, rewards="",
                                      amounts="0, 1, 3, 10, 99, 1999" if q else base["amounts"],
                                      rest="VIEW cvars\nACTION_CONSTRAINT EmitEdge"),
                timeout=1500, behaviours_out=beh, count=False)
    if g.ok and g.behaviours == 0:
        ctx.broken.append("behaviour export produced nothing")
    h = ctx.vh(exe, ["replay", beh], timeout=900)
    ctx.cov(traces_validated_against_impl=int(h.stats.get("steps", 0)), evaluations=int(h.stats.get("steps", 0)),
            distinct_nontrivial=int(h.stats.get("distinct", 0)),
            small_inputs_not_expressible_as_float=int(h.stats.get("skipped", 0)))

    # R3: real-scale calls of the real functions + real delegation contracts, every record checked by TLC
    tr = os.path.join(sd, "trace.ndjson")
    calls, contracts = (1200, 40) if q else (7000, 400)
    r3 = ctx.vh(exe, ["record", ctx.seed, calls, contracts, tr], timeout=1500)
    st, line = vlib.validate_trace(ctx, sd, "Trace_Percent", "Trace_Percent.cfg", tr, int(r3.stats.get("events", 0)),
                                   "C36/trace", divergence_is_violation=False, obs_cfg=OBS, timeout=1800,
                                   what="real percentage function / delegation contract")
    if st == "accepted":
        ctx.cov(traces_validated_against_impl=int(r3.stats.get("events", 0)), evaluations=int(r3.stats.get("events", 0)),
                distinct_nontrivial=int(r3.stats.get("distinct", 0)),
                calls_with_15_or_more_fraction_digits=int(r3.stats.get("long_fraction_calls", 0)),
                delegation_contracts=int(r3.stats.get("contracts", 0)))
    if not q and st == "accepted":
        def off_by_one(evs):                 # a result one unit too high (still <= amount)
            for e in evs:
                if e["a"] == "Pct" and e["out"]["r"] and e["out"]["r"] != e["in"]["v"] and e["out"]["r"][0] < 9999:
                    e["out"]["r"][0] += 1
                    break
            return evs
        vlib.selftest_rejects(ctx, sd, "Trace_Percent", OBS, tr, off_by_one)

        def overpay(evs):                    # the delegators receive one unit more than the rewards
            for e in evs:
                if e["a"] == "Split":
                    tot = sum(x["rewards"] for x in e["in"]["epochs"])
                    e["out"]["claims"][0] += tot - sum(e["out"]["claims"]) + 1
                    break
            return evs
        vlib.selftest_rejects(ctx, sd, "Trace_Percent", OBS, tr, overpay)
    ctx.cov(rule="R2: every small (amount, num/10^k, k <= 3) whose float64 renders back to the same decimal evaluated on "
                 "GetIntTrimmedPercentageOfValue and compared with the TLA+ floor; R3: random amounts up to 10^30 x "
                 "percentages (0, 1, short, 1e-7-style, 16-17 digit floats), each record checked by TLC with exact limb "
                 "arithmetic; delegation contracts with random stakes / fees (maxServiceFee 3, 7, 100, 10000, 2^20, "
                 "999983 -> short and 17-digit percentages) / epoch rewards; distinct = distinct (amount size in limbs, "
                 "k, p = 0, p = 1) classes and distinct small inputs")
