"""C24 -- the signed bytes cover every semantic field (family F, specs/SigningFields).

R1  SigningFields.tla (per-field encodings incl. omitempty and Go's UTF-8 sanitising of the chain ID string) checked by
    TLC over pools of values per field x two base transactions: single-field pairs and field-swap pairs.  Run as the
    intended design and as the code is (named deviation chainIDUtf8: TLC must find the colliding chain IDs).
R2  every enumerated pair is built as two real transactions; GetDataForSigning bytes (real bech32 converter, real
    TxJsonMarshalizer) and the message InterceptedTransaction.verifySig hands to the signer are compared; equal bytes for
    semantically different values (or different bytes for identical values) is the violation; the semantic verdict
    comes from TLC.
R3  random pairs with random bytes in every byte field, answers (signable, equal bytes) validated by TLC.
Thin relation model => level "exploration".
"""
import os
import vlib

PROPS = ["C24"]
FAMILY = "SigningFields"

CFG = """SPECIFICATION Spec
CONSTANTS
  NumPool64 <- MCNum64
  NumPool32 <- MCNum32
  ValuePool <- MCValue
  BytePool <- MCBytes
  ChainPool <- MCChain
  AddrPool <- MCAddr
  Bases <- MCBases
  KnownDefects = {%(defects)s}
  Log <- LogLast
  Depth = 0
  ByteAlphabet = {%(balpha)s}
  ByteMaxLen = %(blen)d
  ChainAlphabet = {%(calpha)s}
  ChainMaxLen = %(clen)d
%(rest)s
CHECK_DEADLOCK FALSE
"""
TRACE_CFG = """SPECIFICATION TraceSpec
CONSTANTS
  NumPool64 = {}
  NumPool32 = {}
  ValuePool = {}
  BytePool = {}
  ChainPool = {}
  AddrPool = {}
  Bases = {}
  KnownDefects = {"chainIDUtf8"}
  Log <- LogLast
  Strict = %(strict)s
CONSTRAINT HighWater
INVARIANTS %(invs)s
POSTCONDITION Accepted
CHECK_DEADLOCK FALSE
"""
CORE = ["Inv_C24_CoversEveryField", "Inv_C24_FunctionOfFields"]
KNOWN = ["InvK_C24_Covers_invalidUtf8", "InvK_C24_Function_invalidUtf8"]
DEFECT = '"chainIDUtf8"'


def run(ctx):
    sd = ctx.stage()
    q = ctx.quick
    ctx.level = "exploration"
    ctx.assume("specification: specs/SigningFields/SigningFields.tla; semantic value of a byte field = its bytes (nil = empty)",
               "addresses of the configured length (32 bytes): other lengths are encoded as \"\" by the bech32 converter",
               "base64, bech32, decimal and JSON string escaping are injective (modelled as such); hash-signing uses keccak "
               "(collision-free for the purpose of the check)",
               "trusted: TLC, encoding/json, the construction of the two real transactions in harness/cmd/vh-signing")
    dom = dict(balpha="0, 34, 65, 128, 255", blen=2, calpha="65, 239, 191, 189, 255" if q else "65, 92, 128, 237, 160, 239, 191, 189, 255",
               clen=3)
    inv = "INVARIANTS " + " ".join(CORE + KNOWN)
    # ---- R1: intended design
    open(os.path.join(sd, "r1.cfg"), "w").write(CFG % dict(dom, defects="", rest=inv))
    dev = bool(os.environ.get("VERIF_DEV_SKIP_R1"))     # mutation-testing aid only: skips the code-independent R1 runs
    r1 = vlib.TlcResult() if dev else ctx.tlc(sd, "MC_SigningFields", "r1.cfg", timeout=1800, coverage=not q)
    if not q and r1.ok and r1.coverage_zero:
        ctx.broken.append("vacuity guard: never evaluated in R1: %s" % sorted(set(r1.coverage_zero))[:10])
    # ---- R1 with the code's deviation: TLC must find two chain IDs that sign identically
    open(os.path.join(sd, "r1d.cfg"), "w").write(CFG % dict(dom, calpha="65, 239, 191, 189, 255", defects=DEFECT,
                                                            rest="INVARIANTS " + " ".join(KNOWN)))
    rd = ctx.tlc(sd, "MC_SigningFields", "r1d.cfg", timeout=900, count=False, allow=("invariant",)) if not dev else None
    if dev:
        pass
    elif rd.error and rd.error.startswith("invariant:"):
        ctx.cov(r1_counterexample_with_known_defect=rd.error.split(":", 1)[1])
    else:
        ctx.broken.append("R1 with KnownDefects = {chainIDUtf8}: TLC found no counterexample (%s)" % rd.error)
    exe = ctx.go_build("vh-signing")
    # ---- R2: every pair on the real code (specification as the code is, so that `eq` is comparable)
    gdom = dict(dom) if q else dict(dom, calpha="65, 92, 128, 239, 191, 189, 255")     # thorough: keep the export below ~400 k pairs
    open(os.path.join(sd, "gen.cfg"), "w").write(CFG % dict(gdom, defects=DEFECT, rest="ACTION_CONSTRAINT EmitEdge"))
    pairs = ctx.path("pairs.ndjson")
    g = ctx.tlc(sd, "MC_SigningFields", "gen.cfg", timeout=1800, behaviours_out=pairs, count=False)
    if g.ok and g.behaviours == 0:
        ctx.broken.append("pair export produced nothing")
    h = ctx.vh(exe, ["eval", pairs], timeout=1800)
    ctx.cov(traces_validated_against_impl=int(h.stats.get("pairs", 0)), evaluations=int(h.stats.get("pairs", 0)),
            distinct_nontrivial=int(h.stats.get("distinct_semantically_different_pairs", 0)),
            pairs_checked_at_verifySig=int(h.stats.get("pairs_checked_at_verifySig", 0)))
    # ---- R3: random pairs validated by TLC
    open(os.path.join(sd, "strict.cfg"), "w").write(TRACE_CFG % dict(strict="TRUE", invs=" ".join(CORE)))
    open(os.path.join(sd, "obs.cfg"), "w").write(TRACE_CFG % dict(strict="FALSE", invs=" ".join(CORE)))
    open(os.path.join(sd, "known.cfg"), "w").write(TRACE_CFG % dict(strict="FALSE", invs=" ".join(KNOWN)))
    tr = os.path.join(sd, "trace.ndjson")
    r3 = ctx.vh(exe, ["record", ctx.seed, 1500 if q else 20000, tr])
    nev = int(r3.stats.get("events", 0))
    st, line = vlib.validate_trace(ctx, sd, "Trace_SigningFields", "strict.cfg", tr, nev, "C24/trace",
                                   divergence_is_violation=False, what="random transaction pairs", obs_cfg="obs.cfg")
    if st == "accepted":
        ctx.cov(evaluations=nev)
    rk = ctx.tlc(sd, "Trace_SigningFields", "known.cfg", workers=1, timeout=900, count=False, allow=("invariant", "postcondition"))
    if rk.error and rk.error.startswith("invariant:"):
        lines = open(tr).read().splitlines()
        ln = (rk.last_l - 1) if rk.last_l else None
        ev = lines[ln - 1][:1200] if ln and 1 <= ln <= len(lines) else None
        ctx.violation("C24/trace/" + rk.error.split(":", 1)[1],
                      "random transaction pairs: %s is false on an observed pair (line %s: %s)" % (rk.error.split(":", 1)[1], ln, ev),
                      {"line": ln, "event": ev})
    elif rk.error:
        ctx.broken.append("known-class pass: %s\n%s" % (rk.error, rk.text(20)))
    if not q and st == "accepted":
        def corrupt(evs):
            for e in evs:
                if e["a"] == "Multi" and e["out"]["signable"] and not e["out"]["eq"] and e["in"]["t1"]["chainID"] == e["in"]["t2"]["chainID"]:
                    e["out"]["eq"] = True       # two different transactions reported as signing identically
                    return evs
            return evs
        vlib.selftest_rejects(ctx, sd, "Trace_SigningFields", "strict.cfg", tr, corrupt)
        vlib.selftest_rejects(ctx, sd, "Trace_SigningFields", "obs.cfg", tr, corrupt)
    ctx.cov(rule="a case = an ordered pair of transactions (base transaction x field x two pool values, or two same-typed "
                 "fields exchanging values, or a random pair); non-trivial/distinct = pairs that differ semantically "
                 "(the signed bytes must differ) counted once per (kind, field, t1, t2); pairs with identical values check "
                 "that the bytes are a function of the fields (nil vs empty byte strings included)")
