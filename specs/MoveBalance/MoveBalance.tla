----------------------------- MODULE MoveBalance -----------------------------
(***************************************************************************)
(* Intra-shard value transfers processed by process/transaction            *)
(* txProcessor.ProcessTransaction (shardProcess.go, baseProcess.go) over a  *)
(* real accounts DB, the real economicsData and the real fee accumulator.   *)
(* Property C23: value is conserved and the sender nonce advances exactly   *)
(* when something is charged.                                               *)
(*                                                                          *)
(* State: balance / nonce / existence of every account, the fees the fee    *)
(* accumulator has collected.  Configuration (fee settings and the epoch    *)
(* flags, fixed for a behaviour) is chosen in Init.                         *)
(*                                                                          *)
(* Process(tx) follows the code path for a transaction whose type handler   *)
(* answers (MoveBalance, MoveBalance), both accounts in the node's shard:   *)
(*   getAccounts        LoadAccount(sender), LoadAccount(receiver) (a       *)
(*                      missing account is a fresh one: balance 0, nonce 0) *)
(*   checkTxValues      nonce higher / lower -> rejected, nothing changes   *)
(*                      CheckValidityTxValues -> rejected, nothing changes  *)
(*                      balance < ComputeTxFee -> ErrInsufficientFee        *)
(*                      balance < fee' + value -> ErrInsufficientFunds      *)
(*                        (fee' = gasLimit*gasPrice before the penalized-   *)
(*                        too-much-gas epoch, ComputeTxFee afterwards)      *)
(*   executingFailedTransaction (insufficient funds only)                   *)
(*                      sender -= ComputeTxFee, nonce++, fees += the same   *)
(*   processMoveBalance receiver not payable (smart-contract address without *)
(*                      a payable contract): the sender keeps the value,    *)
(*                      pays the move-balance fee, nonce++ (ProcessIfError) *)
(*   processMoveBalance sender -= ComputeMoveBalanceFee + value, nonce++,   *)
(*                      receiver += value, fees += ComputeMoveBalanceFee    *)
(*                      (the gas above the move-balance gas is given back   *)
(*                      by a receipt, it is never taken)                    *)
(* The fee arithmetic is that of specs/Fees/Fees.tla (C21).                 *)
(***************************************************************************)
EXTENDS Integers, Sequences, FiniteSets, TLC

CONSTANTS Accts,       \* account names
          PayableSC,   \* accounts at smart-contract addresses whose code metadata says "payable"
          NonPayableSC,\* accounts at smart-contract addresses that are not payable (metadata, or no account there at all)
          KnownDefects,\* named deviations of the code from the intended design (see "notPayableFeeAccounting")
          EcoCfgs,     \* [minPrice, minLimit, perByte, maxGas, num, den, fp, fm, supply]; fp/fm: epoch flags
          Scenarios,   \* initial states [bal, nonce : [Accts -> Nat], sc : set of smart-contract accounts deployed initially];
                       \* a plain account exists iff bal > 0 or nonce > 0
          Txs,         \* transactions [snd, rcv, dn, value, price, gl, dl]; tx nonce = sender nonce + dn
          Log(_, _)

VARIABLES bal, nonce, exists, fees, eco, total,
          minted,      \* fees accounted to the fee collector that nobody was charged (0 in the intended design)
          hist

vars  == <<bal, nonce, exists, fees, eco, total, minted, hist>>
cvars == <<bal, nonce, exists, fees, eco, total, minted>>

RECURSIVE SumOver(_, _)
SumOver(f, S) == IF S = {} THEN 0 ELSE LET x == CHOOSE y \in S : TRUE IN f[x] + SumOver(f, S \ {x})

-----------------------------------------------------------------------------
(* fee arithmetic (economicsData, see Fees.tla) *)
MoveGas(tx) == eco.minLimit + tx.dl * eco.perByte
MoveFee(tx) == tx.price * MoveGas(tx)
PP(tx)      == IF eco.fm THEN (tx.price * eco.num) \div eco.den ELSE tx.price
TxFee(tx)   == IF eco.fm THEN (IF tx.gl <= MoveGas(tx) THEN MoveFee(tx) ELSE MoveFee(tx) + PP(tx) * (tx.gl - MoveGas(tx)))
               ELSE IF eco.fp THEN tx.gl * tx.price ELSE MoveFee(tx)
RECURSIVE ByteLen(_)
ByteLen(n) == IF n = 0 THEN 0 ELSE 1 + ByteLen(n \div 256)
ValidValues(tx) ==
    /\ eco.minPrice <= tx.price
    /\ tx.gl >= MoveGas(tx)
    /\ tx.gl < eco.maxGas
    /\ ByteLen(tx.value) <= ByteLen(eco.supply)
    /\ tx.value <= eco.supply

-----------------------------------------------------------------------------
St == [bal |-> bal, nonce |-> nonce, exists |-> exists, fees |-> fees]

Init ==
    /\ eco \in EcoCfgs
    /\ \E s \in Scenarios :
         /\ bal = s.bal /\ nonce = s.nonce
         /\ exists = [a \in Accts |-> s.bal[a] > 0 \/ s.nonce[a] > 0 \/ a \in s.sc]
         /\ total = SumOver(s.bal, Accts)
    /\ fees = 0 /\ minted = 0
    /\ hist = <<[a |-> "New", in |-> [eco |-> eco], out |-> [res |-> "new"],
                 st |-> [bal |-> bal, nonce |-> nonce, exists |-> exists, fees |-> 0]]>>

\* BlockChainHookImpl.IsPayable: a plain address is payable; a smart-contract address is payable iff an account exists
\* there and its code metadata has the payable bit
Payable(r) == IF r \in PayableSC \cup NonPayableSC THEN exists[r] /\ r \in PayableSC ELSE TRUE

\* the outcome split of checkTxValues (+ the receiver check of processMoveBalance), in the order of the code
Outcome(tx) ==
    LET s == tx.snd
        txNonce == nonce[s] + tx.dn
    IN  IF nonce[s] < txNonce THEN "higherNonce"
        ELSE IF nonce[s] > txNonce THEN "lowerNonce"
        ELSE IF ~ValidValues(tx) THEN "invalid"
        ELSE IF bal[s] < TxFee(tx) THEN "insufficientFee"
        ELSE IF bal[s] < (IF eco.fp THEN TxFee(tx) ELSE tx.gl * tx.price) + tx.value THEN "insufficientFunds"
        ELSE IF ~Payable(tx.rcv) THEN "notPayable"       \* found by processMoveBalance after the sender was charged
        ELSE "ok"

\* what scProcessor.ProcessIfError accounts to the fee collector for the rejected transfer: the whole transaction fee
\* (gasLimit*gasPrice before the penalized-too-much-gas epoch) although processTxFee took only the move-balance fee
\* -- named deviation "notPayableFeeAccounting"; intended design: what was charged
ConsumedFee(tx) ==
    IF "notPayableFeeAccounting" \in KnownDefects
    THEN (IF eco.fp THEN TxFee(tx) ELSE tx.gl * tx.price)
    ELSE MoveFee(tx)

Process(tx) ==
    LET s == tx.snd
        r == tx.rcv
        o == Outcome(tx)
    IN  /\ nonce[s] + tx.dn >= 0
        /\ CASE o = "ok" ->
                  /\ bal' = IF s = r THEN [bal EXCEPT ![s] = @ - MoveFee(tx)]
                                     ELSE [bal EXCEPT ![s] = @ - MoveFee(tx) - tx.value, ![r] = @ + tx.value]
                  /\ nonce' = [nonce EXCEPT ![s] = @ + 1]
                  /\ exists' = [exists EXCEPT ![s] = TRUE, ![r] = TRUE]
                  /\ fees' = fees + MoveFee(tx)
                  /\ UNCHANGED minted
             [] o = "insufficientFunds" ->
                  /\ bal' = [bal EXCEPT ![s] = @ - TxFee(tx)]
                  /\ nonce' = [nonce EXCEPT ![s] = @ + 1]
                  /\ exists' = [exists EXCEPT ![s] = TRUE]
                  /\ fees' = fees + TxFee(tx)
                  /\ UNCHANGED minted
             [] o = "notPayable" ->
                  \* processTxFee + nonce++ + value out + SaveAccount(sender); IsPayable fails;
                  \* executeAfterFailedMoveBalanceTransaction -> ProcessIfError gives the value back to the sender
                  /\ bal' = [bal EXCEPT ![s] = @ - MoveFee(tx)]
                  /\ nonce' = [nonce EXCEPT ![s] = @ + 1]
                  /\ exists' = [exists EXCEPT ![s] = TRUE]
                  /\ fees' = fees + ConsumedFee(tx)
                  /\ minted' = minted + ConsumedFee(tx) - MoveFee(tx)
             [] OTHER -> UNCHANGED <<bal, nonce, exists, fees, minted>>
        /\ UNCHANGED <<eco, total>>
        /\ hist' = Log(hist, [a |-> "Process",
                              in |-> [snd |-> s, rcv |-> r, nonce |-> nonce[s] + tx.dn, value |-> tx.value,
                                      price |-> tx.price, gl |-> tx.gl, dl |-> tx.dl],
                              out |-> [res |-> o],
                              st |-> [bal |-> bal', nonce |-> nonce', exists |-> exists', fees |-> fees']])

\* AccountsDB.Commit between transactions: no abstract change
Commit ==
    /\ UNCHANGED cvars
    /\ hist' = Log(hist, [a |-> "Commit", in |-> [x |-> 0], out |-> [res |-> "commit"], st |-> St])

Next == (\E tx \in Txs : Process(tx)) \/ Commit
Spec == Init /\ [][Next]_vars

-----------------------------------------------------------------------------
(* C23 *)

TypeOK ==
    /\ \A a \in Accts : bal[a] >= 0 /\ nonce[a] >= 0
    /\ \A a \in Accts : (bal[a] > 0 \/ nonce[a] > 0) => exists[a]
    /\ fees >= 0

\* value is conserved: all balances plus the collected fees
Inv_C23_Conservation == SumOver(bal, Accts) + fees = total + minted
\* ... and nothing is accounted as a fee without having been charged (fails with "notPayableFeeAccounting")
InvK_C23_NoMint == minted = 0

\* the nonce of exactly one account (the sender) increases by one when something is charged, nothing moves otherwise
Act_C23_NonceIffCharged ==
    [][ IF fees' > fees
        THEN \E s \in Accts : /\ nonce' = [nonce EXCEPT ![s] = @ + 1]
                              /\ bal'[s] < bal[s]
                              /\ bal'[s] <= bal[s] - ((fees' - fees) - (minted' - minted))
        ELSE nonce' = nonce /\ bal' = bal /\ fees' = fees ]_cvars

\* the three cases of the statement, on the logged outcome
Last == hist'[Len(hist')]
Act_C23_Outcomes ==
    [][ Last.a = "Process" =>
          LET tx == Last.in
              fee == fees' - fees
          IN  CASE Last.out.res = "ok" ->
                     /\ fee >= 0
                     /\ IF tx.snd = tx.rcv THEN bal' = [bal EXCEPT ![tx.snd] = @ - fee]
                        ELSE bal' = [bal EXCEPT ![tx.snd] = @ - tx.value - fee, ![tx.rcv] = @ + tx.value]
                [] Last.out.res \in {"insufficientFunds", "notPayable"} ->      \* failures that charge only the fee
                     /\ fee >= 0 /\ bal' = [bal EXCEPT ![tx.snd] = @ - (fee - (minted' - minted))]
                [] OTHER -> bal' = bal /\ fees' = fees /\ nonce' = nonce ]_vars
=============================================================================
