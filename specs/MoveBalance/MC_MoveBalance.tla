---- MODULE MC_MoveBalance ----
EXTENDS MoveBalance, Json
CONSTANTS Depth, Values, Prices, GasLimits, DataLens, DNonces, ScenarioSet,
          LeanSenders     \* senders for which only the representative transaction shape is generated (quick tier:
                          \* the account that never exists in the quick scenarios)

\* fee settings: minGasPrice 1, minGasLimit 2, gasPerDataByte 1, max gas per block 8, price modifier 1/2 (exact in
\* float64), supply 40; the three flag configurations that exist in history:
\*   legacy (both off), penalized-too-much-gas on, both on (current)
Flags == {<<FALSE, FALSE>>, <<TRUE, FALSE>>, <<TRUE, TRUE>>}
EcoA(f) == [minPrice |-> 1, minLimit |-> 2, perByte |-> 1, maxGas |-> 8, num |-> 1, den |-> 2, fp |-> f[1], fm |-> f[2],
            supply |-> 40]
\* second fee setting (thorough): price 1 is below the minimum, no gas for the bare transfer's data, modifier 1/2
EcoB(f) == [minPrice |-> 2, minLimit |-> 1, perByte |-> 2, maxGas |-> 7, num |-> 1, den |-> 2, fp |-> f[1], fm |-> f[2],
            supply |-> 4]
MCEco == IF ScenarioSet = "quick" THEN {EcoA(f) : f \in Flags} ELSE {EcoA(f) : f \in Flags} \cup {EcoB(f) : f \in Flags}

\* a, b, c: plain accounts; p: payable smart contract; n: smart-contract address that is not payable
F(x, y, z) == [a |-> x, b |-> y, c |-> z, p |-> 0, n |-> 0]
Users == {"a", "b", "c"}
\* "c" does not exist in most scenarios (balance 0, nonce 0)
\* sc = contracts deployed initially ("n" deployed: non-payable metadata; "n" missing: no account at that address)
ScenQuick    == {[bal |-> F(9, 4, 0), nonce |-> F(0, 1, 0), sc |-> {"p", "n"}],
                 [bal |-> F(20, 0, 0), nonce |-> F(1, 0, 0), sc |-> {"p"}]}
ScenThorough == ScenQuick \cup
                {[bal |-> F(3, 3, 3), nonce |-> F(0, 0, 0), sc |-> {}],
                 [bal |-> F(12, 1, 0), nonce |-> F(2, 0, 1), sc |-> {"n"}],
                 [bal |-> F(0, 0, 30), nonce |-> F(0, 0, 0), sc |-> {"p", "n"}],
                 [bal |-> F(6, 7, 0), nonce |-> F(0, 0, 0), sc |-> {"p"}]}
MCScen == IF ScenarioSet = "quick" THEN ScenQuick ELSE ScenThorough

\* the product of the interesting values, except that the rejected-before-the-balance-checks classes (wrong nonce,
\* price below the minimum, value above the supply) are represented by one transaction shape each
Rep(tx) == tx.value = 0 /\ tx.price = 1 /\ tx.gl = 3 /\ tx.dl = 0
MCTxs == {tx \in [snd : Users, rcv : Accts, dn : DNonces, value : Values, price : Prices, gl : GasLimits, dl : DataLens] :
            /\ tx.rcv \notin Users => tx.dl = 0        \* a transfer to a contract address that carries data is a contract call
            /\ tx.snd \in LeanSenders => (Rep(tx) /\ tx.dn = 0)
            /\ tx.dn # 0 => Rep(tx)
            /\ tx.price < 1 => Rep([tx EXCEPT !.price = 1])
            /\ tx.value > 40 => Rep([tx EXCEPT !.value = 0])}    \* (with EcoB's supply 4 the value 41 is out of bounds, 4 is the limit)

MCDN == {-1, 0, 1}

LogAppend(h, r) == Append(h, r)
LogLast(h, r) == <<r>>
GenNext  == Len(hist) < Depth /\ Next
GenSpec  == Init /\ [][GenNext]_vars
EmitEdge == PrintT("@@B " \o ToJson(hist'))
\* simulation: TLC evaluates the constraint on every candidate successor, i.e. on every last-step variant of a walk;
\* a random 1/40 of them is exported
EmitFull == (Len(hist') = Depth /\ RandomElement(1..40) = 1) => PrintT("@@B " \o ToJson(hist'))
\* exhaustive checking to a bounded number of transactions: count steps in a bounded way through the nonces
\* (every charged transaction increases a nonce; rejected ones change nothing, so the state space is finite)
====
