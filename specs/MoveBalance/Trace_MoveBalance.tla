---- MODULE Trace_MoveBalance ----
(* Trace validation: events recorded from the real txProcessor (New / Process / Commit with the result class  *)
(* and the projected accounts state after the step).                                                          *)
(* Strict = TRUE : every event must be the specification's action with the logged result and state (C23 is     *)
(*                 functional: the outcome split and the amounts are those of MoveBalance.tla);                *)
(* Strict = FALSE: observation only -- the specification state is set to the observed one, so that the C23     *)
(*                 invariants / action properties are evaluated by TLC on what the real code did.             *)
EXTENDS MoveBalance, Json, TLCExt
CONSTANT Strict
LogLast(h, r) == <<r>>
TLog == ndJsonDeserialize("trace.ndjson")
VARIABLE l
tvars == <<vars, l>>
Ev == TLog[l]
IsEvent(name) == l <= Len(TLog) /\ Ev.a = name /\ l' = l + 1
F(f) == [a \in Accts |-> f[a]]          \* JSON object -> function over Accts

TraceInit ==
    /\ l = 1 /\ fees = 0 /\ total = 0 /\ minted = 0
    /\ bal = [a \in Accts |-> 0] /\ nonce = [a \in Accts |-> 0] /\ exists = [a \in Accts |-> FALSE]
    /\ eco = [minPrice |-> 1, minLimit |-> 1, perByte |-> 0, maxGas |-> 2, num |-> 1, den |-> 1, fp |-> TRUE, fm |-> TRUE,
              supply |-> 0]
    /\ hist = <<[a |-> "None", in |-> [x |-> 0], out |-> [res |-> "none"], st |-> [x |-> 0]]>>

Observe ==
    /\ bal' = F(Ev.st.bal) /\ nonce' = F(Ev.st.nonce) /\ exists' = F(Ev.st.exists) /\ fees' = Ev.st.fees

TNew ==
    /\ IsEvent("New")
    /\ eco' = Ev.in.eco
    /\ Observe
    /\ Ev.st.fees = 0
    /\ total' = SumOver(F(Ev.st.bal), Accts) /\ minted' = 0
    /\ hist' = <<[a |-> "New", in |-> Ev.in, out |-> Ev.out, st |-> Ev.st]>>

\* what C23 distinguishes: success, failure that charges the fee, rejection without effect (which rejection is not prescribed)
Coarse(res) == IF res \in {"ok", "commit"} THEN res
               ELSE IF res \in {"insufficientFunds", "notPayable"} THEN "failed-and-charged" ELSE "rejected"
Matches == /\ Coarse(hist'[1].out.res) = Coarse(Ev.out.res)
           /\ bal' = F(Ev.st.bal) /\ nonce' = F(Ev.st.nonce) /\ exists' = F(Ev.st.exists) /\ fees' = Ev.st.fees

TxOf(in) == [snd |-> in.snd, rcv |-> in.rcv, dn |-> in.nonce - nonce[in.snd], value |-> in.value, price |-> in.price,
             gl |-> in.gl, dl |-> in.dl]

\* observation only: the amount the named deviation accounts without charging it (the specification's formula, so that
\* conservation is still evaluated honestly on what the code did)
ObsMinted == IF Ev.a = "Process" /\ Ev.out.res = "notPayable"
             THEN minted + (ConsumedFee(TxOf(Ev.in)) - MoveFee(TxOf(Ev.in))) ELSE minted

TProcess ==
    /\ IsEvent("Process")
    /\ IF Strict THEN Process(TxOf(Ev.in)) /\ Matches
       ELSE /\ Observe /\ UNCHANGED <<eco, total>> /\ minted' = ObsMinted
            /\ hist' = <<[a |-> "Process", in |-> Ev.in, out |-> Ev.out, st |-> Ev.st]>>
TCommit ==
    /\ IsEvent("Commit")
    /\ IF Strict THEN Commit /\ Matches
       ELSE /\ Observe /\ UNCHANGED <<eco, total, minted>>
            /\ hist' = <<[a |-> "Commit", in |-> Ev.in, out |-> Ev.out, st |-> Ev.st]>>

TraceNext == TNew \/ TProcess \/ TCommit
TraceSpec == TraceInit /\ [][TraceNext]_tvars

\* the action properties of MoveBalance do not apply to the step that starts a new trace
IsNewStep == hist'[1].a = "New"
TAct_C23_NonceIffCharged ==
    [][ IsNewStep \/
        IF fees' > fees
        THEN \E s \in Accts : /\ nonce' = [nonce EXCEPT ![s] = @ + 1]
                              /\ bal'[s] < bal[s]
                              /\ bal'[s] <= bal[s] - ((fees' - fees) - (minted' - minted))
        ELSE nonce' = nonce /\ bal' = bal /\ fees' = fees ]_cvars
TAct_C23_Outcomes ==
    [][ (~IsNewStep /\ Last.a = "Process") =>
          LET tx == Last.in
              fee == fees' - fees
          IN  CASE Last.out.res = "ok" ->
                     /\ fee >= 0
                     /\ IF tx.snd = tx.rcv THEN bal' = [bal EXCEPT ![tx.snd] = @ - fee]
                        ELSE bal' = [bal EXCEPT ![tx.snd] = @ - tx.value - fee, ![tx.rcv] = @ + tx.value]
                [] Last.out.res \in {"insufficientFunds", "notPayable"} ->
                     /\ fee >= 0 /\ bal' = [bal EXCEPT ![tx.snd] = @ - (fee - (minted' - minted))]
                [] OTHER -> bal' = bal /\ fees' = fees /\ nonce' = nonce ]_tvars

HighWater == TLCSet(1, IF l > TLCGet(1) THEN l ELSE TLCGet(1))
Accepted  == IF TLCGet(1) = Len(TLog) + 1 THEN TRUE ELSE PrintT("@@HW " \o ToString(TLCGet(1))) /\ FALSE
ASSUME TLCSet(1, 0)
====
