------------------------------- MODULE TxCache -------------------------------
(***************************************************************************)
(* Model of storage/txcache.TxCache (the pool of transactions whose sender *)
(* is in this shard).  Properties C25 (indexes stay consistent) and C26    *)
(* (selection respects nonce order).                                       *)
(*                                                                         *)
(* Structure follows the code:                                             *)
(*   byHash   txByHash (hash -> tx) with its counters CountTx / NumBytes   *)
(*   lists    txListBySender: sender -> list object (txListForSender) with *)
(*            the sorted list, the notified account nonce, the number of   *)
(*            failed selections, the sweepable flag and the last score     *)
(*   sweepL   sweepingListOfSenders: list OBJECTS collected by selections; *)
(*            an entry may outlive its sender (the object is then "dead"   *)
(*            and keeps the content it had when it left the map)           *)
(* The two indexes are updated separately, as in the code, so their        *)
(* consistency is a theorem checked by TLC, not an assumption.             *)
(*                                                                         *)
(* One action per public call; SelectTransactions is two actions, Select   *)
(* (synchronous part) and Sweep (the part the code runs in a goroutine).   *)
(* With AsyncSweep = FALSE the sweep directly follows the selection; with  *)
(* TRUE other calls may come in between (a schedule of the real code).     *)
(*                                                                         *)
(* RELATIONAL parts (the property does not prescribe them, so the          *)
(* specification does not predict them; trace validation takes them from   *)
(* the observation): which senders global eviction removes (V), in which   *)
(* order selection visits the senders (order; the code iterates Go maps    *)
(* inside score buckets), and the score of a sender (sc).                  *)
(*                                                                         *)
(* Named deviations of the code (parameter dv / constant KnownDefects):    *)
(*  "C25evict1"   applySizeConstraints removes at most ONE transaction per *)
(*                addition (it follows element.Prev() of a removed list    *)
(*                element, which is nil): the sender limits can stay       *)
(*                exceeded.  Intended: remove from the back while exceeded.*)
(*  "C26nonce0"   selectBatchTo uses `previousNonce > 0` for "there is a   *)
(*                previous transaction": a gap right after nonce 0 is not  *)
(*                detected.  Intended: an explicit flag.                   *)
(*  "ClearBytes"  txByHashMap.clear does not reset the byte counter (Clear *)
(*                is not among the operations C25 quantifies over; the     *)
(*                ghost `skew` keeps the byte equation checkable after it).*)
(***************************************************************************)
EXTENDS Integers, Sequences, FiniteSets, TLC

CONSTANTS Senders, Nonces, Prices, Sizes,   \* transaction universe [s, n, p, z]
          Configs,        \* candidate configurations (also ones that config.verify rejects)
          SelectNs, SelectBs,   \* numRequested / batchSizePerSender values
          NotifyNonces,   \* account nonces notified
          Scores,         \* scores a sender may get (model checking; observed in trace validation)
          MaxFailed,      \* selections stop being generated when a failed-selections counter reaches this bound
          MaxSweepList,   \* bound on the length of the sweep list (model checking)
          AsyncSweep,     \* see above
          WithClear,      \* generate Clear
          KnownDefects,   \* deviations active in model checking / behaviour generation
          Log(_, _)

VARIABLES cfg,        \* [ev, nb, cnt, sb, sc, ne, glo, ghi]: EvictionEnabled, NumBytesThreshold, CountThreshold,
                      \*   NumBytesPerSenderThreshold, CountPerSenderThreshold, NumSendersToPreemptivelyEvict
          alive,      \* NewTxCache accepted the configuration
          byHash,     \* set of transactions found by hash
          cnt, nbytes, nsend,   \* the three counters
          lists,      \* [live senders -> [txs, an, fs, sw, sc]]  (an = -1: account nonce unknown)
          sweepL,     \* sequence of [s, live, txs]
          skew,       \* ghost: bytes the byte counter is ahead of the content because of Clear
          staleSwept, \* ghost: a sweep used a dead list object whose sender had been re-created
          hist

vars  == <<cfg, alive, byHash, cnt, nbytes, nsend, lists, sweepL, skew, staleSwept, hist>>
cvars == <<cfg, alive, byHash, cnt, nbytes, nsend, lists, sweepL, skew, staleSwept>>

AllDefects == {"C25evict1", "C26nonce0", "ClearBytes"}
\* senderGracePeriodLowerBound / UpperBound are part of the configuration record (cfg.glo, cfg.ghi; 2 and 2 in the
\* code; the harness reads them from the code), so a different grace period is not mistaken for a defect
GraceLo == cfg.glo
GraceHi == cfg.ghi

Min(a, b) == IF a < b THEN a ELSE b
Tx(s, n, p, z) == [s |-> s, n |-> n, p |-> p, z |-> z]
TxSet(q) == {q[i] : i \in 1..Len(q)}
RECURSIVE SumZ(_)
SumZ(q) == IF q = <<>> THEN 0 ELSE Head(q).z + SumZ(Tail(q))
RECURSIVE SumZSet(_)
SumZSet(S) == IF S = {} THEN 0 ELSE LET x == CHOOSE y \in S : TRUE IN x.z + SumZSet(S \ {x})   \* S is small
Restrict(f, D) == [x \in D |-> f[x]]
AllListed(ls) == UNION {TxSet(ls[s].txs) : s \in DOMAIN ls}
NewList == [txs |-> <<>>, an |-> -1, fs |-> 0, sw |-> FALSE, sc |-> 0]

(* ConfigSourceMe.verify (name never empty, NumChunks fixed and valid) *)
VerifyOK(c) ==
    /\ c.sb >= 1 /\ c.sb <= 33554432
    /\ c.sc >= 1
    /\ c.ev => (c.nb >= 4 /\ c.nb <= 1073741824 /\ c.cnt >= 4 /\ c.ne >= 1)

(* TxCache.isCapacityExceeded *)
CapacityExceeded(c, nb, ns, n) == nb > c.nb \/ ns > c.cnt \/ n > c.cnt

-----------------------------------------------------------------------------
(* txListForSender.findInsertionPlace + insert: walk from the back; the incoming transaction goes after  *)
(* the first element (from the back) with a lower nonce, or with the same nonce and a higher gas price;  *)
(* an element with the same hash met on the way makes it a duplicate.                                     *)
RECURSIVE FindPlace(_, _, _)
FindPlace(q, tx, j) ==       \* -1: duplicate; otherwise the index after which tx is inserted (0: front)
    IF j = 0 THEN 0
    ELSE IF q[j] = tx THEN -1
    ELSE IF q[j].n = tx.n /\ q[j].p > tx.p THEN j
    ELSE IF q[j].n < tx.n THEN j
    ELSE FindPlace(q, tx, j - 1)
InsertAfter(q, j, tx) == SubSeq(q, 1, j) \o <<tx>> \o SubSeq(q, j + 1, Len(q))

(* txListForSender.applySizeConstraints *)
SenderExceeded(c, q) == SumZ(q) > c.sb \/ Len(q) > c.sc
RECURSIVE TrimBack(_, _)
TrimBack(c, q) == IF q # <<>> /\ SenderExceeded(c, q) THEN TrimBack(c, SubSeq(q, 1, Len(q) - 1)) ELSE q
ApplyLimits(c, q, dv) ==
    IF "C25evict1" \in dv
    THEN IF q # <<>> /\ SenderExceeded(c, q) THEN SubSeq(q, 1, Len(q) - 1) ELSE q      \* code as it is
    ELSE TrimBack(c, q)

(* txListForSender.findListElementWithTx: walk from the front, stop behind the nonce *)
RECURSIVE FindFront(_, _, _)
FindFront(q, tx, j) ==
    IF j > Len(q) THEN 0
    ELSE IF q[j] = tx THEN j
    ELSE IF q[j].n > tx.n THEN 0
    ELSE FindFront(q, tx, j + 1)
RemoveAt(q, j) == SubSeq(q, 1, j - 1) \o SubSeq(q, j + 1, Len(q))

\* list objects leaving the senders map: entries of the sweep list that refer to them keep their content
Kill(swl, ls, D) ==
    [j \in 1..Len(swl) |->
        IF swl[j].live /\ swl[j].s \in D
        THEN [s |-> swl[j].s, live |-> FALSE, txs |-> ls[swl[j].s].txs] ELSE swl[j]]

\* txByHash.RemoveTxsBulk(T): only what is there is removed and counted
DropFromHash(bh, n, nb, T) ==
    LET X == bh \cap T IN [bh |-> bh \ X, cnt |-> n - Cardinality(X), nb |-> nb - SumZSet(X)]

-----------------------------------------------------------------------------
(* Selection (doSelectTransactions / selectBatchTo), a function of the lists, the visiting order and the scores *)

\* one selectBatchTo call: l list object, c copy state [idx, prev, hasPrev, gap], first: isFirstBatch,
\* space: free slots of the result, base: batch size for this sender
RECURSIVE CopyLoop(_, _, _, _, _, _, _)
CopyLoop(q, idx, prev, hasPrev, copied, limit, dv) ==
    IF idx > Len(q) \/ Len(copied) = limit
    THEN [idx |-> idx, prev |-> prev, hasPrev |-> hasPrev, gapNow |-> FALSE, copied |-> copied]
    ELSE LET t == q[idx]
             prevKnown == IF "C26nonce0" \in dv THEN prev > 0 ELSE hasPrev
         IN  IF prevKnown /\ t.n > prev + 1
             THEN [idx |-> idx, prev |-> prev, hasPrev |-> hasPrev, gapNow |-> TRUE, copied |-> copied]
             ELSE CopyLoop(q, idx + 1, t.n, TRUE, Append(copied, t), limit, dv)

SelectBatch(l, c, first, space, base, dv) ==
    LET gap0 == l.an >= 0 /\ l.txs # <<>> /\ l.txs[1].n > l.an           \* hasInitialGap
        l1 == IF ~first THEN l
              ELSE IF gap0 THEN [l EXCEPT !.fs = @ + 1, !.sw = @ \/ (l.fs + 1 > GraceHi)]
              ELSE [l EXCEPT !.fs = 0]
        c1 == IF first THEN [idx |-> 1, prev |-> 0, hasPrev |-> FALSE, gap |-> gap0] ELSE c
        batch == IF c1.gap THEN (IF first /\ l1.fs >= GraceLo /\ l1.fs <= GraceHi THEN 1 ELSE 0) ELSE base
        r == CopyLoop(l1.txs, c1.idx, c1.prev, c1.hasPrev, <<>>, Min(batch, space), dv)
    IN  [l |-> l1,
         c |-> [idx |-> r.idx, prev |-> r.prev, hasPrev |-> r.hasPrev, gap |-> c1.gap \/ r.gapNow],
         copied |-> r.copied]

\* one pass over the senders in `order` (from position j); st = [res, ls, cs, swl, inpass, full]
RECURSIVE PassFrom(_, _, _, _, _, _, _)
PassFrom(st, order, j, first, n, b, dv) ==
    IF j > Len(order) \/ st.full THEN st
    ELSE LET s == order[j]
             r == SelectBatch(st.ls[s], st.cs[s], first, n - Len(st.res), b * (st.ls[s].sc + 1), dv)
             res2 == st.res \o r.copied
             st2 == [res |-> res2,
                     ls |-> [st.ls EXCEPT ![s] = r.l],
                     cs |-> [st.cs EXCEPT ![s] = r.c],
                     swl |-> IF first /\ r.l.sw THEN Append(st.swl, [s |-> s, live |-> TRUE, txs |-> <<>>]) ELSE st.swl,
                     inpass |-> st.inpass + Len(r.copied),
                     full |-> Len(res2) = n]
         IN PassFrom(st2, order, j + 1, first, n, b, dv)

RECURSIVE Passes(_, _, _, _, _, _)
Passes(st, order, first, n, b, dv) ==
    LET st2 == PassFrom([st EXCEPT !.inpass = 0], order, 1, first, n, b, dv) IN
    IF st2.full \/ st2.inpass = 0 THEN st2 ELSE Passes(st2, order, FALSE, n, b, dv)

DoSelect(ls, swl, order, n, b, dv) ==
    Passes([res |-> <<>>, ls |-> ls,
            cs |-> [s \in DOMAIN ls |-> [idx |-> 1, prev |-> 0, hasPrev |-> FALSE, gap |-> FALSE]],
            swl |-> swl, inpass |-> 0, full |-> FALSE],
           order, TRUE, n, b, dv)

\* visiting orders: permutations of the live senders, non-increasing in the score bucket
Perms(S) == {q \in [1..Cardinality(S) -> S] : \A i, j \in 1..Cardinality(S) : i # j => q[i] # q[j]}
Orders(ls) == {q \in Perms(DOMAIN ls) : \A i \in 1..(Len(q) - 1) : ls[q[i]].sc >= ls[q[i + 1]].sc}

-----------------------------------------------------------------------------
(* Properties as predicates over explicit values *)

HashIndexOK(bh, ls) == bh = AllListed(ls)
CountsOK(bh, ls, n, nb, ns, sk) ==
    /\ n = Cardinality(bh)
    /\ nb = SumZSet(bh) + sk
    /\ ns = Cardinality(DOMAIN ls)
OrderOK(ls) ==
    \A s \in DOMAIN ls : LET q == ls[s].txs IN
        /\ \A i \in 1..(Len(q) - 1) : q[i].n < q[i + 1].n \/ (q[i].n = q[i + 1].n /\ q[i].p >= q[i + 1].p)
        /\ \A i, j \in 1..Len(q) : i # j => q[i] # q[j]
        /\ \A i \in 1..Len(q) : q[i].s = s
SenderLimitsOK(c, ls, rec) ==
    (rec.a = "AddTx" /\ rec.in.tx.s \in DOMAIN ls) =>
        LET q == ls[rec.in.tx.s].txs IN Len(q) <= c.sc /\ SumZ(q) <= c.sb

\* the shape of the named deviation C25evict1: the sender's list after the addition is the list with the
\* transaction inserted minus exactly its last element (ls: lists before the call, ls2: after)
OneEvictionShape(ls, ls2, rec) ==
    LET tx  == rec.in.tx
        pre == IF tx.s \in DOMAIN ls THEN ls[tx.s].txs ELSE <<>>
    IN  /\ tx \notin TxSet(pre) /\ tx.s \in DOMAIN ls2
        \* inserted at SOME place (the property leaves ties open), then the last element dropped
        /\ \E j \in 0..Len(pre) : ls2[tx.s].txs = SubSeq(InsertAfter(pre, j, tx), 1, Len(pre))

\* C26 on a Select record; ls = lists after the selection (selection does not change the txs)
Of(res, s) == SelectSeq(res, LAMBDA t : t.s = s)
SelAtMostN(rec) == Len(rec.out.txs) <= rec.in.n
SelDistinctPooled(ls, rec) ==
    LET r == rec.out.txs IN
    /\ \A i, j \in 1..Len(r) : i # j => r[i] # r[j]
    /\ \A i \in 1..Len(r) : r[i].s \in DOMAIN ls /\ r[i] \in TxSet(ls[r[i].s].txs)
SelPrefix(ls, rec) ==
    \A s \in {rec.out.txs[i].s : i \in 1..Len(rec.out.txs)} :
        LET m == Of(rec.out.txs, s) IN
        s \in DOMAIN ls /\ Len(m) <= Len(ls[s].txs) /\ m = SubSeq(ls[s].txs, 1, Len(m))
SelNoSkip(rec, zero) ==      \* zero: the pairs whose first nonce is 0 / the other pairs
    \A s \in {rec.out.txs[i].s : i \in 1..Len(rec.out.txs)} :
        LET m == Of(rec.out.txs, s) IN
        \A i \in 1..(Len(m) - 1) : ((m[i].n = 0) = zero) => m[i + 1].n <= m[i].n + 1
SelGapSender(ls, rec) ==
    \A s \in DOMAIN ls :
        (ls[s].an >= 0 /\ ls[s].txs # <<>> /\ ls[s].txs[1].n > ls[s].an) =>
            LET k == Len(Of(rec.out.txs, s)) IN
            k = 0 \/ (k = 1 /\ ls[s].fs >= GraceLo /\ ls[s].fs <= GraceHi)

\* a step record: the call, its arguments and its observable result
Rec(a, in, out) == [a |-> a, in |-> in, out |-> out]

-----------------------------------------------------------------------------
NewState(c) ==
    [cfg |-> c, alive |-> VerifyOK(c),
     rec |-> Rec("New", c, [ok |-> VerifyOK(c)])]

Init ==
    \E c \in Configs :
        /\ cfg = c /\ alive = VerifyOK(c)
        /\ byHash = {} /\ cnt = 0 /\ nbytes = 0 /\ nsend = 0 /\ lists = <<>> /\ sweepL = <<>>
        /\ skew = 0 /\ staleSwept = FALSE
        /\ hist = <<NewState(c).rec>>

(* TxCache.AddTx(tx).  V: the senders removed by doEviction before the addition (relational);            *)
(* sc: the score the sender's list gets (relational); dv: active deviations.                               *)
AddTx(tx, V, sc, dv) ==
    /\ alive
    /\ V \subseteq DOMAIN lists
    /\ LET exceeded == cfg.ev /\ CapacityExceeded(cfg, nbytes, nsend, cnt) IN
       /\ V # {} => exceeded
       /\ (exceeded /\ DOMAIN lists # {}) => V # {}
    /\ LET \* 1. doEviction: the victims' transactions leave the hash index, the victims leave the map
           e    == DropFromHash(byHash, cnt, nbytes, UNION {TxSet(lists[s].txs) : s \in V})
           ls1  == Restrict(lists, DOMAIN lists \ V)
           ns1  == nsend - Cardinality(V)
           swl1 == Kill(sweepL, lists, V)
           \* 2. txByHash.addTx
           inHash == tx \in e.bh
           bh2  == e.bh \cup {tx}
           n2   == IF inHash THEN e.cnt ELSE e.cnt + 1
           nb2  == IF inHash THEN e.nb ELSE e.nb + tx.z
           \* 3. txListBySender.addTx: get or create the list, sorted insert, sender constraints
           isNew == tx.s \notin DOMAIN ls1
           l0   == IF isNew THEN NewList ELSE ls1[tx.s]
           ns2  == IF isNew THEN ns1 + 1 ELSE ns1
           pos  == FindPlace(l0.txs, tx, Len(l0.txs))
           dup  == pos = -1
           q1   == IF dup THEN l0.txs ELSE InsertAfter(l0.txs, pos, tx)
           q2   == IF dup THEN q1 ELSE ApplyLimits(cfg, q1, dv)
           evicted == TxSet(q1) \ TxSet(q2)
           l2   == [l0 EXCEPT !.txs = q2, !.sc = IF dup THEN @ ELSE sc]
           ls2  == [s \in DOMAIN ls1 \cup {tx.s} |-> IF s = tx.s THEN l2 ELSE ls1[s]]
           \* 4. what the sender constraints evicted leaves the hash index
           f    == DropFromHash(bh2, n2, nb2, evicted)
       IN
       /\ byHash' = f.bh /\ cnt' = f.cnt /\ nbytes' = f.nb
       /\ lists' = ls2 /\ nsend' = ns2 /\ sweepL' = swl1
       /\ UNCHANGED <<cfg, alive, skew, staleSwept>>
       /\ hist' = Log(hist, Rec("AddTx", [tx |-> tx], [ok |-> TRUE, added |-> (~inHash) \/ (~dup)]))

(* TxCache.RemoveTxByHash.  sc: the score the list gets if the transaction was found in it. *)
RemoveTx(tx, sc) ==
    /\ alive
    /\ IF tx \notin byHash
       THEN /\ UNCHANGED cvars
            /\ hist' = Log(hist, Rec("RemoveTx", [tx |-> tx], [ok |-> FALSE]))
       ELSE LET bh2 == byHash \ {tx}
                hasList == tx.s \in DOMAIN lists
                q    == IF hasList THEN lists[tx.s].txs ELSE <<>>
                pos  == FindFront(q, tx, 1)
                q2   == IF pos = 0 THEN q ELSE RemoveAt(q, pos)
                gone == hasList /\ q2 = <<>>          \* the sender is removed when its list is empty afterwards
                ls2  == IF ~hasList THEN lists
                        ELSE IF gone THEN Restrict(lists, DOMAIN lists \ {tx.s})
                        ELSE [lists EXCEPT ![tx.s].txs = q2, ![tx.s].sc = IF pos = 0 THEN @ ELSE sc]
                ns2  == IF gone THEN nsend - 1 ELSE nsend
                swl2 == IF gone THEN Kill(sweepL, [lists EXCEPT ![tx.s].txs = <<>>], {tx.s}) ELSE sweepL
            IN
            /\ byHash' = bh2 /\ cnt' = cnt - 1 /\ nbytes' = nbytes - tx.z
            /\ lists' = ls2 /\ nsend' = ns2 /\ sweepL' = swl2
            /\ UNCHANGED <<cfg, alive, skew, staleSwept>>
            /\ hist' = Log(hist, Rec("RemoveTx", [tx |-> tx], [ok |-> TRUE]))

(* TxCache.NotifyAccountNonce: only for a sender that has a list *)
Notify(s, n) ==
    /\ alive
    /\ lists' = IF s \in DOMAIN lists THEN [lists EXCEPT ![s].an = n] ELSE lists
    /\ UNCHANGED <<cfg, alive, byHash, cnt, nbytes, nsend, sweepL, skew, staleSwept>>
    /\ hist' = Log(hist, Rec("Notify", [s |-> s, n |-> n], [x |-> 0]))

(* doSelectTransactions(n, b).  order: the snapshot of senders (relational). *)
Select(n, b, order, dv) ==
    /\ alive
    /\ order \in Orders(lists)
    /\ LET r == DoSelect(lists, sweepL, order, n, b, dv) IN
       /\ lists' = r.ls /\ sweepL' = r.swl
       /\ UNCHANGED <<cfg, alive, byHash, cnt, nbytes, nsend, skew, staleSwept>>
       /\ hist' = Log(hist, Rec("Select", [n |-> n, b |-> b], [txs |-> r.res]))

(* sweepSweepable: evict the collected list objects' transactions and the senders of those names *)
Sweep ==
    /\ alive
    /\ LET T  == UNION {IF sweepL[j].live THEN TxSet(lists[sweepL[j].s].txs) ELSE TxSet(sweepL[j].txs)
                        : j \in 1..Len(sweepL)}
           S  == {sweepL[j].s : j \in 1..Len(sweepL)} \cap DOMAIN lists
           e  == DropFromHash(byHash, cnt, nbytes, T)
           ls2 == Restrict(lists, DOMAIN lists \ S)
           stale == \E j \in 1..Len(sweepL) : ~sweepL[j].live /\ sweepL[j].s \in DOMAIN lists
       IN
       /\ byHash' = e.bh /\ cnt' = e.cnt /\ nbytes' = e.nb
       /\ lists' = ls2 /\ nsend' = nsend - Cardinality(S) /\ sweepL' = <<>>
       /\ staleSwept' = (staleSwept \/ stale)
       /\ UNCHANGED <<cfg, alive, skew>>
       /\ hist' = Log(hist, Rec("Sweep", [x |-> 0], [x |-> 0]))

(* TxCache.Clear *)
Clear(dv) ==
    /\ alive
    /\ LET nb2 == IF "ClearBytes" \in dv THEN nbytes ELSE 0
           swl2 == Kill(sweepL, lists, DOMAIN lists)
       IN
       /\ byHash' = {} /\ cnt' = 0 /\ nbytes' = nb2 /\ skew' = nb2
       /\ lists' = <<>> /\ nsend' = 0 /\ sweepL' = swl2 /\ staleSwept' = FALSE
       /\ UNCHANGED <<cfg, alive>>
       /\ hist' = Log(hist, Rec("Clear", [x |-> 0], [x |-> 0]))

AllTxs == {Tx(s, n, p, z) : s \in Senders, n \in Nonces, p \in Prices, z \in Sizes}

\* SelectTransactions = Select, then (in a goroutine) Sweep: unless AsyncSweep, nothing runs in between
Forced == ~AsyncSweep /\ sweepL # <<>>
NSweep  == sweepL # <<>> /\ Sweep
NAdd    == ~Forced /\ \E tx \in AllTxs, V \in SUBSET DOMAIN lists, sc \in Scores : AddTx(tx, V, sc, KnownDefects)
NRemove == ~Forced /\ \E tx \in AllTxs, sc \in Scores : RemoveTx(tx, sc)
NNotify == ~Forced /\ \E s \in Senders, n \in NotifyNonces : Notify(s, n)
NSelect == /\ ~Forced
           /\ \A s \in DOMAIN lists : lists[s].fs < MaxFailed
           /\ Len(sweepL) < MaxSweepList
           /\ \E n \in SelectNs, b \in SelectBs, order \in Orders(lists) : Select(n, b, order, KnownDefects)
NClear  == ~Forced /\ WithClear /\ Clear(KnownDefects)
Next == NSweep \/ NAdd \/ NRemove \/ NNotify \/ NSelect \/ NClear

Spec == Init /\ [][Next]_vars

-----------------------------------------------------------------------------
LastRec == hist[Len(hist)]

TypeOK ==
    /\ DOMAIN lists \subseteq Senders
    /\ byHash \subseteq AllTxs
    /\ \A s \in DOMAIN lists : lists[s].an >= -1 /\ lists[s].fs >= 0

Inv_C25_HashIndex == staleSwept \/ HashIndexOK(byHash, lists)
Inv_C25_HashIndex_AfterStaleSweep == ~staleSwept \/ HashIndexOK(byHash, lists)
Inv_C25_Counts == CountsOK(byHash, lists, cnt, nbytes, nsend, skew)
Inv_C25_Order == OrderOK(lists)
Inv_C25_SenderLimits == SenderLimitsOK(cfg, lists, LastRec)

IsSel == LastRec.a = "Select"
Inv_C26_AtMostN == IsSel => SelAtMostN(LastRec)
Inv_C26_DistinctPooled == IsSel => SelDistinctPooled(lists, LastRec)
Inv_C26_Prefix == IsSel => SelPrefix(lists, LastRec)
Inv_C26_NoSkip == IsSel => SelNoSkip(LastRec, FALSE)
Inv_C26_NoSkip_AfterNonce0 == IsSel => SelNoSkip(LastRec, TRUE)
Inv_C26_GapSender == IsSel => SelGapSender(lists, LastRec)

\* The predicates above that read the last step record, as action properties: model checking identifies states by
\* VIEW cvars (hist is not part of it), and TLC evaluates state invariants only on states it has not seen, but
\* action properties on every transition.
SelStep(P) == (LastRec'.a = "Select") => P
\* "after each addition the sender's count and byte limits hold", split into the class of the named deviation
\* C25evict1 (exactly one transaction was evicted from the back and the limits are still exceeded) and every other way
\* of exceeding the limits, so that the two get different signatures
\* (a rejected duplicate is not an addition)
LimitsBroken == LastRec'.a = "AddTx" /\ LastRec'.out.added /\ ~SenderLimitsOK(cfg, lists', LastRec')
Act_C25_SenderLimits_OneEvictionPerAdd == [][~(LimitsBroken /\ OneEvictionShape(lists, lists', LastRec'))]_vars
Act_C25_SenderLimits == [][~(LimitsBroken /\ ~OneEvictionShape(lists, lists', LastRec'))]_vars
Act_C26_AtMostN == [][SelStep(SelAtMostN(LastRec'))]_vars
Act_C26_DistinctPooled == [][SelStep(SelDistinctPooled(lists', LastRec'))]_vars
Act_C26_Prefix == [][SelStep(SelPrefix(lists', LastRec'))]_vars
Act_C26_NoSkip == [][SelStep(SelNoSkip(LastRec', FALSE))]_vars
Act_C26_NoSkip_AfterNonce0 == [][SelStep(SelNoSkip(LastRec', TRUE))]_vars
Act_C26_GapSender == [][SelStep(SelGapSender(lists', LastRec'))]_vars
=============================================================================
