SPECIFICATION Spec
CONSTANTS
  Senders = {1, 2}
  Nonces = {0, 1}
  Prices = {1, 2}
  Sizes = {1, 3}
  Configs <- CfgC25Quick
  SelectNs = {}
  SelectBs = {}
  NotifyNonces = {}
  Scores = {0}
  MaxFailed = 4
  MaxSweepList = 2
  AsyncSweep = FALSE
  WithClear = FALSE
  KnownDefects = {}
  Log <- LogLast
  Depth = 0
  SampleK = 1
VIEW cvars
INVARIANTS TypeOK Inv_C25_HashIndex Inv_C25_HashIndex_AfterStaleSweep Inv_C25_Counts Inv_C25_Order
PROPERTIES Act_C25_SenderLimits
CHECK_DEADLOCK FALSE
