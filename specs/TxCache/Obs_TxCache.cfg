SPECIFICATION ObsSpec
CONSTANTS
  Senders = {}
  Nonces = {}
  Prices = {}
  Sizes = {}
  Configs = {}
  SelectNs = {}
  SelectBs = {}
  NotifyNonces = {}
  Scores = {}
  MaxFailed = 0
  MaxSweepList = 0
  AsyncSweep = TRUE
  WithClear = TRUE
  KnownDefects = {}
  Log <- LogLast
CONSTRAINT HighWater
INVARIANTS
  Inv_C25_HashIndex Inv_C25_HashIndex_AfterStaleSweep Inv_C25_Counts Inv_C25_Order
  Inv_C26_AtMostN Inv_C26_DistinctPooled Inv_C26_Prefix Inv_C26_NoSkip Inv_C26_NoSkip_AfterNonce0 Inv_C26_GapSender
PROPERTIES Act_C25_SenderLimits Act_C25_SenderLimits_OneEvictionPerAdd
POSTCONDITION Accepted
CHECK_DEADLOCK FALSE
