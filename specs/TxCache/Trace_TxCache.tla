---- MODULE Trace_TxCache ----
(* Trace validation for TxCache: trace.ndjson was recorded from the real TxCache (public API + the          *)
(* export_verif.go projection).                                                                               *)
(* Strict mode (TraceSpec): every event must be the corresponding action with the logged result and the      *)
(* logged projected state.  The relational parameters are found by TLC (eviction victims V, visiting order   *)
(* of the selection) or taken from the observation (scores); every named deviation is a per-step choice, so  *)
(* both the code as it is and the repaired code are accepted -- the property invariants decide.              *)
(* Observation mode (ObsSpec): the state is taken from the log (ghosts computed from the observed pre-state);*)
(* run when strict mode rejects, so that the properties are evaluated on ALL observed states.                *)
EXTENDS TxCache, Json, TLCExt
LogLast(h, r) == <<r>>
TLog == ndJsonDeserialize("trace.ndjson")
VARIABLE l
tvars == <<vars, l>>
Ev == TLog[l]
IsEvent(name) == l <= Len(TLog) /\ Ev.a = name /\ l' = l + 1

ToSet(q) == {q[j] : j \in DOMAIN q}
ObsLists(st) == [s \in {st.ls[j].s : j \in DOMAIN st.ls} |->
                    LET e == st.ls[CHOOSE j \in DOMAIN st.ls : st.ls[j].s = s] IN
                    [txs |-> e.txs, an |-> e.an, fs |-> e.fs, sw |-> e.sw, sc |-> e.sc]]
ObsScore(s) == LET S == {j \in DOMAIN Ev.st.ls : Ev.st.ls[j].s = s} IN
               IF S = {} THEN 0 ELSE Ev.st.ls[CHOOSE j \in S : TRUE].sc
MatchesState ==
    /\ lists' = ObsLists(Ev.st)
    /\ byHash' = ToSet(Ev.st.bh)
    /\ cnt' = Ev.st.cnt /\ nbytes' = Ev.st.nb /\ nsend' = Ev.st.ns
    /\ sweepL' = Ev.st.swl
Matches == (\A f \in DOMAIN Ev.out : hist'[1].out[f] = Ev.out[f]) /\ MatchesState

TraceInit ==
    /\ l = 1 /\ cfg = [ev |-> FALSE, nb |-> 0, cnt |-> 0, sb |-> 1, sc |-> 1, ne |-> 0, glo |-> 2, ghi |-> 2] /\ alive = FALSE
    /\ byHash = {} /\ cnt = 0 /\ nbytes = 0 /\ nsend = 0 /\ lists = <<>> /\ sweepL = <<>>
    /\ skew = 0 /\ staleSwept = FALSE /\ hist = <<Rec("Init", [x |-> 0], [x |-> 0])>>

TNew ==
    /\ IsEvent("New")
    /\ cfg' = Ev.in /\ alive' = VerifyOK(Ev.in) /\ alive' = Ev.out.ok
    /\ byHash' = {} /\ cnt' = 0 /\ nbytes' = 0 /\ nsend' = 0 /\ lists' = <<>> /\ sweepL' = <<>>
    /\ skew' = 0 /\ staleSwept' = FALSE
    /\ hist' = <<Rec("New", Ev.in, Ev.out)>>
    /\ MatchesState
Victims == IF cfg.ev /\ CapacityExceeded(cfg, nbytes, nsend, cnt) THEN SUBSET DOMAIN lists ELSE {{}}
TAdd    == /\ IsEvent("AddTx")
           /\ \E V \in Victims, dv \in SUBSET {"C25evict1"} : AddTx(Ev.in.tx, V, ObsScore(Ev.in.tx.s), dv)
           /\ Matches
TRemove == IsEvent("RemoveTx") /\ RemoveTx(Ev.in.tx, ObsScore(Ev.in.tx.s)) /\ Matches
TNotify == IsEvent("Notify") /\ Notify(Ev.in.s, Ev.in.n) /\ Matches
TSelect == /\ IsEvent("Select")
           /\ \E order \in Orders(lists), dv \in SUBSET {"C26nonce0"} : Select(Ev.in.n, Ev.in.b, order, dv)
           /\ Matches
TSweep  == IsEvent("Sweep") /\ Sweep /\ Matches
TClear  == IsEvent("Clear") /\ (\E dv \in SUBSET {"ClearBytes"} : Clear(dv)) /\ Matches
TraceNext == TNew \/ TAdd \/ TRemove \/ TNotify \/ TSelect \/ TSweep \/ TClear
TraceSpec == TraceInit /\ [][TraceNext]_tvars

\* observation mode
\* The account nonce of a sender is determined by the calls (the last NotifyAccountNonce the sender's list received), so in
\* observation mode it is NOT read from the code's own field: `an` is the nonce last notified to a sender that had a list,
\* kept while that list lives.  A list the code reports as "nonce unknown" (-1) is taken as a fresh list object.
ObsAn(s, o) ==
    IF Ev.a = "Notify" /\ Ev.in.s = s /\ s \in DOMAIN lists THEN Ev.in.n
    ELSE IF o.an = -1 THEN -1
    ELSE IF s \in DOMAIN lists /\ lists[s].an # -1 THEN lists[s].an
    ELSE o.an
ObsListsGhost(st) == LET o == ObsLists(st) IN [s \in DOMAIN o |-> [o[s] EXCEPT !.an = ObsAn(s, o[s])]]
ObsNext ==
    /\ l <= Len(TLog) /\ l' = l + 1
    /\ lists' = ObsListsGhost(Ev.st) /\ byHash' = ToSet(Ev.st.bh)
    /\ cnt' = Ev.st.cnt /\ nbytes' = Ev.st.nb /\ nsend' = Ev.st.ns /\ sweepL' = Ev.st.swl
    /\ hist' = <<Rec(Ev.a, Ev.in, Ev.out)>>
    /\ IF Ev.a = "New" THEN cfg' = Ev.in /\ alive' = Ev.out.ok ELSE UNCHANGED <<cfg, alive>>
    /\ skew' = CASE Ev.a = "New" -> 0 [] Ev.a = "Clear" -> Ev.st.nb [] OTHER -> skew
    /\ staleSwept' = CASE Ev.a \in {"New", "Clear"} -> FALSE
                       [] Ev.a = "Sweep" -> staleSwept \/ (\E j \in 1..Len(sweepL) :
                                                ~sweepL[j].live /\ sweepL[j].s \in DOMAIN lists)
                       [] OTHER -> staleSwept
ObsSpec == TraceInit /\ [][ObsNext]_tvars

HighWater == TLCSet(1, IF l > TLCGet(1) THEN l ELSE TLCGet(1))
Accepted  == IF TLCGet(1) = Len(TLog) + 1 THEN TRUE ELSE PrintT("@@HW " \o ToString(TLCGet(1))) /\ FALSE
ASSUME TLCSet(1, 0)
====
