---- MODULE MC_TxCache ----
EXTENDS TxCache, Json
CONSTANT Depth
LogAppend(h, r) == Append(h, r)
LogLast(h, r) == <<r>>
C(pev, pnb, pcnt, psb, psc, pne) == [ev |-> pev, nb |-> pnb, cnt |-> pcnt, sb |-> psb, sc |-> psc, ne |-> pne, glo |-> 2, ghi |-> 2]
\* C25: small sender limits (count 2..3, bytes 3..5 with sizes 1/3), eviction off / on with thresholds 4 (the minimum
\* the configuration check accepts), eviction batch 1 / 2; plus configurations the check rejects
CfgC25Quick == {C(FALSE, 0, 0, 4, 2, 0), C(TRUE, 4, 4, 5, 3, 1)}
CfgC25Thorough == CfgC25Quick \cup {C(TRUE, 6, 4, 3, 2, 2), C(FALSE, 0, 0, 3, 3, 0), C(TRUE, 4, 5, 4, 2, 1), C(TRUE, 9, 4, 7, 3, 2),
                                    C(TRUE, 3, 4, 4, 2, 1), C(TRUE, 4, 3, 4, 2, 1), C(TRUE, 4, 4, 4, 2, 0),
                                    C(FALSE, 0, 0, 0, 2, 0), C(FALSE, 0, 0, 4, 0, 0)}
\* C26: selection; limits out of the way
CfgC26 == {C(FALSE, 0, 0, 100, 10, 0)}
CfgC26Evict == {C(FALSE, 0, 0, 100, 10, 0), C(TRUE, 100, 4, 100, 10, 1)}
\* scenario families for simulation (tiny universes, so that the pattern is frequent in a 30-step random walk):
\* churn: one or two transactions per sender, eviction thresholds at the accepted minimum -- several evictions with
\*        "all transactions of a sender removed, sender re-added" in between
CfgChurn == {C(TRUE, 4, 4, 100, 10, 1), C(TRUE, 6, 4, 100, 10, 1), C(TRUE, 7, 4, 100, 10, 2)}
\* rollback: one limit-free configuration; account-nonce notifications go up AND down, selections in between
CfgRollback == {C(FALSE, 0, 0, 100, 10, 0)}
GenNext  == Len(hist) < Depth /\ Next
GenSpec  == Init /\ [][GenNext]_vars
EmitEdge == PrintT("@@B " \o ToJson(hist'))
\* a sample of the transitions (1 in SampleK), so that the recorded traces stay small enough for trace validation
CONSTANT SampleK
EmitEdgeSampled == (RandomElement(1..SampleK) = 1) => PrintT("@@B " \o ToJson(hist'))
EmitFull == (Len(hist') = Depth) => PrintT("@@B " \o ToJson(hist'))
\* model-only counterexamples are exported (with the full history) so that they can be replayed on the real cache
Cex(I) == I \/ PrintT("@@B " \o ToJson(hist))
CexStaleSweep == Inv_C25_HashIndex_AfterStaleSweep \/ (PrintT("@@B " \o ToJson(hist)) /\ FALSE)
====
