SPECIFICATION TraceSpecObs
CONSTANTS
  Configs <- NoConfigs
  Log <- LogLast
CONSTRAINT HighWater
INVARIANTS TypeOK Inv_C33_LongIds Inv_C33_Typed Inv_C33_LongIdsAndTyped
POSTCONDITION Accepted
CHECK_DEADLOCK FALSE
