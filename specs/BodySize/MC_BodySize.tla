---- MODULE MC_BodySize ----
(* Finite grid of configurations and additions for BodySize (C33) and the behaviour-export channel.   *)
EXTENDS BodySize, Json

CONSTANTS MaxSizeCfg,   \* real configuration, read by the check from the tree under verification:
          NetLimitCfg,  \*   config.toml BlockSizeThrottleConfig.MaxSizeInBytes ; p2p/libp2p maxSendBuffSize
          Depth,        \* number of additions per behaviour
          Calibs,       \* subset of {"asCoded", "worstCase"}: calibration dummy of the code as it is / of the intended design
          CurMaxes,     \* throttler current max sizes
          Counts,       \* explicit miniblock counts
          NTxs,         \* tx hashes per miniblock
          IdPairs,      \* subset of DOMAIN IdPairTable
          Types,
          WithFill,     \* BOOLEAN: also the largest count the estimator still lets in, and that count + 1
          WithMaxTx,    \* BOOLEAN: also one miniblock with MaxTransactionsInOneMiniblock() (and + 1) hashes
          WithConc      \* BOOLEAN: also concurrent accounting (Accumulate by 2..3 goroutines) followed by Ask

LogAppend(h, r) == Append(h, r)
LogLast(h, r) == <<r>>

CalibTable == [asCoded |-> [snd |-> 999, rcv |-> 999, type |-> 0], worstCase |-> [snd |-> -1, rcv |-> -1, type |-> 255]]
MCConfigs == {[maxSize |-> MaxSizeCfg, curMax |-> cm, netLimit |-> NetLimitCfg, hashLen |-> 32, calib |-> CalibTable[c]]
                : cm \in CurMaxes, c \in Calibs}

\* (sender, receiver): -1 = metachain, -16 = all shards
IdPairTable == [zero |-> <<0, 0>>, small |-> <<1, 2>>, b127 |-> <<127, 128>>, cal |-> <<999, 999>>, big |-> <<16384, 0>>,
                tometa |-> <<2, -1>>, meta |-> <<-1, -1>>, metaall |-> <<-1, -16>>]

\* keep every product below 2^31 (TLC integers) -- and far below the uint32 wrap-around of the Go code
Sane(count, ntx) == count * ntx <= 30000000 /\ numTx + count * ntx <= 40000000 /\ numMb + count <= 3000000

CountsFor(thr, ntx) ==
    Counts \cup (IF WithFill THEN {FillCount(thr, ntx), FillCount(thr, ntx) + 1} ELSE {})
NTxsFor == NTxs \cup (IF WithMaxTx THEN {MaxTxsInOneMiniblock, MaxTxsInOneMiniblock + 1} ELSE {})

GridAdd ==
    \E thr \in BOOLEAN, ntx \in NTxsFor, ip \in IdPairs, type \in Types :
        \E count \in CountsFor(thr, ntx) :
            /\ count >= 1 /\ Sane(count, ntx)
            /\ (ntx > 1000 => count <= 60)          \* huge miniblocks only in small numbers (volume)
            /\ Add(thr, count, ntx, IdPairTable[ip][1], IdPairTable[ip][2], type, 0)

\* concurrent accounting: groups of calibrated-shape miniblocks whose total sits around the limits, then the question
ConcGroups == {<<[count |-> c, ntx |-> t], [count |-> c, ntx |-> t]>> : c \in {1, 13, 14, 15}, t \in {0, 1, 1000}}
                \cup {<<[count |-> 9, ntx |-> 1000], [count |-> 9, ntx |-> 1000], [count |-> c, ntx |-> 1000]>> : c \in {8, 9, 10, 11}}
GridConc ==
    WithConc /\ (\/ (pend = 0 /\ \E gs \in ConcGroups, ip \in IdPairs :
                          Accumulate(gs, IdPairTable[ip][1], IdPairTable[ip][2], 0))
                  \/ (pend > 0 /\ \E thr \in BOOLEAN : Ask(thr)))

MCNext == steps < Depth /\ (GridAdd \/ GridConc)
MCSpec == Init /\ [][MCNext]_vars

EmitEdge == PrintT("@@B " \o ToJson(hist'))
EmitFull == (Len(hist') = Depth + 1) => PrintT("@@B " \o ToJson(hist'))
====
