------------------------------ MODULE BodySize ------------------------------
(***************************************************************************)
(* Block body size estimate vs. encoded size (property C33).               *)
(*                                                                         *)
(* Transcription of process/block/preprocess.blockSizeComputation:         *)
(*   precomputeValues    calibrates miniblockSize / txSize by marshalling  *)
(*                       dummy bodies (batch.Batch of marshalled dummy     *)
(*                       miniblocks: shard ids 999/999, type TxBlock = 0)  *)
(*   Init, AddNumMiniBlocks, AddNumTxs        the accumulated counters     *)
(*   IsMaxBlockSizeWithoutThrottleReached     estimate > maxSize           *)
(*   IsMaxBlockSizeReached                    estimate > throttler current *)
(*   MaxTransactionsInOneMiniblock                                         *)
(* together with the protobuf (proto3, gogo) wire size of block.Body       *)
(*   Body      { repeated MiniBlock MiniBlocks = 1 }                       *)
(*   MiniBlock { repeated bytes TxHashes = 1; uint32 ReceiverShardID = 2;  *)
(*               uint32 SenderShardID = 3; Type Type = 4; bytes Reserved=5}*)
(* (zero scalars and empty bytes are omitted, varints are minimal).        *)
(*                                                                         *)
(* The machine is the proposer's loop: it asks the estimator whether a     *)
(* group of `count` miniblocks with `ntx` tx hashes each still fits and,   *)
(* if so, adds them to the body (AddNumMiniBlocks/AddNumTxs); `size` is    *)
(* the exact encoded size of the body built so far.                        *)
(*                                                                         *)
(* AddNumMiniBlocks / AddNumTxs are documented "concurrent safe": each is   *)
(* ONE atomic read-modify-write (atomic.AddUint32), i.e. a commutative      *)
(* increment.  Accumulate models G goroutines accounting miniblocks at the *)
(* same time: whatever the interleaving, the counters end at the SUM of    *)
(* all increments (order-independent); Ask is the proposer's final         *)
(* IsMaxBlockSize[WithoutThrottle]Reached(0, 0) on the accumulated body.   *)
(*                                                                         *)
(* Shard ids are int32 views of the uint32 ids: -1 = core.MetachainShardId *)
(* (0xFFFFFFFF), -16 = core.AllShardId (0xFFFFFFF0) -- TLC has 32-bit ints.*)
(***************************************************************************)
EXTENDS Integers, Sequences, FiniteSets, TLC

CONSTANTS Configs,       \* set of configuration records chosen in Init / bound by a trace's New event:
                         \*   [maxSize, curMax (throttler's current max), netLimit, hashLen,
                         \*    calib |-> [snd, rcv, type] of the calibration dummy]
          Log(_, _)

VARIABLES cfg,
          mbSize, txSize,   \* calibrated by NewBlockSizeComputation
          numMb, numTx,     \* blockSizeComputation.numMiniBlocks / numTxs
          size,             \* encoded size of the body accepted so far
          pend,             \* encoded size of the miniblocks accounted by Accumulate and not yet asked about
          feat,             \* features of the accepted groups the calibration does not see
          steps, hist

vars  == <<cfg, mbSize, txSize, numMb, numTx, size, pend, feat, steps, hist>>
cvars == <<cfg, mbSize, txSize, numMb, numTx, size, pend, feat, steps>>

-----------------------------------------------------------------------------
(* protobuf wire sizes *)
Max2(a, b) == IF a >= b THEN a ELSE b
\* length of the minimal varint of a uint32 (negative = int32 view of an id >= 2^31: 5 bytes)
VarintLen(x) ==
    IF x < 0 THEN 5
    ELSE IF x < 128 THEN 1
    ELSE IF x < 16384 THEN 2
    ELSE IF x < 2097152 THEN 3
    ELSE IF x < 268435456 THEN 4 ELSE 5
\* a varint scalar field with a 1-byte tag: omitted when zero (proto3)
ScalarField(x) == IF x = 0 THEN 0 ELSE 1 + VarintLen(x)
\* a length-delimited field with a 1-byte tag holding n payload bytes (always written)
BytesField(n) == 1 + VarintLen(n) + n
\* marshalled MiniBlock with ntx hashes of hashLen bytes, reserved = length of the Reserved field
MbPayload(ntx, snd, rcv, type, hashLen, reserved) ==
    ntx * BytesField(hashLen) + ScalarField(rcv) + ScalarField(snd) + ScalarField(type)
      + (IF reserved = 0 THEN 0 ELSE BytesField(reserved))
\* one element of Body.MiniBlocks (equally: one element of batch.Batch.Data holding the marshalled miniblock)
BodyEntry(ntx, snd, rcv, type, hashLen, reserved) == BytesField(MbPayload(ntx, snd, rcv, type, hashLen, reserved))

-----------------------------------------------------------------------------
(* precomputeValues *)
Dummy(c, numMbs, ntx) == numMbs * BodyEntry(ntx, c.calib.snd, c.calib.rcv, c.calib.type, c.hashLen, 0)
CalTxSize(c) == (Dummy(c, 1, 20) - Dummy(c, 1, 10)) \div 10
CalMbSize(c) ==
    LET t == CalTxSize(c)
        a == Max2(Dummy(c, 1, 0), Dummy(c, 1, 10) - 10 * t)
    IN  Max2(a, (Dummy(c, 10, 10) - 100 * t) \div 10)

(* isMaxBlockSizeReached / isMaxBlockSizeWithoutThrottleReached *)
Estimate(totalMbs, totalTxs) == mbSize * totalMbs + txSize * totalTxs
Limit(throttled) == IF throttled THEN cfg.curMax ELSE cfg.maxSize
IsMaxReached(throttled, newMbs, newTxs) == Estimate(numMb + newMbs, numTx + newTxs) > Limit(throttled)

\* MaxTransactionsInOneMiniblock
MaxTxsInOneMiniblock == (cfg.maxSize - mbSize) \div txSize

\* the largest count of (ntx)-miniblocks the estimator still lets in (used by the grid to sit on the boundary)
FillCount(throttled, ntx) ==
    LET room == Limit(throttled) - Estimate(numMb, numTx) IN
    IF room < 0 THEN 0 ELSE room \div (mbSize + ntx * txSize)

\* features of a group that the calibration dummy (ids 999, type 0, < 482 hashes) does not have
Features(ntx, snd, rcv, type, hashLen) ==
    (IF VarintLen(snd) > 2 \/ VarintLen(rcv) > 2 THEN {"ids"} ELSE {})
      \cup (IF type # 0 THEN {"type"} ELSE {})
      \cup (IF MbPayload(ntx, snd, rcv, type, hashLen, 0) >= 16384 THEN {"len3"} ELSE {})
\* name of the invariant (= violation class) that covers a state with these features
ClassOf(f) ==
    IF "ids" \in f /\ "type" \in f THEN "Inv_C33_LongIdsAndTyped"
    ELSE IF "ids" \in f THEN "Inv_C33_LongIds"
    ELSE IF "type" \in f THEN "Inv_C33_Typed"
    ELSE "Inv_C33_CalibratedShapes"

-----------------------------------------------------------------------------
Rec(a, in, out) ==
    [a |-> a, in |-> in, out |-> out,
     st |-> [numMb |-> numMb', numTx |-> numTx', size |-> size', cls |-> ClassOf(feat')]]

\* NewBlockSizeComputation + Init()
New(c) ==
    /\ cfg' = c
    /\ mbSize' = CalMbSize(c) /\ txSize' = CalTxSize(c)
    /\ numMb' = 0 /\ numTx' = 0 /\ size' = 0 /\ pend' = 0 /\ feat' = {} /\ steps' = 0
    /\ hist' = Log(<<>>, Rec("New", c, [mbSize |-> CalMbSize(c), txSize |-> CalTxSize(c),
                                         maxTxs |-> (c.maxSize - CalMbSize(c)) \div CalTxSize(c)]))

Init ==
    \E c \in Configs :
        /\ cfg = c /\ mbSize = CalMbSize(c) /\ txSize = CalTxSize(c)
        /\ numMb = 0 /\ numTx = 0 /\ size = 0 /\ pend = 0 /\ feat = {} /\ steps = 0
        /\ hist = <<[a |-> "New", in |-> c,
                     out |-> [mbSize |-> CalMbSize(c), txSize |-> CalTxSize(c),
                              maxTxs |-> (c.maxSize - CalMbSize(c)) \div CalTxSize(c)],
                     st |-> [numMb |-> 0, numTx |-> 0, size |-> 0, cls |-> ClassOf({})]]>>

\* the proposer asks whether `count` more miniblocks with ntx hashes each fit; if so they are added
Add(throttled, count, ntx, snd, rcv, type, reserved) ==
    LET fits == ~IsMaxReached(throttled, count, count * ntx)
        in == [throttled |-> throttled, count |-> count, ntx |-> ntx, snd |-> snd, rcv |-> rcv, type |-> type,
               reserved |-> reserved]
    IN
    /\ steps' = steps + 1
    /\ UNCHANGED <<cfg, mbSize, txSize, pend>>
    /\ IF fits
       THEN /\ numMb' = numMb + count /\ numTx' = numTx + count * ntx
            /\ size' = size + count * BodyEntry(ntx, snd, rcv, type, cfg.hashLen, reserved)
            /\ feat' = IF count = 0 THEN feat ELSE feat \cup Features(ntx, snd, rcv, type, cfg.hashLen)
       ELSE UNCHANGED <<numMb, numTx, size, feat>>
    /\ hist' = Log(hist, Rec("Add", in, [fits |-> fits]))

\* blockSizeComputation.Init(): a new block is started
Reset ==
    /\ numMb' = 0 /\ numTx' = 0 /\ size' = 0 /\ pend' = 0 /\ feat' = {} /\ steps' = steps + 1
    /\ UNCHANGED <<cfg, mbSize, txSize>>
    /\ hist' = Log(hist, Rec("Reset", [x |-> 0], [x |-> 0]))

\* G goroutines account miniblocks concurrently: goroutine g adds groups[g].count miniblocks with groups[g].ntx hashes
\* each, one AddNumMiniBlocks(1) and ntx times AddNumTxs(1) per miniblock.  Every Add* is an atomic increment, so the
\* result does not depend on the interleaving: the counters grow by the sums over the multiset of increments.
SumGroups(gs, f(_)) ==
    LET S[k \in 0..Len(gs)] == IF k = 0 THEN 0 ELSE S[k - 1] + f(gs[k]) IN S[Len(gs)]
Accumulate(groups, snd, rcv, type) ==
    /\ numMb' = numMb + SumGroups(groups, LAMBDA g : g.count)
    /\ numTx' = numTx + SumGroups(groups, LAMBDA g : g.count * g.ntx)
    /\ pend' = pend + SumGroups(groups, LAMBDA g : g.count * BodyEntry(g.ntx, snd, rcv, type, cfg.hashLen, 0))
    /\ feat' = feat \cup UNION {Features(groups[k].ntx, snd, rcv, type, cfg.hashLen) : k \in 1..Len(groups)}
    /\ steps' = steps + 1
    /\ UNCHANGED <<cfg, mbSize, txSize, size>>
    /\ hist' = Log(hist, Rec("Accumulate", [groups |-> groups, snd |-> snd, rcv |-> rcv, type |-> type], [x |-> 0]))

\* the proposer's final question about what was accumulated: IsMaxBlockSize[WithoutThrottle]Reached(0, 0);
\* "not reached" = the estimator says the accumulated body fits, so it is what gets proposed
Ask(throttled) ==
    LET reached == IsMaxReached(throttled, 0, 0) IN
    /\ IF reached THEN UNCHANGED <<size, pend>> ELSE size' = size + pend /\ pend' = 0
    /\ steps' = steps + 1
    /\ UNCHANGED <<cfg, mbSize, txSize, numMb, numTx, feat>>
    /\ hist' = Log(hist, Rec("Ask", [throttled |-> throttled],
                              [reached |-> reached, fill |-> FillCount(throttled, 0)]))

\* unbounded design; MC_BodySize restricts the additions to a finite, state-dependent grid
Next ==
    \/ \E thr \in BOOLEAN, count \in Nat, ntx \in Nat, snd \in Int, rcv \in Int, type \in 0..255, reserved \in Nat :
          Add(thr, count, ntx, snd, rcv, type, reserved)
    \/ Reset
    \/ \E groups \in Seq([count : Nat, ntx : Nat]), snd \in Int, rcv \in Int, type \in 0..255 : Accumulate(groups, snd, rcv, type)
    \/ \E thr \in BOOLEAN : Ask(thr)

Spec == Init /\ [][Next]_vars

-----------------------------------------------------------------------------
(* Properties *)
TypeOK == numMb >= 0 /\ numTx >= 0 /\ size >= 0 /\ pend >= 0 /\ mbSize > 0 /\ txSize > 0

\* C33: whatever the estimator let in, the encoded body does not exceed the network message size limit
Inv_C33_WithinNetLimit == size <= cfg.netLimit
\* the same predicate split by what the accepted miniblocks look like (one signature per class)
Inv_C33_CalibratedShapes == ClassOf(feat) = "Inv_C33_CalibratedShapes" => size <= cfg.netLimit
Inv_C33_LongIds          == ClassOf(feat) = "Inv_C33_LongIds" => size <= cfg.netLimit
Inv_C33_Typed            == ClassOf(feat) = "Inv_C33_Typed" => size <= cfg.netLimit
Inv_C33_LongIdsAndTyped  == ClassOf(feat) = "Inv_C33_LongIdsAndTyped" => size <= cfg.netLimit

\* the counters are what was let in and the estimate of what was let in never exceeds the limit used
Inv_EstimateBounded == pend = 0 => Estimate(numMb, numTx) <= cfg.maxSize
\* how far the encoded size can run ahead of the estimate (the safety margin the design relies on)
Undershoot == size - Estimate(numMb, numTx)
Inv_UndershootWithinMargin == Undershoot <= cfg.netLimit - cfg.maxSize
=============================================================================
