SPECIFICATION TraceSpecObs
CONSTANTS
  Configs <- NoConfigs
  Log <- LogLast
CONSTRAINT HighWater
INVARIANTS TypeOK Inv_C33_CalibratedShapes
POSTCONDITION Accepted
CHECK_DEADLOCK FALSE
