------------------------------- MODULE Throttle -------------------------------
(***************************************************************************)
(* process/throttle.blockSizeThrottle -- the adaptive limit used by        *)
(* blockSizeComputation.IsMaxBlockSizeReached (property C33 relies on      *)
(* minSize <= GetCurrentMaxSize() <= maxSize; this module checks it).      *)
(*                                                                         *)
(* One action per public call (each is one critical section under          *)
(* mutThrottler).  statistics = sequence of [round, size, cur, ok].        *)
(* uint32(float32(d) * 0.5) is d \div 2 for d < 2^24 (exact in float32).   *)
(***************************************************************************)
EXTENDS Integers, Sequences, TLC

CONSTANTS MinSizes, MaxSizes,   \* candidate configurations (minSize <= maxSize)
          Rounds, Sizes,        \* arguments of Add / Succeed
          MaxStats, RemoveStats,\* maxNumOfStatistics / numOfStatisticsToRemove (600 / 100 in the code)
          Log(_, _)

VARIABLES minSize, maxSize, cur, stats, hist
vars  == <<minSize, maxSize, cur, stats, hist>>
cvars == <<minSize, maxSize, cur, stats>>

Max2(a, b) == IF a >= b THEN a ELSE b
Rec(a, in) == [a |-> a, in |-> in, out |-> [cur |-> cur'], st |-> [n |-> Len(stats')]]

Init ==
    /\ minSize \in MinSizes /\ maxSize \in MaxSizes /\ minSize <= maxSize
    /\ cur = maxSize /\ stats = <<>>
    /\ hist = <<[a |-> "New", in |-> [min |-> minSize, max |-> maxSize], out |-> [cur |-> maxSize], st |-> [n |-> 0]]>>

\* Add(round, size): remembers the current max size with the block
Add(round, size) ==
    /\ LET s == Append(stats, [round |-> round, size |-> size, cur |-> cur, ok |-> FALSE]) IN
       stats' = IF Len(s) > MaxStats THEN SubSeq(s, RemoveStats + 1, Len(s)) ELSE s
    /\ UNCHANGED <<minSize, maxSize, cur>>
    /\ hist' = Log(hist, Rec("Add", [round |-> round, size |-> size]))

\* Succeed(round): marks the most recent entry of that round
Succeed(round) ==
    /\ LET idx == {k \in 1..Len(stats) : stats[k].round = round} IN
       stats' = IF idx = {} THEN stats
                ELSE LET k == CHOOSE x \in idx : \A y \in idx : y <= x IN [stats EXCEPT ![k].ok = TRUE]
    /\ UNCHANGED <<minSize, maxSize, cur>>
    /\ hist' = Log(hist, Rec("Succeed", [round |-> round]))

\* getCloserAboveCurrentMaxSizeUsedWithoutSucceed / getCloserBelowCurrentMaxSizeUsedWithSucceed: scan from the newest
LastWhere(P(_), default) ==
    LET idx == {k \in 1..Len(stats) : P(stats[k])} IN
    IF idx = {} THEN default ELSE stats[CHOOSE x \in idx : \A y \in idx : y <= x].cur

WhenSucceed(last) ==
    IF last >= maxSize THEN maxSize
    ELSE LET above == LastWhere(LAMBDA e : ~e.ok /\ e.cur > last, maxSize) IN
         IF (last * 100) \div above > 75 THEN above
         ELSE last + Max2(1, (above - last) \div 2)
WhenNotSucceed(last) ==
    IF last <= minSize THEN minSize
    ELSE LET below == LastWhere(LAMBDA e : e.ok /\ e.cur < last, minSize) IN
         IF (below * 100) \div last > 75 THEN below
         ELSE last - Max2(1, (last - below) \div 2)

ComputeCurrentMaxSize ==
    /\ cur' = IF stats = <<>> THEN cur
              ELSE LET e == stats[Len(stats)] IN IF e.ok THEN WhenSucceed(e.cur) ELSE WhenNotSucceed(e.cur)
    /\ UNCHANGED <<minSize, maxSize, stats>>
    /\ hist' = Log(hist, Rec("Compute", [x |-> 0]))

Next ==
    \/ \E r \in Rounds, s \in Sizes : Add(r, s)
    \/ \E r \in Rounds : Succeed(r)
    \/ ComputeCurrentMaxSize
Spec == Init /\ [][Next]_vars

\* what C33 assumes about the throttled limit
Inv_CurWithinBounds == minSize <= cur /\ cur <= maxSize
Inv_StatsBounded == Len(stats) <= MaxStats
=============================================================================
