SPECIFICATION TraceSpecObs
CONSTANTS
  MinSizes = {}
  MaxSizes = {}
  Rounds = {}
  Sizes = {}
  MaxStats = 600
  RemoveStats = 100
  Log <- LogLast
CONSTRAINT HighWater
INVARIANTS Inv_CurWithinBounds Inv_StatsBounded
POSTCONDITION Accepted
CHECK_DEADLOCK FALSE
