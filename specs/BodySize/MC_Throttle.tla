---- MODULE MC_Throttle ----
EXTENDS Throttle, Json
CONSTANT Depth
LogAppend(h, r) == Append(h, r)
LogLast(h, r) == <<r>>
GenNext == Len(hist) < Depth /\ Next
GenSpec == Init /\ [][GenNext]_vars
BoundedNext == Len(stats) < Depth /\ Next
EmitEdge == PrintT("@@B " \o ToJson(hist'))
EmitFull == (Len(hist') = Depth) => PrintT("@@B " \o ToJson(hist'))
====
