SPECIFICATION MCSpec
CONSTANTS
  Configs <- MCConfigs
  Log <- LogLast
  MaxSizeCfg = 943718
  NetLimitCfg = 983040
  Depth = 2
  Calibs = {"worstCase"}
  CurMaxes = {943718, 500000}
  Counts = {1, 10, 1000}
  NTxs = {0, 1, 2, 10, 481, 482}
  IdPairs = {"zero", "cal", "big", "meta", "metaall"}
  Types = {0, 90, 255}
  WithFill = TRUE
  WithMaxTx = TRUE
  WithConc = TRUE
VIEW cvars
INVARIANTS TypeOK Inv_C33_WithinNetLimit Inv_EstimateBounded Inv_UndershootWithinMargin
CHECK_DEADLOCK FALSE
