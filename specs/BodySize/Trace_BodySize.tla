---- MODULE Trace_BodySize ----
(* Trace validation for C33: proposer loops recorded from the real blockSizeComputation (real calibration,     *)
(* random shapes incl. metachain / all-shards ids, every miniblock type, boundary counts found by bisection on  *)
(* the real estimator's own answers) with the REAL marshalled size of the real block.Body after every step.    *)
(* A trace is accepted iff every step is the BodySize action with the logged answer, counters and size (this    *)
(* binds the wire-size model to the codec and the calibration model to precomputeValues); TLC evaluates the     *)
(* C33 invariants on every observed state, with the real limit logged by the New event.                        *)
EXTENDS BodySize, Json, TLCExt
LogLast(h, r) == <<r>>
NoConfigs == {}
TLog == ndJsonDeserialize("trace.ndjson")
VARIABLE l
tvars == <<vars, l>>
Ev == TLog[l]
IsEvent(name) == l <= Len(TLog) /\ Ev.a = name /\ l' = l + 1

\* the calibration dummy is not observable: both modelled calibrations are tried (TLC follows both branches)
CalibChoices == {[snd |-> 999, rcv |-> 999, type |-> 0], [snd |-> -1, rcv |-> -1, type |-> 255]}
ConfigOf(cal) == [maxSize |-> Ev.in.maxSize, curMax |-> Ev.in.curMax, netLimit |-> Ev.in.netLimit,
                  hashLen |-> Ev.in.hashLen, calib |-> cal]

StateMatches == numMb' = Ev.st.numMb /\ numTx' = Ev.st.numTx /\ size' = Ev.st.size

TraceInit ==
    /\ l = 1 /\ numMb = 0 /\ numTx = 0 /\ size = 0 /\ pend = 0 /\ feat = {} /\ steps = 0 /\ hist = <<>>
    /\ cfg = [maxSize |-> 1, curMax |-> 1, netLimit |-> 1, hashLen |-> 32, calib |-> [snd |-> 999, rcv |-> 999, type |-> 0]]
    /\ mbSize = 1 /\ txSize = 1
TNew ==
    /\ IsEvent("New")
    /\ \E cal \in CalibChoices :
         /\ New(ConfigOf(cal))
         /\ hist'[1].out.maxTxs = Ev.out.maxTxs          \* MaxTransactionsInOneMiniblock() of the real object
TAdd ==
    /\ IsEvent("Add")
    /\ Add(Ev.in.throttled, Ev.in.count, Ev.in.ntx, Ev.in.snd, Ev.in.rcv, Ev.in.type, Ev.in.reserved)
    /\ hist'[1].out.fits = Ev.out.fits
    /\ StateMatches
    \* the real messenger's own verdict on the real buffer is `size <= netLimit` (binds netLimit to checkSendableData)
    /\ Ev.out.sendable = (Ev.st.size <= cfg.netLimit)
TReset == IsEvent("Reset") /\ Reset /\ StateMatches
\* concurrent accounting by real goroutines: in.groups[g] = what goroutine g added (one miniblock / one tx hash per call).
\* The estimator's counters are not observable directly; the Ask event carries the real answer and `fill`, the largest
\* number of further empty miniblocks the real estimator still lets in (bisection on its own answers): both must be what
\* the specification computes from the SUM of the increments -- a lost update changes `fill`.
TAccumulate ==
    /\ IsEvent("Accumulate")
    /\ Accumulate(Ev.in.groups, Ev.in.snd, Ev.in.rcv, Ev.in.type)
    /\ numMb' = Ev.st.numMb /\ numTx' = Ev.st.numTx
TAsk ==
    /\ IsEvent("Ask")
    /\ Ask(Ev.in.throttled)
    /\ hist'[1].out.reached = Ev.out.reached
    /\ hist'[1].out.fill = Ev.out.fill
    /\ size' = Ev.st.size                      \* real marshalled length of the body the estimator let through
TraceNext == TNew \/ TAdd \/ TReset \/ TAccumulate \/ TAsk
TraceSpec == TraceInit /\ [][TraceNext]_tvars

\* observation only: the logged counters and real size become the state; features accumulate from the logged input
ObsNew ==
    /\ IsEvent("New") /\ New(ConfigOf(CHOOSE cal \in CalibChoices : cal.type = 0))
ObsAdd ==
    /\ IsEvent("Add")
    /\ numMb' = Ev.st.numMb /\ numTx' = Ev.st.numTx /\ size' = Ev.st.size /\ steps' = steps + 1
    /\ feat' = IF Ev.out.fits /\ Ev.in.count > 0
               THEN feat \cup Features(Ev.in.ntx, Ev.in.snd, Ev.in.rcv, Ev.in.type, cfg.hashLen) ELSE feat
    /\ hist' = <<>> /\ UNCHANGED <<cfg, mbSize, txSize, pend>>
ObsReset == IsEvent("Reset") /\ Reset
ObsAccumulate == IsEvent("Accumulate") /\ Accumulate(Ev.in.groups, Ev.in.snd, Ev.in.rcv, Ev.in.type)
\* the REAL answer decides whether the accumulated body counts as let through, its REAL size becomes the state
ObsAsk ==
    /\ IsEvent("Ask")
    /\ IF Ev.out.reached THEN UNCHANGED <<size, pend>> ELSE size' = Ev.st.size /\ pend' = 0
    /\ steps' = steps + 1 /\ hist' = <<>>
    /\ UNCHANGED <<cfg, mbSize, txSize, numMb, numTx, feat>>
TraceNextObs == ObsNew \/ ObsAdd \/ ObsReset \/ ObsAccumulate \/ ObsAsk
TraceSpecObs == TraceInit /\ [][TraceNextObs]_tvars

HighWater == TLCSet(1, IF l > TLCGet(1) THEN l ELSE TLCGet(1))
Accepted  == IF TLCGet(1) = Len(TLog) + 1 THEN TRUE ELSE PrintT("@@HW " \o ToString(TLCGet(1))) /\ FALSE
ASSUME TLCSet(1, 0)
====
