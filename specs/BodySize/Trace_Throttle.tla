---- MODULE Trace_Throttle ----
(* Trace validation of the real blockSizeThrottle against Throttle.tla (long random histories, incl. the      *)
(* trimming of the statistics after 600 entries); Inv_CurWithinBounds is evaluated on every observed state.   *)
EXTENDS Throttle, Json, TLCExt
LogLast(h, r) == <<r>>
TLog == ndJsonDeserialize("trace.ndjson")
VARIABLE l
tvars == <<vars, l>>
Ev == TLog[l]
IsEvent(name) == l <= Len(TLog) /\ Ev.a = name /\ l' = l + 1
Matches == cur' = Ev.out.cur
TraceInit == l = 1 /\ minSize = 1 /\ maxSize = 1 /\ cur = 1 /\ stats = <<>> /\ hist = <<>>
TNew == /\ IsEvent("New") /\ minSize' = Ev.in.min /\ maxSize' = Ev.in.max /\ cur' = Ev.in.max /\ stats' = <<>> /\ hist' = <<>>
        /\ Matches
TAdd == IsEvent("Add") /\ Add(Ev.in.round, Ev.in.size) /\ Matches
TSucceed == IsEvent("Succeed") /\ Succeed(Ev.in.round) /\ Matches
TCompute == IsEvent("Compute") /\ ComputeCurrentMaxSize /\ Matches
TraceNext == TNew \/ TAdd \/ TSucceed \/ TCompute
TraceSpec == TraceInit /\ [][TraceNext]_tvars
\* observation only: the logged current max becomes the state
Obs == cur' = Ev.out.cur /\ hist' = <<>>
ONew == IsEvent("New") /\ minSize' = Ev.in.min /\ maxSize' = Ev.in.max /\ stats' = <<>> /\ Obs
OAny == (IsEvent("Add") \/ IsEvent("Succeed") \/ IsEvent("Compute")) /\ UNCHANGED <<minSize, maxSize, stats>> /\ Obs
TraceSpecObs == TraceInit /\ [][ONew \/ OAny]_tvars
HighWater == TLCSet(1, IF l > TLCGet(1) THEN l ELSE TLCGet(1))
Accepted  == IF TLCGet(1) = Len(TLog) + 1 THEN TRUE ELSE PrintT("@@HW " \o ToString(TLCGet(1))) /\ FALSE
ASSUME TLCSet(1, 0)
====
