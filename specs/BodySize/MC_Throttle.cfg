SPECIFICATION GenSpec
CONSTANTS
  MinSizes = {10, 100}
  MaxSizes = {100, 1000}
  Rounds = {1, 2}
  Sizes = {5}
  MaxStats = 3
  RemoveStats = 1
  Log <- LogAppend
  Depth = 9
VIEW cvars
INVARIANTS Inv_CurWithinBounds Inv_StatsBounded
CHECK_DEADLOCK FALSE
