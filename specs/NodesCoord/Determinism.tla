---- MODULE Determinism ----
(* C13 at the level of the nodes coordinator: K fresh indexHashedNodesCoordinator(+WithRater) instances are built  *)
(* from the same arguments (maps filled in different insertion orders) and process the same epoch start blocks;    *)
(* after every EpochStartPrepare each logs one record                                                               *)
(*   in  = [sc, epoch, rand, infos]  (what the coordinator was given: scenario id = constructor arguments,          *)
(*         new epoch, randomness, the validator infos of the block body)                                            *)
(*   run = which of the K coordinators                                                                              *)
(*   out = [ok, elig, wait, leav]     the ORDER-SENSITIVE eligible / waiting / leaving lists per shard of the new    *)
(*         epoch as read through GetAll*ValidatorsPublicKeys (ok = FALSE: the epoch was not installed)              *)
(* The property on the records: equal inputs => equal outputs (as Inv_C13_SameOutputs does for direct               *)
(* UpdateNodeLists calls in specs/Shuffler).                                                                        *)
EXTENDS Integers, Sequences, Json, TLC, TLCExt
TLog == ndJsonDeserialize("trace.ndjson")
VARIABLES l, seen, last
dvars == <<l, seen, last>>
Ev == TLog[l]

DInit == l = 1 /\ seen = <<>> /\ last = [in |-> <<>>, out |-> <<>>]
DNext ==
    /\ l <= Len(TLog) /\ l' = l + 1
    /\ LET old == {k \in DOMAIN seen : k.sc = Ev.in.sc}          \* records of finished scenarios are dropped
       IN  seen' = [k \in old \cup {Ev.in} |-> IF k \in old THEN seen[k] ELSE Ev.out]
    /\ last' = [in |-> Ev.in, out |-> Ev.out]
DSpec == DInit /\ [][DNext]_dvars

Inv_C13_CoordinatorDeterministic == (last.in # <<>>) => (last.out = seen[last.in])

HighWater == TLCSet(1, IF l > TLCGet(1) THEN l ELSE TLCGet(1))
Accepted  == IF TLCGet(1) = Len(TLog) + 1 THEN TRUE ELSE PrintT("@@HW " \o ToString(TLCGet(1))) /\ FALSE
ASSUME TLCSet(1, 0)
====
