------------------------------ MODULE NodesCoord ------------------------------
(***************************************************************************)
(* The per-epoch validator configuration of sharding/indexHashedNodesCoordinator.go *)
(* (property C16).                                                          *)
(*                                                                          *)
(*   cfg[epoch]  = nodesConfig[epoch]: per shard the eligible / waiting /    *)
(*                 leaving lists (sequences of public keys = small ints)      *)
(*   cur         = currentEpoch                                              *)
(*   pkIdx       = publicKeyToValidatorMap projected to key -> shard          *)
(*   flagFix     = flagWaitingListFix (toggled by updateEpochFlags)           *)
(*   params      = what the constructor got: shard order <<0..n-1, META>>,    *)
(*                 consensus group sizes, waitingListFixEnableEpoch, class     *)
(*                 ("plain" | "rater") and the chance table of the rater       *)
(*                                                                          *)
(* Actions (one per public entry point):                                    *)
(*   Prepare(e, infos, sres)  EpochStartPrepare: updateEpochFlags,            *)
(*        computeNodesConfigFromList + addValidatorToPreviousMap AS CODED,     *)
(*        ComputeAdditionalLeaving, the shuffler call, createActuallyLeaving-  *)
(*        PerShards, setNodesPerShards, fillPublicKeyToValidatorMap.           *)
(*        The shuffler is RELATIONAL: sres is any result that conserves the   *)
(*        validators it was handed (ShufflerOK) or an error -- the shuffler    *)
(*        itself is specified in specs/Shuffler (C12-C14).                     *)
(*   EpochAction(e)           EpochStartAction: currentEpoch := e, configs of  *)
(*        epochs <= e - 3 are dropped (the public key map is not rebuilt).     *)
(*                                                                          *)
(* Precondition of C16 ("validator information consistent with the previous  *)
(* epoch") is Consistent(prev, infos).  With AllowInconsistent a leaving      *)
(* entry may carry another shard than the one the key had -- the code then     *)
(* copies the list of the info's shard into the key's previous shard          *)
(* (eligibleMap[shardId] = append(eligibleMap[currentValidatorShardId], v)):   *)
(* a named deviation, unreachable from consistent infos, kept as coded.        *)
(***************************************************************************)
EXTENDS Integers, Sequences, FiniteSets, TLC

CONSTANTS Log(_, _)

META == 99           \* core.MetachainShardId (0xFFFFFFFF) in trace representation
NF   == 98           \* GetValidatorWithPublicKey: ErrValidatorNotFound
StoredEpochs == 3    \* nodeCoordinatorStoredEpochs

VARIABLES cfg, cur, pkIdx, flagFix, params, hist

vars  == <<cfg, cur, pkIdx, flagFix, params, hist>>
cvars == <<cfg, cur, pkIdx, flagFix, params>>

-----------------------------------------------------------------------------
SeqToSet(s) == {s[i] : i \in 1..Len(s)}
NoDup(s) == \A i, j \in 1..Len(s) : i # j => s[i] # s[j]
Count(s, x) == Cardinality({i \in 1..Len(s) : s[i] = x})
BagEq(a, b) == Len(a) = Len(b) /\ \A x \in SeqToSet(a) \cup SeqToSet(b) : Count(a, x) = Count(b, x)
MaxOf(S) == CHOOSE x \in S : \A y \in S : y <= x
\* a finite set of integers as an ascending sequence
SortedSeq(S) ==
    LET F[n \in 0..Cardinality(S)] ==
          IF n = 0 THEN <<>>
          ELSE Append(F[n-1], CHOOSE x \in S : x \notin SeqToSet(F[n-1]) /\ \A y \in S : y \notin SeqToSet(F[n-1]) => x <= y)
    IN  F[Cardinality(S)]

Shards   == params.shards
ShardSet == SeqToSet(Shards)
EmptyLists == [s \in ShardSet |-> <<>>]

\* concatenation of the per shard lists in shard order (sortKeys: ascending, metachain last)
FlatS(L, sh) == LET F[i \in 0..Len(sh)] == IF i = 0 THEN <<>> ELSE F[i-1] \o L[sh[i]] IN F[Len(sh)]
Flat(L) == FlatS(L, Shards)
\* ... tagged with the shard
PairsOf(L) ==
    LET F[i \in 0..Len(Shards)] ==
          IF i = 0 THEN <<>> ELSE F[i-1] \o [j \in 1..Len(L[Shards[i]]) |-> <<Shards[i], L[Shards[i]][j]>>]
    IN  F[Len(Shards)]
FindInS(L, k, sh) == {s \in SeqToSet(sh) : k \in SeqToSet(L[s])}
FindIn(L, k) == FindInS(L, k, Shards)
KeysInS(ec, sh) == SeqToSet(FlatS(ec.elig, sh)) \cup SeqToSet(FlatS(ec.wait, sh))
KeysIn(ec) == KeysInS(ec, Shards)

-----------------------------------------------------------------------------
(* the rater *)
Chance(r) == LET t == params.table IN IF r + 1 > Len(t) THEN t[Len(t)] ELSE t[r + 1]
Low(r) == params.class = "rater" /\ Chance(r) < Chance(0)

-----------------------------------------------------------------------------
(* computeNodesConfigFromList(previousEpochConfig, validatorInfos), lists in info order (the code sorts them *)
(* by (index, public key) afterwards; the order is irrelevant for C16 and lists are compared as bags)        *)

\* addValidatorToPreviousMap, as coded
AddPrev(prev, acc, k, s, ff) ==
    IF ~ff THEN [acc EXCEPT !.elig[s] = Append(@, k)]
    ELSE IF FindIn(prev.elig, k) # {}
         THEN LET sh == CHOOSE x \in FindIn(prev.elig, k) : TRUE          \* searchInMap
              IN  [acc EXCEPT !.elig[sh] = Append(acc.elig[s], k)]        \* (sic) source list = the info's shard
    ELSE IF FindIn(prev.wait, k) # {}
         THEN LET sh == CHOOSE x \in FindIn(prev.wait, k) : TRUE
              IN  [acc EXCEPT !.wait[sh] = Append(acc.wait[s], k)]
    ELSE acc

InfoStep(prev, acc, in, ff) ==
    CASE in.l = "waiting"  -> [acc EXCEPT !.wait[in.s] = Append(@, in.k)]
      [] in.l = "eligible" -> [acc EXCEPT !.elig[in.s] = Append(@, in.k)]
      [] in.l = "leaving"  -> AddPrev(prev, [acc EXCEPT !.leav[in.s] = Append(@, in.k)], in.k, in.s, ff)
      [] in.l = "new"      -> [acc EXCEPT !.new = Append(@, in.k)]
      [] OTHER             -> acc                      \* inactive, jailed: nothing

NodesConfigFromList(prev, infos, ff) ==
    LET F[i \in 0..Len(infos)] ==
          IF i = 0 THEN [elig |-> EmptyLists, wait |-> EmptyLists, leav |-> EmptyLists, new |-> <<>>]
          ELSE InfoStep(prev, F[i-1], infos[i], ff)
        r == F[Len(infos)]
    IN  [elig |-> r.elig, wait |-> r.wait, leav |-> r.leav, new |-> r.new,
         err |-> \A s \in ShardSet : r.elig[s] = <<>>]          \* ErrMapSizeZero

(* indexHashedNodesCoordinatorWithRater.ComputeAdditionalLeaving *)
AdditionalLeaving(infos) ==
    [s \in ShardSet |->
        LET idx == SelectSeq([i \in 1..Len(infos) |-> i],
                             LAMBDA i : infos[i].s = s /\ infos[i].l \notin {"inactive", "jailed"} /\ Low(infos[i].r))
        IN  [j \in 1..Len(idx) |-> infos[idx[j]].k]]

(* createActuallyLeavingPerShards / computeActuallyLeaving *)
ActuallyLeaving(leavMap, addMap, resLeaving) ==
    LET pairs == PairsOf(leavMap) \o PairsOf(addMap)
        F[i \in 0..Len(pairs)] ==
          IF i = 0 THEN [seen |-> {}, out |-> EmptyLists]
          ELSE LET p == pairs[i]  acc == F[i-1]
               IN  IF p[2] \in acc.seen THEN acc
                   ELSE [seen |-> acc.seen \cup {p[2]},
                         out  |-> IF p[2] \in SeqToSet(resLeaving) THEN [acc.out EXCEPT ![p[1]] = Append(@, p[2])]
                                  ELSE acc.out]
    IN  F[Len(pairs)].out

(* what the shuffler is handed *)
ShufflerIn(args) == Flat(args.elig) \o Flat(args.wait) \o args.new
LeavingAsked(args, add) == SeqToSet(Flat(args.leav)) \cup SeqToSet(Flat(add))
\* the shards that have an entry in the eligible map handed to the shuffler (entries are created by append)
EligEntries(args) == {s \in ShardSet : args.elig[s] # <<>>}

(* The relational contract of NodesShuffler.UpdateNodeLists that C16 relies on (cf. C12): nothing appears   *)
(* from nowhere, nothing is duplicated, whatever disappears is reported as leaving, only validators that    *)
(* were asked to leave do.                                                                                  *)
ShufflerOK(args, add, sres) ==
    LET in  == ShufflerIn(args)
        out == Flat(sres.elig) \o Flat(sres.wait)
    IN  /\ \A k \in SeqToSet(out) : Count(out, k) <= Count(in, k)
        /\ \A k \in SeqToSet(in) : Count(out, k) < Count(in, k) => k \in SeqToSet(sres.leaving)
        /\ SeqToSet(sres.leaving) \subseteq LeavingAsked(args, add)

(* setNodesPerShards: the size checks, as coded (len(eligible) counts the map entries) *)
SetNodesOK(sres) ==
    LET n == Cardinality(sres.entries)
    IN  /\ Len(sres.elig[META]) >= params.minMeta
        /\ \A s \in 0..(n - 2) : s \in ShardSet /\ Len(sres.elig[s]) >= params.minShard

(* createPublicKeyToValidatorMap + fillPublicKeyToValidatorMap: epochs ascending, later epochs overwrite,   *)
(* within an epoch waiting overwrites eligible                                                               *)
PkOfEpoch(ec, k, sh) == IF FindInS(ec.wait, k, sh) # {} THEN CHOOSE s \in FindInS(ec.wait, k, sh) : TRUE
                        ELSE CHOOSE s \in FindInS(ec.elig, k, sh) : TRUE
FillPkS(c, sh) ==
    LET ke == [e \in DOMAIN c |-> KeysInS(c[e], sh)]
        ks == UNION {ke[e] : e \in DOMAIN c}
    IN  [k \in ks |-> PkOfEpoch(c[MaxOf({e \in DOMAIN c : k \in ke[e]})], k, sh)]
FillPk(c) == FillPkS(c, Shards)

Lookup(idx, k) == IF k \in DOMAIN idx THEN idx[k] ELSE NF

-----------------------------------------------------------------------------
(* precondition of C16 *)
WellFormedInfo(in) == in.s \in ShardSet /\ in.l \in {"eligible", "waiting", "leaving", "new", "inactive", "jailed"}
Consistent(prev, infos) ==
    /\ \A i \in 1..Len(infos) : WellFormedInfo(infos[i])
    /\ \A i, j \in 1..Len(infos) : i # j => infos[i].k # infos[j].k            \* one peer account per key
    /\ \A i \in 1..Len(infos) :
         LET in == infos[i] IN
         /\ in.l = "eligible" => in.k \in SeqToSet(prev.elig[in.s])
         /\ in.l = "waiting"  => in.k \in SeqToSet(prev.wait[in.s])
         /\ in.l = "leaving"  => (in.k \in KeysIn(prev) => in.k \in SeqToSet(prev.elig[in.s]) \cup SeqToSet(prev.wait[in.s]))
         \* "new" / "inactive" / "jailed" may concern any key (a validator jailed and unjailed within one epoch is "new"
         \* while still in the lists of the running epoch; a jailed one replaced from the staking queue has no info at all)

-----------------------------------------------------------------------------
(* projection written to hist / compared with the real coordinator *)
ListsRec(L) == [i \in 1..Len(Shards) |-> [s |-> Shards[i], l |-> L[Shards[i]]]]
EpochSeq(c) == SortedSeq(DOMAIN c)
Proj(c, cu, idx, keyseq) ==
    [cur |-> cu,
     cfgs |-> LET es == EpochSeq(c) IN
              [i \in 1..Len(es) |-> [e |-> es[i], elig |-> ListsRec(c[es[i]].elig), wait |-> ListsRec(c[es[i]].wait),
                                     leav |-> ListsRec(c[es[i]].leav)]],
     idx |-> [i \in 1..Len(keyseq) |-> [k |-> keyseq[i], s |-> Lookup(idx, keyseq[i])]]]

-----------------------------------------------------------------------------
(* EpochStartPrepare(header with epoch e, body with validator infos); sres = what the shuffler returned;   *)
(* args / add = NodesConfigFromList(...) / AdditionalLeaving(...) of these infos (passed in so that they are   *)
(* computed once)                                                                                            *)
PrepareCoreA(e, infos, sres, args, add) ==
    LET set  == ~args.err /\ ~sres.err /\ SetNodesOK(sres)
        newc == [elig |-> sres.elig, wait |-> sres.wait, leav |-> ActuallyLeaving(args.leav, add, sres.leaving)]
    IN  /\ cur \in DOMAIN cfg
        /\ flagFix' = (e >= params.fixEpoch)                      \* updateEpochFlags
        /\ (~args.err /\ ~sres.err) => ShufflerOK(args, add, sres)
        /\ cfg' = IF set THEN [x \in DOMAIN cfg \cup {e} |-> IF x = e THEN newc ELSE cfg[x]] ELSE cfg
        \* computeNodesConfigFromList / UpdateNodeLists failing returns before the map is rebuilt
        /\ pkIdx' = IF args.err \/ sres.err THEN pkIdx ELSE FillPk(cfg')
        /\ UNCHANGED <<cur, params>>

PrepareCore(e, infos, sres) ==
    PrepareCoreA(e, infos, sres, NodesConfigFromList(cfg[cur], infos, e >= params.fixEpoch), AdditionalLeaving(infos))

ArgsRecA(args, add) ==
    [err |-> args.err, elig |-> ListsRec(args.elig), wait |-> ListsRec(args.wait), new |-> args.new,
     unstake |-> Flat(args.leav), add |-> Flat(add)]

PrepareA(e, infos, sres, args, add, keyseq) ==
    /\ PrepareCoreA(e, infos, sres, args, add)
    /\ hist' = Log(hist, [a |-> "Prepare",
                          in |-> [e |-> e, infos |-> infos,
                                  sres |-> [err |-> sres.err, elig |-> ListsRec(sres.elig), wait |-> ListsRec(sres.wait),
                                            leaving |-> sres.leaving, entries |-> SortedSeq(sres.entries)]],
                          out |-> ArgsRecA(args, add),
                          st |-> Proj(cfg', cur', pkIdx', keyseq)])

(* EpochStartAction(header with epoch e) *)
EpochActionCore(e) ==
    /\ cur' = e
    /\ cfg' = [x \in {y \in DOMAIN cfg : ~(e - StoredEpochs >= 0 /\ y <= e - StoredEpochs)} |-> cfg[x]]
    /\ UNCHANGED <<pkIdx, flagFix, params>>

EpochAction(e, keyseq) ==
    /\ EpochActionCore(e)
    /\ hist' = Log(hist, [a |-> "Action", in |-> [e |-> e], out |-> [x |-> 0], st |-> Proj(cfg', cur', pkIdx', keyseq)])

-----------------------------------------------------------------------------
(* C16 *)
\* every public key appears in at most one shard and at most one of the eligible / waiting lists of an epoch
OnePlace(ec) == NoDup(Flat(ec.elig) \o Flat(ec.wait))
Inv_C16_OnePlace == \A e \in DOMAIN cfg : OnePlace(cfg[e])
\* looking a key of the newest epoch up by public key reports the shard it has in that epoch
Inv_C16_Lookup ==
    DOMAIN cfg # {} =>
        LET ec == cfg[MaxOf(DOMAIN cfg)]
        IN  \A s \in ShardSet : \A k \in SeqToSet(ec.elig[s]) \cup SeqToSet(ec.wait[s]) : Lookup(pkIdx, k) = s
=============================================================================
