SPECIFICATION StepSpec
CONSTANTS
  Keys = {1, 2, 3}
  MCShards <- Shards2
  FixEpochs = {0, 9}
  Classes = {"plain"}
  MaxEpoch = 2
  AllowInconsistent = FALSE
  Depth = 0
  OlderSet = {TRUE, FALSE}
  SampleMod = 1
  MaxChanges = 2
  Log <- LogNone
VIEW cvars
INVARIANTS TypeOK Inv_C16_OnePlace Inv_C16_Lookup
CHECK_DEADLOCK FALSE
