---- MODULE Trace_NodesCoord ----
(* Trace validation for C16.  Events recorded from a real indexHashedNodesCoordinator(+WithRater):          *)
(*   New      the constructor: parameters; st = the observed configuration                                  *)
(*   Prepare  EpochStartPrepare(header e, body built from `infos`); `sh` = what the coordinator handed to    *)
(*            its NodesShuffler and what that returned (recorded by a decorator around the real shuffler,   *)
(*            or the TLC-scripted stub)                                                                     *)
(*   Action   EpochStartAction(header e)                                                                    *)
(* st = projection through the public getters after the call: per stored epoch the eligible / waiting /     *)
(* leaving lists per shard (GetAll*ValidatorsPublicKeys), currentEpoch (registry), and                       *)
(* GetValidatorWithPublicKey for EVERY key of the universe (98 = not found).                                 *)
(* Strict mode: each event is the NodesCoord action, its shuffler arguments and resulting state are those    *)
(* the specification computes (lists handed to the shuffler and leaving lists compared as bags).             *)
(* Observation mode: the logged state is taken as it is.  Inv_C16_* are evaluated on every observed state.   *)
EXTENDS NodesCoord, Json, TLCExt
LogLast(h, r) == <<r>>
TLog == ndJsonDeserialize("trace.ndjson")
VARIABLE l
tvars == <<vars, l>>
Ev == TLog[l]
IsEvent(name) == l <= Len(TLog) /\ Ev.a = name /\ l' = l + 1

(* logged representation -> specification values *)
ListsFn(seq, S) == [s \in S |-> IF \E i \in 1..Len(seq) : seq[i].s = s
                                THEN seq[CHOOSE i \in 1..Len(seq) : seq[i].s = s].l ELSE <<>>]
EntriesOf(seq) == {seq[i].s : i \in 1..Len(seq)}
CfgFn(st, S) == [e \in {st.cfgs[i].e : i \in 1..Len(st.cfgs)} |->
                    LET c == st.cfgs[CHOOSE i \in 1..Len(st.cfgs) : st.cfgs[i].e = e]
                    IN  [elig |-> ListsFn(c.elig, S), wait |-> ListsFn(c.wait, S), leav |-> ListsFn(c.leav, S)]]
IdxFn(st) == [k \in {st.idx[i].k : i \in {j \in 1..Len(st.idx) : st.idx[j].s # NF}} |->
                 st.idx[CHOOSE i \in 1..Len(st.idx) : st.idx[i].k = k].s]

\* the state the specification computed (primed) is the observed one
ObsMatches(st) ==
    LET o == CfgFn(st, ShardSet')
    IN  /\ cur' = st.cur
        /\ DOMAIN cfg' = DOMAIN o
        /\ \A e \in DOMAIN o : /\ cfg'[e].elig = o[e].elig /\ cfg'[e].wait = o[e].wait
                               /\ \A s \in ShardSet' : BagEq(cfg'[e].leav[s], o[e].leav[s])
        /\ \A i \in 1..Len(st.idx) : Lookup(pkIdx', st.idx[i].k) = st.idx[i].s

ParamsOf(in) == [shards |-> in.shards, minShard |-> in.minShard, minMeta |-> in.minMeta, fixEpoch |-> in.fixEpoch,
                 class |-> in.class, table |-> in.table]

TraceInit == /\ l = 1 /\ cfg = <<>> /\ cur = 0 /\ pkIdx = <<>> /\ flagFix = FALSE /\ hist = <<>>
             /\ params = [shards |-> <<META>>, minShard |-> 1, minMeta |-> 1, fixEpoch |-> 0, class |-> "plain", table |-> <<1>>]

TNew ==
    /\ IsEvent("New")
    /\ params' = ParamsOf(Ev.in)
    /\ cfg' = CfgFn(Ev.st, SeqToSet(Ev.in.shards)) /\ cur' = Ev.st.cur /\ flagFix' = FALSE
    /\ pkIdx' = FillPkS(cfg', Ev.in.shards)                   \* the constructor fills the map
    /\ ObsMatches(Ev.st)
    /\ hist' = <<[a |-> "New"]>>

SresOf(sh) ==
    IF ~sh.called \/ sh.err # "" THEN [err |-> TRUE, entries |-> {}, elig |-> EmptyLists, wait |-> EmptyLists, leaving |-> <<>>]
    ELSE [err |-> FALSE, entries |-> EntriesOf(sh.res.elig), elig |-> ListsFn(sh.res.elig, ShardSet),
          wait |-> ListsFn(sh.res.wait, ShardSet), leaving |-> sh.res.leaving]

ArgsMatch(args, add, a) ==
    /\ EntriesOf(a.elig) \cap ShardSet = EligEntries(args) /\ EntriesOf(a.elig) \subseteq ShardSet
    /\ \A s \in ShardSet : BagEq(args.elig[s], ListsFn(a.elig, ShardSet)[s]) /\ BagEq(args.wait[s], ListsFn(a.wait, ShardSet)[s])
    /\ BagEq(args.new, a.new) /\ BagEq(Flat(args.leav), a.unstake) /\ BagEq(Flat(add), a.add)

TPrepare ==
    /\ IsEvent("Prepare")
    /\ cur \in DOMAIN cfg
    /\ Consistent(cfg[cur], Ev.in.infos)
    /\ LET args == NodesConfigFromList(cfg[cur], Ev.in.infos, Ev.in.e >= params.fixEpoch)
           add  == AdditionalLeaving(Ev.in.infos)
       IN  /\ Ev.in.sh.called = ~args.err
           /\ Ev.in.sh.called => ArgsMatch(args, add, Ev.in.sh.args)
    /\ PrepareCore(Ev.in.e, Ev.in.infos, SresOf(Ev.in.sh))
    /\ ObsMatches(Ev.st)
    /\ hist' = <<[a |-> "Prepare"]>>

TAction ==
    /\ IsEvent("Action")
    /\ EpochActionCore(Ev.in.e)
    /\ ObsMatches(Ev.st)
    /\ hist' = <<[a |-> "Action"]>>

TraceNext == TNew \/ TPrepare \/ TAction
TraceSpec == TraceInit /\ [][TraceNext]_tvars

(* observation only *)
OAny ==
    /\ l <= Len(TLog) /\ l' = l + 1
    /\ params' = IF Ev.a = "New" THEN ParamsOf(Ev.in) ELSE params
    /\ cfg' = CfgFn(Ev.st, SeqToSet(params'.shards)) /\ cur' = Ev.st.cur /\ pkIdx' = IdxFn(Ev.st)
    /\ flagFix' = flagFix /\ hist' = <<[a |-> Ev.a]>>
TraceSpecObs == TraceInit /\ [][OAny]_tvars

HighWater == TLCSet(1, IF l > TLCGet(1) THEN l ELSE TLCGet(1))
Accepted  == IF TLCGet(1) = Len(TLog) + 1 THEN TRUE ELSE PrintT("@@HW " \o ToString(TLCGet(1))) /\ FALSE
ASSUME TLCSet(1, 0)
====
