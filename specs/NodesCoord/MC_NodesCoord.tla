---- MODULE MC_NodesCoord ----
(* Exhaustive configurations for NodesCoord.                                                               *)
(*  StepSpec  "inductive step": Init ranges over EVERY well-formed configuration of the current epoch       *)
(*            (each key in at most one place, minimum sizes respected) plus an older epoch in which every    *)
(*            key sits in another shard; one EpochStartPrepare with every consistent validator-info set and  *)
(*            EVERY shuffler result that conserves the validators (or fails); re-prepare allowed.            *)
(*  DeepSpec  several consecutive epochs (Prepare / re-Prepare / EpochStartAction up to MaxEpoch) from a     *)
(*            fixed genesis configuration with a handful of representative conserving shuffler results.     *)
(*  AllowInconsistent = TRUE admits a leaving info whose shard differs from the key's shard in the previous *)
(*            epoch: TLC must find the duplicate (named deviation in addValidatorToPreviousMap).             *)
EXTENDS NodesCoord, Json
CONSTANTS MaxChanges, SampleMod, Keys, MCShards, FixEpochs, Classes, MaxEpoch, AllowInconsistent, Depth, OlderSet

Shards2 == <<0, 99>>
Shards3 == <<0, 1, 99>>
LogAppend(h, r) == Append(h, r)
LogLast(h, r) == <<r>>
\* one-step spec only: the record is built (and the transition exported) for a pseudo-random 1/SampleMod of the
\* transitions; all transitions are still generated and checked
LogSample(h, r) == IF RandomElement(1..SampleMod) = 1 THEN Append(h, r) ELSE h
EmitAppended == (Len(hist') > Len(hist)) => PrintT("@@B " \o ToJson(hist'))
LogNone(h, r) == h          \* exhaustive checking without export: the observation record is never built
KeySeq == SortedSeq(Keys)
MCShardSet == SeqToSet(MCShards)
Table == <<2, 1>>           \* rating 0 -> chance 2 (= minimum chance), rating 1 -> chance 1 (below the minimum)

Sorted(s) == SortSeq(s, LAMBDA a, b : a < b)

(* ---- configurations ---- *)
Places == ({"e", "w"} \X MCShardSet) \cup {<<"x", 0>>}
CfgOf(f) == [elig |-> [s \in MCShardSet |-> Sorted(SelectSeq(KeySeq, LAMBDA k : f[k] = <<"e", s>>))],
             wait |-> [s \in MCShardSet |-> Sorted(SelectSeq(KeySeq, LAMBDA k : f[k] = <<"w", s>>))],
             leav |-> [s \in MCShardSet |-> <<>>]]
WellFormedCfgs(minS, minM) ==
    {CfgOf(f) : f \in {g \in [Keys -> Places] :
                          /\ Cardinality({k \in Keys : g[k] = <<"e", META>>}) >= minM
                          /\ \A s \in MCShardSet \ {META} : Cardinality({k \in Keys : g[k] = <<"e", s>>}) >= minS}}
\* the same validators, every key one shard further (an older epoch from which everybody has moved)
NextShard(s) == LET i == CHOOSE j \in 1..Len(MCShards) : MCShards[j] = s IN MCShards[(i % Len(MCShards)) + 1]
Rotated(c) == [elig |-> [s \in MCShardSet |-> c.elig[CHOOSE t \in MCShardSet : NextShard(t) = s]],
               wait |-> [s \in MCShardSet |-> c.wait[CHOOSE t \in MCShardSet : NextShard(t) = s]],
               leav |-> c.leav]

(* ---- validator infos consistent with the previous configuration ---- *)
InfoOptions(prev, k) ==
    LET se == FindIn(prev.elig, k)  sw == FindIn(prev.wait, k)
        other(s) == IF AllowInconsistent THEN MCShardSet ELSE {s}
    IN  IF se # {} THEN {[k |-> k, s |-> s, l |-> l, i |-> 0, r |-> r] : s \in se, l \in {"eligible", "inactive", "new"}, r \in {0}}
                        \cup {[k |-> k, s |-> t, l |-> "leaving", i |-> 0, r |-> 0] : t \in UNION {other(s) : s \in se}}
                        \cup (IF "rater" \in Classes THEN {[k |-> k, s |-> s, l |-> "eligible", i |-> 0, r |-> 1] : s \in se} ELSE {})
        ELSE IF sw # {} THEN {[k |-> k, s |-> s, l |-> l, i |-> 0, r |-> 0] : s \in sw, l \in {"waiting", "jailed", "new"}}
                        \cup {[k |-> k, s |-> t, l |-> "leaving", i |-> 0, r |-> 0] : t \in UNION {other(s) : s \in sw}}
        ELSE {[k |-> k, s |-> s, l |-> l, i |-> 0, r |-> 0] : s \in MCShardSet, l \in {"new", "leaving"}}
             \cup {[k |-> k, s |-> 0, l |-> "absent", i |-> 0, r |-> 0]}
DefaultInfo(prev, k) ==
    LET se == FindIn(prev.elig, k)  sw == FindIn(prev.wait, k)
    IN  IF se # {} THEN [k |-> k, s |-> CHOOSE s \in se : TRUE, l |-> "eligible", i |-> 0, r |-> 0]
        ELSE IF sw # {} THEN [k |-> k, s |-> CHOOSE s \in sw : TRUE, l |-> "waiting", i |-> 0, r |-> 0]
        ELSE [k |-> k, s |-> 0, l |-> "absent", i |-> 0, r |-> 0]
\* all choices of one option per key (at most maxch keys deviating from the default), built key by key
RECURSIVE InfoProd(_, _, _)
InfoProd(prev, i, maxch) ==
    IF i = 0 THEN {[seq |-> <<>>, ch |-> 0]}
    ELSE UNION {{[seq |-> IF o.l = "absent" THEN p.seq ELSE Append(p.seq, o),
                  ch |-> p.ch + (IF o = DefaultInfo(prev, KeySeq[i]) THEN 0 ELSE 1)] :
                    o \in {x \in InfoOptions(prev, KeySeq[i]) : x = DefaultInfo(prev, KeySeq[i]) \/ p.ch < maxch}} :
                p \in InfoProd(prev, i - 1, maxch)}
InfoSets(prev) == InfoProd(prev, Len(KeySeq), Len(KeySeq))
\* DeepSpec: at most MaxChanges validators change their status per epoch (the others stay eligible / waiting /
\* unknown); StepSpec covers every combination for one epoch
FewChangesInfoSets(prev) == InfoProd(prev, Len(KeySeq), MaxChanges)

(* ---- shuffler results ---- *)
ResOfPlacement(args, add, f) ==
    LET in == ShufflerIn(args)
        removed == {in[i] : i \in {j \in 1..Len(in) : f[j] = <<"x", 0>>}}
        pick(p) == Sorted(LET idx == SelectSeq([i \in 1..Len(in) |-> i], LAMBDA i : f[i] = p) IN [j \in 1..Len(idx) |-> in[idx[j]]])
    IN  [err |-> FALSE, entries |-> EligEntries(args),
         elig |-> [s \in ShardSet |-> pick(<<"e", s>>)], wait |-> [s \in ShardSet |-> pick(<<"w", s>>)],
         \* as the real shuffler: the validators it removed plus the leaving ones it did not find
         leaving |-> SortedSeq(removed \cup (LeavingAsked(args, add) \ SeqToSet(in)))]
\* every conserving result: each validator handed in goes to an eligible list (of a shard that has one), to a
\* waiting list, or -- if it was asked to leave -- is removed
\* (as placements: quantifying over them instead of over the set of results spares TLC the normalisation of a set of records)
AllResults(args, add) ==
    LET in == ShufflerIn(args)
        pl == ({"e"} \X EligEntries(args)) \cup ({"w"} \X ShardSet)
    IN  {g \in [1..Len(in) -> pl \cup {<<"x", 0>>}] :
            \A i \in 1..Len(in) : g[i] = <<"x", 0>> => in[i] \in LeavingAsked(args, add)}
ErrRes == [err |-> TRUE, entries |-> {}, elig |-> EmptyLists, wait |-> EmptyLists, leaving |-> <<>>]

\* a few representative conserving results (DeepSpec)
NextOf(s) == LET i == CHOOSE j \in 1..Len(Shards) : Shards[j] = s IN Shards[(i % Len(Shards)) + 1]
SomeResults(args, add) ==
    LET in == ShufflerIn(args)
        ne == Len(Flat(args.elig))  nw == Len(Flat(args.wait))
        shardOfE(i) == PairsOf(args.elig)[i][1]
        shardOfW(i) == PairsOf(args.wait)[i - ne][1]
        asked(i) == in[i] \in LeavingAsked(args, add)
        firstOf(i) == \A j \in 1..(i-1) : shardOfE(j) # shardOfE(i)
        ent(s) == IF s \in EligEntries(args) THEN <<"e", s>> ELSE <<"w", s>>
        stay == [i \in 1..Len(in) |-> IF i <= ne THEN <<"e", shardOfE(i)>> ELSE IF i <= ne + nw THEN <<"w", shardOfW(i)>>
                                      ELSE <<"w", Shards[1]>>]
        leave == [i \in 1..Len(in) |-> IF asked(i) THEN <<"x", 0>> ELSE stay[i]]
        rotate == [i \in 1..Len(in) |-> IF asked(i) THEN <<"x", 0>>
                                        ELSE IF i <= ne THEN (IF firstOf(i) THEN <<"w", NextOf(shardOfE(i))>> ELSE <<"e", shardOfE(i)>>)
                                        ELSE IF i <= ne + nw THEN ent(shardOfW(i))
                                        ELSE <<"w", META>>]
        promote == [i \in 1..Len(in) |-> IF i <= ne THEN <<"e", shardOfE(i)>> ELSE IF i <= ne + nw THEN ent(shardOfW(i))
                                         ELSE <<"w", Shards[((i - 1) % Len(Shards)) + 1]>>]
    IN  {stay, leave, rotate, promote}

(* ---- specs ---- *)
ParamSets == [shards : {MCShards}, minShard : {1}, minMeta : {1}, fixEpoch : FixEpochs, class : Classes, table : {Table}]

StepInit ==
    /\ params \in ParamSets
    /\ cur = 1
    /\ \E c \in WellFormedCfgs(1, 1), older \in OlderSet :
          cfg = IF older THEN (0 :> Rotated(c)) @@ (1 :> c) ELSE (1 :> c)
    /\ pkIdx = FillPk(cfg)
    /\ flagFix = (1 >= params.fixEpoch)
    /\ hist = <<[a |-> "New", in |-> params, out |-> [x |-> 0], st |-> Proj(cfg, cur, pkIdx, KeySeq)]>>

PrepareAny(e, results(_, _), infosets(_)) ==
    \E p \in infosets(cfg[cur]) : LET infos == p.seq IN
        /\ AllowInconsistent \/ Consistent(cfg[cur], infos)
        /\ LET args == NodesConfigFromList(cfg[cur], infos, e >= params.fixEpoch)
               add  == AdditionalLeaving(infos)
           IN  \/ PrepareA(e, infos, ErrRes, args, add, KeySeq)
               \/ /\ ~args.err
                  /\ \E f \in results(args, add) : PrepareA(e, infos, ResOfPlacement(args, add, f), args, add, KeySeq)

StepNext == 2 \notin DOMAIN cfg /\ PrepareAny(2, AllResults, InfoSets)
StepSpec == StepInit /\ [][StepNext]_vars

Genesis == [elig |-> [s \in MCShardSet |-> IF s = META THEN <<2>> ELSE IF s = 0 THEN <<1>> ELSE <<s + 10>>],
            wait |-> [s \in MCShardSet |-> IF s = 0 THEN <<3>> ELSE <<>>],
            leav |-> [s \in MCShardSet |-> <<>>]]
DeepInit ==
    /\ params \in ParamSets
    /\ cur = 0 /\ cfg = (0 :> Genesis)
    /\ pkIdx = FillPk(cfg)
    /\ flagFix = (0 >= params.fixEpoch)
    /\ hist = <<[a |-> "New", in |-> params, out |-> [x |-> 0], st |-> Proj(cfg, cur, pkIdx, KeySeq)]>>
DeepNext ==
    \/ cur < MaxEpoch /\ PrepareAny(cur + 1, SomeResults, FewChangesInfoSets)
    \/ cur < MaxEpoch /\ (cur + 1) \in DOMAIN cfg /\ EpochAction(cur + 1, KeySeq)
DeepSpec == DeepInit /\ [][DeepNext]_vars

TypeOK ==
    /\ cur \in DOMAIN cfg
    /\ \A e \in DOMAIN cfg : DOMAIN cfg[e].elig = ShardSet /\ DOMAIN cfg[e].wait = ShardSet

\* behaviour export (see specs/CapLRU/MC_CapLRU.tla)
GenStepSpec == StepInit /\ [][Len(hist) < Depth /\ StepNext]_vars
GenDeepSpec == DeepInit /\ [][Len(hist) < Depth /\ DeepNext]_vars
EmitEdge == PrintT("@@B " \o ToJson(hist'))
\* a pseudo-random 1/SampleMod of the transitions (exhaustive checking, sampled export)
EmitSome == (RandomElement(1..SampleMod) = 1) => PrintT("@@B " \o ToJson(hist'))
EmitFull == (Len(hist') = Depth) => PrintT("@@B " \o ToJson(hist'))
====
