SPECIFICATION DSpec
CONSTRAINT HighWater
INVARIANTS Inv_C13_CoordinatorDeterministic
POSTCONDITION Accepted
CHECK_DEADLOCK FALSE
