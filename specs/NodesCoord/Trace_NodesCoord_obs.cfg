SPECIFICATION TraceSpecObs
CONSTANTS
  Log <- LogLast
CONSTRAINT HighWater
INVARIANTS Inv_C16_OnePlace Inv_C16_Lookup
POSTCONDITION Accepted
CHECK_DEADLOCK FALSE
