SPECIFICATION ObsSpec
CONSTANTS
  Inner = {}
  DataTries = {}
  MaxRoots = 0
  MaxRollbacks = 0
  BufLens = {}
  QueueSizes = {}
  SnapLimits = {}
  CpMods = {}
  F3Set = {}
  MaxBlocked = 0
  MaxJobs = 1000
  AllowReapply = TRUE
  KnownDefects <- KD123
  Log <- LogLast
CONSTRAINT HighWater
INVARIANTS Inv_C09_SafetyObsClean Inv_C09_GcUnexplained Inv_C10_CompleteUnexplainedT
POSTCONDITION Accepted
CHECK_DEADLOCK FALSE
