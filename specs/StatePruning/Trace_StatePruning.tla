---- MODULE Trace_StatePruning ----
(* Trace validation: consumes trace.ndjson recorded from the real AccountsDB / storagePruningManager /  *)
(* evictionWaitingList / trieStorageManager / baseProcessor call sites.                                 *)
(*   strict mode (TraceSpec): every block-level event must be the corresponding StatePruning action     *)
(*     with the logged removals, eviction waiting list, main DB content and blocked flag; snapshot job   *)
(*     events bind the observed job results.  All property invariants are evaluated on every state.     *)
(*   observation mode (ObsSpec): every event only binds the observed values (chain, DB, jobs); run when *)
(*     the strict pass rejects, so that the invariants are still evaluated on all observed states.      *)
EXTENDS StatePruning, Json, TLCExt
LogLast(h, r) == <<r>>
KD123 == {"D1", "D2", "D3"}
TLog == ndJsonDeserialize("trace.ndjson")
VARIABLES l,       \* next line
          okobs,   \* roots for which RecreateTrie + full traversal on the real main DB succeeded
          clean,   \* the driver of this trace avoids the triggers of D1/D2/D3
          vt       \* root id -> version, from the New/Commit events
tvars == <<vars, l, okobs, clean, vt>>
Ev == TLog[l]
IsEvent(name) == l <= Len(TLog) /\ Ev.a = name /\ l' = l + 1
ObsEwl(seq) == {[r |-> seq[i].r, k |-> seq[i].k, s |-> ToSet(seq[i].s)] : i \in DOMAIN seq}
EwlFun(seq) ==
    [key \in {<<seq[i].r, seq[i].k>> : i \in DOMAIN seq} |->
        ToSet(seq[CHOOSE i \in DOMAIN seq : <<seq[i].r, seq[i].k>> = key].s)]
VersionOf(out) ==
    [r |-> out.r, n |-> ToSet(out.n), h |-> out.h,
     dts |-> {[r |-> out.parts.dts[i].r, n |-> ToSet(out.parts.dts[i].n)] : i \in DOMAIN out.parts.dts}]
PutOf(puts, r, k) ==
    IF \E i \in DOMAIN puts : puts[i].r = r /\ puts[i].k = k
    THEN ToSet(puts[CHOOSE i \in DOMAIN puts : puts[i].r = r /\ puts[i].k = k].s)
    ELSE {}

MatchesSt ==
    /\ hist'[1].st.chain = Ev.st.chain
    /\ hist'[1].st.nfin = Ev.st.nfin
    /\ hist'[1].st.db = ToSet(Ev.st.db)
    /\ hist'[1].st.ewl = ObsEwl(Ev.st.ewl)
    /\ hist'[1].st.blk = Ev.st.blk
MatchesRemoved == hist'[1].out.removed = ToSet(Ev.out.removed)
\* block-level events do not finish jobs (every snapshot goroutine is parked or blocked meanwhile)
MatchesJobs == Ev.out.done = <<>>
Observe == okobs' = ToSet(Ev.st.ok)

TraceInit ==
    /\ l = 1 /\ okobs = {} /\ clean = FALSE /\ manual = 0 /\ vt = <<>>
    /\ chain = <<>> /\ nfin = 0 /\ db = {} /\ ewl = <<>> /\ buf = <<>> /\ blocked = 0 /\ dead = {} /\ rolled = {}
    /\ nroots = [f |-> 0, rb |-> 0] /\ leak = NoLeak /\ quiet = FALSE /\ conf = [buf |-> 1, q |-> 0, snaps |-> 1, cpmod |-> 0, f3 |-> FALSE]
    /\ holder = <<>> /\ snaps = <<>> /\ sq = <<>> /\ cur = <<>> /\ jobs = <<>> /\ hist = <<>>

\* first event of a trace: the genesis state as observed
TNew ==
    /\ IsEvent("New")
    /\ LET v == VersionOf(Ev.out) IN
        /\ chain' = <<v>> /\ nfin' = 1
        /\ db' = ToSet(Ev.st.db)
        /\ ewl' = EwlFun(Ev.st.ewl)
        /\ holder' = <<[r |-> v.r, s |-> v.n]>>
        /\ vt' = (v.r :> v)
    /\ buf' = <<>> /\ blocked' = 0 /\ dead' = {} /\ rolled' = {} /\ leak' = NoLeak /\ quiet' = FALSE
    \* in.f3: which variant of the code is under test (D3 as it is / repaired), observed by the harness with a
    \* behavioural probe of the real storagePruningManager
    /\ conf' = [buf |-> Ev.in.buf, q |-> Ev.in.q, snaps |-> Ev.in.snaps, cpmod |-> Ev.in.cpmod, f3 |-> (Ev.in.f3 = 1)]
    /\ snaps' = <<>> /\ sq' = <<>> /\ cur' = <<>> /\ jobs' = <<>>
    /\ clean' = (Ev.in.clean = 1) /\ manual' = 0
    /\ hist' = <<[a |-> "New", in |-> Ev.in, out |-> Ev.out, st |-> Ev.st]>>
    /\ UNCHANGED nroots
    /\ Observe

TCommit ==
    /\ IsEvent("Commit")
    /\ LET v == VersionOf(Ev.out)
           prev == Last1(chain)
       IN  /\ Commit(v, PutOf(Ev.out.puts, prev.r, OldRoot), PutOf(Ev.out.puts, v.r, NewRoot), Ev.in.reapply = 1, Ev.out.cp = 1)
           /\ vt' = (v.r :> v) @@ vt
    /\ MatchesSt /\ MatchesRemoved /\ MatchesJobs
    /\ UNCHANGED <<nroots, clean>>
    /\ Observe

TCommitNoop ==
    /\ IsEvent("CommitNoop")
    /\ CommitNoop(Ev.out.cp = 1)
    /\ hist'[1].out.r = Ev.out.r
    /\ MatchesSt /\ MatchesRemoved /\ MatchesJobs
    /\ UNCHANGED <<nroots, clean, vt>>
    /\ Observe

TFinalize ==
    /\ IsEvent("Finalize") /\ Finalize
    /\ hist'[1].in.r = Ev.in.r /\ hist'[1].out.pruned = Ev.out.pruned /\ hist'[1].out.cp = Ev.out.cp
    /\ MatchesSt /\ MatchesRemoved /\ MatchesJobs
    /\ UNCHANGED <<clean, vt>> /\ Observe

TRollback ==
    /\ IsEvent("Rollback") /\ Rollback
    /\ hist'[1].in.r = Ev.in.r
    /\ MatchesSt /\ MatchesRemoved
    /\ UNCHANGED <<clean, vt>> /\ Observe

TEnter == IsEvent("Enter") /\ Enter /\ MatchesSt /\ MatchesRemoved /\ UNCHANGED <<clean, vt>> /\ Observe
TExit  == IsEvent("Exit") /\ Exit /\ MatchesSt /\ MatchesRemoved /\ UNCHANGED <<clean, vt>> /\ Observe

-----------------------------------------------------------------------------
(* snapshot / checkpoint job events: the job internals (queue, holder, loop position) are not        *)
(* observed; the events bind what is observed: whether every job has finished, and for each finished *)
(* job the content of the snapshot DB that GetSnapshotThatContainsHash(root) returns, plus the       *)
(* literal observation "the state can be recreated reading that snapshot DB alone".                  *)

JobsAfter(js, done) ==
    [j \in DOMAIN js |->
        IF \E i \in DOMAIN done : ~js[j].done /\ js[j].v.r = done[i].r /\ js[j].kind = done[i].kind
        THEN LET d == done[CHOOSE i \in DOMAIN done : js[j].v.r = done[i].r /\ js[j].kind = done[i].kind]
             IN  [js[j] EXCEPT !.done = TRUE, !.judged = TRUE,
                               !.ok = (d.found = 1 /\ js[j].v.n \subseteq ToSet(d.snap) /\ d.alone = 1),
                               !.miss = IF d.found = 1 THEN js[j].v.n \ ToSet(d.snap) ELSE js[j].v.n]
        ELSE js[j]]

JobEvent(name, js) ==
    /\ IsEvent(name)
    /\ jobs' = JobsAfter(js, Ev.out.done)
    /\ blocked' = manual + (1 - Ev.out.idle)
    /\ quiet' = FALSE
    /\ UNCHANGED <<chain, nfin, db, ewl, buf, dead, rolled, nroots, leak, conf, holder, snaps, sq, cur, clean, manual, vt>>
    /\ hist' = <<[a |-> name, in |-> Ev.in, out |-> [removed |-> {}], st |-> St(chain, nfin, db, ewl, blocked')]>>
    /\ Observe

TSnapStart == JobEvent("SnapStart", Append(jobs, NewJob(vt[Ev.in.r], "s"))) /\ MatchesSt /\ MatchesRemoved
TCpStart   == JobEvent("CpStart", Append(jobs, NewJob(vt[Ev.in.r], "c"))) /\ MatchesSt /\ MatchesRemoved
TSnapStep  == JobEvent("SnapStep", jobs) /\ MatchesSt /\ MatchesRemoved

TraceNext == TNew \/ TCommit \/ TCommitNoop \/ TFinalize \/ TRollback \/ TEnter \/ TExit \/ TSnapStart \/ TCpStart \/ TSnapStep
TraceSpec == TraceInit /\ [][TraceNext]_tvars

-----------------------------------------------------------------------------
(* observation mode *)

ObsChain == [i \in DOMAIN Ev.st.chain |-> vt'[Ev.st.chain[i]]]
Gone == UNION {chain[i].n : i \in {k \in DOMAIN chain : chain[k].r \notin ToSet(Ev.st.chain)}}

ObsCommon ==
    /\ l <= Len(TLog) /\ l' = l + 1
    /\ db' = ToSet(Ev.st.db)
    /\ nfin' = Ev.st.nfin
    /\ ewl' = EwlFun(Ev.st.ewl)
    /\ buf' = <<>> /\ leak' = NoLeak
    /\ hist' = <<[a |-> Ev.a, in |-> Ev.in, out |-> [removed |-> {}], st |-> Ev.st]>>
    /\ UNCHANGED <<rolled, nroots, holder, snaps, sq, cur>>
    /\ Observe

ObsNew ==
    /\ l <= Len(TLog) /\ Ev.a = "New" /\ ObsCommon
    /\ vt' = (Ev.out.r :> VersionOf(Ev.out))
    /\ chain' = ObsChain /\ dead' = {} /\ quiet' = FALSE /\ blocked' = 0 /\ jobs' = <<>>
    /\ conf' = [buf |-> Ev.in.buf, q |-> Ev.in.q, snaps |-> Ev.in.snaps, cpmod |-> Ev.in.cpmod, f3 |-> (Ev.in.f3 = 1)]
    /\ clean' = (Ev.in.clean = 1) /\ manual' = 0

ObsBlock ==
    /\ l <= Len(TLog) /\ Ev.a \in {"Commit", "CommitNoop", "Finalize", "Rollback", "Enter", "Exit"} /\ ObsCommon
    /\ vt' = IF Ev.a = "Commit" THEN (Ev.out.r :> VersionOf(Ev.out)) @@ vt ELSE vt
    /\ chain' = ObsChain
    /\ dead' = dead \cup Gone
    \* an unblocked PruneTrie call was issued by this step (it flushes the buffer); only traces whose
    \* driver avoids the triggers of the known deviations are held to the strict garbage property here
    /\ quiet' = /\ clean
                /\ \/ (Ev.a = "Finalize" /\ Ev.out.pruned # 0 /\ Ev.out.cp = 0)   \* cp: the call blocked pruning first
                   \/ Ev.a = "Rollback"
                /\ Ev.in.wasblocked = 0
    /\ blocked' = Ev.st.blk
    /\ manual' = IF Ev.a = "Enter" THEN manual + 1 ELSE IF Ev.a = "Exit" THEN manual - 1 ELSE manual
    /\ UNCHANGED <<jobs, conf, clean>>

ObsJob ==
    /\ l <= Len(TLog) /\ Ev.a \in {"SnapStart", "CpStart", "SnapStep"} /\ ObsCommon
    /\ jobs' = JobsAfter(IF Ev.a = "SnapStart" THEN Append(jobs, NewJob(vt[Ev.in.r], "s"))
                         ELSE IF Ev.a = "CpStart" THEN Append(jobs, NewJob(vt[Ev.in.r], "c")) ELSE jobs, Ev.out.done)
    /\ blocked' = Ev.st.blk
    /\ quiet' = FALSE
    /\ UNCHANGED <<chain, dead, conf, clean, manual, vt>>

ObsNext == ObsNew \/ ObsBlock \/ ObsJob
ObsSpec == TraceInit /\ [][ObsNext]_tvars

-----------------------------------------------------------------------------
\* C09 first sentence on the observed state: set-based (archive traversal vs. present keys) and literal
\* (RecreateTrie + full traversal on the real main DB succeeded for that root)
Inv_C09_SafetyObs == \A i \in DOMAIN chain : chain[i].n \subseteq db /\ chain[i].r \in okobs
\* strict mode: up to the named deviation D3 (reported, see Report_D3S)
Inv_C09_SafetyObsUnexplained ==
    \A i \in DOMAIN chain : Missing(i) \subseteq leak.D3 /\ (chain[i].r \notin okobs => Missing(i) # {})
\* observation mode: only traces whose driver avoids the triggers of the known deviations
Inv_C09_SafetyObsClean == clean => Inv_C09_SafetyObs
Report_D3S == (\E i \in DOMAIN chain : Missing(i) # {}) => PrintT("@@KFD3S " \o ToString(l - 1))

\* known deviations are reported, not fatal
Report_D1 == (quiet /\ (Garbage \cap leak.D1) # {}) => PrintT("@@KFD1 " \o ToString(l - 1))
Report_D2 == (quiet /\ (Garbage \cap leak.D2) # {}) => PrintT("@@KFD2 " \o ToString(l - 1))
Report_D3 == (quiet /\ (Garbage \cap leak.D3) # {}) => PrintT("@@KFD3 " \o ToString(l - 1))

Report_E1 == (\E j \in JobIds : jobs[j].judged /\ ~jobs[j].ok /\ ExplainedE1(j)) => PrintT("@@KFE1 " \o ToString(l - 1))
Report_E2 == (\E j \in JobIds : jobs[j].judged /\ ~jobs[j].ok /\ ~ExplainedE1(j) /\ ExplainedE2(j)) => PrintT("@@KFE2 " \o ToString(l - 1))

Report_E3 == (\E j \in JobIds : jobs[j].judged /\ ~jobs[j].ok /\ ~ExplainedE1(j) /\ ~ExplainedE2(j) /\ ExplainedE3(j)) => PrintT("@@KFE3 " \o ToString(l - 1))

\* E5 (trace level: needs the versions seen so far): TakeSnapshot(S) -> RemoveCommitted(S) drops the hashes holder
\* entries committed up to S, assuming that everything they mark is in the new snapshot DB.  That is false for a node
\* of an older version that S itself does not contain (S sits on a branch that is rolled back later, or the node was
\* removed before S and comes back): a later checkpoint of a root that contains the node finds it unmarked and the
\* snapshot DB lacks it.  A missing node x of checkpoint job j is explained by E4 or by E5:
E4Node(j, x) == \E k, m \in JobIds : /\ k < m /\ m < j /\ jobs[k].kind = "c" /\ x \in jobs[k].v.n
                                     /\ jobs[m].kind = "s" /\ x \notin jobs[m].v.n
\* (k: the snapshot whose RemoveCommitted unmarked x; m: the same or a later snapshot, whose root lacks x and which
\*  opened the snapshot DB the checkpoint writes to - e.g. a snapshot of an OLDER root after a snapshot of a newer one)
E5Node(j, x) == \E k, m \in JobIds :
                    /\ k <= m /\ m < j /\ jobs[k].kind = "s" /\ jobs[m].kind = "s" /\ x \notin jobs[m].v.n
                    /\ \E r \in DOMAIN vt : vt[r].h <= jobs[k].v.h /\ x \in vt[r].n
ExplainedE45(j) == /\ jobs[j].kind = "c" /\ jobs[j].miss # {}
                   /\ \A x \in jobs[j].miss : E4Node(j, x) \/ E5Node(j, x)
Inv_C10_CompleteUnexplainedT ==
    \A j \in JobIds : (jobs[j].judged /\ ~jobs[j].ok) =>
        (ExplainedE1(j) \/ ExplainedE2(j) \/ ExplainedE3(j) \/ ExplainedE45(j))
Others(j) == ExplainedE1(j) \/ ExplainedE2(j) \/ ExplainedE3(j)
Report_E4 == (\E j \in JobIds : jobs[j].judged /\ ~jobs[j].ok /\ ~Others(j) /\ ExplainedE4(j)) => PrintT("@@KFE4 " \o ToString(l - 1))
Report_E5 == (\E j \in JobIds : jobs[j].judged /\ ~jobs[j].ok /\ ~Others(j) /\ ~ExplainedE4(j) /\ ExplainedE45(j)) => PrintT("@@KFE5 " \o ToString(l - 1))

\* high-water mark of consumed lines (register 1), needs -workers 1
HighWater == TLCSet(1, IF l > TLCGet(1) THEN l ELSE TLCGet(1))
Accepted  == IF TLCGet(1) = Len(TLog) + 1 THEN TRUE ELSE PrintT("@@HW " \o ToString(TLCGet(1))) /\ FALSE
ASSUME TLCSet(1, 0)
====
