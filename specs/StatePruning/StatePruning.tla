---------------------------- MODULE StatePruning ----------------------------
(***************************************************************************)
(* State pruning, pruning buffer, snapshots and checkpoints of elrond-go    *)
(* (properties C09, C10), on node SETS.                                     *)
(*                                                                          *)
(* A state version is a record [r, n, dts, h]: r = hash of the main trie    *)
(* root node, n = every trie node reachable from it (main trie and every    *)
(* account data trie, r included), dts = the data tries as records [r, n],  *)
(* h = block nonce.                                                         *)
(* Node ids are small integers (interned hashes in recorded traces).        *)
(*                                                                          *)
(* The actions follow the code:                                             *)
(*   Commit      AccountsDB.Commit -> markForEviction ->                    *)
(*               storagePruningManager.MarkForEviction (removeDuplicatedKeys,*)
(*               evictionWaitingList.Put), AddDirtyCheckpointHashes         *)
(*   Finalize    baseProcessor.updateStateStorage: pruning queue, then      *)
(*               CancelPrune(root, NewRoot); PruneTrie(root, OldRoot)       *)
(*   Rollback    RecreateTrie(prev); baseProcessor.PruneStateOnRollback:    *)
(*               CancelPrune(prev, OldRoot); PruneTrie(cur, NewRoot)        *)
(*   Enter/Exit  trieStorageManager.Enter/ExitPruningBufferingMode          *)
(*   DoPrune/DoCancel/Flush/RemoveFromDb/ShouldKeep                         *)
(*               storagePruningManager.PruneTrie / CancelPrune /            *)
(*               resolveBufferedHashes / removeFromDb,                      *)
(*               evictionWaitingList.ShouldKeepHash, pruningBuffer.Add      *)
(*   SnapStart/CpStart/GEnq/LStep/...   AccountsDB.SnapshotState /          *)
(*               SetStateCheckpoint goroutine, trieStorageManager.TakeSnapshot*)
(*               / SetCheckpoint / storageProcessLoop.takeSnapshot,         *)
(*               checkpointHashesHolder                                     *)
(*                                                                          *)
(* Where the code knowingly departs from the second sentence of C09 the     *)
(* departure is a named branch guarded by KnownDefects:                     *)
(*   "D1" PruneTrie(root, NewRoot) while pruning is blocked cancels the     *)
(*        eviction entry instead of buffering the prune: the rolled-back    *)
(*        block's new nodes are never deleted;                              *)
(*   "D2" pruningBuffer.Add silently drops the request when the buffer is   *)
(*        full;                                                             *)
(*   "D3" a buffered CancelPrune is executed at flush time against whatever *)
(*        entry is stored under that key then: after a rollback while       *)
(*        blocked, the next block on the same parent re-registers           *)
(*        (parent, OldRoot) and the stale cancel evicts the fresh entry, so *)
(*        the parent's obsolete nodes are never deleted.                    *)
(* With KnownDefects = {} the specification describes the intended design   *)
(* (a buffered operation applies only to the entry it was issued for, the   *)
(* buffer does not drop).                                                   *)
(***************************************************************************)
EXTENDS Integers, Sequences, FiniteSets, TLC, SequencesExt, FiniteSetsExt

CONSTANTS Inner,         \* model checking: ids of non-root main-trie nodes
          DataTries,     \* model checking: candidate data tries, records [r, n]
          MaxRoots,      \* model checking: number of fresh blocks
          MaxRollbacks,  \* model checking: number of rollbacks
          BufLens,       \* candidate pruning buffer lengths
          QueueSizes,    \* candidate pruning queue sizes (UserStatePruningQueueSize)
          SnapLimits,    \* candidate MaxSnapshots
          CpMods,        \* candidate stateCheckpointModulus values (0 = off)
          F3Set,         \* subset of BOOLEAN: is the repair of D3 applied (outdated buffered cancels are skipped)?
          MaxBlocked,    \* bound on manual Enter calls
          MaxJobs,       \* bound on snapshot/checkpoint jobs (0 = C09 only)
          AllowReapply,  \* may a rolled-back block be committed again (same root)?
          KnownDefects,  \* subset of {"D1","D2","D3"}
          Log(_, _)

VARIABLES chain,     \* live (not yet pruned) versions, oldest first; Last = current
          nfin,      \* chain[1..nfin] are final
          db,        \* node ids present in the main trie DB
          ewl,       \* eviction waiting list: <<root, id>> -> set of nodes   (id: 0 = OldRoot, 1 = NewRoot)
          buf,       \* pruning buffer: sequence of [key, op, stale]   op "p" prune / "c" cancel; stale is a ghost
          blocked,   \* trieStorageManager.pruningBlockingOps
          manual,    \* how many of them are Enter calls of the driver (not of a job)
          dead,      \* ghost: nodes of versions that have been pruned
          rolled,    \* ghost: rolled-back versions [v, p] (p = parent root) that may be re-applied
          nroots,    \* model checking: [f |-> fresh roots used, rb |-> rollbacks done]
          leak,      \* ghost: [D1, D2, D3 |-> nodes whose deletion was skipped by that deviation]
          quiet,     \* the last step issued an unblocked PruneTrie (which flushes the buffer)
          conf,      \* [buf, q, snaps, cpmod, f3] configuration
          holder,    \* checkpointHashesHolder: sequence of [r, s]
          snaps,     \* snapshot DBs, oldest first: sequence of node sets
          sq,        \* trieStorageManager.snapshotReq: sequence of entries
          cur,       \* entry being processed by storageProcessLoop: <<>> or <<[e, todo, db]>>
          jobs,      \* sequence of [v, kind, phase, pend, main, done, ok]
          hist

cvars == <<chain, nfin, db, ewl, buf, blocked, manual, dead, rolled, nroots, leak, quiet, conf, holder, snaps, sq, cur, jobs>>
vars  == <<chain, nfin, db, ewl, buf, blocked, manual, dead, rolled, nroots, leak, quiet, conf, holder, snaps, sq, cur, jobs, hist>>

OldRoot == 0
NewRoot == 1

Head1(s) == s[1]
Last1(s) == s[Len(s)]
Front1(s) == SubSeq(s, 1, Len(s) - 1)
RangeS(s) == {s[i] : i \in DOMAIN s}

LiveNodes == UNION {chain[i].n : i \in DOMAIN chain}
ChainRoots == [i \in DOMAIN chain |-> chain[i].r]

Drop(e, key) == [x \in (DOMAIN e) \ {key} |-> e[x]]
PutL(e, key, s) == [x \in (DOMAIN e) \cup {key} |-> IF x = key THEN s ELSE e[x]]
EwlSet(e) == {[r |-> key[1], k |-> key[2], s |-> e[key]] : key \in DOMAIN e}
ListOf(e, key) == IF key \in DOMAIN e THEN e[key] ELSE {}

NoLeak == [D1 |-> {}, D2 |-> {}, D3 |-> {}]

-----------------------------------------------------------------------------
(* storagePruningManager on a state record s = [ewl, buf, db, hold, leak]   *)
(* (hold = checkpoint hashes holder, touched by trieStorageManager.Remove)  *)

\* evictionWaitingList.ShouldKeepHash as coded: search every entry, except that entries of
\* old hashes are skipped when the hash itself comes from an OldRoot entry
ShouldKeep(e, h, id) ==
    \E key \in DOMAIN e : ~(key[2] = OldRoot /\ id = OldRoot) /\ h \in e[key]

HolderRemove(hd, rm) == [i \in DOMAIN hd |-> [hd[i] EXCEPT !.s = @ \ rm]]

\* storagePruningManager.prune -> removeFromDb: Evict the entry, delete what no other entry keeps
RemoveFromDb(s, key) ==
    IF key \notin DOMAIN s.ewl THEN s
    ELSE LET hs == s.ewl[key]
             e1 == Drop(s.ewl, key)
             rm == {h \in hs : ~ShouldKeep(e1, h, key[2])}
         IN  [s EXCEPT !.ewl = e1, !.db = @ \ rm, !.hold = HolderRemove(@, rm)]

\* storagePruningManager.cancelPrune (stale: ghost flag of a buffered cancel, see D3).
\* conf.f3: the repaired code remembers which keys were registered again while requests were buffered and
\* does not apply a buffered cancel to an entry that is newer than the request.
CancelNow(s, key, stale) ==
    IF key \notin DOMAIN s.ewl THEN s
    ELSE IF stale /\ ("D3" \notin KnownDefects \/ conf.f3) THEN s
    ELSE [s EXCEPT !.ewl = Drop(@, key),
                   !.leak.D3 = IF stale THEN @ \cup s.ewl[key] ELSE @]

ApplyBuffered(s, e) ==
    IF e.op = "p"
    THEN IF e.stale /\ "D1" \notin KnownDefects THEN s ELSE RemoveFromDb(s, e.key)
    ELSE CancelNow(s, e.key, e.stale)

\* pruningBuffer.RemoveAll + resolveBufferedHashes
Flush(s) == [FoldLeft(ApplyBuffered, s, s.buf) EXCEPT !.buf = <<>>]

\* pruningBuffer.Add
\* ghost: a cancel that is buffered now is newer than any registration of its key, and it will evict whatever
\* an older (stale) cancel of the same key would evict - so the older ones are no deviation any more
Unstale(b, e) ==
    IF e.op = "c" THEN [i \in DOMAIN b |-> IF b[i].key = e.key /\ b[i].op = "c" THEN [b[i] EXCEPT !.stale = FALSE] ELSE b[i]]
    ELSE b
BufAdd(s, e, lim) ==
    IF Len(s.buf) >= lim /\ "D2" \in KnownDefects
    THEN [s EXCEPT !.leak.D2 = @ \cup ListOf(s.ewl, e.key),          \* dropped (the repaired code has already
                   !.buf = Unstale(@, e)]                             \*  forgotten the re-registration of the key)
    ELSE [s EXCEPT !.buf = Append(Unstale(@, e), e)]

BufEntry(r, id, o) == [key |-> <<r, id>>, op |-> o, stale |-> FALSE]

\* storagePruningManager.PruneTrie
DoPrune(s, r, id, isBlocked, lim) ==
    IF isBlocked
    THEN IF id = NewRoot
         THEN IF "D1" \in KnownDefects
              THEN [CancelNow(s, <<r, NewRoot>>, FALSE) EXCEPT !.leak.D1 = @ \cup ListOf(s.ewl, <<r, NewRoot>>)]
              ELSE BufAdd(s, BufEntry(r, NewRoot, "p"), lim)
         ELSE BufAdd(s, BufEntry(r, OldRoot, "p"), lim)
    ELSE RemoveFromDb(Flush(s), <<r, id>>)

\* storagePruningManager.CancelPrune
DoCancel(s, r, id, isBlocked, lim) ==
    IF isBlocked \/ s.buf # <<>>
    THEN BufAdd(s, BufEntry(r, id, "c"), lim)
    ELSE CancelNow(s, <<r, id>>, FALSE)

\* evictionWaitingList.Put; ghost: a buffered operation on the same key becomes stale
PutE(s, key, set) ==
    [s EXCEPT !.ewl = PutL(@, key, set),
              !.buf = [i \in DOMAIN @ |-> IF @[i].key = key THEN [@[i] EXCEPT !.stale = TRUE] ELSE @[i]]]

\* storagePruningManager.MarkForEviction (oldRoot # newRoot)
MarkForEviction(s, oldRoot, newRoot, oldH, newH) ==
    LET o1 == oldH \ newH          \* removeDuplicatedKeys
        n1 == newH \ oldH
        s1 == IF n1 # {} THEN PutE(s, <<newRoot, NewRoot>>, n1) ELSE s
    IN  IF o1 # {} THEN PutE(s1, <<oldRoot, OldRoot>>, o1) ELSE s1

S0 == [ewl |-> ewl, buf |-> buf, db |-> db, hold |-> holder, leak |-> leak]

-----------------------------------------------------------------------------
(* observation *)

St(c, nf, d, e, b) ==
    [chain |-> [i \in DOMAIN c |-> c[i].r], nfin |-> nf, db |-> d, ewl |-> EwlSet(e), blk |-> IF b > 0 THEN 1 ELSE 0]

Rec(a, in, out) ==
    [a |-> a, in |-> in, out |-> out, st |-> St(chain', nfin', db', ewl', blocked')]

UNCHANGED_SNAP == UNCHANGED <<snaps, sq, cur, jobs>>

\* a snapshot ("s") / checkpoint ("c") job of version v, see the snapshot section below
\* conc (ghost): the jobs that were still running when this one was requested
NewJob(v, kind) == [v |-> v, kind |-> kind, phase |-> "enq", pend |-> <<>>, main |-> "none", done |-> FALSE,
                    judged |-> FALSE, ok |-> TRUE, miss |-> {}, conc |-> {k \in DOMAIN jobs : ~jobs[k].done}]

-----------------------------------------------------------------------------
(* block processing *)

\* AccountsDB.Commit of version v on the current head.  oldH/newH are the hashes the tries report as
\* obsolete / dirty (model checking: exactly prev \ v and v \ prev).
\* forced: the checkpoint hashes holder reported "full" and Commit started a checkpoint job for v
Commit(v, oldH, newH, isReapply, forced) ==
    LET prev == Last1(chain)
        s2   == MarkForEviction(S0, prev.r, v.r, oldH, newH)
    IN  /\ v.r \notin RangeS(ChainRoots)
        /\ chain' = Append(chain, v)
        /\ ewl' = s2.ewl /\ buf' = s2.buf
        /\ db' = db \cup v.n
        \* AddDirtyCheckpointHashes(newRoot, newHashes.Clone()) - after removeDuplicatedKeys
        /\ holder' = IF MaxJobs = 0 THEN holder ELSE Append(holder, [r |-> v.r, s |-> newH \ oldH])
        /\ quiet' = FALSE
        /\ blocked' = IF forced THEN blocked + 1 ELSE blocked
        /\ jobs' = IF forced THEN Append(jobs, NewJob(v, "c")) ELSE jobs
        /\ UNCHANGED <<nfin, dead, rolled, leak, conf, manual, snaps, sq, cur>>
        /\ hist' = Log(hist, Rec("Commit", [reapply |-> IF isReapply THEN 1 ELSE 0],
                                  [r |-> v.r, removed |-> {}, cp |-> IF forced THEN 1 ELSE 0]))

\* AccountsDB.Commit with nothing dirty (an empty block on a shard whose state did not change): the root
\* stays, storagePruningManager.MarkForEviction returns at once (old root = new root), but
\* AddDirtyCheckpointHashes(root, {}) still appends an (empty) entry to the checkpoint hashes holder - the
\* entries recorded earlier for that root must stay (seeded change C10-S replaced them)
CommitNoop(forced) ==
    LET v == Last1(chain) IN
    /\ holder' = IF MaxJobs = 0 THEN holder ELSE Append(holder, [r |-> v.r, s |-> {}])
    /\ blocked' = IF forced THEN blocked + 1 ELSE blocked
    /\ jobs' = IF forced THEN Append(jobs, NewJob(v, "c")) ELSE jobs
    /\ UNCHANGED <<chain, nfin, db, ewl, buf, dead, rolled, leak, conf, manual, snaps, sq, cur, quiet>>
    /\ hist' = Log(hist, Rec("CommitNoop", [x |-> 0], [r |-> v.r, removed |-> {}, cp |-> IF forced THEN 1 ELSE 0]))

\* baseProcessor.updateStateStorage for the next non-final block of the chain
Finalize ==
    /\ nfin < Len(chain)
    /\ LET nf  == nfin + 1
           \* stateCheckpointModulus: SetStateCheckpoint(root of the final header) comes first, so the
           \* prune requests of the same call are issued while pruning is blocked
           cp  == conf.cpmod # 0 /\ chain[nf].h % conf.cpmod = 0 /\ Len(jobs) < MaxJobs
           go  == nf > conf.q + 1                 \* the pruning queue returns its oldest root
           rp  == chain[1]
           isB == blocked > 0 \/ cp
           s2  == IF go THEN DoPrune(DoCancel(S0, rp.r, NewRoot, isB, conf.buf), rp.r, OldRoot, isB, conf.buf) ELSE S0
       IN  /\ chain' = IF go THEN Tail(chain) ELSE chain
           /\ nfin' = IF go THEN nf - 1 ELSE nf
           /\ ewl' = s2.ewl /\ buf' = s2.buf /\ db' = s2.db /\ leak' = s2.leak /\ holder' = s2.hold
           /\ dead' = IF go THEN dead \cup rp.n ELSE dead
           /\ quiet' = (go /\ ~isB)
           /\ blocked' = IF cp THEN blocked + 1 ELSE blocked
           /\ jobs' = IF cp THEN Append(jobs, NewJob(chain[nf], "c")) ELSE jobs
           /\ UNCHANGED <<rolled, nroots, conf, manual, snaps, sq, cur>>
           /\ hist' = Log(hist, Rec("Finalize", [r |-> chain[nf].r],
                                     [removed |-> db \ s2.db, pruned |-> IF go THEN rp.r ELSE 0, cp |-> IF cp THEN 1 ELSE 0]))

\* RecreateTrie(prev) + baseProcessor.PruneStateOnRollback for the (non-final) head
Rollback ==
    /\ Len(chain) > nfin
    /\ LET cu  == Last1(chain)
           pv  == chain[Len(chain) - 1]
           isB == blocked > 0
           s2  == DoPrune(DoCancel(S0, pv.r, OldRoot, isB, conf.buf), cu.r, NewRoot, isB, conf.buf)
       IN  /\ chain' = Front1(chain)
           /\ ewl' = s2.ewl /\ buf' = s2.buf /\ db' = s2.db /\ leak' = s2.leak /\ holder' = s2.hold
           /\ dead' = dead \cup cu.n
           /\ rolled' = rolled \cup {[v |-> cu, p |-> pv.r]}
           /\ quiet' = ~isB
           /\ nroots' = [nroots EXCEPT !.rb = @ + 1]
           /\ UNCHANGED <<nfin, blocked, conf, manual>>
           /\ UNCHANGED_SNAP
           /\ hist' = Log(hist, Rec("Rollback", [r |-> cu.r], [removed |-> db \ s2.db, prev |-> pv.r]))

Enter ==
    /\ blocked' = blocked + 1
    /\ manual' = manual + 1
    /\ quiet' = FALSE
    /\ UNCHANGED <<chain, nfin, db, ewl, buf, dead, rolled, nroots, leak, conf, holder>>
    /\ UNCHANGED_SNAP
    /\ hist' = Log(hist, Rec("Enter", [x |-> 0], [removed |-> {}]))

Exit ==
    /\ manual > 0
    /\ blocked' = blocked - 1
    /\ manual' = manual - 1
    /\ quiet' = FALSE
    /\ UNCHANGED <<chain, nfin, db, ewl, buf, dead, rolled, nroots, leak, conf, holder>>
    /\ UNCHANGED_SNAP
    /\ hist' = Log(hist, Rec("Exit", [x |-> 0], [removed |-> {}]))

-----------------------------------------------------------------------------
(* snapshots and checkpoints.                                               *)
(* A job is one AccountsDB.SnapshotState / SetStateCheckpoint call: its     *)
(* goroutine G enqueues the main trie entry, receives the leaves while the  *)
(* storage loop copies the main trie, enqueues one entry per data trie,     *)
(* then leaves buffering mode.  The loop L (storageProcessLoop) takes one   *)
(* entry at a time and copies node by node.                                 *)
(* job.phase: "enq" (G not yet called TakeSnapshot/SetCheckpoint for the    *)
(* main trie), "leaves" (main entry queued, G consumes leaves), "exited".   *)
(* job.pend: data tries whose leaf G has received but not yet enqueued;     *)
(* job.main: "queued" / "running" / "done".                                 *)

Busy == cur # <<>>
JobIds == DOMAIN jobs
Active(j) == ~jobs[j].done

NewEntry(j, root, nodes, typ, isMain) ==
    [j |-> j, r |-> root, n |-> nodes, typ |-> typ, newDb |-> (isMain /\ typ = "s"), main |-> isMain]

MainNodes(v) == v.n \ UNION {d.n : d \in v.dts}

\* checkpointHashesHolder.RemoveCommitted
RemoveCommitted(hd, root) ==
    IF \E i \in DOMAIN hd : hd[i].r = root
    THEN LET i == CHOOSE k \in DOMAIN hd : hd[k].r = root /\ \A m \in DOMAIN hd : hd[m].r = root => k <= m
         IN  SubSeq(hd, i + 1, Len(hd))
    ELSE hd

Marked(hd, h) == \E i \in DOMAIN hd : h \in hd[i].s

\* AccountsDB.SnapshotState / SetStateCheckpoint (driver thread, under AccountsDB.mutOp)
JobStart(i, kind) ==
    LET v == chain[i] IN
    /\ Len(jobs) < MaxJobs
    /\ blocked' = blocked + 1
    /\ jobs' = Append(jobs, NewJob(v, kind))
    /\ quiet' = FALSE
    /\ UNCHANGED <<chain, nfin, db, ewl, buf, dead, rolled, nroots, leak, conf, manual, holder, snaps, sq, cur>>
    /\ hist' = Log(hist, Rec(IF kind = "s" THEN "SnapStart" ELSE "CpStart", [r |-> v.r, idx |-> i], [removed |-> {}]))

\* the verdict of C10 for a finished job: the snapshot DB that GetSnapshotThatContainsHash(root)
\* returns (the oldest one containing the root) holds every node of the version
Complete(sn, v) ==
    /\ \E i \in DOMAIN sn : v.r \in sn[i]
    /\ LET i == CHOOSE k \in DOMAIN sn : v.r \in sn[k] /\ \A m \in DOMAIN sn : v.r \in sn[m] => k <= m
       IN  v.n \subseteq sn[i]

\* the nodes of v that the snapshot DB returned for its root lacks
MissOf(sn, v) ==
    IF \E i \in DOMAIN sn : v.r \in sn[i]
    THEN LET i == CHOOSE k \in DOMAIN sn : v.r \in sn[k] /\ \A m \in DOMAIN sn : v.r \in sn[m] => k <= m
         IN  v.n \ sn[i]
    ELSE v.n

\* job j is finished when G has exited and none of its entries is queued or running.  The verdict of
\* C10 is taken when no job is running any more (then every job finished since the last such moment is
\* judged): the snapshot DB returned for the root holds the whole version.
Finish(js, q, c, sn) ==
    LET js1 == [j \in DOMAIN js |->
                   IF /\ ~js[j].done
                      /\ js[j].phase = "exited"
                      /\ ~(\E i \in DOMAIN q : q[i].j = j)
                      /\ ~(c # <<>> /\ c[1].e.j = j)
                   THEN [js[j] EXCEPT !.done = TRUE]
                   ELSE js[j]]
        idle == \A j \in DOMAIN js1 : js1[j].done
    IN  IF idle
        THEN [j \in DOMAIN js1 |-> IF js1[j].judged THEN js1[j]
                                    ELSE [js1[j] EXCEPT !.judged = TRUE, !.ok = Complete(sn, js1[j].v),
                                                         !.miss = MissOf(sn, js1[j].v)]]
        ELSE js1

\* G of job j calls TakeSnapshot / SetCheckpoint for the main trie
GEnqMain(j) ==
    /\ j \in JobIds /\ jobs[j].phase = "enq"
    /\ LET v == jobs[j].v
           typ == jobs[j].kind
       IN  /\ blocked' = blocked + 1
           /\ holder' = IF typ = "s" THEN RemoveCommitted(holder, v.r) ELSE holder
           /\ sq' = Append(sq, NewEntry(j, v.r, MainNodes(v), typ, TRUE))
           /\ jobs' = [jobs EXCEPT ![j].phase = "leaves", ![j].main = "queued"]
    /\ quiet' = FALSE
    /\ UNCHANGED <<chain, nfin, db, ewl, buf, dead, rolled, nroots, leak, conf, manual, snaps, cur>>
    /\ hist' = Log(hist, Rec("GEnq", [j |-> j, main |-> 1], [removed |-> {}]))

\* G of job j has received the leaf of an account with data trie d and enqueues it
GEnqData(j) ==
    /\ j \in JobIds /\ jobs[j].phase = "leaves" /\ jobs[j].pend # <<>>
    /\ LET d == Head(jobs[j].pend)
           typ == jobs[j].kind
       IN  /\ blocked' = blocked + 1
           /\ sq' = Append(sq, NewEntry(j, d.r, d.n, typ, FALSE))
           /\ jobs' = [jobs EXCEPT ![j].pend = Tail(@)]
    /\ quiet' = FALSE
    /\ UNCHANGED <<chain, nfin, db, ewl, buf, dead, rolled, nroots, leak, conf, manual, holder, snaps, cur>>
    /\ hist' = Log(hist, Rec("GEnq", [j |-> j, main |-> 0], [removed |-> {}]))

\* G of job j: the leaves channel is closed and drained -> ExitPruningBufferingMode, job accounting
GExit(j) ==
    /\ j \in JobIds /\ jobs[j].phase = "leaves" /\ jobs[j].pend = <<>> /\ jobs[j].main = "done"
    /\ blocked' = blocked - 1
    /\ jobs' = Finish([jobs EXCEPT ![j].phase = "exited"], sq, cur, snaps)
    /\ quiet' = FALSE
    /\ UNCHANGED <<chain, nfin, db, ewl, buf, dead, rolled, nroots, leak, conf, manual, holder, snaps, sq, cur>>
    /\ hist' = Log(hist, Rec("GExit", [j |-> j], [removed |-> {}]))

\* trieStorageManager.getSnapshotDb
SnapDbFor(sn, newDb) ==
    IF newDb \/ sn = <<>>
    THEN LET s1 == Append(sn, {}) IN IF Len(s1) > conf.snaps THEN Tail(s1) ELSE s1
    ELSE sn

\* L takes the next entry: takeSnapshot up to the first read of the root node
LTake ==
    /\ ~Busy /\ sq # <<>>
    /\ LET e == Head(sq)
           present == snaps # <<>> /\ e.r \in Last1(snaps)          \* isPresentInLastSnapshotDb
           missing == e.r \notin db                                   \* newSnapshotNode fails
       IN  IF present \/ missing
           THEN \* nothing copied; deferred ExitPruningBufferingMode, leaves channel closed
                /\ cur' = <<>>
                /\ blocked' = blocked - 1
                /\ snaps' = snaps
                /\ jobs' = Finish([jobs EXCEPT ![e.j].main = IF e.main THEN "done" ELSE @], Tail(sq), <<>>, snaps)
           ELSE /\ snaps' = SnapDbFor(snaps, e.newDb)
                /\ cur' = <<[e |-> e, todo |-> e.n \ {e.r}]>>
                /\ blocked' = blocked
                /\ jobs' = [jobs EXCEPT ![e.j].main = IF e.main THEN "running" ELSE @]
    /\ sq' = Tail(sq)
    /\ quiet' = FALSE
    /\ UNCHANGED <<chain, nfin, db, ewl, buf, dead, rolled, nroots, leak, conf, manual, holder>>
    /\ hist' = Log(hist, Rec("LTake", [x |-> 0], [removed |-> {}]))

\* L copies one node h of the running entry (children before the root; the root is written last)
\* snapshot: every node; checkpoint: only nodes marked in the hashes holder, which are then unmarked
LCopy(h) ==
    /\ Busy
    /\ LET c == cur[1]
           e == c.e
           j == e.j
           v == jobs[j].v
           last == Len(snaps)
       IN  /\ h \in c.todo
           /\ IF h \notin db
              THEN \* read error: commitSnapshot/commitCheckpoint returns, entry abandoned
                   /\ cur' = <<>>
                   /\ blocked' = blocked - 1
                   /\ UNCHANGED <<snaps, holder>>
                   /\ jobs' = Finish([jobs EXCEPT ![j].main = IF e.main THEN "done" ELSE @], sq, <<>>, snaps)
              ELSE /\ IF e.typ = "s" \/ Marked(holder, h)
                      THEN /\ snaps' = [snaps EXCEPT ![last] = @ \cup {h}]
                           /\ holder' = IF e.typ = "c" THEN HolderRemove(holder, {h}) ELSE holder
                      ELSE UNCHANGED <<snaps, holder>>
                   /\ cur' = <<[c EXCEPT !.todo = @ \ {h}]>>
                   /\ blocked' = blocked
                   \* a main-trie leaf of an account with a data trie reaches G through the leaves channel
                   /\ jobs' = IF e.main /\ (e.typ = "s" \/ Marked(holder, h))
                              THEN [jobs EXCEPT ![j].pend = @ \o SetToSeq({d \in v.dts : d.leaf = h})]
                              ELSE jobs
    /\ quiet' = FALSE
    /\ UNCHANGED <<chain, nfin, db, ewl, buf, dead, rolled, nroots, leak, conf, manual, sq>>
    /\ hist' = Log(hist, Rec("LStep", [x |-> 0], [removed |-> {}]))

\* L finishes the entry: the root node is written, deferred Exit, leaves channel closed
LFinish ==
    /\ Busy /\ cur[1].todo = {}
    /\ LET e == cur[1].e
           last == Len(snaps)
           wr == e.typ = "s" \/ Marked(holder, e.r)
       IN  /\ snaps' = IF wr THEN [snaps EXCEPT ![last] = @ \cup {e.r}] ELSE snaps
           /\ holder' = IF wr /\ e.typ = "c" THEN HolderRemove(holder, {e.r}) ELSE holder
           /\ cur' = <<>>
           /\ blocked' = blocked - 1
           /\ jobs' = Finish([jobs EXCEPT ![e.j].main = IF e.main THEN "done" ELSE @], sq, <<>>, snaps')
    /\ quiet' = FALSE
    /\ UNCHANGED <<chain, nfin, db, ewl, buf, dead, rolled, nroots, leak, conf, manual, sq>>
    /\ hist' = Log(hist, Rec("LStep", [x |-> 1], [removed |-> {}]))

-----------------------------------------------------------------------------
(* model checking: versions over Inner / DataTries *)

RootId(k) == 100 + k

\* a data trie d = [r, n, leaf]: leaf is the main-trie leaf of the account that owns it
Versions(k) ==
    {[r |-> RootId(k), n |-> {RootId(k)} \cup s \cup UNION {d.n \cup {d.leaf} : d \in ds}, dts |-> ds, h |-> 0] :
        s \in SUBSET Inner, ds \in SUBSET DataTries}

Init ==
    /\ \E v \in Versions(0) :
          /\ chain = <<v>> /\ db = v.n /\ ewl = (<<v.r, NewRoot>> :> v.n)
          /\ holder = <<[r |-> v.r, s |-> v.n]>>
    /\ nfin = 1 /\ buf = <<>> /\ blocked = 0 /\ manual = 0 /\ dead = {} /\ rolled = {} /\ nroots = [f |-> 0, rb |-> 0]
    /\ leak = NoLeak /\ quiet = FALSE
    /\ conf \in [buf : BufLens, q : QueueSizes, snaps : SnapLimits, cpmod : CpMods, f3 : F3Set]
    /\ snaps = <<>> /\ sq = <<>> /\ cur = <<>> /\ jobs = <<>>
    /\ hist = <<[a |-> "New", in |-> conf, out |-> [r |-> chain[1].r, removed |-> {}],
                 st |-> St(chain, nfin, db, ewl, blocked)]>>

CommitFresh ==
    /\ nroots.f < MaxRoots
    /\ nroots' = [nroots EXCEPT !.f = @ + 1]
    /\ \E v0 \in Versions(nroots.f + 1) :
          LET prev == Last1(chain)
              v == [v0 EXCEPT !.h = prev.h + 1]
          IN  Commit(v, prev.n \ v.n, v.n \ prev.n, FALSE, FALSE)

CommitReapply ==
    /\ AllowReapply
    /\ UNCHANGED nroots
    /\ \E x \in rolled :
          /\ x.p = Last1(chain).r
          /\ LET prev == Last1(chain) IN Commit(x.v, prev.n \ x.v.n, x.v.n \ prev.n, TRUE, FALSE)

JobStartAny == \E i \in DOMAIN chain : \E k \in {"s", "c"} : JobStart(i, k)
GEnqMainAny == \E j \in JobIds : GEnqMain(j)
GEnqDataAny == \E j \in JobIds : GEnqData(j)
GExitAny    == \E j \in JobIds : GExit(j)
LCopyAny    == \E h \in (IF Busy THEN cur[1].todo ELSE {}) : LCopy(h)
RollbackB   == nroots.rb < MaxRollbacks /\ Rollback
EnterB      == manual < MaxBlocked /\ Enter

SnapNext == JobStartAny \/ GEnqMainAny \/ GEnqDataAny \/ GExitAny \/ LTake \/ LCopyAny \/ LFinish

BlockNext == CommitFresh \/ CommitReapply \/ Finalize \/ RollbackB \/ EnterB \/ Exit

Next == BlockNext \/ SnapNext

Spec == Init /\ [][Next]_vars

-----------------------------------------------------------------------------
(* Properties *)

TypeOK ==
    /\ nfin >= 1 /\ nfin <= Len(chain)
    /\ \A i, j \in DOMAIN chain : i # j => chain[i].r # chain[j].r
    /\ blocked >= 0

\* C09, first sentence: every node of every root that has not been pruned is in the main DB
Inv_C09_Safety == \A i \in DOMAIN chain : chain[i].n \subseteq db

Garbage == (db \cap dead) \ LiveNodes

\* C09, second sentence: once an unblocked prune has flushed the buffer, nodes that belong only to
\* pruned roots are gone
Inv_C09_Gc == quiet => Garbage = {}

\* ... up to the three named deviations (used on recorded traces of the code as it is)
Inv_C09_GcUnexplained == quiet => Garbage \subseteq (leak.D1 \cup leak.D2 \cup leak.D3)

\* ... and on recorded traces of the code as it is: a missing node of a live root is explained only by
\* D3 (an entry evicted by a stale buffered cancel no longer protects its nodes)
Missing(i) == chain[i].n \ db
Inv_C09_SafetyUnexplained == \A i \in DOMAIN chain : Missing(i) \subseteq leak.D3

\* with the repair of D3 no stale cancel is ever executed
Inv_NoD3 == conf.f3 => leak.D3 = {}

\* an unblocked prune leaves the buffer empty
Inv_QuietFlushed == quiet => buf = <<>>

\* code as it is: only OldRoot prunes of final roots are buffered, they never go stale
Inv_NoStalePrune == "D1" \in KnownDefects => \A i \in DOMAIN buf : buf[i].op = "p" => ~buf[i].stale

\* C10: a finished snapshot/checkpoint job holds the whole version
Inv_C10_Complete == \A j \in JobIds : jobs[j].judged => jobs[j].ok

\* ... up to the named deviation E1: a checkpoint of a root that is not newer than a root whose snapshot was
\* requested finds none of its nodes marked in the checkpoint hashes holder (TakeSnapshot ->
\* RemoveCommitted dropped the holder entries up to the snapshot root) and copies nothing
ExplainedE1(j) ==
    /\ jobs[j].kind = "c"
    /\ \E k \in JobIds : k # j /\ jobs[k].kind = "s" /\ jobs[k].v.h >= jobs[j].v.h
\* ... and E2: two jobs that run at the same time interfere - the accounts goroutines race for the request queue,
\* data tries go to whatever snapshot DB is the last one when their entry is processed, TakeSnapshot unmarks the
\* hashes holder entries a queued checkpoint still needs, and a root already present in the last snapshot DB
\* (written by an unfinished checkpoint) makes the snapshot skip its work
Overlap(j, k) == k \in jobs[j].conc \/ j \in jobs[k].conc
ExplainedE2(j) == \E k \in JobIds : k # j /\ Overlap(j, k)
\* ... and E3, a consequence: a checkpoint only adds the nodes marked since the last snapshot/checkpoint, so it
\* is incomplete whenever an earlier job left the snapshot DB incomplete (E1/E2)
\* (a snapshot is hit too when the earlier job left the root - of the main trie or of a data trie - in the last
\* snapshot DB: isPresentInLastSnapshotDb makes takeSnapshot skip that trie; then what it misses was already missed)
ExplainedE3(j) ==
    \E k \in JobIds : /\ k < j /\ jobs[k].judged /\ ~jobs[k].ok
                       /\ (jobs[j].kind = "c" \/ (jobs[j].miss # {} /\ jobs[j].miss \subseteq jobs[k].v.n))
\* ... and E4: commitCheckpoint unmarks a copied hash in EVERY entry of the hashes holder (Remove(hash)), also in the
\* entries of newer, already committed roots that contain the same node.  If a snapshot of a root WITHOUT that node
\* then opens a new snapshot DB, the checkpoint of the newer root does not copy the node (unmarked) and the new DB
\* lacks it.  Every missing node must be explained that way.
ExplainedE4(j) ==
    /\ jobs[j].kind = "c" /\ jobs[j].miss # {}
    /\ \A x \in jobs[j].miss :
          \E k, m \in JobIds : /\ k < m /\ m < j
                                /\ jobs[k].kind = "c" /\ x \in jobs[k].v.n
                                /\ jobs[m].kind = "s" /\ x \notin jobs[m].v.n
Inv_C10_CompleteUnexplained ==
    \A j \in JobIds : (jobs[j].judged /\ ~jobs[j].ok) =>
        (ExplainedE1(j) \/ ExplainedE2(j) \/ ExplainedE3(j) \/ ExplainedE4(j))

\* C10: while a job is running its source nodes stay in the main DB and pruning is blocked
Inv_C10_Source == \A j \in JobIds : Active(j) => (jobs[j].v.n \subseteq db /\ blocked > 0)
=============================================================================
