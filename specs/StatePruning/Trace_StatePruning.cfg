SPECIFICATION TraceSpec
CONSTANTS
  Inner = {}
  DataTries = {}
  MaxRoots = 0
  MaxRollbacks = 0
  BufLens = {}
  QueueSizes = {}
  SnapLimits = {}
  CpMods = {}
  F3Set = {}
  MaxBlocked = 0
  MaxJobs = 1000
  AllowReapply = TRUE
  KnownDefects <- KD123
  Log <- LogLast
CONSTRAINT HighWater
INVARIANTS Inv_C09_SafetyObsUnexplained Inv_C09_GcUnexplained Inv_C10_CompleteUnexplainedT Report_D1 Report_D2 Report_D3 Report_D3S Report_E1 Report_E2 Report_E3 Report_E4 Report_E5
POSTCONDITION Accepted
CHECK_DEADLOCK FALSE
