---- MODULE MC_StatePruning ----
EXTENDS StatePruning, Json
CONSTANT Depth
LogAppend(h, r) == Append(h, r)
LogLast(h, r) == <<r>>
\* node universes for model checking
MCInner1 == {1}
MCInner2 == {1, 2}
MCInner3 == {1, 2, 3}
MCNoData == {}
\* two candidate data tries: [r = data root, n = nodes of the data trie, leaf = the account's leaf in the main trie]
MCData1 == {[r |-> 21, n |-> {21, 22}, leaf |-> 11]}
MCData2 == {[r |-> 21, n |-> {21, 22}, leaf |-> 11], [r |-> 23, n |-> {23}, leaf |-> 12]}
MCVersionsWithLeaves(k) ==
    {[r |-> RootId(k),
      n |-> {RootId(k)} \cup s \cup UNION {d.n \cup {d.leaf} : d \in ds},
      dts |-> ds] : s \in SUBSET Inner, ds \in SUBSET DataTries}
D123 == {"D1", "D2", "D3"}
D1 == {"D1"}
D2 == {"D2"}
D3 == {"D3"}
D0 == {}
\* behaviour export (schedule level): one behaviour per transition of the abstract state graph
GenNext  == Len(hist) < Depth /\ Next
GenSpec  == Init /\ [][GenNext]_vars
Sched(h) == [i \in DOMAIN h |-> [a |-> h[i].a, in |-> h[i].in]]
EmitEdge == PrintT("@@B " \o ToJson(Sched(hist')))
EmitFull == (Len(hist') = Depth) => PrintT("@@B " \o ToJson(Sched(hist')))
====
