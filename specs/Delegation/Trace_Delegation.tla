---- MODULE Trace_Delegation ----
(* Trace validation: trace.ndjson holds operation sequences executed on the REAL delegation contract (created      *)
(* through the real delegation manager, staking through the real validator SC) with GlobalFundData, every           *)
(* DelegatorData and every Fund it references read back from storage after each call, plus the value transferred    *)
(* to the caller.  Strict mode: every event is the specification's action with the logged result and state.          *)
(* Observation mode: logged states are only observed; history variables are accumulated from the events.            *)
(* In both, the C38 invariants are evaluated by TLC on every observed state.                                         *)
EXTENDS Delegation, Json, TLCExt
LogLast(h, r) == <<r>>
Either == {TRUE, FALSE}
StaleCheckpointDefect == {"StaleCheckpoint"}
TLog == ndJsonDeserialize("trace.ndjson")
VARIABLE l, obs     \* obs = the last observed projection (references to funds are only visible there)
tvars == <<vars, l, obs>>
Ev == TLog[l]
IsEvent(name) == l <= Len(TLog) /\ Ev.a = name /\ l' = l + 1
Matches == hist'[1].out.ok = Ev.out.ok /\ hist'[1].out.paid = Ev.out.paid /\ hist'[1].st = Ev.st /\ obs' = Ev.st

\* every delegator only references funds that exist (evaluated on the observed projection)
Inv_C38_refs ==
    obs = <<>> \/ \A d \in D : obs.del[d].ex =>
        /\ (obs.del[d].has => obs.del[d].aok)
        /\ \A i \in 1..Len(obs.del[d].un) : obs.del[d].un[i].ok

\* rewards paid + what the REAL contract says every delegator can claim now (getClaimableRewards) <= rewards received
ObsClm(d) == obs.del[d].clm
Inv_C38_rewards_owed_obs == obs = <<>> \/ hv.paid + SumSet({d \in D : obs.del[d].ex}, ObsClm) <= hv.received
M_rewards_owed_obs == tainted \/ Inv_C38_rewards_owed_obs

\* reported when, on a trace in which the named deviation has bitten, the property is false on the observed state
Mark == (tainted' /\ ~Inv_C38_rewards_owed_obs') => PrintT("@@KD" \o ToString(l) \o " 1")

EmptyHv == [received |-> 0, paid |-> 0, withdrawn |-> 0, undelegated |-> 0, nrew |-> 0]

TraceInit ==
    /\ l = 1 /\ hist = <<>> /\ obs = <<>>
    /\ conf = [minDel |-> 1, minDep |-> 1, period |-> 0, belowMin |-> FALSE]
    /\ epoch = 0 /\ fee = 0 /\ cap = 0 /\ ccr = TRUE /\ iof = 0
    /\ del = [d \in D |-> NoDel] /\ tot = [active |-> 0, unstaked |-> 0] /\ rew = <<>> /\ hv = EmptyHv /\ tainted = FALSE

TNew ==
    /\ IsEvent("New")
    /\ conf' = [minDel |-> Ev.in.minDel, minDep |-> Ev.in.minDep, period |-> Ev.in.period, belowMin |-> Ev.in.belowMin]
    /\ epoch' = Ev.in.e0 /\ fee' = Ev.in.fee /\ cap' = Ev.in.cap /\ ccr' = TRUE /\ iof' = Ev.in.v0
    /\ del' = [d \in D |-> IF d = Owner THEN [ex |-> TRUE, has |-> TRUE, a |-> Ev.in.v0, un |-> <<>>, unc |-> 0, ckpt |-> Ev.in.e0 + 1]
                           ELSE NoDel]
    /\ tot' = [active |-> Ev.in.v0, unstaked |-> 0] /\ rew' = <<>> /\ hv' = EmptyHv /\ tainted' = FALSE
    /\ hist' = <<[a |-> "New", in |-> Ev.in, out |-> Ev.out, st |-> Ev.st]>>
    /\ obs' = Ev.st
    /\ Ev.st = [epoch |-> epoch', iof |-> iof', fee |-> fee', cap |-> cap', tot |-> tot',
                del |-> [d \in D |-> StDel(del'[d], d, rew', epoch')], rew |-> rew']

Strict ==
    \/ IsEvent("Delegate") /\ \E fx \in BOOLEAN : Delegate(Ev.in.d, Ev.in.v, fx)
    \/ IsEvent("ReDelegate") /\ \E fx \in BOOLEAN : ReDelegate(Ev.in.d, fx)
    \/ IsEvent("UnDelegate") /\ UnDelegate(Ev.in.d, Ev.in.v)
    \/ IsEvent("Withdraw") /\ Withdraw(Ev.in.d)
    \/ IsEvent("Claim") /\ \E fx \in BOOLEAN : Claim(Ev.in.d, fx)
    \/ IsEvent("UpdateRewards") /\ UpdateRewards(Ev.in.v, Ev.in.auth)
    \/ IsEvent("ChangeFee") /\ ChangeFee(Ev.in.d, Ev.in.f)
    \/ IsEvent("ModifyCap") /\ ModifyCap(Ev.in.d, Ev.in.c)
    \/ IsEvent("NextEpoch") /\ NextEpoch

\* observation only
ObsDel(o) == [ex |-> o.ex, has |-> o.has, a |-> o.a, un |-> [i \in 1..Len(o.un) |-> [v |-> o.un[i].v, e |-> o.un[i].e]],
              unc |-> o.unc, ckpt |-> o.ckpt]
Paid == IF Ev.out.ok THEN Ev.out.paid ELSE 0
ObsStale ==
    /\ Ev.a \in {"Delegate", "ReDelegate"} /\ Ev.out.ok
    /\ del[Ev.in.d].ex /\ ~del[Ev.in.d].has /\ Ev.st.del[Ev.in.d].has
    /\ Ev.st.del[Ev.in.d].clm > Ev.st.del[Ev.in.d].unc      \* the real contract owes it rewards for the time it had no stake
Obs ==
    /\ l <= Len(TLog) /\ Ev.a # "New" /\ l' = l + 1
    /\ epoch' = Ev.st.epoch /\ iof' = Ev.st.iof /\ fee' = Ev.st.fee /\ cap' = Ev.st.cap /\ ccr' = ccr
    /\ tot' = Ev.st.tot /\ rew' = Ev.st.rew
    /\ del' = [d \in D |-> ObsDel(Ev.st.del[d])]
    /\ conf' = conf
    /\ hv' = [received |-> hv.received + (IF Ev.a = "UpdateRewards" /\ Ev.out.ok THEN Ev.in.v ELSE 0),
              paid |-> hv.paid + (IF Ev.a = "Claim" THEN Paid
                                  ELSE IF Ev.a = "ReDelegate" /\ Ev.out.ok
                                       THEN Ev.st.tot.active - tot.active ELSE 0),
              withdrawn |-> hv.withdrawn + (IF Ev.a = "Withdraw" THEN Paid ELSE 0),
              undelegated |-> hv.undelegated + (IF Ev.a = "UnDelegate" /\ Ev.out.ok THEN Ev.in.v ELSE 0),
              nrew |-> hv.nrew]
    /\ tainted' = (tainted \/ ObsStale)
    /\ obs' = Ev.st
    /\ hist' = <<[a |-> Ev.a, in |-> Ev.in, out |-> Ev.out, st |-> Ev.st]>>

TraceNext == TNew \/ (~tainted /\ Strict /\ Matches /\ Mark) \/ (tainted /\ Obs /\ Mark)
TraceSpec == TraceInit /\ [][TraceNext]_tvars

ObsNext == TNew \/ (Obs /\ Mark)
ObsSpec == TraceInit /\ [][ObsNext]_tvars

HighWater == TLCSet(1, IF l > TLCGet(1) THEN l ELSE TLCGet(1))
Accepted  == IF TLCGet(1) = Len(TLog) + 1 THEN TRUE ELSE PrintT("@@HW " \o ToString(TLCGet(1))) /\ FALSE
ASSUME TLCSet(1, 0)
====
