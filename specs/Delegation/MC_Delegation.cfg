SPECIFICATION MCSpec
CONSTANTS
  D = {"o", "x", "y"}
  Owner = "o"
  Confs <- ConfsTiny
  Amounts = {2, 3, 5}
  RewardVals = {0, 6}
  Fees = {0}
  Caps = {0}
  MaxEpoch = 3
  MaxTotal = 10
  MaxRew = 2
  KnownDefects <- NoDefects
  FixChoices <- CodeAsIs
  Log <- LogLast
  Depth = 8
VIEW cvars
CONSTRAINT LevelBound
INVARIANTS TypeOK Inv_C38_active Inv_C38_unstaked Inv_C38_withdrawn Inv_C38_rewards Inv_C38_rewards_owed
CHECK_DEADLOCK FALSE
