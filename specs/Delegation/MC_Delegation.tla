---- MODULE MC_Delegation ----
(* Exhaustive / behaviour-export configurations of Delegation. *)
EXTENDS Delegation, Json
CONSTANT Depth

LogAppend(h, r) == Append(h, r)
LogLast(h, r) == <<r>>
LogNone(h, r) == <<>>      \* exhaustive checking: the observation record is never built (TLC evaluates arguments lazily)
LogSlim(h, r) == IF Len(h) = 0 THEN <<r>> ELSE Append([h EXCEPT ![Len(h)] = [a |-> @.a, in |-> @.in, out |-> @.out]], r)

T == TRUE
F == FALSE
\* configuration = createNewDelegationContract(cap, fee) with value v0 in epoch e0 + the protocol constants
MkConfs(mins, periods, caps, fees, flags, v0s) ==
    {[minDel |-> m, minDep |-> 4, period |-> p, cap |-> c, fee |-> f, belowMin |-> b, v0 |-> v, e0 |-> 1, ubv2 |-> T] :
        m \in mins, p \in periods, c \in caps, f \in fees, b \in flags, v \in v0s}

ConfsTiny   == MkConfs({3}, {1}, {0}, {0}, {T}, {4})
ConfsSmall  == MkConfs({3}, {1}, {0}, {0, 2500}, {T}, {4})
ConfsMedium == MkConfs({3}, {0, 1}, {0, 12}, {0, 2500}, {T}, {4})
ConfsSim    == {[c EXCEPT !.ubv2 = u, !.e0 = e] : c \in MkConfs({3, 5}, {0, 1, 2}, {0, 14, 30}, {0, 1000, 2500, 10000}, {T, F}, {6, 9}),
                                                  u \in BOOLEAN, e \in {0, 1, 3}}

NoDefects == {}
StaleCheckpointDefect == {"StaleCheckpoint"}
CodeAsIs == {FALSE}
Either == {TRUE, FALSE}

\* bounded exploration by depth: `steps` is the length of the behaviour so far (only LogAppend/LogSlim keep it in hist)
GenNext  == Len(hist) < Depth /\ ~tainted /\ Next
GenSpec  == Init /\ [][GenNext]_vars
EmitEdge == PrintT("@@B " \o ToJson(hist'))
EmitFull == (Len(hist') = Depth \/ tainted') =>
               (IF TLCGet(3) = SubSeq(hist', 1, Len(hist') - 1) THEN TRUE
                ELSE TLCSet(3, SubSeq(hist', 1, Len(hist') - 1)) /\ PrintT("@@B " \o ToJson(hist')))
ASSUME TLCSet(3, <<>>)

\* exhaustive checking stops where the deviation has bitten (what follows is its consequence)
LevelBound == TLCGet("level") <= Depth      \* CONSTRAINT of the exhaustive runs: all behaviours up to Depth steps
MCNext == ~tainted /\ Next
MCSpec == Init /\ [][MCNext]_vars
====
