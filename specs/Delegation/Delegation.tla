----------------------------- MODULE Delegation -----------------------------
(***************************************************************************)
(* Specification of one delegation contract instance                        *)
(* (vm/systemSmartContracts/delegation.go) as far as property C38 is        *)
(* concerned: the fund bookkeeping (GlobalFundData, every DelegatorData and *)
(* the Fund records it references) and the rewards bookkeeping              *)
(* (RewardComputationData per epoch, unclaimed rewards, rewards checkpoint).*)
(*                                                                          *)
(* One action per public function, transcribed branch by branch; a call     *)
(* that does not return Ok changes nothing.  The contract has no nodes, so  *)
(* the validator SC (validator.go stake / unStakeTokens / unBondTokens,     *)
(* reached through eei.ExecuteOnDestContext) holds exactly TotalActive as   *)
(* the contract's stake; its acceptance rule for unStakeTokens is the guard *)
(* ValidatorAcceptsUnStake, and it never returns data, so the delegation    *)
(* contract always takes the requested amount as the actual one.            *)
(*                                                                          *)
(* Named deviation (KnownDefects contains "StaleCheckpoint"):               *)
(* computeAndUpdateRewards returns early for a delegator without an active  *)
(* fund and leaves RewardsCheckpoint where it was; when that delegator      *)
(* delegates again the epochs in between are paid with the new fund.        *)
(***************************************************************************)
EXTENDS Integers, Sequences, FiniteSets, TLC

CONSTANTS D,            \* delegator addresses (strings)
          Owner,        \* the contract owner, a member of D
          Confs,        \* candidate configurations (records, see Init)
          Amounts,      \* candidate values for delegate / unDelegate
          RewardVals,   \* candidate values of an end-of-epoch rewards call
          Fees,         \* candidate service fees (out of MaxFee)
          Caps,         \* candidate delegation caps (0 = none)
          MaxEpoch, MaxTotal, MaxRew,   \* bounds of exhaustive runs
          KnownDefects, FixChoices,
          Log(_, _)

MaxFee == 10000

VARIABLES epoch,
          conf,     \* static: [minDel, minDep, period, belowMin]
          fee, cap, ccr,   \* service fee, MaxDelegationCap, CheckCapOnReDelegateRewards
          iof,      \* InitialOwnerFunds
          del,      \* delegator -> [ex, has, a, un, unc, ckpt]; un = sequence of [v, e]
          tot,      \* [active, unstaked]   (GlobalFundData)
          rew,      \* sequence of [e, td, ta, fee], increasing e   (RewardComputationData per epoch)
          hv,       \* history: [received, paid, withdrawn, undelegated, nrew]
          tainted,  \* history: the named deviation has produced an over-entitlement in this behaviour
          hist

cvars == <<epoch, conf, fee, cap, ccr, iof, del, tot, rew, hv, tainted>>
vars  == <<epoch, conf, fee, cap, ccr, iof, del, tot, rew, hv, tainted, hist>>

NoDel == [ex |-> FALSE, has |-> FALSE, a |-> 0, un |-> <<>>, unc |-> 0, ckpt |-> 0]

RECURSIVE SumInts(_)
SumInts(s) == IF s = <<>> THEN 0 ELSE Head(s) + SumInts(Tail(s))
SumSeq(s, F(_)) == SumInts([i \in 1..Len(s) |-> F(s[i])])
RECURSIVE SumFun(_, _)
SumFun(S, f) == IF S = {} THEN 0 ELSE LET x == CHOOSE y \in S : TRUE IN f[x] + SumFun(S \ {x}, f)
SumSet(S, F(_)) == SumFun(S, [x \in S |-> F(x)])

-----------------------------------------------------------------------------
(* rewards: computeAndUpdateRewards *)
RewardOf(r, d, a) ==
    IF r.ta = 0 THEN (IF d = Owner THEN r.td ELSE 0)
    ELSE LET op == (r.td * r.fee) \div MaxFee
         IN  ((r.td - op) * a) \div r.ta + (IF d = Owner THEN op ELSE 0)

RewardsFor(RW, ep, d, a, c) ==
    LET Val(r) == IF r.e >= c /\ r.e <= ep THEN RewardOf(r, d, a) ELSE 0 IN SumSeq(RW, Val)

\* fx: a delegator without active fund gets its checkpoint advanced (not what the code does)
Compute(dd, d, fx) ==
    IF ~dd.has THEN (IF fx THEN [dd EXCEPT !.ckpt = epoch + 1] ELSE dd)
    ELSE [dd EXCEPT !.unc = @ + RewardsFor(rew, epoch, d, dd.a, dd.ckpt), !.ckpt = epoch + 1]

\* what the contract would pay d right now (claimable)
Claimable(d) == IF del[d].ex /\ del[d].has THEN del[d].unc + RewardsFor(rew, epoch, d, del[d].a, del[d].ckpt)
                ELSE del[d].unc     \* = ClaimableOf(del[d], d, rew, epoch)

-----------------------------------------------------------------------------
\* clm = what getClaimableRewards returns for the delegator (computeAndUpdateRewards on a copy)
ClaimableOf(dd, d, RW, ep) == IF dd.ex /\ dd.has THEN dd.unc + RewardsFor(RW, ep, d, dd.a, dd.ckpt) ELSE dd.unc
StDel(dd, d, RW, ep) ==
    [ex |-> dd.ex, has |-> dd.has, aok |-> dd.has, a |-> dd.a,
     un |-> [i \in 1..Len(dd.un) |-> [ok |-> TRUE, v |-> dd.un[i].v, e |-> dd.un[i].e]],
     unc |-> dd.unc, ckpt |-> dd.ckpt, clm |-> ClaimableOf(dd, d, RW, ep)]
St(W) == [epoch |-> W.epoch, iof |-> W.iof, fee |-> W.fee, cap |-> W.cap, tot |-> W.tot,
          del |-> [d \in D |-> StDel(W.del[d], d, W.rew, W.epoch)], rew |-> W.rew]

Cur == [epoch |-> epoch, iof |-> iof, fee |-> fee, cap |-> cap, ccr |-> ccr, tot |-> tot, del |-> del, rew |-> rew,
        ok |-> TRUE, paid |-> 0, hv |-> hv, kd |-> FALSE]
Fail == [Cur EXCEPT !.ok = FALSE]

Finish(a, in, W0) ==
    LET W == IF W0.ok THEN W0 ELSE Fail IN
    /\ epoch' = W.epoch /\ iof' = W.iof /\ fee' = W.fee /\ cap' = W.cap /\ ccr' = W.ccr
    /\ tot' = W.tot /\ del' = W.del /\ rew' = W.rew /\ hv' = W.hv
    /\ tainted' = (tainted \/ W.kd)
    /\ UNCHANGED conf
    /\ hist' = Log(hist, [a |-> a, in |-> in, out |-> [ok |-> W.ok, paid |-> W.paid, kd |-> W.kd], st |-> St(W)])

\* checkAndUpdateOwnerInitialFunds -> [ok, iof]
OwnerFunds(d, v) ==
    IF iof > 0 THEN [ok |-> TRUE, iof |-> iof]
    ELSE IF d # Owner \/ v < conf.minDep THEN [ok |-> FALSE, iof |-> iof]
    ELSE [ok |-> TRUE, iof |-> v]

\* finishDelegateUser on delegator record dd (rewards already computed): [ok, dd, tot]
FinishDelegate(dd, v, checkCap) ==
    LET ta == tot.active + v
        dd1 == IF dd.has THEN [dd EXCEPT !.a = @ + v] ELSE [dd EXCEPT !.has = (v > 0), !.a = v, !.ex = TRUE]
    IN  IF cap # 0 /\ checkCap /\ ta > cap THEN [ok |-> FALSE, dd |-> dd, tot |-> tot]
        ELSE IF conf.belowMin /\ dd1.a < conf.minDel THEN [ok |-> FALSE, dd |-> dd, tot |-> tot]
        ELSE [ok |-> TRUE, dd |-> [dd1 EXCEPT !.ex = TRUE], tot |-> [tot EXCEPT !.active = ta]]

\* the deviation bites when a delegator without active fund delegates again and its stale window holds rewards
Stale(d, ddAfter, wasActive, isNew) ==
    ~isNew /\ ~wasActive /\ ddAfter.has /\ RewardsFor(rew, epoch, d, ddAfter.a, ddAfter.ckpt) > 0

\* delegate (payable)
Delegate(d, v, fx) ==
    LET of == OwnerFunds(d, v)
        isNew == ~del[d].ex
        dd0 == IF isNew THEN [NoDel EXCEPT !.ckpt = epoch + 1] ELSE Compute(del[d], d, fx)
        f  == FinishDelegate(dd0, v, TRUE)
        W  == IF v < conf.minDel \/ ~of.ok \/ ~f.ok THEN Fail
              ELSE [Cur EXCEPT !.iof = of.iof, !.del[d] = f.dd, !.tot = f.tot,
                               !.kd = Stale(d, f.dd, del[d].has, isNew)]
    IN Finish("Delegate", [d |-> d, v |-> v], W)

\* reDelegateRewards
ReDelegate(d, fx) ==
    LET dd0 == Compute(del[d], d, fx)
        v  == dd0.unc
        of == OwnerFunds(d, v)
        f  == FinishDelegate([dd0 EXCEPT !.unc = 0], v, ccr)
        W  == IF ~del[d].ex \/ ~of.ok \/ v <= 0 \/ ~f.ok THEN Fail
              ELSE [Cur EXCEPT !.iof = of.iof, !.del[d] = f.dd, !.tot = f.tot, !.hv.paid = @ + v,
                               !.kd = Stale(d, f.dd, del[d].has, FALSE)]
    IN Finish("ReDelegate", [d |-> d], W)

\* validator.go unStakeTokens for a contract without nodes whose stake is TotalActive
ValidatorAcceptsUnStake(v) == (v >= conf.minDel \/ v = tot.active) /\ v <= tot.active

\* unDelegate
UnDelegate(d, v) ==
    LET dd == del[d]
        rem == dd.a - v
        ownerOk == d # Owner \/ rem >= iof \/ rem = 0          \* no nodes: below the initial funds only by leaving entirely
        iof1 == IF d = Owner /\ rem < iof THEN 0 ELSE iof
        dd1 == Compute(dd, d, FALSE)
        un1 == IF Len(dd.un) > 0 /\ dd.un[Len(dd.un)].e = epoch
               THEN [dd.un EXCEPT ![Len(dd.un)].v = @ + v]
               ELSE Append(dd.un, [v |-> v, e |-> epoch])
        W  == IF v <= 0 \/ ~dd.ex \/ ~dd.has \/ dd.a < v \/ (rem > 0 /\ rem < conf.minDel) \/ ~ownerOk
                 \/ ~ValidatorAcceptsUnStake(v) THEN Fail
              ELSE [Cur EXCEPT !.iof = iof1,
                               !.del[d] = [dd1 EXCEPT !.a = rem, !.has = (rem > 0), !.un = un1],
                               !.tot = [active |-> tot.active - v, unstaked |-> tot.unstaked + v],
                               !.hv.undelegated = @ + v]
    IN Finish("UnDelegate", [d |-> d, v |-> v], W)

Bondable(u) == epoch - u.e >= conf.period

\* withdraw
Withdraw(d) ==
    LET dd == del[d]
        Val(u) == IF Bondable(u) THEN u.v ELSE 0
        amt == SumSeq(dd.un, Val)
        un1 == SelectSeq(dd.un, LAMBDA u : ~Bondable(u))
        dd1 == [dd EXCEPT !.un = un1]
        gone == d # Owner /\ ~dd1.has /\ un1 = <<>> /\ dd1.unc = 0       \* deleteDelegatorIfNeeded
        W  == IF ~dd.ex \/ (amt > 0 /\ tot.unstaked < amt) THEN Fail
              ELSE IF amt = 0 THEN Cur                                      \* "nothing to unBond", returns Ok
              ELSE [Cur EXCEPT !.del[d] = IF gone THEN NoDel ELSE dd1,
                               !.tot.unstaked = @ - amt, !.paid = amt, !.hv.withdrawn = @ + amt]
    IN Finish("Withdraw", [d |-> d], W)

\* claimRewards
Claim(d, fx) ==
    LET dd1 == Compute(del[d], d, fx)
        W  == IF ~del[d].ex THEN Fail
              ELSE [Cur EXCEPT !.del[d] = [dd1 EXCEPT !.unc = 0], !.paid = dd1.unc, !.hv.paid = @ + dd1.unc]
    IN Finish("Claim", [d |-> d], W)

\* updateRewards (payable, end-of-epoch address only)
UpdateRewards(v, auth) ==
    LET r  == [e |-> epoch, td |-> v, ta |-> tot.active, fee |-> fee]
        rw == IF Len(rew) > 0 /\ rew[Len(rew)].e = epoch THEN [rew EXCEPT ![Len(rew)] = r] ELSE Append(rew, r)
        W  == IF ~auth THEN Fail
              ELSE [Cur EXCEPT !.rew = rw, !.hv.received = @ + v, !.hv.nrew = @ + 1]
    IN Finish("UpdateRewards", [v |-> v, auth |-> auth], W)

\* changeServiceFee / modifyTotalDelegationCap (owner only)
ChangeFee(d, f) ==
    LET W == IF d # Owner \/ f > MaxFee THEN Fail ELSE [Cur EXCEPT !.fee = f]
    IN Finish("ChangeFee", [d |-> d, f |-> f], W)

ModifyCap(d, c) ==
    LET W == IF d # Owner \/ (c < tot.active /\ c # 0) THEN Fail ELSE [Cur EXCEPT !.cap = c]
    IN Finish("ModifyCap", [d |-> d, c |-> c], W)

NextEpoch == Finish("NextEpoch", [x |-> 0], [Cur EXCEPT !.epoch = @ + 1])

-----------------------------------------------------------------------------
\* createNewDelegationContract(cap, fee) by the owner with value c.v0 in epoch c.e0
InitWith(c) ==
    /\ conf = [minDel |-> c.minDel, minDep |-> c.minDep, period |-> c.period, belowMin |-> c.belowMin]
    /\ epoch = c.e0 /\ fee = c.fee /\ cap = c.cap /\ ccr = TRUE /\ iof = c.v0
    /\ del = [d \in D |-> IF d = Owner THEN [ex |-> TRUE, has |-> TRUE, a |-> c.v0, un |-> <<>>, unc |-> 0, ckpt |-> c.e0 + 1]
                          ELSE NoDel]
    /\ tot = [active |-> c.v0, unstaked |-> 0]
    /\ rew = <<>>
    /\ hv = [received |-> 0, paid |-> 0, withdrawn |-> 0, undelegated |-> 0, nrew |-> 0]
    /\ tainted = FALSE

Init ==
    /\ \E c \in Confs : InitWith(c) /\
          hist = <<[a |-> "New", in |-> c, out |-> [ok |-> TRUE, paid |-> 0, kd |-> FALSE], st |-> St(Cur)]>>

FxSet == IF "StaleCheckpoint" \in KnownDefects THEN FixChoices ELSE {TRUE}

Next ==
    \/ \E d \in D, v \in Amounts, fx \in FxSet : tot.active + v <= MaxTotal /\ Delegate(d, v, fx)
    \/ \E d \in D, v \in Amounts : UnDelegate(d, v)
    \/ \E d \in D, fx \in FxSet : (tot.active + Claimable(d) <= MaxTotal /\ ReDelegate(d, fx)) \/ Claim(d, fx)
    \/ \E d \in D : Withdraw(d)
    \/ \E v \in RewardVals : hv.nrew < MaxRew /\ UpdateRewards(v, TRUE)
    \/ \E d \in D, f \in Fees : ChangeFee(d, f)
    \/ \E d \in D, c \in Caps : ModifyCap(d, c)
    \/ epoch < MaxEpoch /\ NextEpoch

Spec == Init /\ [][Next]_vars

-----------------------------------------------------------------------------
(* Property C38 *)
Ex == {d \in D : del[d].ex}
ActiveOf(d) == IF del[d].has THEN del[d].a ELSE 0
UnstakedOf(d) == LET V(u) == u.v IN SumSeq(del[d].un, V)

\* total active stake = sum of the delegators' active funds
Inv_C38_active == tot.active = SumSet(Ex, ActiveOf)
\* total unstaked = sum of the delegators' unstaked funds
Inv_C38_unstaked == tot.unstaked = SumSet(Ex, UnstakedOf)
\* withdrawals paid <= undelegated
Inv_C38_withdrawn == hv.withdrawn <= hv.undelegated
\* rewards paid <= rewards received
Inv_C38_rewards == hv.paid <= hv.received
\* ... also in the continuation in which every delegator claims now (the property quantifies over all histories)
Inv_C38_rewards_owed == hv.paid + SumSet(Ex, Claimable) <= hv.received

M_rewards == tainted \/ Inv_C38_rewards
M_rewards_owed == tainted \/ Inv_C38_rewards_owed

TypeOK ==
    /\ \A d \in D : ~del[d].ex => del[d] = NoDel
    /\ \A d \in D : del[d].has => del[d].a > 0
    /\ tot.active >= 0 /\ tot.unstaked >= 0
=============================================================================
