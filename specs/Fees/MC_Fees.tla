---- MODULE MC_Fees ----
(* Model-checking / behaviour-export instance of Fees: explicit small domains.                    *)
EXTENDS Fees, Json
CONSTANTS Depth,
          MinPrices, MinLimits, PerBytes, MaxGases, Mods, PenEpochs, ModEpochs, Supplies,   \* configuration space
          Prices, GasLimits, DataLens, Values,                                             \* plain transactions
          BiPrices, BiGasLimits, BiDataLens, BuiltIns                                      \* built-in function calls

\* every configuration that satisfies the stated assumption minGasPrice * modifier >= 1
MCCfgs == {c \in [minPrice : MinPrices, minLimit : MinLimits, perByte : PerBytes, maxGas : MaxGases,
                  num : {m[1] : m \in Mods}, den : {m[2] : m \in Mods},
                  penEpoch : PenEpochs, modEpoch : ModEpochs, supply : Supplies] :
              /\ <<c.num, c.den>> \in Mods
              /\ (c.minPrice * c.num) \div c.den >= 1
              /\ c.maxGas >= c.minLimit}
\* built-in calls carry call data "ESDTBurn[@arg..]" in the harness, hence data lengths >= 8
MCTxs == [price : Prices, gl : GasLimits, dl : DataLens, value : Values, bi : {0}, scr : BOOLEAN]
         \cup [price : BiPrices, gl : BiGasLimits, dl : BiDataLens, value : {0}, bi : BuiltIns, scr : {FALSE}]

\* price modifiers num/den (cfg files cannot contain tuples)
ModsQuick    == {<<1, 1>>, <<1, 2>>, <<1, 3>>, <<2, 3>>}
ModsGen      == {<<1, 1>>, <<1, 2>>, <<1, 3>>}
ModsThorough == {<<1, 1>>, <<1, 2>>, <<1, 3>>, <<2, 3>>, <<1, 5>>, <<3, 4>>}

LogAppend(h, r) == Append(h, r)
LogLast(h, r) == <<r>>

\* behaviour export: New [-> Epoch ...] -> one query; one behaviour per transition (see BUILDERS.md section 3)
GenNext  == Len(hist) < Depth /\ Next
GenSpec  == Init /\ [][GenNext]_vars
IsQuery(h) == h[Len(h)].a \notin {"New", "Epoch"}
EmitEdge == IsQuery(hist') => PrintT("@@B " \o ToJson(hist'))
====
