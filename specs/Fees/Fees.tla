-------------------------------- MODULE Fees --------------------------------
(***************************************************************************)
(* Fee arithmetic of process/economics/economicsData.go (the node's        *)
(* FeeHandler).  Properties C21 (fees never exceed what the sender          *)
(* authorised) and C22 (the estimated gas limit is affordable).             *)
(*                                                                          *)
(* State = the configuration the object was built from + the two epoch      *)
(* flags that EpochConfirmed toggles.  One action per public call:          *)
(*   New            NewEconomicsData (+ the notifier's registration call    *)
(*                  EpochConfirmed(current epoch = 0))                      *)
(*   Epoch(e)       EpochConfirmed(e)                                        *)
(*   Fee            (transactions and smart-contract results)               *)
(*                  CheckValidityTxValues, ComputeGasLimit,                 *)
(*                  SplitTxGasInCategories, ComputeMoveBalanceFee,          *)
(*                  GasPriceForProcessing, ComputeTxFee                      *)
(*   GasUsed        ComputeTxFeeBasedOnGasUsed at two gas-used amounts      *)
(*   Refund         ComputeGasUsedAndFeeBasedOnRefundValue                  *)
(*   Balance        ComputeGasLimitBasedOnBalance + ComputeTxFee at the      *)
(*                  returned gas limit                                       *)
(* The query actions are relational: they take the *observed* output record *)
(* as parameter and only log it; the property invariants are stated on the  *)
(* logged record, so that TLC evaluates them on the model's own outputs     *)
(* (R1: o = XOut(...)) and on the outputs observed from the real code (R3). *)
(* The functional part of the specification is the operators XOut below,    *)
(* written branch by branch like the Go code.                               *)
(*                                                                          *)
(* The processing gas price is float64(price) * modifier truncated; the     *)
(* specification uses the rational num/den and takes the effective price    *)
(* `pp` the code reports as a parameter (PPOk says how far it may be from    *)
(* the exact rational: float rounding may move the truncation by one).      *)
(* Assumption: pp >= 1 for every transaction the Refund/Balance calls are   *)
(* made for (minGasPrice * modifier >= 1), otherwise the code divides by 0. *)
(***************************************************************************)
EXTENDS Integers, Sequences, TLC

CONSTANTS Cfgs,        \* configuration records [minPrice, minLimit, perByte, maxGas, num, den, penEpoch, modEpoch, supply]
          Epochs,      \* epochs EpochConfirmed is called with
          Txs,         \* transactions [price, gl, dl, value, bi, scr]  (bi = cost of the built-in function called, 0 = none;
                       \* scr = the object is a smart-contract result, which the fee functions treat specially)
          GasUseds, Refunds, Balances,
          Kinds,       \* which query actions are explored: subset of {"Fee", "GasUsed", "Refund", "Balance"}
          KnownDefects,\* named deviations of the code from the intended design that are modelled (see DefectNames)
          Log(_, _)

VARIABLES cfg, epoch, fp, fm,   \* configuration, last confirmed epoch, flagPenalizedTooMuchGas, flagGasPriceModifier
          hist

vars  == <<cfg, epoch, fp, fm, hist>>
cvars == <<cfg, epoch, fp, fm>>

DefectNames == {"legacyGasUsedFee", "builtInAboveLimit"}

-----------------------------------------------------------------------------
(* the arithmetic, as coded *)

MoveGas(tx)  == cfg.minLimit + tx.dl * cfg.perByte                   \* ComputeGasLimit
MoveFee(tx)  == IF tx.scr THEN 0 ELSE tx.price * MoveGas(tx)          \* ComputeMoveBalanceFee (GasPriceForMove = price)
PPDesign(tx) == IF fm THEN (tx.price * cfg.num) \div cfg.den ELSE tx.price   \* GasPriceForProcessing
PPOk(tx, pp) == IF fm THEN pp <= tx.price /\ pp >= PPDesign(tx) - 1 /\ pp <= PPDesign(tx) + 1
                      ELSE pp = tx.price

RECURSIVE ByteLen(_)
ByteLen(n) == IF n = 0 THEN 0 ELSE 1 + ByteLen(n \div 256)

\* CheckValidityTxValues, in the order of the code
Valid(tx) ==
    IF cfg.minPrice > tx.price THEN "price"
    ELSE IF ~tx.scr /\ tx.gl < MoveGas(tx) THEN "limit"
    ELSE IF tx.gl >= cfg.maxGas THEN "maxgas"
    ELSE IF ByteLen(tx.value) > ByteLen(cfg.supply) THEN "oob"
    ELSE IF tx.value > cfg.supply THEN "big"
    ELSE "ok"

\* SplitTxGasInCategories: SafeSubUint64 gives 0 on underflow
ProcGas(tx) == IF tx.gl < MoveGas(tx) THEN 0 ELSE tx.gl - MoveGas(tx)

\* ComputeTxFee
TxFee(tx, pp) ==
    IF fm THEN IF tx.scr THEN pp * tx.gl                       \* ComputeFeeForProcessing(tx, gasLimit)
               ELSE IF tx.gl <= MoveGas(tx) THEN MoveFee(tx) ELSE MoveFee(tx) + pp * ProcGas(tx)
    ELSE IF fp THEN tx.gl * tx.price
    ELSE MoveFee(tx)

\* ComputeTxFeeBasedOnGasUsed.  Code as it is: always priced with GasPriceForProcessing, also in the legacy
\* configuration (both flags off) where ComputeTxFee is the move-balance fee only -- named deviation
\* "legacyGasUsedFee"; intended design there: the move-balance fee.
FeeGU(tx, pp, gu) ==
    IF ~fm /\ ~fp /\ "legacyGasUsedFee" \notin KnownDefects THEN MoveFee(tx)
    ELSE IF gu <= MoveGas(tx) THEN MoveFee(tx)
    ELSE MoveFee(tx) + pp * (gu - MoveGas(tx))

\* isTooMuchGasProvided
TooMuch(provided, remained) ==
    IF provided <= remained THEN FALSE ELSE provided > (provided - remained) * 10

\* ComputeGasUsedAndFeeBasedOnRefundValue -> <<gasUsed, fee>>
RefundCalc(tx, pp, r) ==
    IF r = 0
    THEN IF tx.bi > 0
         THEN LET g == tx.bi + MoveGas(tx) IN
              IF g > tx.gl
              THEN \* code as it is: tx.gl - g wraps around (uint64), "too much gas" is false and g is reported --
                   \* named deviation "builtInAboveLimit"; intended design: everything was consumed
                   IF "builtInAboveLimit" \in KnownDefects THEN <<g, FeeGU(tx, pp, g)>> ELSE <<tx.gl, TxFee(tx, pp)>>
              ELSE IF TooMuch(tx.gl, tx.gl - g) THEN <<tx.gl, TxFee(tx, pp)>> ELSE <<g, FeeGU(tx, pp, g)>>
         ELSE <<tx.gl, TxFee(tx, pp)>>
    ELSE LET f  == TxFee(tx, pp) - r
             sc == f - MoveFee(tx)
         IN  <<MoveGas(tx) + sc \div pp, f>>

\* ComputeGasLimitBasedOnBalance -> <<err, gasLimit>>
GasFromBalance(tx, pp, bal) ==
    LET bwv == bal - tx.value IN
    IF bwv <= 0 THEN <<"funds", 0>>
    ELSE IF MoveFee(tx) > bwv THEN <<"funds", 0>>
    ELSE IF ~fm THEN <<"ok", bwv \div tx.price>>
    ELSE <<"ok", MoveGas(tx) + (bwv - MoveFee(tx)) \div pp>>

\* the output records of the four query actions (what the harness logs from the real object)
FeeOut(tx, pp) ==
    [valid |-> Valid(tx), moveGas |-> MoveGas(tx), procGas |-> ProcGas(tx), moveFee |-> MoveFee(tx),
     fee |-> TxFee(tx, pp), pp |-> pp]
GasUsedOut(tx, pp, g1, g2) ==
    [valid |-> Valid(tx), f1 |-> FeeGU(tx, pp, g1), f2 |-> FeeGU(tx, pp, g2), full |-> TxFee(tx, pp), pp |-> pp]
RefundOut(tx, pp, r) ==
    LET c == RefundCalc(tx, pp, r) IN
    [valid |-> Valid(tx), gasUsed |-> c[1], fee |-> c[2], full |-> TxFee(tx, pp), moveFee |-> MoveFee(tx), pp |-> pp]
BalanceOut(tx, pp, bal) ==
    LET c == GasFromBalance(tx, pp, bal) IN
    [err |-> c[1], gl |-> c[2],
     feeAt |-> IF c[1] = "ok" THEN TxFee([tx EXCEPT !.gl = c[2]], pp) ELSE 0, pp |-> pp]

\* domains of the calls: gas used within the limit, refund within the processing part of the fee
GasUsedDom(tx, g1, g2) == ~tx.scr /\ g1 <= g2 /\ g2 <= tx.gl
RefundDom(tx, pp, r)   == ~tx.scr /\ pp >= 1 /\ r >= 0 /\ (r = 0 \/ r <= TxFee(tx, pp) - MoveFee(tx))
BalanceDom(tx, pp)     == ~tx.scr /\ pp >= 1 /\ tx.price >= 1

-----------------------------------------------------------------------------
(* actions *)

Flags(e) == [p |-> e >= cfg.penEpoch, m |-> e >= cfg.modEpoch]

Init ==
    /\ cfg \in Cfgs /\ epoch = 0
    /\ fp = (0 >= cfg.penEpoch) /\ fm = (0 >= cfg.modEpoch)       \* registration calls EpochConfirmed(0)
    /\ hist = <<[a |-> "New", in |-> cfg, out |-> [x |-> 0], cls |-> "none"]>>

\* EpochConfirmed
Epoch(e) ==
    /\ epoch' = e /\ fp' = Flags(e).p /\ fm' = Flags(e).m
    /\ UNCHANGED cfg
    /\ hist' = Log(hist, [a |-> "Epoch", in |-> [e |-> e], out |-> [x |-> 0], cls |-> "none"])

\* Input classes in which the code is known to deviate from the property (see DefectNames / docs/fees.md).
\* The class is a function of the call's input and of the flags only; the property invariants for these
\* classes are stated separately (InvK_...) so that the remaining inputs keep being checked.
DevClassOf(a, in) ==
    IF a = "Refund" /\ in.r = 0 /\ in.tx.bi > 0 /\ in.tx.bi + MoveGas(in.tx) > in.tx.gl THEN "builtinAboveLimit"
    ELSE IF a = "Refund" /\ in.r = 0 /\ in.tx.bi > 0 /\ ~fp /\ ~fm THEN "legacy"
    ELSE IF a = "GasUsed" /\ ~fp /\ ~fm /\ in.g2 > MoveGas(in.tx) THEN "legacy"
    ELSE "none"

Query(a, in, o) ==
    /\ UNCHANGED cvars
    /\ hist' = Log(hist, [a |-> a, in |-> in, out |-> o, cls |-> DevClassOf(a, in)])

Fee(tx, o)             == Query("Fee", [tx |-> tx], o)
GasUsed(tx, g1, g2, o) == GasUsedDom(tx, g1, g2) /\ Query("GasUsed", [tx |-> tx, g1 |-> g1, g2 |-> g2], o)
Refund(tx, r, o)       == RefundDom(tx, o.pp, r) /\ Query("Refund", [tx |-> tx, r |-> r], o)
Balance(tx, bal, o)    == BalanceDom(tx, o.pp) /\ Query("Balance", [tx |-> tx, bal |-> bal], o)

\* the design: every query returns what the operators above say, with the exact rational processing price
Queries ==
    \E tx \in Txs : LET pp == PPDesign(tx) IN
        \* fields a call does not read are pinned (sound reduction of the input space)
        \/ "Fee" \in Kinds /\ tx.bi = 0 /\ Fee(tx, FeeOut(tx, pp))
        \* the other calls are made for ordinary transactions only (see the domain note in docs/fees.md)
        \/ "GasUsed" \in Kinds /\ ~tx.scr /\ tx.bi = 0 /\ tx.value = 0
              /\ \E g1, g2 \in GasUseds : GasUsed(tx, g1, g2, GasUsedOut(tx, pp, g1, g2))
        \/ "Refund" \in Kinds /\ ~tx.scr /\ tx.value = 0 /\ \E r \in Refunds : pp >= 1 /\ Refund(tx, r, RefundOut(tx, pp, r))
        \/ "Balance" \in Kinds /\ ~tx.scr /\ tx.bi = 0 /\ tx.gl = 0
              /\ \E b \in Balances : pp >= 1 /\ tx.price >= 1 /\ Balance(tx, b, BalanceOut(tx, pp, b))

Fresh == hist[Len(hist)].a \in {"New", "Epoch"}     \* queries are leaves of the exploration (they change no state)
Next == Fresh /\ ((\E e \in Epochs : Epoch(e)) \/ Queries)
Spec == Init /\ [][Next]_vars

-----------------------------------------------------------------------------
(* C21 / C22 on the last logged record *)

R == hist[Len(hist)]
Passed == R.out.valid = "ok"      \* the transaction passed CheckValidityTxValues (as observed)

\* the fee charged is at least the move-balance fee and at most gas limit x gas price
Inv_C21_FeeBounds ==
    (R.a = "Fee" /\ Passed) => /\ R.out.moveFee <= R.out.fee
                              /\ R.out.fee <= R.in.tx.gl * R.in.tx.price
\* the fee computed from gas used grows with gas used ...
Inv_C21_GasUsedMonotone ==
    (R.a = "GasUsed" /\ Passed) => R.out.f1 <= R.out.f2
\* ... and never exceeds the full fee
GasUsedBelowFull(c) == (R.a = "GasUsed" /\ Passed /\ R.cls = c) => R.out.f2 <= R.out.full
Inv_C21_GasUsedBelowFull         == GasUsedBelowFull("none")
InvK_C21_GasUsedBelowFull_legacy == GasUsedBelowFull("legacy")
\* the reported gas used never exceeds the gas limit
GasUsedReported(c) == (R.a = "Refund" /\ Passed /\ R.cls = c) => R.out.gasUsed <= R.in.tx.gl
Inv_C21_GasUsedReported                    == GasUsedReported("none")
InvK_C21_GasUsedReported_legacy            == GasUsedReported("legacy")
InvK_C21_GasUsedReported_builtinAboveLimit == GasUsedReported("builtinAboveLimit")
\* a refund lowers the fee by exactly the refund (and without a refund the fee is never above the full fee)
RefundExact(c) ==
    (R.a = "Refund" /\ Passed /\ R.cls = c) =>
        IF R.in.r > 0 THEN R.out.fee = R.out.full - R.in.r ELSE R.out.fee <= R.out.full
Inv_C21_RefundExact                    == RefundExact("none")
InvK_C21_RefundExact_legacy            == RefundExact("legacy")
InvK_C21_RefundExact_builtinAboveLimit == RefundExact("builtinAboveLimit")
\* C22: the fee at the estimated gas limit fits into balance - value
Inv_C22_Affordable ==
    (R.a = "Balance" /\ R.out.err = "ok") => R.out.feeAt <= R.in.bal - R.in.tx.value

TypeOK == /\ fp = Flags(epoch).p /\ fm = Flags(epoch).m
          /\ KnownDefects \subseteq DefectNames
=============================================================================
