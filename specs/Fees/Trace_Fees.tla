---- MODULE Trace_Fees ----
(* Trace validation: trace.ndjson holds events observed from the real economicsData               *)
(* (New cfg / Epoch e / Fee / GasUsed / Refund / Balance with the outputs the real code returned). *)
(* Strict = TRUE : every query output must equal the specification's operator applied to the input  *)
(*                 (with the processing price the code reports, constrained by PPOk);               *)
(* Strict = FALSE: observation only -- the outputs are just logged.                                 *)
(* In both modes the C21/C22 invariants are evaluated by TLC on every observed record.              *)
EXTENDS Fees, Json, TLCExt
CONSTANT Strict
LogLast(h, r) == <<r>>
TLog == ndJsonDeserialize("trace.ndjson")
VARIABLE l
tvars == <<vars, l>>
Ev == TLog[l]
IsEvent(name) == l <= Len(TLog) /\ Ev.a = name /\ l' = l + 1

TraceInit ==
    /\ l = 1 /\ epoch = 0 /\ fp = FALSE /\ fm = FALSE
    /\ cfg = [minPrice |-> 1, minLimit |-> 0, perByte |-> 0, maxGas |-> 1, num |-> 1, den |-> 1,
              penEpoch |-> 0, modEpoch |-> 0, supply |-> 0]
    /\ hist = <<[a |-> "None", in |-> [x |-> 0], out |-> [x |-> 0], cls |-> "none"]>>

TNew ==
    /\ IsEvent("New")
    /\ cfg' = Ev.in /\ epoch' = 0
    /\ fp' = (0 >= Ev.in.penEpoch) /\ fm' = (0 >= Ev.in.modEpoch)
    /\ hist' = <<[a |-> "New", in |-> Ev.in, out |-> Ev.out, cls |-> "none"]>>
TEpoch == IsEvent("Epoch") /\ Epoch(Ev.in.e)

\* inputs in a known-deviation class are judged by the InvK_ invariants only (the functional result there
\* depends on whether the deviation has been repaired)
Conforms(expected) == (Strict /\ DevClassOf(Ev.a, Ev.in) = "none") => (PPOk(Ev.in.tx, Ev.out.pp) /\ Ev.out = expected)

TFee     == IsEvent("Fee") /\ Fee(Ev.in.tx, Ev.out) /\ Conforms(FeeOut(Ev.in.tx, Ev.out.pp))
TGasUsed == IsEvent("GasUsed") /\ GasUsed(Ev.in.tx, Ev.in.g1, Ev.in.g2, Ev.out)
                               /\ Conforms(GasUsedOut(Ev.in.tx, Ev.out.pp, Ev.in.g1, Ev.in.g2))
TRefund  == IsEvent("Refund") /\ Refund(Ev.in.tx, Ev.in.r, Ev.out) /\ Conforms(RefundOut(Ev.in.tx, Ev.out.pp, Ev.in.r))
TBalance == IsEvent("Balance") /\ Balance(Ev.in.tx, Ev.in.bal, Ev.out)
                               /\ Conforms(BalanceOut(Ev.in.tx, Ev.out.pp, Ev.in.bal))

TraceNext == TNew \/ TEpoch \/ TFee \/ TGasUsed \/ TRefund \/ TBalance
TraceSpec == TraceInit /\ [][TraceNext]_tvars

HighWater == TLCSet(1, IF l > TLCGet(1) THEN l ELSE TLCGet(1))
Accepted  == IF TLCGet(1) = Len(TLog) + 1 THEN TRUE ELSE PrintT("@@HW " \o ToString(TLCGet(1))) /\ FALSE
ASSUME TLCSet(1, 0)
====
