---- MODULE FeesLemmas ----
(* Typed copy of the fee inequalities of Fees.tla for unbounded integers (Apalache, --length=0).            *)
(* State = one arbitrary evaluation point; Init constrains it to the domain of the property; the invariants  *)
(* are the C21 / C22 inequalities with the operators of Fees.tla unfolded.                                    *)
EXTENDS Integers
VARIABLES
    \* @type: Int;
    price,
    \* @type: Int;
    pp,
    \* @type: Int;
    gl,
    \* @type: Int;
    moveGas,
    \* @type: Int;
    g1,
    \* @type: Int;
    g2,
    \* @type: Int;
    r,
    \* @type: Int;
    bwv,
    \* @type: Bool;
    fm,
    \* @type: Bool;
    fp

MoveFee == price * moveGas
TxFeeAt(l) == IF fm THEN (IF l <= moveGas THEN MoveFee ELSE MoveFee + pp * (l - moveGas))
              ELSE IF fp THEN l * price ELSE MoveFee
TxFee == TxFeeAt(gl)
FeeGU(gu) == IF gu <= moveGas THEN MoveFee ELSE MoveFee + pp * (gu - moveGas)

Init ==
    /\ price \in Nat /\ pp \in Nat /\ gl \in Nat /\ moveGas \in Nat /\ g1 \in Nat /\ g2 \in Nat /\ r \in Nat /\ bwv \in Int
    /\ fm \in BOOLEAN /\ fp \in BOOLEAN
    /\ pp >= 1 /\ pp <= price /\ (~fm => pp = price)
    /\ gl >= moveGas                       \* the transaction passed CheckValidityTxValues
    /\ g1 <= g2 /\ g2 <= gl
    /\ (fm \/ fp)                          \* not the legacy configuration (known finding)
    /\ r >= 1 /\ r <= TxFee - MoveFee
Next == UNCHANGED <<price, pp, gl, moveGas, g1, g2, r, bwv, fm, fp>>

FeeBounds == MoveFee <= TxFee /\ TxFee <= gl * price
GasUsedMonotone == FeeGU(g1) <= FeeGU(g2)
GasUsedBelowFull == FeeGU(g2) <= TxFee
RefundGasUsed == moveGas + ((TxFee - r) - MoveFee) \div pp <= gl
Affordable ==
    (bwv > 0 /\ MoveFee <= bwv) =>
        LET l == IF ~fm THEN bwv \div price ELSE moveGas + (bwv - MoveFee) \div pp IN TxFeeAt(l) <= bwv
\* sanity: must be VIOLATED (Init is satisfiable in the interesting region; used as vacuity guard by checks/fees.py)
VacuityProbe == ~(gl > moveGas + 3 /\ fm /\ r > 1 /\ pp < price /\ bwv > MoveFee + 5)
====
