SPECIFICATION Spec
CONSTANTS
  Cfgs <- MCCfgs
  Txs <- MCTxs
  Epochs = {0, 1, 2}
  GasUseds = {0, 3, 4, 7, 12}
  Refunds = {0, 1, 3, 8}
  Balances = {0, 5, 17, 40, 90}
  KnownDefects = {}
  Log <- LogLast
  Depth = 0
  MinPrices = {1, 3}
  MinLimits = {2, 5}
  PerBytes = {0, 1, 2}
  MaxGases = {14}
  Mods <- ModsQuick
  PenEpochs = {0, 1}
  ModEpochs = {0, 2}
  Supplies = {300}
  Prices = {0, 1, 2, 3, 5, 6}
  GasLimits = {0, 2, 3, 5, 6, 7, 9, 12, 13, 14}
  DataLens = {0, 1, 2}
  Values = {0, 7, 300, 301, 70000}
  BuiltIns = {0, 1, 4}
INVARIANTS TypeOK Inv_C21_FeeBounds Inv_C21_GasUsedMonotone Inv_C21_GasUsedBelowFull Inv_C21_GasUsedReported Inv_C21_RefundExact Inv_C22_Affordable
CHECK_DEADLOCK FALSE
