SPECIFICATION ASpec
CONSTANTS
  MaxN = 4
  Weights = {1, 2, 3}
  FullRange = TRUE
  Log <- LogLast
  Depth = 0
VIEW acvars
INVARIANTS ATypeOK Inv_C15_Distinct Inv_C15_Members Inv_C15_Size Inv_C15_NeverExhausted Inv_Sel_Ranges
PROPERTIES Act_C15_LeaderFirst Act_C15_LeaderIsFirstHit
CHECK_DEADLOCK FALSE
