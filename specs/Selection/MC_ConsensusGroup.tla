---- MODULE MC_ConsensusGroup ----
(* R1 for layer 2: per class a node with a real (evicting) group cache and a node without cache; all nodes *)
(* of a class are re-configured together (EpochStartPrepare), the hash is an arbitrary function (H).       *)
(* With ClearOnPrepare = FALSE the cache survives a re-configuration: TLC must then find the stale-group    *)
(* counterexample (vacuity guard for Inv_C15_Reproducible / Inv_C15_GroupMembers).                          *)
EXTENDS ConsensusGroup
CONSTANTS Seeds, Epochs, ShardIds, Classes, MCKeys, MCChances, MaxLen, MaxCh, ClearOnPrepare

NodesOf(class) == {<<class, "lru", "a">>, <<class, "none", "b">>}
Nodes == UNION {NodesOf(c) : c \in Classes}
OKConfigs == UNION {{[elig |-> e, ch |-> c, minch |-> 1, size |-> z] :
                        e \in {s \in [1..n -> MCKeys] : NoDup(s)}, c \in [1..n -> MCChances], z \in 1..n} : n \in 1..MaxLen}
\* the hash of a seed yields MaxLen values whatever the configuration; any value is possible (the modulo is part of the algorithm)
XsAll == [1..MaxLen -> {Limbs(r) : r \in 0..(MaxLen * MaxCh - 1)}]

CInit ==
    /\ cfg = <<>> /\ H = <<>> /\ memo = <<>> /\ last = NoneLast
    /\ cache = [n \in Nodes |-> <<>>]

CNext ==
    \/ \E class \in Classes, ep \in Epochs, newc \in [ShardIds -> OKConfigs] :
          SetConfig(NodesOf(class), class, ep, newc, ClearOnPrepare)
    \/ \E n \in Nodes, seed \in Seeds, ep \in Epochs, sh \in ShardIds :
          /\ <<n, ep, sh>> \in DOMAIN cfg
          /\ \/ Compute(n, seed, ep, sh, <<>>)
             \/ \E xs \in XsAll : Compute(n, seed, ep, sh, xs)
             \/ \E fc \in BOOLEAN : ComputeConc(n, seed, ep, sh, fc)

CSpec == CInit /\ [][CNext]_cvars2
====
