---- MODULE MC_ConsensusGroup ----
(* R1 for layer 2: two classes of nodes (plain / rater weights), per class a node with a real (evicting)   *)
(* group cache and a node without cache; configurations are replaced (EpochStartPrepare) in between.       *)
(* The hash is an arbitrary function discovered lazily (H).  With ClearOnPrepare = FALSE the cache is not  *)
(* cleared by SetConfig: TLC must then find the stale-group counterexample (vacuity guard of               *)
(* Inv_C15_Reproducible / Inv_C15_GroupMembers).                                                           *)
EXTENDS ConsensusGroup
CONSTANTS MCKeys, MCChances, MaxLen, ClearOnPrepare

Nodes == Classes \X {"lru", "none"}
Perms(S) == {s \in UNION {[1..n -> S] : n \in 1..MaxLen} : NoDup(s)}
Configs == {[elig |-> e, ch |-> c, minch |-> 1, size |-> z] :
               e \in Perms(MCKeys), c \in UNION {[1..n -> MCChances] : n \in 1..MaxLen}, z \in 1..MaxLen}
OKConfigs == {c \in Configs : Len(c.ch) = Len(c.elig) /\ c.size <= Len(c.elig)}
XsOf(c, class) == [1..c.size -> {Limbs(r) : r \in 0..(SeqSum(CfgWeights(c, class)) - 1)}]

CInit ==
    /\ cfg = <<>> /\ H = <<>> /\ memo = <<>> /\ last = NoneLast
    /\ cache = [n \in Nodes |-> <<>>]

SetConfigMC(class, ep, newc) ==
    IF ClearOnPrepare THEN SetConfig(class, ep, newc)
    ELSE /\ cfg' = [k \in (DOMAIN cfg \cup {<<class, ep, sh>> : sh \in DOMAIN newc}) |->
                      IF k[1] = class /\ k[2] = ep /\ k[3] \in DOMAIN newc THEN newc[k[3]] ELSE cfg[k]]
         /\ memo' = [k \in {x \in DOMAIN memo : ~(x[1] = class /\ x[3] = ep)} |-> memo[k]]
         /\ last' = NoneLast
         /\ UNCHANGED <<H, cache>>

CNext ==
    \/ \E class \in Classes, ep \in Epochs, newc \in [ShardIds -> OKConfigs] : SetConfigMC(class, ep, newc)
    \/ \E n \in Nodes, seed \in Seeds, ep \in Epochs, sh \in ShardIds, ev \in BOOLEAN :
          /\ <<n[1], ep, sh>> \in DOMAIN cfg
          /\ \/ Compute(n, seed, ep, sh, <<>>, ev)
             \/ \E xs \in XsOf(cfg[<<n[1], ep, sh>>], n[1]) : Compute(n, seed, ep, sh, xs, ev)

CSpec == CInit /\ [][CNext]_cvars2
\* bound: number of reconfigurations is not bounded by the state (cfg is overwritten), so the graph is finite
====
