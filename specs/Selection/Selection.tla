------------------------------ MODULE Selection ------------------------------
(* Layer 1 of C15: SelectionBasedProvider.Get as a state machine, one action per loop iteration. *)
EXTENDS SelectionOps

CONSTANTS MaxN,        \* R1: eligible list sizes 1..MaxN
          Weights,     \* R1: set of weights (0 = invalid weight, rejected by the constructor)
          FullRange,   \* R1: TRUE -> a pick may use any value 0..Len(expanded)-1 (exercises the modulo),
                       \*     FALSE -> only the residues 0..(Len - removed)-1 (behaviour export: one edge per residue)
          Log(_, _)

VARIABLES w,       \* weight vector of the selector (sequence, position i = validator index i-1)
          size,    \* requested sample size
          sst,     \* selection state of the running Get: [sorted, removed, sel]
          phase,   \* "run" | "done" | "err"
          hist

avars  == <<w, size, sst, phase, hist>>
acvars == <<w, size, sst, phase>>

-----------------------------------------------------------------------------
(* Layer 1 as a state machine (R1 + behaviour export) *)

WeightVectors == UNION {[1..n -> Weights] : n \in 1..MaxN}

ARec(a, in, out) == [a |-> a, in |-> in, out |-> out, st |-> [sel |-> sst'.sel, removed |-> sst'.removed]]

AInit ==
    /\ w \in WeightVectors
    /\ size \in 0..(Len(w) + 1)
    /\ sst = EmptySel
    /\ phase = IF CtorErr(w) # "" \/ size = 0 \/ size > Len(w) THEN "err" ELSE "run"
    /\ hist = <<[a |-> "New", in |-> [w |-> w, size |-> size],
                 out |-> [err |-> IF CtorErr(w) # "" THEN CtorErr(w)
                                  ELSE IF size = 0 \/ size > Len(w) THEN "ErrInvalidSampleSize" ELSE ""],
                 st |-> [sel |-> <<>>, removed |-> 0]]>>

Pick(r) ==
    /\ phase = "run"
    /\ Len(sst.sel) < size
    /\ sst.removed < Len(Expand(w))            \* otherwise Get returns ErrInvalidSampleSize (Inv_C15_NeverExhausted)
    /\ sst' = PickStep(sst, Expand(w), Limbs(r))
    /\ phase' = IF Len(sst'.sel) = size THEN "done" ELSE "run"
    /\ UNCHANGED <<w, size>>
    /\ hist' = Log(hist, ARec("Pick", [r |-> Limbs(r)], [v |-> sst'.sel[Len(sst'.sel)]]))

ANext == \E r \in 0..(SeqSum(w) - 1) :
            /\ (FullRange \/ r < SeqSum(w) - sst.removed)
            /\ Pick(r)

ASpec == AInit /\ [][ANext]_avars

(* -- properties of the algorithm (C15, first sentence) -- *)
ATypeOK ==
    /\ phase \in {"run", "done", "err"}
    /\ Len(sst.sel) <= size \/ phase = "err"

\* the members selected so far are pairwise distinct validators of the list
Inv_C15_Distinct == NoDup(sst.sel)
Inv_C15_Members  == \A i \in 1..Len(sst.sel) : sst.sel[i] \in 0..(Len(w) - 1)
\* a finished selection has exactly the requested size
Inv_C15_Size     == phase = "done" => Len(sst.sel) = size
\* a valid request (1 <= size <= number of validators, weights >= 1) never runs out of candidates
Inv_C15_NeverExhausted == (phase = "run" /\ Len(sst.sel) < size) => sst.removed < SeqSum(w)
\* bookkeeping of the removed ranges: sorted by start, exactly the ranges of the selected validators
Inv_Sel_Ranges ==
    /\ \A i \in 1..(Len(sst.sorted) - 1) : sst.sorted[i].start + sst.sorted[i].num <= sst.sorted[i+1].start
    /\ sst.removed = SeqSum([i \in 1..Len(sst.sorted) |-> sst.sorted[i].num])
    /\ phase # "err" =>
         {<<e.start, e.num>> : e \in SeqToSet(sst.sorted)}
           = {<<SeqSum(SubSeq(w, 1, v)), w[v+1]>> : v \in SeqToSet(sst.sel)}
\* the leader is the first member: the validator hit by the first value
Act_C15_LeaderFirst ==
    [][(sst.sel # <<>>) => (sst'.sel # <<>> /\ sst'.sel[1] = sst.sel[1])]_acvars
\* ... and it is the validator whose range of the expanded list contains (first value mod total weight)
Act_C15_LeaderIsFirstHit ==
    [][(sst.sel = <<>>) =>
          sst'.sel = <<Expand(w)[Mod64(hist'[Len(hist')].in.r, SeqSum(w)) + 1]>>]_acvars
=============================================================================
