SPECIFICATION CSpec
CONSTANTS
  Seeds = {"s1"}
  Epochs = {1}
  ShardIds = {0}
  Classes = {"rater"}
  MCKeys = {1, 2}
  MCChances = {1, 2}
  MaxLen = 2
  MaxCh = 2
  ClearOnPrepare = TRUE
INVARIANTS Inv_C15_GroupSize Inv_C15_GroupDistinct Inv_C15_GroupMembers Inv_C15_NoError Inv_C15_Reproducible
CHECK_DEADLOCK FALSE
