---- MODULE MC_Selection ----
EXTENDS Selection, Json
CONSTANT Depth
LogAppend(h, r) == Append(h, r)
LogLast(h, r) == <<r>>
\* behaviour export: one behaviour per transition of the abstract state graph (see specs/CapLRU/MC_CapLRU.tla);
\* only transitions that complete a call are printed (a complete call contains all its prefixes)
GenNext  == Len(hist) < Depth /\ ANext
GenSpec  == AInit /\ [][GenNext]_avars
EmitEdge == (phase' = "done") => PrintT("@@B " \o ToJson(hist'))
\* the rejected requests (constructor / sample size errors) are initial states without successors
EmitErr  == (phase = "err") => PrintT("@@B " \o ToJson(hist))
====
