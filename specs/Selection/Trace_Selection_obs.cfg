SPECIFICATION TraceSpecObs
CONSTRAINT HighWater
INVARIANTS Inv_C15_GroupSize Inv_C15_GroupDistinct Inv_C15_GroupMembers Inv_C15_NoError Inv_C15_Reproducible
POSTCONDITION Accepted
CHECK_DEADLOCK FALSE
