---- MODULE Trace_Selection ----
(* Trace validation for C15.  Events recorded from the real code:                                          *)
(*   Select  -- sharding.selectorExpandedList.Select on a scripted hasher (TLC chose weights, size, values) *)
(*              or on real sha256; in: w, size, xs (limbs of the 64 bit values the hasher returned)         *)
(*   Config  -- a real coordinator (node) now holds this configuration for (epoch): per shard the eligible  *)
(*              list (GetAllEligibleValidatorsPublicKeys), the chances of those validators                  *)
(*              (GetValidatorWithPublicKey(..).Chances()), GetChance(0), the consensus group size           *)
(*   Compute -- ComputeConsensusGroup(randomness, round, shard, epoch) on a node: hash values consumed,     *)
(*   ComputeC - the same call made concurrently with others on that node (no hash values attributable)     *)
(*              resulting group / error                                                                     *)
(* Strict mode (TraceNext): every event must be the corresponding action of ConsensusGroup.tla with the     *)
(* logged result (drift when not: C15 does not prescribe the sampling algorithm).  The C15 invariants are   *)
(* evaluated on every observed record in both modes (TraceNextObs takes the logged values as they are).     *)
EXTENDS ConsensusGroup, Json, TLCExt
TLog == ndJsonDeserialize("trace.ndjson")
VARIABLE l
tvars == <<cvars2, l>>
Ev == TLog[l]
IsEvent(name) == l <= Len(TLog) /\ Ev.a = name /\ l' = l + 1

TraceInit == l = 1 /\ cfg = <<>> /\ H = <<>> /\ cache = <<>> /\ memo = <<>> /\ last = NoneLast

\* a new trace: forget everything
TReset == IsEvent("Reset") /\ cfg' = <<>> /\ H' = <<>> /\ cache' = <<>> /\ memo' = <<>> /\ last' = NoneLast

UnitRec(w, n, sel, err) ==
    [key |-> <<"unit">>, group |-> sel, err |-> err, size |-> n, elig |-> [i \in 1..Len(w) |-> i - 1],
     valid |-> CtorErr(w) = "" /\ n >= 1 /\ n <= Len(w)]

TSelect ==
    /\ IsEvent("Select")
    /\ LET r == SelectAll(Ev.in.w, Ev.in.size, Ev.in.xs)
       IN  r.err = Ev.out.err /\ r.sel = Ev.out.sel
    /\ last' = UnitRec(Ev.in.w, Ev.in.size, Ev.out.sel, Ev.out.err)
    /\ UNCHANGED <<cfg, H, cache, memo>>

NodeOf(in) == <<in.class, in.kind, in.node>>
CfgFn(seq) == [sh \in {seq[i].s : i \in 1..Len(seq)} |-> (CHOOSE i \in 1..Len(seq) : seq[i].s = sh)]
NewCfg(seq) == LET f == CfgFn(seq) IN [sh \in DOMAIN f |-> seq[f[sh]]]

TConfig ==
    /\ IsEvent("Config")
    /\ SetConfig({NodeOf(Ev.in)}, Ev.in.class, Ev.in.epoch, NewCfg(Ev.in.cfg), TRUE)

TCompute ==
    /\ IsEvent("Compute")
    /\ Compute(NodeOf(Ev.in), Ev.in.seed, Ev.in.epoch, Ev.in.shard, Ev.in.xs)
    /\ last'.err = Ev.out.err /\ last'.group = Ev.out.group

\* a call made while other goroutines were calling ComputeConsensusGroup on the same node
TComputeC ==
    /\ IsEvent("ComputeC")
    /\ \E fc \in BOOLEAN : ComputeConc(NodeOf(Ev.in), Ev.in.seed, Ev.in.epoch, Ev.in.shard, fc)
    /\ last'.err = Ev.out.err /\ last'.group = Ev.out.group

TraceNext == TReset \/ TSelect \/ TConfig \/ TCompute \/ TComputeC
TraceSpec == TraceInit /\ [][TraceNext]_tvars

(* observation only: the logged values are taken as they are, the bookkeeping (cfg, memo) is kept *)
OSelect ==
    /\ IsEvent("Select")
    /\ last' = UnitRec(Ev.in.w, Ev.in.size, Ev.out.sel, Ev.out.err)
    /\ UNCHANGED <<cfg, H, cache, memo>>
OCompute ==
    /\ (IsEvent("Compute") \/ IsEvent("ComputeC"))
    /\ LET n == NodeOf(Ev.in)
           key == <<Ev.in.class, Ev.in.seed, Ev.in.epoch, Ev.in.shard>>
           known == <<n, Ev.in.epoch, Ev.in.shard>> \in DOMAIN cfg
           c == IF known THEN cfg[<<n, Ev.in.epoch, Ev.in.shard>>] ELSE [elig |-> <<>>, size |-> 0]
       IN  /\ memo' = IF key \in DOMAIN memo \/ Ev.out.err # "" THEN memo
                      ELSE [k \in DOMAIN memo \cup {key} |-> IF k = key THEN Ev.out.group ELSE memo[k]]
           /\ last' = [key |-> key, group |-> Ev.out.group, err |-> Ev.out.err, size |-> c.size, elig |-> c.elig,
                       valid |-> known /\ c.size >= 1 /\ c.size <= Len(c.elig)]
    /\ UNCHANGED <<cfg, H, cache>>
TraceNextObs == TReset \/ OSelect \/ TConfig \/ OCompute
TraceSpecObs == TraceInit /\ [][TraceNextObs]_tvars

HighWater == TLCSet(1, IF l > TLCGet(1) THEN l ELSE TLCGet(1))
Accepted  == IF TLCGet(1) = Len(TLog) + 1 THEN TRUE ELSE PrintT("@@HW " \o ToString(TLCGet(1))) /\ FALSE
ASSUME TLCSet(1, 0)
====
