---------------------------- MODULE SelectionOps ----------------------------
(***************************************************************************)
(* Consensus-group selection of the nodes coordinator (property C15).        *)
(*                                                                          *)
(* Layer 1 -- the sampling algorithm, transcribed from                      *)
(*   sharding/expandedListSampling.go   selectorExpandedList.expandList/Select *)
(*   sharding/selectionBasedProvider.go SelectionBasedProvider.Get/add/      *)
(*                                      addToSortedSlice/adjustIndex          *)
(*   sharding/common.go                 computeStartIndexAndNumAppearancesForValidator *)
(* The hash is abstracted: the i-th 64 bit value that the code derives from  *)
(* hasher.Compute(bigEndian(i) ++ randomness) is an arbitrary natural,       *)
(* represented by four 16 bit limbs <<l3,l2,l1,l0>> (TLC integers are 32     *)
(* bit); the only thing the code does with it is `% (len - removed)`.        *)
(* One action (Pick) per iteration of the loop in Get.                      *)
(*                                                                          *)
(* Layer 2 -- indexHashedNodesCoordinator.ComputeConsensusGroup: per         *)
(* (class, epoch, shard) an eligible list with selection weights, the group  *)
(* cache (cleared by EpochStartPrepare), several nodes computing groups.     *)
(***************************************************************************)
(* This module holds the pure operators; Selection.tla is the step-wise machine  *)
(* of layer 1, ConsensusGroup.tla is layer 2.                                  *)
EXTENDS Integers, Sequences, FiniteSets, TLC

-----------------------------------------------------------------------------
(* 64 bit values as limbs; x % m for 0 < m < 32768 without leaving 31 bits *)
Limbs(r) == <<0, 0, 0, r>>
Mod64(x, m) ==
    LET r3 == x[1] % m
        r2 == (r3 * 65536 + x[2]) % m
        r1 == (r2 * 65536 + x[3]) % m
    IN  (r1 * 65536 + x[4]) % m

SeqSum(s) == LET F[i \in 0..Len(s)] == IF i = 0 THEN 0 ELSE F[i-1] + s[i] IN F[Len(s)]
SeqToSet(s) == {s[i] : i \in 1..Len(s)}
NoDup(s) == \A i, j \in 1..Len(s) : i # j => s[i] # s[j]

(* expandList: validator index i (0-based) repeated weight[i] times *)
Expand(ws) ==
    LET F[i \in 0..Len(ws)] == IF i = 0 THEN <<>> ELSE F[i-1] \o [j \in 1..ws[i] |-> i - 1] IN F[Len(ws)]

(* computeStartIndexAndNumAppearancesForValidator(expEligibleList, idx): 0-based idx *)
RECURSIVE ScanDown(_, _, _)
ScanDown(exp, val, i) == IF i < 0 THEN 0 ELSE IF exp[i+1] # val THEN i + 1 ELSE ScanDown(exp, val, i - 1)
RECURSIVE ScanUp(_, _, _)
ScanUp(exp, val, i) == IF i >= Len(exp) THEN Len(exp) - 1 ELSE IF exp[i+1] # val THEN i - 1 ELSE ScanUp(exp, val, i + 1)
StartAndNum(exp, idx) ==
    LET st == ScanDown(exp, exp[idx+1], idx - 1)
        en == ScanUp(exp, exp[idx+1], idx + 1)
    IN  [start |-> st, num |-> en - st + 1]

(* addToSortedSlice: insert before the first entry whose startIndex >= ve.startIndex, else append *)
InsertSorted(sorted, ve) ==
    LET pos == IF \E i \in 1..Len(sorted) : sorted[i].start >= ve.start
               THEN CHOOSE i \in 1..Len(sorted) : sorted[i].start >= ve.start
                                                    /\ \A j \in 1..(i-1) : sorted[j].start < ve.start
               ELSE Len(sorted) + 1
    IN  SubSeq(sorted, 1, pos - 1) \o <<ve>> \o SubSeq(sorted, pos, Len(sorted))

(* adjustIndex: walk the removed ranges in order of start index *)
RECURSIVE Adjust(_, _, _)
Adjust(sorted, i, index) ==
    IF i > Len(sorted) \/ sorted[i].start > index THEN index
    ELSE Adjust(sorted, i + 1, index + sorted[i].num)

EmptySel == [sorted |-> <<>>, removed |-> 0, sel |-> <<>>]

(* one iteration of the loop in SelectionBasedProvider.Get; x = the 64 bit value as limbs *)
PickStep(s, exp, x) ==
    LET index == Adjust(s.sorted, 1, Mod64(x, Len(exp) - s.removed))
        ve    == StartAndNum(exp, index)
    IN  [sorted |-> InsertSorted(s.sorted, ve), removed |-> s.removed + ve.num,
         sel |-> Append(s.sel, exp[index+1])]

(* the whole call selectorExpandedList.Select(seed, n) given the sequence xs of hash values;       *)
(* result [err, sel].  Errors as coded: n = 0 or n > uniqueItems -> ErrInvalidSampleSize.           *)
RECURSIVE RunPicks(_, _, _, _)
RunPicks(s, exp, xs, n) ==
    IF Len(s.sel) = n THEN [err |-> "", sel |-> s.sel]
    ELSE IF s.removed >= Len(exp) THEN [err |-> "ErrInvalidSampleSize", sel |-> <<>>]
    ELSE IF Len(xs) <= Len(s.sel) THEN [err |-> "(fewer hash values than picks)", sel |-> <<>>]   \* never a logged result
    ELSE RunPicks(PickStep(s, exp, xs[Len(s.sel) + 1]), exp, xs, n)

CtorErr(ws) == IF Len(ws) = 0 THEN "ErrNilWeights"
               ELSE IF \E i \in 1..Len(ws) : ws[i] < 1 THEN "ErrInvalidWeight" ELSE ""

SelectAll(ws, n, xs) ==
    IF CtorErr(ws) # "" THEN [err |-> CtorErr(ws), sel |-> <<>>]
    ELSE IF n = 0 \/ n > Len(ws) THEN [err |-> "ErrInvalidSampleSize", sel |-> <<>>]
    ELSE RunPicks(EmptySel, Expand(ws), xs, n)

=============================================================================
