---------------------------- MODULE ConsensusGroup ----------------------------
(***************************************************************************)
(* Layer 2 of C15: indexHashedNodesCoordinator.ComputeConsensusGroup.       *)
(*                                                                          *)
(* A node is <<class, kind, name>>:                                          *)
(*   class "plain" -- indexHashedNodesCoordinator (ValidatorsWeights = 1),   *)
(*         "rater" -- ...WithRater (weight = max(chances, GetChance(0))),    *)
(*   kind  "lru" (a real, evicting group cache) | "none" | "fresh" | ...     *)
(* Every node has its own per (epoch, shard) configuration and cache;        *)
(* EpochStartPrepare installs a configuration and clears the cache.          *)
(* All nodes of a class see the same hash function H (seed = randomness and  *)
(* round) -- discovered lazily: the first computation fixes the values.      *)
(* memo remembers the first group observed per (class, seed, epoch, shard):  *)
(* "every node computes the same group for the same inputs".                 *)
(***************************************************************************)
EXTENDS SelectionOps

VARIABLES cfg,     \* <<node, epoch, shard>> -> [elig: Seq(key), ch: Seq(chance), minch, size]
          H,       \* <<class, seed>> -> sequence of 64 bit values (limbs)
          cache,   \* node -> (key -> group),  key = <<class, seed, epoch, shard>>
          memo,    \* key -> first group observed for this key under the current configuration
          last     \* last observed selection record (what the property invariants look at)

cvars2 == <<cfg, H, cache, memo, last>>

CfgWeights(c, class) ==
    [i \in 1..Len(c.elig) |-> IF class = "plain" THEN 1 ELSE IF c.ch[i] < c.minch THEN c.minch ELSE c.ch[i]]

(* selectValidators: group[i] = eligibleList[selectedIndexes[i]] *)
GroupOf(c, class, xs) ==
    LET r == SelectAll(CfgWeights(c, class), c.size, xs)
    IN  [err |-> r.err, group |-> [i \in 1..Len(r.sel) |-> c.elig[r.sel[i] + 1]]]

NoneLast == [key |-> <<>>, group |-> <<>>, err |-> "", size |-> 0, elig |-> <<>>, valid |-> FALSE]

\* the hash is a function of the seed: two calls see the same values (one may consume more of them)
Agree(xs, ys) == \A i \in 1..(IF Len(xs) < Len(ys) THEN Len(xs) ELSE Len(ys)) : xs[i] = ys[i]

CacheOf(n) == IF n \in DOMAIN cache THEN cache[n] ELSE <<>>

(* EpochStartPrepare (or the constructor), projected: the nodes in `ns` (all of class `class`) now hold the  *)
(* configuration newc (shard -> config) for epoch ep.  If that is a change, their caches are cleared (as     *)
(* coded: consensusGroupCacher.Clear() at the end of EpochStartPrepare) and what was remembered for          *)
(* (class, ep) is forgotten -- a re-prepared epoch may legitimately yield other groups.  An EpochStartPrepare *)
(* that fails early leaves configuration and cache as they were; one that succeeds with an identical result  *)
(* clears the cache, which is covered because `cache` only bounds the possible hits from above.              *)
Changed(ns, ep, newc) ==
    \E n \in ns, sh \in DOMAIN newc : <<n, ep, sh>> \notin DOMAIN cfg \/ cfg[<<n, ep, sh>>] # newc[sh]
SetConfig(ns, class, ep, newc, clear) ==
    /\ cfg' = [k \in (DOMAIN cfg \cup {<<n, ep, sh>> : n \in ns, sh \in DOMAIN newc}) |->
                 IF k[1] \in ns /\ k[2] = ep /\ k[3] \in DOMAIN newc THEN newc[k[3]] ELSE cfg[k]]
    /\ cache' = IF clear /\ Changed(ns, ep, newc)
                THEN [n \in DOMAIN cache \cup ns |-> IF n \in ns THEN <<>> ELSE cache[n]]
                ELSE cache
    /\ memo' = IF Changed(ns, ep, newc)
               THEN [k \in {x \in DOMAIN memo : ~(x[1] = class /\ x[3] = ep)} |-> memo[k]]
               ELSE memo
    /\ last' = NoneLast
    /\ UNCHANGED H

(* ComputeConsensusGroup on node n; xs = the hash values the call consumed.  xs = <<>> means the call was     *)
(* served from the group cache: only possible for a key stored since the last clear (the group is the stored *)
(* one).  A computation is always possible -- the real LRU may have evicted the entry (which entries a cache *)
(* keeps is C28's business); `cache` is therefore "everything stored since the last clear".                  *)
Compute(n, seed, ep, sh, xs) ==
    LET class == n[1]
        key   == <<class, seed, ep, sh>>
        c     == cfg[<<n, ep, sh>>]
        hit   == xs = <<>>
        res   == IF hit THEN [err |-> "", group |-> CacheOf(n)[key]] ELSE GroupOf(c, class, xs)
    IN  /\ <<n, ep, sh>> \in DOMAIN cfg
        /\ hit => n[2] = "lru" /\ key \in DOMAIN CacheOf(n)
        /\ ~hit => (<<class, seed>> \in DOMAIN H => Agree(xs, H[<<class, seed>>]))
        /\ H' = IF hit \/ (<<class, seed>> \in DOMAIN H /\ Len(H[<<class, seed>>]) >= Len(xs)) THEN H
                ELSE [s \in DOMAIN H \cup {<<class, seed>>} |-> IF s = <<class, seed>> THEN xs ELSE H[s]]
        /\ cache' = IF hit \/ res.err # "" \/ n[2] # "lru" THEN cache
                    ELSE [m \in DOMAIN cache \cup {n} |->
                            IF m # n THEN cache[m]
                            ELSE [k \in DOMAIN CacheOf(n) \cup {key} |-> IF k = key THEN res.group ELSE CacheOf(n)[k]]]
        /\ memo' = IF key \in DOMAIN memo \/ res.err # "" THEN memo
                   ELSE [k \in DOMAIN memo \cup {key} |-> IF k = key THEN res.group ELSE memo[k]]
        /\ last' = [key |-> key, group |-> res.group, err |-> res.err, size |-> c.size, elig |-> c.elig,
                    valid |-> c.size >= 1 /\ c.size <= Len(c.elig)]
        /\ UNCHANGED cfg

(* Concurrent use.  ComputeConsensusGroup is called from several goroutines of a node at the same time          *)
(* (consensus, header verification, interceptors).  The specification demands that the calls are ATOMIC          *)
(* (linearizable): whatever the interleaving, a call behaves like Compute executed alone -- its result is a       *)
(* function of (configuration, randomness, round, shard, epoch).  In the state machine a concurrent call is       *)
(* therefore one more Compute step; it is a separate action only because the harness cannot attribute the hash   *)
(* values consumed to an individual concurrent call: the values are those recorded for the same seed by an         *)
(* earlier sequential call (H), and the call may or may not have been served from the cache.                      *)
ComputeConc(n, seed, ep, sh, fromCache) ==
    /\ <<n[1], seed>> \in DOMAIN H
    /\ Compute(n, seed, ep, sh, IF fromCache THEN <<>> ELSE H[<<n[1], seed>>])

(* C15 on every observed selection result *)
Inv_C15_GroupSize     == (last.key # <<>> /\ last.err = "") => Len(last.group) = last.size
Inv_C15_GroupDistinct == (last.key # <<>> /\ last.err = "") => NoDup(last.group)
Inv_C15_GroupMembers  == (last.key # <<>> /\ last.err = "") => SeqToSet(last.group) \subseteq SeqToSet(last.elig)
\* a well-formed request (1 <= group size <= list size, valid weights) always yields a group
Inv_C15_NoError       == (last.key # <<>> /\ last.valid) => last.err = ""
\* same inputs => same group (leader and order included), on every node of the class, cached or not
Inv_C15_Reproducible  == (last.key # <<>> /\ last.err = "" /\ last.key \in DOMAIN memo) => last.group = memo[last.key]
=============================================================================
