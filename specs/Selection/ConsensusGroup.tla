---------------------------- MODULE ConsensusGroup ----------------------------
(* Layer 2 of C15: indexHashedNodesCoordinator.ComputeConsensusGroup with the group cache. *)
EXTENDS SelectionOps

-----------------------------------------------------------------------------
(* Layer 2: ComputeConsensusGroup with the group cache, several nodes *)

CONSTANTS Seeds,      \* randomness/round pairs (abstract)
          Epochs, ShardIds,
          Classes     \* "plain" (weights all 1) | "rater" (weights max(chance, minChance))

VARIABLES cfg,     \* <<class, epoch, shard>> -> [elig: Seq(key), ch: Seq(chance), minch, size]
          H,       \* seed -> sequence of 64 bit values (the hash function, discovered lazily)
          cache,   \* node -> (key -> group)     key = <<class, seed, epoch, shard>>
          memo,    \* key -> first group observed for this key under the current configuration
          last     \* last observed ComputeConsensusGroup record

cvars2 == <<cfg, H, cache, memo, last>>

CfgWeights(c, class) ==
    [i \in 1..Len(c.elig) |-> IF class = "plain" THEN 1 ELSE IF c.ch[i] < c.minch THEN c.minch ELSE c.ch[i]]

(* selectValidators: group[i] = eligibleList[selectedIndexes[i]] *)
GroupOf(c, class, xs) ==
    LET r == SelectAll(CfgWeights(c, class), c.size, xs)
    IN  [err |-> r.err, group |-> [i \in 1..Len(r.sel) |-> c.elig[r.sel[i] + 1]]]

NoneLast == [key |-> <<>>, group |-> <<>>, err |-> "", size |-> 0, elig |-> <<>>]

(* EpochStartPrepare, projected: installs the configuration of (class, epoch) for all shards and clears the caches *)
SetConfig(class, ep, newc) ==
    /\ cfg' = [k \in (DOMAIN cfg \cup {<<class, ep, sh>> : sh \in DOMAIN newc}) |->
                 IF k[1] = class /\ k[2] = ep /\ k[3] \in DOMAIN newc THEN newc[k[3]] ELSE cfg[k]]
    /\ cache' = [n \in DOMAIN cache |-> IF n[1] = class THEN <<>> ELSE cache[n]]
    /\ memo' = [k \in {x \in DOMAIN memo : ~(x[1] = class /\ x[3] = ep)} |-> memo[k]]
    /\ last' = NoneLast
    /\ UNCHANGED H

(* ComputeConsensusGroup on node n = <<class, kind>>, kind "lru" (real cache, may evict) | "none" | "fresh";  *)
(* xs = the hash values the call consumed (<<>> iff it was served from the cache)                            *)
Compute(n, seed, ep, sh, xs, evictOthers) ==
    LET class == n[1]
        key   == <<class, seed, ep, sh>>
        c     == cfg[<<class, ep, sh>>]
        hit   == key \in DOMAIN cache[n]
        res   == IF hit THEN [err |-> "", group |-> cache[n][key]] ELSE GroupOf(c, class, xs)
    IN  /\ <<class, ep, sh>> \in DOMAIN cfg
        /\ hit => xs = <<>>
        /\ ~hit => /\ Len(xs) >= c.size
                   /\ seed \in DOMAIN H => xs = H[seed]
        /\ H' = IF hit \/ seed \in DOMAIN H THEN H ELSE [s \in DOMAIN H \cup {seed} |-> IF s = seed THEN xs ELSE H[s]]
        /\ cache' = IF hit \/ res.err # "" \/ n[2] # "lru" THEN cache
                    ELSE [cache EXCEPT ![n] =
                            [k \in (IF evictOthers THEN {} ELSE DOMAIN cache[n]) \cup {key} |->
                                IF k = key THEN res.group ELSE cache[n][k]]]
        /\ memo' = IF key \in DOMAIN memo \/ res.err # "" THEN memo
                   ELSE [k \in DOMAIN memo \cup {key} |-> IF k = key THEN res.group ELSE memo[k]]
        /\ last' = [key |-> key, group |-> res.group, err |-> res.err, size |-> c.size, elig |-> c.elig]
        /\ UNCHANGED cfg

(* C15 on every observed ComputeConsensusGroup result *)
Inv_C15_GroupSize     == (last.key # <<>> /\ last.err = "") => Len(last.group) = last.size
Inv_C15_GroupDistinct == (last.key # <<>> /\ last.err = "") => NoDup(last.group)
Inv_C15_GroupMembers  == (last.key # <<>> /\ last.err = "") => SeqToSet(last.group) \subseteq SeqToSet(last.elig)
\* a well-formed configuration (group size <= list size, distinct keys) never yields an error
Inv_C15_NoError       == (last.key # <<>> /\ last.size >= 1 /\ last.size <= Len(last.elig)) => last.err = ""
\* same inputs => same group (leader included, order included), on every node, cached or not
Inv_C15_Reproducible  == (last.key # <<>> /\ last.err = "" /\ last.key \in DOMAIN memo) => last.group = memo[last.key]
=============================================================================
