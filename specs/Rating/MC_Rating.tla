---- MODULE MC_Rating ----
EXTENDS Rating, Json
CONSTANTS Depth, Mins, Maxs, IncPs, DecPs, IncVs, DecVs, Pens, Layouts
LogAppend(h, r) == Append(h, r)
LogLast(h, r) == <<r>>

\* the metachain steps differ from the shard steps in every field, so that a mix-up is visible
OtherPen(p) == IF p = <<3, 2>> THEN <<2, 1>> ELSE <<3, 2>>
Steps(a, b, c, d, p) == [incP |-> a, decP |-> b, incV |-> c, decV |-> d, pn |-> p[1], pd |-> p[2]]
MetaOf(s) == IF s.pd = 0 THEN [s EXCEPT !.incP = s.incP + 1, !.decP = s.decP - 1, !.incV = s.incV + 2, !.decV = s.decV - 2]
             ELSE LET q == OtherPen(<<s.pn, s.pd>>) IN
                  [incP |-> s.incP + 1, decP |-> s.decP - 1, incV |-> s.incV + 2, decV |-> s.decV - 2, pn |-> q[1], pd |-> q[2]]

\* band layouts (given unsorted on purpose; the rater sorts them)
Bands(m, lay) ==
    CASE lay = 1 -> <<[thr |-> 0, ch |-> 5], [thr |-> m, ch |-> 24]>>
      [] lay = 2 -> <<[thr |-> m, ch |-> 20], [thr |-> 0, ch |-> 5], [thr |-> m \div 2, ch |-> 0]>>
      [] lay = 3 -> <<[thr |-> 1, ch |-> 16], [thr |-> m, ch |-> 24], [thr |-> m - 1, ch |-> 17], [thr |-> 0, ch |-> 9]>>

MCConfigs ==
    {[min |-> mn, max |-> mx, start |-> (IF sti = 0 THEN mn ELSE mx - 1), shard |-> Steps(a, b, c, d, p), meta |-> MetaOf(Steps(a, b, c, d, p)),
      bands |-> Bands(mx, lay)] :
        mn \in Mins, mx \in Maxs, sti \in {0, 1}, a \in IncPs, b \in DecPs, c \in IncVs, d \in DecVs, p \in Pens,
        lay \in Layouts}
MCCurrents(c) == 0..(c.max + 1)
MCDecPs == {-1, -2}
MCDecPsBig == {-1, -2, -5}
MCDecVs == {-1, -4}
MCPensExact == {<<1, 1>>, <<3, 2>>, <<2, 1>>, <<5, 4>>}
MCPensAll == MCPensExact \cup {<<0, 0>>}

GenNext  == Len(hist) < Depth /\ NextExact
GenSpec  == Init /\ [][GenNext]_vars
EmitEdge == PrintT("@@B " \o ToJson(hist'))
====
