---- MODULE Trace_Rating ----
(* Trace validation for BlockSigningRater.  A "New" event carries the configuration the real rater was built   *)
(* from (for NewRatingsData: the steps it derived, read back through the RatingsStepHandler getters); every     *)
(* other event is one call (method, chain, current rating, streak / number of reverts) with its result.         *)
(* Strict pass: the result must be the one Rating!Expected gives (or, where only the range is specified, lie     *)
(* in it).  Observation-only pass: nothing is required of the result; in both passes the C37 clauses (Viol)      *)
(* are evaluated on every observed call, the streak clause against the previous ComputeDecreaseProposer call.    *)
EXTENDS Rating, Json, TLCExt
LogLast(h, r) == <<r>>
NoCurrents(c) == {}
TLog == ndJsonDeserialize("trace.ndjson")
VARIABLES l, prev
tvars == <<vars, l, prev>>
Ev == TLog[l]
Ops == {"IncP", "IncV", "DecV", "DecP", "Revert", "Chance"}

TraceInit ==
    /\ l = 1 /\ prev = NoPrev /\ rating = 0 /\ hist = <<>>
    /\ cfg = [min |-> 1, max |-> 1, start |-> 1, bands |-> <<>>]
TNew ==
    /\ l <= Len(TLog) /\ Ev.a = "New" /\ l' = l + 1
    /\ cfg' = Ev.in /\ rating' = Ev.in.start /\ prev' = NoPrev
    /\ hist' = <<[a |-> "New", in |-> Ev.in, out |-> [r |-> 0, viol |-> {}], st |-> [rating |-> Ev.in.start]]>>
Observe ==
    /\ l <= Len(TLog) /\ Ev.a \in Ops /\ l' = l + 1
    /\ UNCHANGED cfg
    /\ rating' = (IF Ev.a = "Chance" THEN rating ELSE Ev.out.r)
    /\ prev' = (IF Ev.a = "DecP" THEN [ch |-> Ev.in.ch, cur |-> Ev.in.cur, k |-> Ev.in.k, r |-> Ev.out.r] ELSE prev)
    /\ hist' = <<[a |-> Ev.a, in |-> Ev.in, out |-> [r |-> Ev.out.r, viol |-> Viol(cfg, Ev.a, Ev.in, Ev.out.r, prev)],
                  st |-> [rating |-> rating']]>>
AsSpecified ==
    LET e == Expected(cfg, Ev.a, Ev.in) IN
    IF e # Unknown THEN Ev.out.r = e
    ELSE cfg.min <= Ev.out.r /\ Ev.out.r <= Compute(cfg, cfg[Ev.in.ch].decP, Ev.in.cur)
TCall == Observe /\ AsSpecified
TraceNext == (TNew /\ ValidConfig(Ev.in)) \/ TCall
TraceSpec == TraceInit /\ [][TraceNext]_tvars
TraceNextObs == TNew \/ Observe
TraceSpecObs == TraceInit /\ [][TraceNextObs]_tvars

Obs_C37_Range          == [][~("out-of-range" \in hist'[1].out.viol)]_tvars
Obs_C37_IncreaseLowers == [][~("increase-lowers" \in hist'[1].out.viol)]_tvars
Obs_C37_DecreaseRaises == [][~("decrease-raises" \in hist'[1].out.viol)]_tvars
Obs_C37_Streak         == [][~("longer-streak-higher-rating" \in hist'[1].out.viol)]_tvars
Obs_C37_Band           == [][~("wrong-band" \in hist'[1].out.viol)]_tvars

HighWater == TLCSet(1, IF l > TLCGet(1) THEN l ELSE TLCGet(1))
Accepted  == IF TLCGet(1) = Len(TLog) + 1 THEN TRUE ELSE PrintT("@@HW " \o ToString(TLCGet(1))) /\ FALSE
ASSUME TLCSet(1, 0)
====
