SPECIFICATION TraceSpec
CONSTANTS
  Configs = {}
  Currents <- NoCurrents
  Streaks = {}
  Reverts = {}
  Log <- LogLast
CONSTRAINT HighWater
PROPERTIES Obs_C37_Range Obs_C37_IncreaseLowers Obs_C37_DecreaseRaises Obs_C37_Streak Obs_C37_Band
POSTCONDITION Accepted
CHECK_DEADLOCK FALSE
