SPECIFICATION Spec
CONSTANTS
  Configs <- MCConfigs
  Currents <- MCCurrents
  Streaks = {0, 1, 2, 3, 5}
  Reverts = {0, 1, 2, 7}
  Log <- LogLast
  Depth = 0
  Mins = {1, 2}
  Maxs = {4, 7}
  IncPs = {1, 3}
  DecPs <- MCDecPs
  IncVs = {1, 2}
  DecVs <- MCDecVs
  Pens <- MCPensAll
  Layouts = {1, 2, 3}
VIEW cvars
INVARIANTS Inv_C37_Range Inv_C37_StreakMonotone Inv_C37_ChanceBand
PROPERTIES Act_C37_NoClauseViolated
CHECK_DEADLOCK FALSE
