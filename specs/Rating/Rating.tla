------------------------------- MODULE Rating -------------------------------
(***************************************************************************)
(* process/rating.BlockSigningRater: the rating of a validator after a      *)
(* proposer/validator success or failure, and the selection chance of a     *)
(* rating.  Property C37: for every valid configuration every update keeps  *)
(* the rating in [min, max]; increases never lower it, decreases never      *)
(* raise it; a longer streak of missed blocks never yields a higher rating  *)
(* than a shorter one; the chance of a rating is the one configured for its *)
(* threshold band.                                                          *)
(*                                                                          *)
(* A configuration is a record                                              *)
(*   [min, max, start, shard |-> steps, meta |-> steps, bands |-> <<..>>]   *)
(*   steps = [incP, decP, incV, decV, pn, pd]   (consecutive-missed-blocks   *)
(*           penalty = pn/pd when it is a small dyadic fraction, pd = 0 when *)
(*           it is some other float: then only its range is specified)       *)
(*   bands = sequence of [thr, ch] (any order; thresholds distinct)          *)
(* One action per public method; the state is the rating of one validator.  *)
(***************************************************************************)
EXTENDS Integers, Sequences, FiniteSets, TLC

CONSTANTS Configs,       \* set of configurations explored
          Currents(_),   \* cfg -> set of current ratings fed to the methods
          Streaks,       \* consecutive misses passed to ComputeDecreaseProposer
          Reverts,       \* nrReverts passed to RevertIncreaseValidator
          Log(_, _)

VARIABLES cfg, rating, hist
vars  == <<cfg, rating, hist>>
cvars == <<cfg, rating>>

Chains == {"shard", "meta"}             \* shardId # MetachainShardId / = MetachainShardId
Big == 1073741824                       \* 2^30: products are kept below it (TLC integers are 32 bit)
Unknown == -1                           \* "not specified exactly" (ratings are >= 0)

\* func (bsr *BlockSigningRater) computeRating(ratingStep int32, currentRating uint32) uint32
\* (the code adds in int64; written without the sum so that step = math.MinInt32 does not overflow here)
Compute(c, step, cur) ==
    IF step < c.min - cur THEN c.min
    ELSE IF step > c.max - cur THEN c.max
    ELSE cur + step

\* |step| * (pn/pd)^k as the loop of ComputeDecreaseProposer computes it (float64 products are exact for
\* dyadic pn/pd while below 2^53), truncated toward zero by int32(); `sat`: at least max-min+1, so that the
\* clamped result is min whatever the exact value (the product only grows: pn >= pd).
\* [ok |-> FALSE] when the exact value would need numbers beyond TLC's integers.
RECURSIVE PowFrac(_, _, _, _, _, _)
PowFrac(n, d, pn, pd, k, satAt) ==
    IF n \div d >= satAt THEN [ok |-> TRUE, sat |-> TRUE, v |-> 0]
    ELSE IF k = 0 \/ pn = pd THEN [ok |-> TRUE, sat |-> FALSE, v |-> n \div d]     \* (penalty 1: no growth)
    ELSE IF n > Big \div pn \/ d > Big \div pd THEN [ok |-> FALSE, sat |-> FALSE, v |-> 0]
    ELSE PowFrac(n * pn, d * pd, pn, pd, k - 1, satAt)

\* the rating after ComputeDecreaseProposer(chain, cur, k); Unknown when only its range is specified
DecPExact(c, ch, cur, k) ==
    LET s == c[ch] IN
    IF k = 0 THEN Compute(c, s.decP, cur)
    ELSE IF cur > c.max + 1 THEN Unknown
    ELSE IF s.decP <= 0 - Big THEN c.min                 \* |step| alone already exceeds every rating
    ELSE IF s.pd = 0 THEN Unknown
    ELSE LET p == PowFrac(0 - s.decP, 1, s.pn, s.pd, k, c.max - c.min + 1) IN
         IF ~p.ok THEN Unknown ELSE IF p.sat THEN c.min ELSE Compute(c, 0 - p.v, cur)

\* RevertIncreaseValidator(chain, cur, n): n validator increases taken back (saturating at math.MinInt32)
RevertExact(c, ch, cur, n) ==
    LET s == c[ch].incV IN
    IF n = 0 THEN Compute(c, 0, cur)
    ELSE IF cur <= c.min \/ n > (cur - c.min) \div s THEN c.min        \* s*n >= cur-min  (s >= 1)
    ELSE Compute(c, 0 - s * n, cur)

\* GetChance, as the code does it: bands sorted by threshold, first band whose threshold is >= rating;
\* a rating above every threshold gets the first band's chance
SortedBands(c) == SortSeq(c.bands, LAMBDA a, b : a.thr < b.thr)
RECURSIVE Scan(_, _, _)
Scan(bs, r, dflt) == IF bs = <<>> THEN dflt ELSE IF r > Head(bs).thr THEN Scan(Tail(bs), r, dflt) ELSE Head(bs).ch
ChanceCode(c, r) == LET bs == SortedBands(c) IN Scan(bs, r, bs[1].ch)

\* the specification's result of one call
Expected(c, op, in) ==
    CASE op = "IncP"   -> Compute(c, c[in.ch].incP, in.cur)
      [] op = "IncV"   -> Compute(c, c[in.ch].incV, in.cur)
      [] op = "DecV"   -> Compute(c, c[in.ch].decV, in.cur)
      [] op = "DecP"   -> DecPExact(c, in.ch, in.cur, in.k)
      [] op = "Revert" -> RevertExact(c, in.ch, in.cur, in.n)
      [] op = "Chance" -> ChanceCode(c, in.cur)

-----------------------------------------------------------------------------
(* C37 as predicates on one observed call: configuration c, method op, arguments in, result r.       *)
(* prev is the previous ComputeDecreaseProposer observation [ch, cur, k, r] (k = -1: none).          *)
InRange(c, v) == c.min <= v /\ v <= c.max

\* the band of a rating: the band with the smallest threshold that is >= the rating
BandChances(c, r) ==
    {c.bands[i].ch : i \in {j \in 1..Len(c.bands) :
                              /\ r <= c.bands[j].thr
                              /\ \A m \in 1..Len(c.bands) : r <= c.bands[m].thr => c.bands[j].thr <= c.bands[m].thr}}

Viol(c, op, in, r, prev) ==
    (IF op # "Chance" /\ ~InRange(c, r) THEN {"out-of-range"} ELSE {})
    \cup (IF op \in {"IncP", "IncV"} /\ InRange(c, in.cur) /\ r < in.cur THEN {"increase-lowers"} ELSE {})
    \cup (IF op \in {"DecP", "DecV", "Revert"} /\ InRange(c, in.cur) /\ r > in.cur THEN {"decrease-raises"} ELSE {})
    \cup (IF op = "DecP" /\ prev.k >= 0 /\ prev.ch = in.ch /\ prev.cur = in.cur /\ prev.k < in.k /\ r > prev.r
          THEN {"longer-streak-higher-rating"} ELSE {})
    \cup (IF op = "Chance" /\ InRange(c, in.cur) /\ ~(r \in BandChances(c, in.cur)) THEN {"wrong-band"} ELSE {})

\* what a valid configuration is (verifyRatingsData / NewBlockSigningRater accept exactly these, as far as modelled)
ValidSteps(s) == s.incP >= 1 /\ s.incV >= 1 /\ s.decP <= -1 /\ s.decV <= -1 /\ (s.pd = 0 \/ (s.pd >= 1 /\ s.pn >= s.pd))
ValidConfig(c) ==
    /\ 1 <= c.min /\ c.min <= c.start /\ c.start <= c.max
    /\ ValidSteps(c.shard) /\ ValidSteps(c.meta)
    /\ Len(c.bands) >= 1
    /\ \A i, j \in 1..Len(c.bands) : i # j => c.bands[i].thr # c.bands[j].thr
    /\ \E i \in 1..Len(c.bands) : c.bands[i].thr = 0
    /\ \E i \in 1..Len(c.bands) : c.bands[i].thr = c.max /\ \A j \in 1..Len(c.bands) : c.bands[j].thr <= c.max

-----------------------------------------------------------------------------
NoPrev == [ch |-> "none", cur |-> 0, k |-> -1, r |-> 0]
Rec(op, in, r) ==
    [a |-> op, in |-> in, out |-> [r |-> r, viol |-> Viol(cfg, op, in, r, NoPrev)], st |-> [rating |-> rating']]

Init ==
    /\ cfg \in Configs /\ ValidConfig(cfg)
    /\ rating \in Currents(cfg)
    /\ hist = <<[a |-> "New", in |-> cfg, out |-> [r |-> 0, viol |-> {}], st |-> [rating |-> rating]]>>

Call(op, in) ==
    LET r == Expected(cfg, op, in) IN
    /\ r # Unknown
    /\ rating' = (IF op = "Chance" THEN rating ELSE r)
    /\ UNCHANGED cfg
    /\ hist' = Log(hist, Rec(op, in, r))

\* only the range of the rating is specified (non-dyadic penalty): any value the clauses allow
CallAny(op, in) ==
    /\ Expected(cfg, op, in) = Unknown
    /\ \E r \in cfg.min..Compute(cfg, cfg[in.ch].decP, in.cur) :
         /\ rating' = r /\ UNCHANGED cfg /\ hist' = Log(hist, Rec(op, in, r))

NextExact ==
    \E ch \in Chains :
       \/ Call("IncP", [ch |-> ch, cur |-> rating])
       \/ Call("IncV", [ch |-> ch, cur |-> rating])
       \/ Call("DecV", [ch |-> ch, cur |-> rating])
       \/ \E k \in Streaks : Call("DecP", [ch |-> ch, cur |-> rating, k |-> k])
       \/ \E n \in Reverts : Call("Revert", [ch |-> ch, cur |-> rating, n |-> n])
       \/ Call("Chance", [ch |-> ch, cur |-> rating])

Next ==
    \/ NextExact
    \/ \E ch \in Chains, k \in Streaks : CallAny("DecP", [ch |-> ch, cur |-> rating, k |-> k])

Spec == Init /\ [][Next]_vars

-----------------------------------------------------------------------------
(* C37 on the specification itself *)
LastRec == hist'[Len(hist')]
Act_C37_NoClauseViolated == [][LastRec.out.viol = {}]_vars

Inv_C37_Range == InRange(cfg, rating) \/ (hist[Len(hist)].a = "New")

\* a longer streak never yields a higher rating (for every in-range current rating; stated on the function)
Inv_C37_StreakMonotone ==
    \A ch \in Chains, cur \in cfg.min..cfg.max, k1, k2 \in Streaks :
        (k1 < k2 /\ DecPExact(cfg, ch, cur, k1) # Unknown /\ DecPExact(cfg, ch, cur, k2) # Unknown)
            => DecPExact(cfg, ch, cur, k2) <= DecPExact(cfg, ch, cur, k1)

\* the scan of the sorted bands reports the chance configured for the band of the rating
Inv_C37_ChanceBand ==
    \A r \in cfg.min..cfg.max : BandChances(cfg, r) = {ChanceCode(cfg, r)}
=============================================================================
