---- MODULE Trace_TokenId ----
(* Trace validation for C41: trace.ndjson holds Issue events recorded from the real ESDT contract            *)
(* (in: ticker, first candidate r, kind; out: ok, character codes of the identifier's suffix after           *)
(* "TICKER-", pre = the identifier starts with "TICKER-", same = returned identifier = stored identifier).   *)
(* Strict mode (TraceSpec): every event must be the Issue action of TokenId with the same result.            *)
(* Observation mode (ObsSpec): nothing is predicted.  In both modes the property is evaluated by TLC on the  *)
(* OBSERVED identifiers (variable obs); a failing clause is reported as a mark (class + trace line) instead  *)
(* of stopping, so that the whole trace is judged.                                                           *)
EXTENDS TokenId, Json, TLCExt
LogLast(h, r) == <<r>>
AllOn == {"NoWrapOnCarry"}
NoneOn == {}
TraceTickers == {"AAA", "BBB", "TKN9", "ZZZ"}
TLog == ndJsonDeserialize("trace.ndjson")
VARIABLES l, obs        \* obs: sequence of observed identifiers [t, codes, pre, same]
tvars == <<vars, l, obs>>
Ev == TLog[l]
IsEvent(name) == l <= Len(TLog) /\ Ev.a = name /\ l' = l + 1

TraceInit == /\ l = 1 /\ obs = <<>> /\ taken = [t \in Tickers |-> {}] /\ ids = <<>> /\ calls = 0 /\ hist = <<>>

TNew == /\ IsEvent("New")
        /\ Ev.in.w = W /\ Ev.in.retries = Retries
        /\ obs' = <<>> /\ taken' = [t \in Tickers |-> {}] /\ ids' = <<>> /\ calls' = 0
        /\ hist' = <<[a |-> "New", in |-> Ev.in, out |-> Ev.out, st |-> Ev.st]>>

Observe == obs' = IF Ev.out.ok
                  THEN Append(obs, [t |-> Ev.in.t, kind |-> Ev.in.kind, codes |-> Ev.out.codes, pre |-> Ev.out.pre, same |-> Ev.out.same])
                  ELSE obs

TIssue == /\ IsEvent("Issue")
          /\ Issue(Ev.in.t, Ev.in.r, Ev.in.kind)
          /\ hist'[1].out.ok = Ev.out.ok
          /\ Ev.out.ok => (hist'[1].out.codes = Ev.out.codes /\ Ev.out.pre)
          /\ Observe

TIssueObs == /\ IsEvent("Issue") /\ Observe /\ UNCHANGED vars
TNewObs   == /\ IsEvent("New") /\ obs' = <<>> /\ UNCHANGED vars

TraceSpec == TraceInit /\ [][TNew \/ TIssue]_tvars
ObsSpec   == TraceInit /\ [][TNewObs \/ TIssueObs]_tvars

\* ---- the property on the observed identifiers (only the newest one needs to be judged in each state)
Last == obs[Len(obs)]
ObsWellFormed == obs # <<>> => (Last.pre /\ WellFormedSuffix(Last.codes))
ObsUnique == obs # <<>> => \A i \in 1..(Len(obs) - 1) : ~(obs[i].t = Last.t /\ obs[i].codes = Last.codes)
ObsSame == obs # <<>> => Last.same
Mark(class) == PrintT("@@BAD:" \o class \o "/" \o Last.kind \o " " \o ToString(l - 1))
Report ==
    /\ ObsWellFormed \/ Mark(IF ~Last.pre THEN "malformed-identifier/bad-prefix"
                             ELSE IF Len(Last.codes) # W THEN "malformed-identifier/suffix-length-" \o ToString(Len(Last.codes))
                             ELSE "malformed-identifier/non-lowercase-hex-suffix")
    /\ ObsUnique \/ Mark("duplicate-identifier")
    /\ ObsSame \/ PrintT("@@BAD:returned-identifier-differs-from-stored " \o ToString(l - 1))

HighWater == Report /\ TLCSet(1, IF l > TLCGet(1) THEN l ELSE TLCGet(1))
Accepted  == IF TLCGet(1) = Len(TLog) + 1 THEN TRUE ELSE PrintT("@@HW " \o ToString(TLCGet(1))) /\ FALSE
ASSUME TLCSet(1, 0)
====
