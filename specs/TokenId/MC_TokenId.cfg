SPECIFICATION Spec
CONSTANTS
  Tickers = {"AAA"}
  Starts <- AllStarts1
  Kinds = {"issue"}
  W = 1
  Retries = 3
  MaxIssues = 4
  KnownDefects <- NoneOn
  Log <- LogLast
  StepBound = 0
VIEW cvars
INVARIANTS TypeOK Inv_C41_WellFormed Inv_C41_Unique Inv_C41_Stored
CHECK_DEADLOCK FALSE
