SPECIFICATION TraceSpec
CONSTANTS
  Tickers <- TraceTickers
  Starts = {}
  Kinds = {}
  W = 6
  Retries = 50
  MaxIssues = 0
  KnownDefects <- AllOn
  Log <- LogLast
CONSTRAINT HighWater
POSTCONDITION Accepted
CHECK_DEADLOCK FALSE
