---- MODULE MC_TokenId ----
EXTENDS TokenId, Json
CONSTANT StepBound
LogAppend(h, r) == Append(h, r)
LogLast(h, r) == <<r>>
AllOn == {"NoWrapOnCarry"}
NoneOn == {}
\* W = 1: every first candidate; W = 2: candidates around both ends and in the middle
AllStarts1 == 0..15
AllStarts2 == 0..255
EdgeStarts2 == {0, 1, 2, 127, 253, 254, 255}
\* W = 6: first candidates around the carry and inside the range
EdgeStarts6 == {0, 43981, 16777213, 16777214, 16777215}
OneStart6 == {16777190}
GenNext  == Len(hist) < StepBound /\ Next
GenSpec  == Init /\ [][GenNext]_vars
EmitEdge == PrintT("@@B " \o ToJson(hist'))
EmitFull == (Len(hist') = StepBound) => PrintT("@@B " \o ToJson(hist'))
====
