------------------------------- MODULE TokenId -------------------------------
(***************************************************************************)
(* Token identifier generation of the ESDT system contract                  *)
(* (vm/systemSmartContracts/esdt.go: issue / issueSemiFungible /            *)
(* issueNonFungible -> createNewToken -> createNewTokenIdentifier).         *)
(*                                                                          *)
(* The identifier is TICKER "-" suffix.  The first candidate value r is the *)
(* big-endian integer of the first 3 bytes of hash(caller ++ random seed);  *)
(* the code renders the candidate with fmt.Sprintf("%06x"), looks it up in  *)
(* the contract's storage and, while taken, adds one -- without wrapping -- *)
(* at most `Retries` times (numOfRetriesForIdentifier = 50).                *)
(*                                                                          *)
(* Property C41: every issued identifier has exactly W lowercase hex digits *)
(* after "TICKER-" and differs from every identifier issued before.         *)
(* W = 6 in the code; the exhaustive model runs with W = 2 (same algorithm).*)
(***************************************************************************)
EXTENDS Integers, Sequences, FiniteSets, TLC

CONSTANTS
    Tickers,      \* ticker strings
    Starts,       \* first candidate values r (what the hash yields)
    Kinds,        \* "issue", "issueSemiFungible", "issueNonFungible": all share createNewTokenIdentifier
    W,            \* number of hex digits of the suffix
    Retries,      \* numOfRetriesForIdentifier
    MaxIssues,    \* bound on the number of Issue calls in one behaviour
    KnownDefects, \* {"NoWrapOnCarry"}: the candidate is incremented without wrap-around (code as it is)
    Log(_, _)

VARIABLES
    taken,   \* ticker -> set of candidate values whose identifier is stored in the contract
    ids,     \* sequence of issued identifiers [t |-> ticker, codes |-> character codes of the suffix]
    calls,   \* number of Issue calls so far (bound only)
    hist

vars  == <<taken, ids, calls, hist>>
cvars == <<taken, ids, calls>>

Limit == 16 ^ W
HD == <<"0", "1", "2", "3", "4", "5", "6", "7", "8", "9", "a", "b", "c", "d", "e", "f">>
HC == <<48, 49, 50, 51, 52, 53, 54, 55, 56, 57, 97, 98, 99, 100, 101, 102>>
HexCodes == {HC[i] : i \in 1..16}

\* fmt.Sprintf("%0Wx", n): minimal hex digits of n, left-padded with zeros to at least W digits
RECURSIVE NumDigits(_)
NumDigits(n) == IF n < 16 THEN 1 ELSE 1 + NumDigits(n \div 16)
RECURSIVE HexMin(_)
HexMin(n) == IF n < 16 THEN HD[n + 1] ELSE HexMin(n \div 16) \o HD[(n % 16) + 1]
RECURSIVE CodesMin(_)
CodesMin(n) == IF n < 16 THEN <<HC[n + 1]>> ELSE Append(CodesMin(n \div 16), HC[(n % 16) + 1])
RECURSIVE Zeros(_)
Zeros(k) == IF k <= 0 THEN "" ELSE "0" \o Zeros(k - 1)
HexStr(n) == Zeros(W - NumDigits(n)) \o HexMin(n)
Codes(n) == [i \in 1..(IF NumDigits(n) < W THEN W - NumDigits(n) ELSE 0) |-> 48] \o CodesMin(n)

\* i-th candidate for first candidate r
Cand(r, i) == IF "NoWrapOnCarry" \in KnownDefects THEN r + i ELSE (r + i) % Limit

Min(S) == CHOOSE x \in S : \A y \in S : x <= y

Init ==
    /\ taken = [t \in Tickers |-> {}] /\ ids = <<>> /\ calls = 0
    /\ hist = <<[a |-> "New", in |-> [w |-> W, retries |-> Retries], out |-> [x |-> 0], st |-> [n |-> 0]]>>

\* one issue / issueSemiFungible / issueNonFungible transaction with a valid ticker
Issue(t, r, kind) ==
    /\ calls' = calls + 1
    /\ LET free == {i \in 0..(Retries - 1) : Cand(r, i) \notin taken[t]} IN
       IF free = {}
       THEN \* ErrCouldNotCreateNewTokenIdentifier: the transaction fails, nothing is stored
            /\ UNCHANGED <<taken, ids>>
            /\ hist' = Log(hist, [a |-> "Issue", in |-> [t |-> t, r |-> r, kind |-> kind],
                                  out |-> [ok |-> FALSE, id |-> "", codes |-> <<>>, tries |-> Retries],
                                  st |-> [n |-> Len(ids)]])
       ELSE LET i == Min(free)
                n == Cand(r, i) IN
            /\ taken' = [taken EXCEPT ![t] = @ \cup {n}]
            /\ ids' = Append(ids, [t |-> t, codes |-> Codes(n)])
            /\ hist' = Log(hist, [a |-> "Issue", in |-> [t |-> t, r |-> r, kind |-> kind],
                                  out |-> [ok |-> TRUE, id |-> t \o "-" \o HexStr(n), codes |-> Codes(n), tries |-> i + 1],
                                  st |-> [n |-> Len(ids) + 1]])

Next == calls < MaxIssues /\ \E t \in Tickers, r \in Starts, k \in Kinds : Issue(t, r, k)

Spec == Init /\ [][Next]_vars

-----------------------------------------------------------------------------
(* Property C41 *)

WellFormedSuffix(c) == Len(c) = W /\ \A j \in 1..Len(c) : c[j] \in HexCodes

Inv_C41_WellFormed == \A i \in 1..Len(ids) : WellFormedSuffix(ids[i].codes)

Inv_C41_Unique == \A i, j \in 1..Len(ids) : i # j => ids[i] # ids[j]

\* the stored identifiers are exactly the issued ones (nothing is stored by a failed issue)
Inv_C41_Stored == Cardinality(UNION {{<<t, n>> : n \in taken[t]} : t \in Tickers}) = Len(ids)

TypeOK == /\ \A t \in Tickers : taken[t] \subseteq Nat
          /\ calls \in Nat
=============================================================================
