----------------------------- MODULE WireMutants -----------------------------
(***************************************************************************)
(* The input space of C18 around a given encoding: every single re-encoding *)
(* step a relayer can apply to a byte string (reorder, duplicate, pad a      *)
(* varint, set dropped high bits, add an unknown field, write a default      *)
(* value explicitly, re-encode a big integer, drop / split a record), at the *)
(* top level and inside embedded messages, plus negative controls (steps     *)
(* that change the content or make the bytes undecodable).                   *)
(***************************************************************************)
EXTENDS WireMalleability

OtherVid == -1                         \* "some other number": the harness writes 85 (no instance field holds 85)
OtherP   == ExplicitP(<<85>>)          \* "some other payload"

InsertAt(e, pos, r) == SubSeq(e, 1, pos - 1) \o <<r>> \o SubSeq(e, pos, Len(e))     \* pos in 1..Len(e)+1
RemoveAt(e, i) == SubSeq(e, 1, i - 1) \o SubSeq(e, i + 1, Len(e))
SwapAdj(e, i) == [e EXCEPT ![i] = e[i + 1], ![i + 1] = e[i]]
Idx(e) == 1..Len(e)
FieldOfRec(T, r) == Fields(T)[FIdx(T, r.fn)]
UnknownFn(T) == 1 + (CHOOSE m \in {Fields(T)[i].fn : i \in 1..Len(Fields(T))} :
                        \A i \in 1..Len(Fields(T)) : Fields(T)[i].fn <= m)

\* reordering: adjacent swaps, last record first, first record last
Reorders(e) ==
    {SwapAdj(e, i) : i \in 1..(Len(e) - 1)}
    \cup (IF Len(e) >= 3 THEN {<<e[Len(e)]>> \o SubSeq(e, 1, Len(e) - 1), Tail(e) \o <<Head(e)>>} ELSE {})

\* a copy of a record of a non-repeated field in front of it (same or other value: the last one wins) and,
\* as a control, behind it with another value (content changes)
OtherRec(r) == IF r.wt = 0 THEN [r EXCEPT !.vid = OtherVid, !.vw = 1, !.hi = 0]
               ELSE IF r.m THEN [r EXCEPT !.sub = <<>>]
               ELSE IF r.p.id = -1 THEN [r EXCEPT !.p = ExplicitP(<<0, 85>>)]      \* big-int field: the number 85
               ELSE [r EXCEPT !.p = OtherP]
Dups(T, e) ==
    UNION {IF KnownFn(T, e[i].fn) /\ ~FieldOfRec(T, e[i]).rep
           THEN {InsertAt(e, i, e[i]), InsertAt(e, i, OtherRec(e[i])), InsertAt(e, 1, OtherRec(e[i])),
                 InsertAt(e, i + 1, OtherRec(e[i]))}
           ELSE {} : i \in Idx(e)}

\* non-minimal varints: tag, value, length; one and two extra bytes; up to and beyond the 10 byte limit
Widens(e) ==
    UNION {{[e EXCEPT ![i].tx = 1]}
           \cup (IF e[i].wt = 0 THEN {[e EXCEPT ![i].vx = 1], [e EXCEPT ![i].vx = 2]} ELSE {})
           \cup (IF e[i].wt = 2 THEN {[e EXCEPT ![i].lx = 1], [e EXCEPT ![i].lx = 2]} ELSE {}) : i \in Idx(e)}
    \cup (IF e # <<>> /\ e[1].wt = 0
          THEN {[e EXCEPT ![1].vx = MaxVarint - ValW(e[1])], [e EXCEPT ![1].vx = MaxVarint + 1 - ValW(e[1])]}
          ELSE {})

\* bit 32 set in the varint of a field (dropped by uint32/enum fields, kept by uint64 fields)
HiBits(T, e) ==
    {[e EXCEPT ![i].hi = 1] : i \in {j \in Idx(e) : e[j].wt = 0 /\ e[j].vw < 5 /\ KnownFn(T, e[j].fn)}}

\* unknown fields (dropped by the decoder) at the front, in the middle, at the end; field number 0 is illegal
UnknownRecs(T) ==
    {MkVar(UnknownFn(T), OtherVid, 1, 0), MkBytes(UnknownFn(T), OtherP), MkBytes(UnknownFn(T), EmptyP),
     MkRec(UnknownFn(T), 5), MkRec(UnknownFn(T), 1), MkVar(1000, 0, 1, 0)}
Unknowns(T, e) ==
    {InsertAt(e, pos, r) : pos \in {1, 1 + Len(e) \div 2, Len(e) + 1}, r \in UnknownRecs(T)}
    \cup {InsertAt(e, Len(e) + 1, MkVar(0, 0, 1, 0))}

\* a default value written explicitly (the canonical encoding omits it)
Defaults(T, e) ==
    UNION {LET f == Fields(T)[k] IN
           IF ~f.rep /\ f.kind \in {"u64", "u32", "bytes"} /\ ~\E i \in Idx(e) : e[i].fn = f.fn
           THEN {InsertAt(e, pos, IF f.kind = "bytes" THEN MkBytes(f.fn, EmptyP) ELSE MkVar(f.fn, 0, 1, 0)) :
                    pos \in {1, Len(e) + 1}}
           ELSE {} : k \in 1..Len(Fields(T))}

\* other byte strings for a big-int payload
BigVariants(b) ==
    LET d == BigDecode(b) IN
    IF ~d.ok THEN {}
    ELSE IF d.v.k = "nil" THEN {<<5>>, <<>>}
    ELSE IF d.v.k = "zero" THEN {<<1, 0>>, <<7, 0>>, <<0, 0, 0>>, <<1, 0, 0>>, <<7, 0, 0>>, <<0>>}
    ELSE {<<b[1], 0>> \o Tail(b), <<b[1], 0, 0>> \o Tail(b), <<7>> \o Tail(b), <<1 - b[1]>> \o Tail(b)}
BigRecodes(T, e) ==
    UNION {IF KnownFn(T, e[i].fn) /\ FieldOfRec(T, e[i]).kind = "big" /\ e[i].wt = 2
           THEN {[e EXCEPT ![i].p = ExplicitP(b)] : b \in BigVariants(e[i].p.b)}
           ELSE {} : i \in Idx(e)}

\* dropping one record (content preserving only for always-written fields that hold their default)
Drops(e) == {RemoveAt(e, i) : i \in Idx(e)}

\* an embedded (non repeated) message written in two parts, in both orders, or twice
Splits(T, e) ==
    UNION {IF KnownFn(T, e[i].fn) /\ e[i].m /\ ~FieldOfRec(T, e[i]).rep
           THEN (IF Len(e[i].sub) >= 2
                 THEN LET a == [e[i] EXCEPT !.sub = SubSeq(e[i].sub, 1, 1)]
                          b == [e[i] EXCEPT !.sub = Tail(e[i].sub)]
                      IN  {InsertAt([e EXCEPT ![i] = b], i, a), InsertAt([e EXCEPT ![i] = a], i, b)}
                 ELSE {})
                \cup {InsertAt(e, i, e[i]), InsertAt(e, i, [e[i] EXCEPT !.sub = <<>>])}
           ELSE {} : i \in Idx(e)}

\* wrong wire type for a known field (decoder error)
WrongWire(T, e) ==
    {[e EXCEPT ![i].wt = 2 - e[i].wt] : i \in {j \in Idx(e) : KnownFn(T, e[j].fn) /\ ~e[j].m /\ j <= 3}}

RECURSIVE Mutants(_, _, _)
Nested(T, e, depth) ==
    UNION {IF KnownFn(T, e[i].fn) /\ e[i].m /\ FieldOfRec(T, e[i]).kind = "msg"
           THEN {[e EXCEPT ![i].sub = x] : x \in Mutants(FieldOfRec(T, e[i]).sub, e[i].sub, depth - 1)}
           ELSE {} : i \in Idx(e)}
Mutants(T, e, depth) ==
    IF depth <= 0 THEN {}
    ELSE Reorders(e) \cup Dups(T, e) \cup Widens(e) \cup HiBits(T, e) \cup Unknowns(T, e) \cup Defaults(T, e)
         \cup BigRecodes(T, e) \cup Drops(e) \cup Splits(T, e) \cup WrongWire(T, e) \cup Nested(T, e, depth)

-----------------------------------------------------------------------------
(* Boundary mutants: padding sized by the specification's own size rule.  For a size check `d` and canonical size S   *)
(* the rule accepts up to S + S*d/100 bytes; the mutants land exactly on that limit, one and two bytes beyond, and at  *)
(* a few points up to 1.3 x the tolerated drift beyond (incl. S*d/(100-d), the limit of a "percent of the received    *)
(* buffer" reading of the rule), so that the acceptance boundary itself is pinned, not only one point on each side.  *)
PadP(n) == [id |-> -2, len |-> n, b |-> <<>>]           \* n padding bytes (the harness writes 0x55)
\* unknown-field records of exactly `need` bytes in total (<<>> if impossible)
PadRecs(T, need) ==
    LET u  == UnknownFn(T)
        N1 == {n \in 0..need : TagW(u, 2) + VW(n) + n = need}
        N2 == {n \in 0..need : TagW(u, 2) + VW(n) + n + TagW(u, 0) + 1 = need}
    IN  IF N1 # {} THEN <<MkBytes(u, PadP(CHOOSE n \in N1 : TRUE))>>
        ELSE IF N2 # {} THEN <<MkBytes(u, PadP(CHOOSE n \in N2 : TRUE)), MkVar(u, 0, 1, 0)>>
        ELSE <<>>
\* the same amount as an overwritten duplicate of the first non-repeated bytes field (the last occurrence wins)
DupPad(T, e, need) ==
    LET I == {i \in Idx(e) : KnownFn(T, e[i].fn) /\ e[i].wt = 2 /\ ~e[i].m /\ e[i].p.id > 0
                              /\ FieldOfRec(T, e[i]).kind = "bytes" /\ ~FieldOfRec(T, e[i]).rep}
    IN  IF I = {} THEN {}
        ELSE LET i == CHOOSE j \in I : \A k \in I : j <= k
                 N == {n \in 0..need : TagW(e[i].fn, 2) + VW(n) + n = need}
             IN  {InsertAt(e, i, MkBytes(e[i].fn, PadP(n))) : n \in N}
BoundaryExtras(S, d) ==
    LET m == (S * d) \div 100 IN
    {x \in {m - 1, m, m + 1, m + 2, m + m \div 20 + 1, m + m \div 10, m + m \div 10 + 1, m + m \div 8, m + (3 * m) \div 10}
            \cup (IF d < 100 THEN {(S * d) \div (100 - d), (S * d) \div (100 - d) + 1} ELSE {}) : x >= 2}
Boundary(T, e, d) ==
    LET S == EncSize(e) IN
    ({e \o PadRecs(T, x) : x \in BoundaryExtras(S, d)}
     \cup UNION {DupPad(T, e, x) : x \in {y \in BoundaryExtras(S, d) : y <= (S * d) \div 100 + 1 \/ y = (S * d) \div (100 - IF d < 100 THEN d ELSE 0)}})
    \ {e}

\* shortening steps followed by any step: the slack a shorter encoding leaves under the size check
Shorter(T, e) == {x \in Drops(e) \cup BigRecodes(T, e) : Decode(T, x).ok /\ Decode(T, x).val = Decode(T, e).val
                                                         /\ EncSize(x) < EncSize(e)}
Mutants2(T, e) == UNION {Mutants(T, x, 1) : x \in Shorter(T, e)}
=============================================================================
