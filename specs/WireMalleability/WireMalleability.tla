--------------------------- MODULE WireMalleability ---------------------------
(***************************************************************************)
(* Protobuf wire encodings as the interceptors of elrond-go see them.       *)
(*                                                                          *)
(* An encoding is a sequence of wire records; a record is                   *)
(*   [fn  field number, wt wire type (0 varint, 1 fixed64, 2 bytes, 5 fixed32), *)
(*    tx  extra (non-minimal) bytes of the tag varint,                      *)
(*    vid, vw   varint value: interned id (0 = the number zero) and its     *)
(*              minimal width in bytes,                                     *)
(*    vx  extra (non-minimal) bytes of the value varint,                    *)
(*    hi  1 = bit 32 of the encoded number is set additionally (the generated *)
(*        decoder of a uint32/enum field drops it: uint32(b&0x7F) << shift) *)
(*    lx  extra bytes of the length varint,                                 *)
(*    p   payload of a length-delimited field: [id, len, b]: opaque content *)
(*        `id` of `len` bytes (b = <<>>) or explicit bytes b (id = -1),     *)
(*    m, sub    m = TRUE: the payload is the nested encoding `sub`]         *)
(*                                                                          *)
(* Decode transcribes what the gogo-generated Unmarshal methods of the      *)
(* pinned tree do (last value wins for scalars, repeated fields append,     *)
(* embedded messages merge, unknown fields are skipped and dropped, varints *)
(* need not be minimal, wrong wire type / field number 0 / over-long varint *)
(* are errors) and data.BigIntCaster.Unmarshal.  CanonSize is Size() of the *)
(* decoded message.  Accepted adds marshal.sizeCheckUnmarshalizer.          *)
(*                                                                          *)
(* Property C18: two accepted encodings with the same decoded content have  *)
(* the same hash.  HashMode = "received" is the code as it is (the          *)
(* interceptors hash the received buffer) -- a named deviation, see         *)
(* Inv_C18; HashMode = "canonical" is the intended design.                  *)
(***************************************************************************)
EXTENDS Integers, Sequences, FiniteSets, TLC

CONSTANTS Schemas,    \* type name -> sequence of [fn, kind, rep, sub]; kind in "u64" "u32" "bytes" "big" "msg"
          HashMode    \* "received" | "canonical"

NoCheck == -1         \* Delta value: the factory installs no sizeCheckUnmarshalizer (SizeCheckDelta = 0 in config)

\* width of a varint
VW(n) == IF n < 128 THEN 1 ELSE IF n < 16384 THEN 2 ELSE IF n < 2097152 THEN 3
         ELSE IF n < 268435456 THEN 4 ELSE 5
TagW(fn, wt) == VW(fn * 8 + wt)
MaxVarint == 10       \* the generated loops fail with ErrIntOverflow at shift >= 64

-----------------------------------------------------------------------------
(* sizes of encodings *)
RECURSIVE EncSize(_)
PLen(r) == IF r.m THEN EncSize(r.sub) ELSE r.p.len
EffW(w, hi) == IF hi = 1 /\ w < 5 THEN 5 ELSE w        \* bit 32 set: the varint needs at least 5 bytes
ValW(r) == EffW(r.vw, r.hi) + r.vx
RecSize(r) ==
    TagW(r.fn, r.wt) + r.tx +
    (CASE r.wt = 0 -> ValW(r)
       [] r.wt = 1 -> 8
       [] r.wt = 5 -> 4
       [] r.wt = 2 -> VW(PLen(r)) + r.lx + PLen(r))
EncSize(e) == IF e = <<>> THEN 0 ELSE RecSize(Head(e)) + EncSize(Tail(e))

-----------------------------------------------------------------------------
(* schema access *)
Fields(T) == Schemas[T]
\* field number -> index in Fields(T) (0 = unknown); a constant, computed once
FnMap == [T \in DOMAIN Schemas |->
            LET F == Schemas[T]
                M == IF Len(F) = 0 THEN 0 ELSE CHOOSE m \in {F[i].fn : i \in 1..Len(F)} : \A i \in 1..Len(F) : F[i].fn <= m
            IN  [fn \in 1..M |-> LET I == {i \in 1..Len(F) : F[i].fn = fn} IN IF I = {} THEN 0 ELSE CHOOSE i \in I : TRUE]]
FIdx(T, fn) == IF fn \in DOMAIN FnMap[T] THEN FnMap[T][fn] ELSE 0
KnownFn(T, fn) == FIdx(T, fn) # 0
IsVar(k) == k \in {"u64", "u32"}

-----------------------------------------------------------------------------
(* data.BigIntCaster *)
NilBig  == [k |-> "nil", neg |-> FALSE, mag |-> <<>>]
ZeroBig == [k |-> "zero", neg |-> FALSE, mag |-> <<>>]
RECURSIVE StripZeros(_)
StripZeros(b) == IF b # <<>> /\ Head(b) = 0 THEN StripZeros(Tail(b)) ELSE b
\* Unmarshal: result [ok, v]
BigDecode(b) ==
    IF Len(b) = 0 THEN [ok |-> FALSE, v |-> NilBig]
    ELSE IF Len(b) = 1 THEN [ok |-> TRUE, v |-> NilBig]
    ELSE IF Len(b) = 2 /\ b[2] = 0 THEN [ok |-> TRUE, v |-> ZeroBig]           \* whatever the sign byte is
    ELSE IF b[1] \notin {0, 1} THEN [ok |-> FALSE, v |-> NilBig]
    ELSE LET mag == StripZeros(Tail(b)) IN
         IF mag = <<>> THEN [ok |-> TRUE, v |-> ZeroBig]                        \* big.Int has no negative zero
         ELSE [ok |-> TRUE, v |-> [k |-> "num", neg |-> (b[1] = 1), mag |-> mag]]
\* Size / MarshalTo
BigSize(v) == IF v.k = "nil" THEN 1 ELSE IF v.k = "zero" THEN 2 ELSE 1 + Len(v.mag)
BigCanon(v) == IF v.k = "nil" THEN <<0>> ELSE IF v.k = "zero" THEN <<0, 0>>
               ELSE <<IF v.neg THEN 1 ELSE 0>> \o v.mag

-----------------------------------------------------------------------------
(* decoded content: a function field index -> value *)
ZeroNum == [id |-> 0, w |-> 1, hi |-> 0]
EmptyP == [id |-> 0, len |-> 0, b |-> <<>>]

RECURSIVE DefaultVal(_)
DefaultVal(T) ==
    [i \in 1..Len(Fields(T)) |->
        LET f == Fields(T)[i] IN
        IF f.rep THEN <<>>
        ELSE IF IsVar(f.kind) THEN ZeroNum
        ELSE IF f.kind = "bytes" THEN EmptyP
        ELSE IF f.kind = "big" THEN NilBig
        ELSE DefaultVal(f.sub)]

\* the bytes of a payload matter only for big-int fields
PBytes(p) == p.b

WidthsOK(r) ==
    \/ (r.tx = 0 /\ r.vx = 0 /\ r.lx = 0)            \* minimal varints never exceed the limit
    \/ /\ TagW(r.fn, r.wt) + r.tx <= MaxVarint
       /\ (r.wt = 0 => ValW(r) <= MaxVarint)
       /\ (r.wt = 2 => VW(PLen(r)) + r.lx <= MaxVarint)

\* DecodeInto(T, val, e): continue filling `val` from the records of e (Unmarshal does not reset) -> [ok, val]
RECURSIVE DecodeInto(_, _, _)
DecodeRec(T, val, r) ==
    IF r.fn <= 0 \/ ~WidthsOK(r) \/ r.wt \notin {0, 1, 2, 5} THEN [ok |-> FALSE, val |-> val]
    ELSE IF ~KnownFn(T, r.fn) THEN [ok |-> TRUE, val |-> val]                  \* skipped, nothing kept
    ELSE LET i == FIdx(T, r.fn) f == Fields(T)[i] IN
         IF IsVar(f.kind)
         THEN IF r.wt # 0 THEN [ok |-> FALSE, val |-> val]
              ELSE [ok |-> TRUE, val |-> [val EXCEPT ![i] =
                       IF f.kind = "u32" THEN [id |-> r.vid, w |-> r.vw, hi |-> 0]          \* bits >= 32 dropped
                       ELSE [id |-> r.vid, w |-> r.vw, hi |-> r.hi]]]
         ELSE IF r.wt # 2 THEN [ok |-> FALSE, val |-> val]
         ELSE IF f.kind = "bytes"
              THEN [ok |-> ~r.m, val |-> [val EXCEPT ![i] = IF f.rep THEN Append(val[i], r.p) ELSE r.p]]
         ELSE IF f.kind = "big"
              THEN LET d == BigDecode(PBytes(r.p)) IN
                   [ok |-> d.ok /\ ~r.m /\ r.p.id = -1, val |-> [val EXCEPT ![i] = d.v]]
         ELSE \* embedded message
              IF ~r.m THEN [ok |-> FALSE, val |-> val]
              ELSE IF f.rep
                   THEN LET d == DecodeInto(f.sub, DefaultVal(f.sub), r.sub) IN
                        [ok |-> d.ok, val |-> [val EXCEPT ![i] = Append(val[i], d.val)]]
                   ELSE LET d == DecodeInto(f.sub, val[i], r.sub) IN        \* merge into the existing value
                        [ok |-> d.ok, val |-> [val EXCEPT ![i] = d.val]]
DecodeInto(T, val, e) ==
    IF e = <<>> THEN [ok |-> TRUE, val |-> val]
    ELSE LET d == DecodeRec(T, val, Head(e)) IN
         IF ~d.ok THEN d ELSE DecodeInto(T, d.val, Tail(e))

Decode(T, e) == DecodeInto(T, DefaultVal(T), e)      \* GogoProtoMarshalizer.Unmarshal: Reset, then Unmarshal

-----------------------------------------------------------------------------
(* Size() of the decoded message = length of its canonical encoding *)
RECURSIVE CanonSize(_, _)
PSize(fn, n) == TagW(fn, 2) + VW(n) + n
RECURSIVE RepBytesSize(_, _)
RepBytesSize(fn, v) == IF v = <<>> THEN 0 ELSE PSize(fn, Head(v).len) + RepBytesSize(fn, Tail(v))
RECURSIVE RepMsgSize(_, _)
RepMsgSize(f, v) == IF v = <<>> THEN 0 ELSE PSize(f.fn, CanonSize(f.sub, Head(v))) + RepMsgSize(f, Tail(v))
FieldSize(f, v) ==
    IF IsVar(f.kind) THEN IF v.id = 0 /\ v.hi = 0 THEN 0 ELSE TagW(f.fn, 0) + EffW(v.w, v.hi)
    ELSE IF f.kind = "bytes"
         THEN IF f.rep THEN RepBytesSize(f.fn, v)                                  \* every element is written
              ELSE IF v.len = 0 THEN 0 ELSE PSize(f.fn, v.len)
    ELSE IF f.kind = "big" THEN PSize(f.fn, BigSize(v))                            \* always written
    ELSE IF f.rep THEN RepMsgSize(f, v)
         ELSE PSize(f.fn, CanonSize(f.sub, v))                                     \* non-nullable: always written
CanonSize(T, val) ==
    LET F == Fields(T)
        RECURSIVE S(_)
        S(i) == IF i > Len(F) THEN 0 ELSE FieldSize(F[i], val[i]) + S(i + 1)
    IN  S(1)

\* the canonical encoding (what Marshal writes): fields in ascending field number order (Fields(T) is sorted)
MkRec(fn, wt) == [fn |-> fn, wt |-> wt, tx |-> 0, vid |-> 0, vw |-> 1, vx |-> 0, hi |-> 0, lx |-> 0,
                  p |-> EmptyP, m |-> FALSE, sub |-> <<>>]
MkVar(fn, id, w, hi) == [MkRec(fn, 0) EXCEPT !.vid = id, !.vw = w, !.hi = hi]
MkBytes(fn, p) == [MkRec(fn, 2) EXCEPT !.p = p]
MkMsg(fn, sub) == [MkRec(fn, 2) EXCEPT !.m = TRUE, !.sub = sub]
ExplicitP(b) == [id |-> -1, len |-> Len(b), b |-> b]
RECURSIVE Canon(_, _)
RECURSIVE MapBytes(_, _)
MapBytes(fn, v) == IF v = <<>> THEN <<>> ELSE <<MkBytes(fn, Head(v))>> \o MapBytes(fn, Tail(v))
RECURSIVE MapMsg(_, _)
MapMsg(f, v) == IF v = <<>> THEN <<>> ELSE <<MkMsg(f.fn, Canon(f.sub, Head(v)))>> \o MapMsg(f, Tail(v))
CanonField(f, v) ==
    IF IsVar(f.kind) THEN IF v.id = 0 /\ v.hi = 0 THEN <<>> ELSE <<MkVar(f.fn, v.id, v.w, v.hi)>>
    ELSE IF f.kind = "bytes"
         THEN IF f.rep THEN MapBytes(f.fn, v) ELSE IF v.len = 0 THEN <<>> ELSE <<MkBytes(f.fn, v)>>
    ELSE IF f.kind = "big" THEN <<MkBytes(f.fn, ExplicitP(BigCanon(v)))>>
    ELSE IF f.rep THEN MapMsg(f, v) ELSE <<MkMsg(f.fn, Canon(f.sub, v))>>
Canon(T, val) ==
    LET F == Fields(T)
        RECURSIVE C(_)
        C(i) == IF i > Len(F) THEN <<>> ELSE CanonField(F[i], val[i]) \o C(i + 1)
    IN  C(1)

\* marshal.sizeCheckUnmarshalizer.Unmarshal (integer arithmetic as in the code)
Lenient == -2         \* Delta value math.MaxUint32 (update/factory: full-sync / hardfork interceptors): accepts any length
SizeOK(len, objSize, delta) == delta \in {NoCheck, Lenient} \/ len <= objSize + (objSize * delta) \div 100

(* The rule is PER HANDLE.  NewSizeCheckUnmarshalizer(m, d) returns a new handle that first asks m (which may itself be  *)
(* a size-checking handle) and then applies its own rule; it never changes m or any other handle around the same base. *)
(* A wrapping history is a sequence of operations [on |-> k, d |-> delta]: handle i = wrap(handle on, d), handle 0 =     *)
(* the bare marshalizer.  The rule of handle k is the conjunction along ITS OWN chain -- a function of the deltas of     *)
(* the wrappers it is made of, whatever else was wrapped around it or around the same base later.                       *)
RECURSIVE Chain(_, _)
Chain(ops, k) == IF k = 0 THEN <<>> ELSE <<ops[k].d>> \o Chain(ops, ops[k].on)
HandleSizeOK(ops, k, len, objSize) == \A i \in 1..Len(Chain(ops, k)) : SizeOK(len, objSize, Chain(ops, k)[i])

Accepted(T, e, delta) ==
    LET d == Decode(T, e) IN d.ok /\ SizeOK(EncSize(e), CanonSize(T, d.val), delta)

-----------------------------------------------------------------------------
(* classification of the ways in which an encoding differs from the canonical one *)
\* other byte strings for the same big integer
BigClasses(b) ==
    LET d == BigDecode(b) IN
    IF ~d.ok \/ BigCanon(d.v) = b THEN {}
    ELSE IF d.v.k = "nil" THEN {"bigint-nil-any-byte"}                    \* one byte, whatever its value
    ELSE IF d.v.k = "zero" /\ Len(b) = 2 THEN {"bigint-zero-any-sign-byte"} \* {k, 0} for every k
    ELSE {"bigint-padded"}                                                \* leading zero bytes, negative zero
RECURSIVE Classes(_, _)
RecClasses(T, r) ==
    (IF r.tx > 0 \/ (r.wt = 0 /\ r.vx > 0) \/ (r.wt = 2 /\ r.lx > 0) THEN {"non-minimal-varint"} ELSE {})
    \cup (IF ~KnownFn(T, r.fn) THEN {"unknown-field"}
          ELSE LET f == Fields(T)[FIdx(T, r.fn)] IN
               (IF f.kind = "u32" /\ r.wt = 0 /\ r.hi = 1 THEN {"uint32-high-bits"} ELSE {})
          \cup (IF IsVar(f.kind) /\ r.wt = 0 /\ r.vid = 0 /\ r.hi = 0 THEN {"explicit-default"} ELSE {})
          \cup (IF f.kind = "bytes" /\ ~f.rep /\ r.wt = 2 /\ r.p.len = 0 THEN {"explicit-default"} ELSE {})
          \cup (IF f.kind = "big" /\ r.wt = 2 THEN BigClasses(PBytes(r.p)) ELSE {})
          \cup (IF f.kind = "msg" /\ r.m THEN Classes(f.sub, r.sub) ELSE {}))
Classes(T, e) ==
    LET F == Fields(T)
        N == Len(e)
        known == {i \in 1..N : KnownFn(T, e[i].fn)}
    IN  UNION {RecClasses(T, e[i]) : i \in 1..N}
        \cup (LET ks == SelectSeq(e, LAMBDA r : KnownFn(T, r.fn)) IN           \* Marshal writes ascending field numbers
              IF \E i \in 1..(Len(ks) - 1) : ks[i].fn > ks[i + 1].fn THEN {"reordered-fields"} ELSE {})
        \cup (LET single == {i \in known : ~F[FIdx(T, e[i].fn)].rep} IN
              IF Cardinality(single) > Cardinality({e[i].fn : i \in single}) THEN {"duplicated-field"} ELSE {})
        \cup (LET present == {e[i].fn : i \in 1..N} IN
              IF \E k \in 1..Len(F) : (F[k].kind = "big" \/ (F[k].kind = "msg" /\ ~F[k].rep)) /\ F[k].fn \notin present
              THEN {"omitted-always-written-field"} ELSE {})

IsCanonical(T, e) == Classes(T, e) = {}

-----------------------------------------------------------------------------
(* the hash the interceptor computes: a key such that equal keys <=> equal hashes (hash injective) *)
HashKey(T, e) == IF HashMode = "received" THEN [enc |-> e] ELSE [val |-> Decode(T, e).val]

\* C18 for a pair of encodings of type T under size-check delta
C18(T, e1, e2, delta) ==
    (Accepted(T, e1, delta) /\ Accepted(T, e2, delta) /\ Decode(T, e1).val = Decode(T, e2).val)
        => HashKey(T, e1) = HashKey(T, e2)
=============================================================================
