---- MODULE MC_WireReal ----
(* R2: the real canonical instances (described by `vh-wire describe`: reflected schemas of the Go types + the marshalled *)
(* instance parsed into wire records) and every mutant of them.  For each mutant the specification predicts whether  *)
(* the decoder accepts it, whether the content is unchanged, whether each size check configuration lets it through, *)
(* and classifies it; `vh-wire replay` turns the mutant into bytes and asks the real interceptors.                  *)
EXTENDS WireMutants, Json
CONSTANTS Deltas, Depth, Pairs
MCDeltas == {-1, 0, 10, 100}

Desc == ndJsonDeserialize("describe.ndjson")
RealSchemas == Desc[1].schemas
Insts == {i \in 2..Len(Desc) : TRUE}

VARIABLES k, out, done
vars == <<k, out, done>>

MutantsOf(i) ==
    LET T == Desc[i].type e0 == Desc[i].enc IN
    Mutants(T, e0, Depth) \cup (IF Pairs = 1 THEN Mutants2(T, e0) ELSE {})

\* what the specification says about encoding x of instance i (computed once per mutant)
\* size checks for the boundary mutants (20 added: there the two readings of the rule differ by 5 % of the size)
BoundaryDeltas == {0, 10, 20, 100}
BoundaryOf(i) == UNION {Boundary(Desc[i].type, Desc[i].enc, d) : d \in BoundaryDeltas}

\* wrapping histories as the node's factories produce them (interceptors container factory: wrap(shared, 10); full-sync
\* factory later: wrap(shared', MaxUint32)), the reverse order, and two independent wrappers of one base; `use` = the handle
\* given to the interceptor constructor AFTER all operations of the history were executed
W(on, d) == [on |-> on, d |-> d]
Histories ==
    {[name |-> "wrap10", ops |-> <<W(0, 10)>>, use |-> 1],
     [name |-> "wrap10-then-outerMax.inner", ops |-> <<W(0, 10), W(1, Lenient)>>, use |-> 1],
     [name |-> "wrap10-then-outerMax.outer", ops |-> <<W(0, 10), W(1, Lenient)>>, use |-> 2],
     [name |-> "wrapMax-then-outer10.inner", ops |-> <<W(0, Lenient), W(1, 10)>>, use |-> 1],
     [name |-> "wrapMax-then-outer10.outer", ops |-> <<W(0, Lenient), W(1, 10)>>, use |-> 2],
     [name |-> "wrap10-and-wrapMax-of-same-base.first", ops |-> <<W(0, 10), W(0, Lenient)>>, use |-> 1],
     [name |-> "wrap10-and-wrapMax-of-same-base.second", ops |-> <<W(0, 10), W(0, Lenient)>>, use |-> 2]}

Out(i, x, ds) ==
    LET T  == Desc[i].type
        d0 == Decode(T, Desc[i].enc)
        dm == Decode(T, x)
        cs == IF dm.ok THEN CanonSize(T, dm.val) ELSE 0
        ln == EncSize(x)
    IN  [inst |-> i - 1, type |-> T, name |-> Desc[i].name, enc |-> x,
         classes |-> Classes(T, x), ok |-> dm.ok, deceq |-> (dm.ok /\ dm.val = d0.val),
         len |-> ln, objsize |-> cs,
         acc |-> [d \in ds |-> dm.ok /\ SizeOK(ln, cs, d)],
         \* per-handle rule (only exported for the boundary mutants)
         hs |-> IF ds = BoundaryDeltas
                THEN {[name |-> h.name, ops |-> h.ops, use |-> h.use, acc |-> dm.ok /\ HandleSizeOK(h.ops, h.use, ln, cs)] : h \in Histories}
                ELSE {},
         \* the intended design: with the hash of the canonical content C18 holds for the pair (x, canonical)
         c18 |-> \A d \in Deltas : C18(T, x, Desc[i].enc, d)]

Init == k \in Insts /\ out = Out(k, Desc[k].enc, Deltas) /\ done = FALSE
Next == /\ ~done /\ done' = TRUE /\ UNCHANGED k
        /\ \/ \E x \in MutantsOf(k) : out' = Out(k, x, Deltas)
           \/ \E x \in BoundaryOf(k) : out' = Out(k, x, BoundaryDeltas)
Spec == Init /\ [][Next]_vars

\* the description binds: the instance is canonical and Size() = length = the model's sizes (checked on the initial states)
Inv_DescribedCanonical ==
    ~done => /\ out.ok /\ out.classes = {} /\ out.deceq
             /\ Canon(Desc[k].type, Decode(Desc[k].type, Desc[k].enc).val) = Desc[k].enc
             /\ out.len = Desc[k].size /\ out.objsize = Desc[k].size
Inv_C18 == out.c18

Emit == PrintT("@@B " \o ToJson(out'))
====
