---- MODULE MC_WireSmall ----
(* R1: every encoding of at most MaxRecs records over a small record alphabet for a small message type that has one  *)
(* field of every kind the intercepted types use, under every size-check configuration.                            *)
EXTENDS WireMutants, Json
CONSTANTS MaxRecs, Deltas, AlphabetSel
MCDeltas == {-1, 0, 10, 100}

\* type T: 1 uint64, 2 uint32, 3 bytes, 4 big int (always written), 5 repeated bytes, 6 embedded message S (always
\* written); S: 1 uint32, 2 bytes.  Field 7 is unknown.
SmallSchemas ==
    [T |-> <<[fn |-> 1, kind |-> "u64", rep |-> FALSE, sub |-> ""], [fn |-> 2, kind |-> "u32", rep |-> FALSE, sub |-> ""],
             [fn |-> 3, kind |-> "bytes", rep |-> FALSE, sub |-> ""], [fn |-> 4, kind |-> "big", rep |-> FALSE, sub |-> ""],
             [fn |-> 5, kind |-> "bytes", rep |-> TRUE, sub |-> ""], [fn |-> 6, kind |-> "msg", rep |-> FALSE, sub |-> "S"]>>,
     S |-> <<[fn |-> 1, kind |-> "u32", rep |-> FALSE, sub |-> ""], [fn |-> 2, kind |-> "bytes", rep |-> FALSE, sub |-> ""]>>]

P1 == [id |-> 1, len |-> 3, b |-> <<>>]       \* an opaque 3 byte payload
\* the record alphabet (AlphabetSel = 0: the core; 1: more variants)
SubEncs == {<<>>, <<MkVar(1, 1, 1, 0)>>, <<MkVar(1, 0, 1, 0)>>, <<MkBytes(2, P1), MkVar(1, 1, 1, 0)>>}
AlphaCore ==
    {MkVar(1, 1, 1, 0), MkVar(1, 0, 1, 0), [MkVar(1, 1, 1, 0) EXCEPT !.vx = 1], MkVar(1, 1, 1, 1),
     MkVar(2, 1, 1, 0), MkVar(2, 1, 1, 1), MkVar(2, 0, 1, 0), [MkVar(2, 1, 1, 0) EXCEPT !.tx = 1],
     MkBytes(3, P1), MkBytes(3, EmptyP), [MkBytes(3, P1) EXCEPT !.lx = 1],
     MkBytes(4, ExplicitP(<<0>>)), MkBytes(4, ExplicitP(<<5>>)), MkBytes(4, ExplicitP(<<0, 0>>)), MkBytes(4, ExplicitP(<<7, 0>>)),
     MkBytes(4, ExplicitP(<<0, 9>>)), MkBytes(4, ExplicitP(<<0, 0, 9>>)), MkBytes(4, ExplicitP(<<7, 9>>)),
     MkBytes(5, P1), MkBytes(5, EmptyP),
     MkVar(7, 1, 1, 0), MkBytes(7, EmptyP), MkRec(7, 5)}
    \cup {MkMsg(6, x) : x \in SubEncs}
AlphaMore ==
    {MkVar(1, 2, 2, 0), [MkVar(1, 1, 1, 0) EXCEPT !.vx = 9], [MkVar(1, 1, 1, 0) EXCEPT !.vx = 10],
     MkBytes(2, EmptyP), MkVar(3, 1, 1, 0), MkVar(0, 1, 1, 0), MkBytes(4, ExplicitP(<<>>)), MkBytes(4, ExplicitP(<<1, 0, 0>>)),
     MkBytes(4, ExplicitP(<<1, 9>>)), MkBytes(4, ExplicitP(<<5>>)), MkRec(7, 1), MkBytes(7, P1),
     MkMsg(6, <<MkVar(3, 1, 1, 0)>>), MkMsg(6, <<MkVar(1, 1, 1, 1)>>)}
\* one letter per kind of deviation (for longer encodings)
AlphaTiny ==
    {MkVar(1, 1, 1, 0), MkVar(2, 1, 1, 1), MkVar(2, 0, 1, 0), [MkVar(2, 1, 1, 0) EXCEPT !.vx = 1], MkBytes(3, P1),
     MkBytes(4, ExplicitP(<<0, 0>>)), MkBytes(4, ExplicitP(<<7, 0>>)), MkBytes(4, ExplicitP(<<0>>)), MkBytes(5, EmptyP),
     MkVar(7, 1, 1, 0), MkMsg(6, <<>>), MkMsg(6, <<MkVar(1, 1, 1, 0)>>)}
Alphabet == IF AlphabetSel = 0 THEN AlphaCore ELSE IF AlphabetSel = 1 THEN AlphaCore \cup AlphaMore ELSE AlphaTiny

VARIABLES e, delta, done, res
vars == <<e, delta, done, res>>

\* everything the invariants need about encoding x under size check d, computed once per state
Check(x, d) ==
    LET dx == Decode("T", x)
        c  == Canon("T", dx.val)
        dc == Decode("T", c)
        cl == Classes("T", x)
    IN  IF ~dx.ok THEN [ok |-> FALSE]
        ELSE [ok |-> TRUE,
              \* C18 on the pair (x, canonical encoding of its content)
              c18 |-> C18("T", x, c, d),
              \* the canonical encoding is canonical, decodes to the same content, has Size() bytes, is accepted
              sound |-> /\ IsCanonical("T", c) /\ dc.ok /\ dc.val = dx.val
                        /\ EncSize(c) = CanonSize("T", dx.val) /\ SizeOK(EncSize(c), CanonSize("T", dc.val), d),
              \* the taxonomy is complete: an encoding without any listed deviation is the canonical one
              complete |-> (cl = {}) => (x = c),
              mono |-> LET a(dd) == SizeOK(EncSize(x), CanonSize("T", dx.val), dd)
                       IN  (a(0) => a(10)) /\ (a(10) => a(100)) /\ (a(100) => a(NoCheck)),
              malleable |-> SizeOK(EncSize(x), CanonSize("T", dx.val), d) /\ x # c,
              classes |-> cl, len |-> EncSize(x), canon |-> EncSize(c)]

\* the first record and the size check are chosen in Init, the rest of the encoding in Next (spreads the work over
\* TLC's workers); every state, complete or not, holds an encoding on which the invariants are evaluated
Init == /\ e \in {<<>>} \cup {<<a>> : a \in Alphabet} /\ delta \in Deltas /\ done = FALSE
        /\ res = Check(e, delta)
Next == /\ ~done /\ done' = TRUE /\ UNCHANGED delta
        /\ \E rest \in UNION {[1..n -> Alphabet] : n \in 0..(MaxRecs - 1)} : e' = e \o rest
        /\ res' = Check(e', delta)
Spec == Init /\ [][Next]_vars

\* With HashMode = "received" (the code as it is) TLC finds a counterexample to Inv_C18; with HashMode = "canonical"
\* (hash of the re-marshalled content) it holds.
Inv_C18 == res.ok => res.c18
Inv_CanonSound == res.ok => res.sound
Inv_ClassComplete == res.ok => res.complete
Inv_SizeCheckMonotone == res.ok => res.mono

\* classified report of malleable encodings: accepted, not canonical (so its hash differs from the canonical one's)
EmitClass ==
    (res'.ok /\ res'.malleable) =>
        PrintT("@@B " \o ToJson([classes |-> res'.classes, delta |-> delta, len |-> res'.len, canon |-> res'.canon]))
====
