---- MODULE MC_HeaderSig ----
(* Input spaces for HeaderSig (C17) and the behaviour-export channel.                            *)
EXTENDS HeaderSig, Json, FiniteSetsExt

CONSTANTS NsFull,        \* group sizes whose bitmaps (expected length) are enumerated exhaustively
          NsSampled,     \* group sizes whose bitmaps are enumerated modulo SampleMod (residue SampleRes)
          SampleMod, SampleRes,
          ModeMod,       \* dishonest-aggregate cases are generated for bitmaps in residue class SampleRes % ModeMod
          NsAlpha,       \* group sizes with bitmaps over the byte alphabet AlphaBytes
          AlphaBytes,
          NsBig,         \* large groups (63 = shard, 400 = metachain): prefix-shaped bitmaps around the threshold
          NsFb,          \* group sizes for the fallback-condition family (every header kind x signer counts between the thresholds)
          Modes          \* how header.Signature was aggregated, see SgOf

LogAppend(h, r) == Append(h, r)
LogLast(h, r) == <<r>>

E(n) == ExpectedBitmapSize(n)
Bitmaps(L) == [1..L -> 0..255]

\* byte string of length L with exactly the bits of S set
ByteVal(S, j) == FoldSet(LAMBDA b, acc : acc + Pow2(b), 0, {b \in 0..7 : (8 * j + b) \in S})
BmOf(S, L) == [j \in 1..L |-> ByteVal(S, j - 1)]


\* who really signed, as a function of the bitmap's selected members
SgOf(mode, n, bm) ==
    LET sel == Selected(n, bm) IN
    CASE mode = "sel"        -> sel                                   \* honest: exactly the selected members
      [] mode = "dropHi"     -> IF sel = {} THEN {} ELSE sel \ {Max(sel)}   \* one claimed signer did not sign
      [] mode = "dropLeader" -> sel \ {0}                             \* the leader did not sign
      [] mode = "addLo"      -> IF (0..(n - 1)) \ sel = {} THEN sel ELSE sel \cup {Min((0..(n - 1)) \ sel)}
      [] mode = "all"        -> 0..(n - 1)
      [] mode = "foreign"    -> {}                                    \* shares were made over another message

Mix(bm) == bm[1] * 31 + (IF Len(bm) > 1 THEN bm[2] * 17 ELSE 0)
Keep(bm) == SampleMod = 1 \/ Mix(bm) % SampleMod = SampleRes % SampleMod
KeepM(bm) == ModeMod = 1 \/ (Mix(bm) + bm[1] \div 16) % ModeMod = SampleRes % ModeMod

ReachesMultisig(n, bm, fb) ==
    bm # <<>> /\ Bit(bm, 0) /\ Len(bm) = E(n) /\ OnesCountAll(bm) >= Threshold(n, fb)

\* header kinds: the two principal ones stand for "fallback off / on" in every family; AllKinds is the full class
\* table of the fallback condition (round difference negative, 0, small, threshold-1/0/+1, large; previous header in
\* the pool / only in storage / missing / a shard header under that hash; shard header vs metablock; start of epoch or not)
Kind(meta, soe, prev, dr) == [meta |-> meta, soe |-> soe, prev |-> prev, dr |-> dr]
ShardPlain == Kind(FALSE, FALSE, "present", 1)
MetaFallback == Kind(TRUE, TRUE, "present", MaxRoundsNoSoE)
MainKinds == {ShardPlain, MetaFallback}
RoundDiffs == {0 - 900, 0 - 1, 0, 3, MaxRoundsNoSoE - 1, MaxRoundsNoSoE, MaxRoundsNoSoE + 1, 900}
AllKinds == {Kind(m, s, p, d) : m \in BOOLEAN, s \in BOOLEAN, p \in {"present"}, d \in RoundDiffs}
              \cup {Kind(m, s, p, d) : m \in BOOLEAN, s \in BOOLEAN, p \in {"storage"}, d \in {0 - 1, MaxRoundsNoSoE}}
              \cup {Kind(m, s, p, 1) : m \in BOOLEAN, s \in BOOLEAN, p \in {"missing", "wrongtype"}}

CaseOf(mode, n, bm, hk) == [n |-> n, bm |-> bm, hk |-> hk, sg |-> SgOf(mode, n, bm),
                            fg |-> IF mode = "foreign" THEN Selected(n, bm) ELSE {}]

\* Init-time enumeration of the input space (streamed by TLC, no giant constant set)
ExhaustiveCase(c) ==
    \E n \in NsFull, hk \in MainKinds : \E bm \in Bitmaps(E(n)) : c = CaseOf("sel", n, bm, hk)
SampledCase(c) ==
    \E n \in NsSampled, hk \in MainKinds : \E bm \in Bitmaps(E(n)) : Keep(bm) /\ c = CaseOf("sel", n, bm, hk)
\* dishonest aggregates: only where the crypto stage is reached (everything else is decided before it)
ModeCase(c) ==
    \E n \in NsFull \cup NsSampled, hk \in MainKinds, m \in Modes \ {"sel"} : \E bm \in Bitmaps(E(n)) :
        /\ n \in NsFull \/ Keep(bm)
        /\ KeepM(bm)
        /\ ReachesMultisig(n, bm, FallbackApplies(hk))
        /\ c = CaseOf(m, n, bm, hk)
AlphaCase(c) ==
    \E n \in NsAlpha, hk \in MainKinds : \E bm \in [1..E(n) -> AlphaBytes] : c = CaseOf("sel", n, bm, hk)
\* bitmaps of a wrong length (incl. empty); bytes from {0,1,254,255}
WrongLenCase(c) ==
    \E n \in NsFull \cup NsSampled : \E L \in {l \in {0, E(n) - 1, E(n) + 1} : l >= 0 /\ l <= 3} :
        \E bm \in [1..L -> {0, 1, 254, 255}] : c = CaseOf("sel", n, bm, ShardPlain)
\* large groups: members 0..k-1 signed (or 1..k: leader missing), padding bits none / all
BigKs(n, fb) == {kk \in (Threshold(n, fb) - 2)..(Threshold(n, fb) + 1) : kk >= 1 /\ kk <= n - 1}
BigCase(c) ==
    \E n \in NsBig, hk \in MainKinds, m \in {"sel", "dropHi"} : \E k \in BigKs(n, FallbackApplies(hk)) :
        \E S \in {0..(k - 1), 1..k}, P \in {{}, n..(8 * E(n) - 1)} : c = CaseOf(m, n, BmOf(S \cup P, E(n)), hk)
\* the fallback condition: every header kind, honest aggregates of the first k members for every k from below the
\* fallback threshold up to the normal threshold (no padding bits)
FallbackCase(c) ==
    \E n \in NsFb, hk \in AllKinds : \E k \in (PBFTFallbackThreshold(n) - 1)..PBFTThreshold(n) :
        k >= 1 /\ k <= n /\ c = CaseOf("sel", n, BmOf(0..(k - 1), E(n)), hk)

MCCase(c) == FallbackCase(c) \/ ExhaustiveCase(c) \/ SampledCase(c) \/ ModeCase(c) \/ AlphaCase(c) \/ WrongLenCase(c) \/ BigCase(c)

EmitDone == (pc' = "done") => PrintT("@@B " \o ToJson(hist'))
====
