---- MODULE MC_HeaderSig ----
(* Input spaces for HeaderSig (C17) and the behaviour-export channel.                            *)
EXTENDS HeaderSig, Json, FiniteSetsExt

CONSTANTS NsFull,        \* group sizes whose bitmaps (expected length) are enumerated exhaustively
          NsSampled,     \* group sizes whose bitmaps are enumerated modulo SampleMod (residue SampleRes)
          SampleMod, SampleRes,
          ModeMod,       \* dishonest-aggregate cases are generated for bitmaps in residue class SampleRes % ModeMod
          NsAlpha,       \* group sizes with bitmaps over the byte alphabet AlphaBytes
          AlphaBytes,
          NsBig,         \* large groups (63 = shard, 400 = metachain): prefix-shaped bitmaps around the threshold
          Modes          \* how header.Signature was aggregated, see SgOf

LogAppend(h, r) == Append(h, r)
LogLast(h, r) == <<r>>

E(n) == ExpectedBitmapSize(n)
Bitmaps(L) == [1..L -> 0..255]

\* byte string of length L with exactly the bits of S set
ByteVal(S, j) == FoldSet(LAMBDA b, acc : acc + Pow2(b), 0, {b \in 0..7 : (8 * j + b) \in S})
BmOf(S, L) == [j \in 1..L |-> ByteVal(S, j - 1)]


\* who really signed, as a function of the bitmap's selected members
SgOf(mode, n, bm) ==
    LET sel == Selected(n, bm) IN
    CASE mode = "sel"        -> sel                                   \* honest: exactly the selected members
      [] mode = "dropHi"     -> IF sel = {} THEN {} ELSE sel \ {Max(sel)}   \* one claimed signer did not sign
      [] mode = "dropLeader" -> sel \ {0}                             \* the leader did not sign
      [] mode = "addLo"      -> IF (0..(n - 1)) \ sel = {} THEN sel ELSE sel \cup {Min((0..(n - 1)) \ sel)}
      [] mode = "all"        -> 0..(n - 1)
      [] mode = "foreign"    -> {}                                    \* shares were made over another message

Mix(bm) == bm[1] * 31 + (IF Len(bm) > 1 THEN bm[2] * 17 ELSE 0)
Keep(bm) == SampleMod = 1 \/ Mix(bm) % SampleMod = SampleRes % SampleMod
KeepM(bm) == ModeMod = 1 \/ (Mix(bm) + bm[1] \div 16) % ModeMod = SampleRes % ModeMod

ReachesMultisig(n, bm, fb) ==
    bm # <<>> /\ Bit(bm, 0) /\ Len(bm) = E(n) /\ OnesCountAll(bm) >= Threshold(n, fb)

CaseOf(mode, n, bm, fb) == [n |-> n, bm |-> bm, fb |-> fb, sg |-> SgOf(mode, n, bm),
                            fg |-> IF mode = "foreign" THEN Selected(n, bm) ELSE {}]

\* Init-time enumeration of the input space (streamed by TLC, no giant constant set)
ExhaustiveCase(c) ==
    \E n \in NsFull, fb \in BOOLEAN : \E bm \in Bitmaps(E(n)) : c = CaseOf("sel", n, bm, fb)
SampledCase(c) ==
    \E n \in NsSampled, fb \in BOOLEAN : \E bm \in Bitmaps(E(n)) : Keep(bm) /\ c = CaseOf("sel", n, bm, fb)
\* dishonest aggregates: only where the crypto stage is reached (everything else is decided before it)
ModeCase(c) ==
    \E n \in NsFull \cup NsSampled, fb \in BOOLEAN, m \in Modes \ {"sel"} : \E bm \in Bitmaps(E(n)) :
        /\ n \in NsFull \/ Keep(bm)
        /\ KeepM(bm)
        /\ ReachesMultisig(n, bm, fb)
        /\ c = CaseOf(m, n, bm, fb)
AlphaCase(c) ==
    \E n \in NsAlpha, fb \in BOOLEAN : \E bm \in [1..E(n) -> AlphaBytes] : c = CaseOf("sel", n, bm, fb)
\* bitmaps of a wrong length (incl. empty); bytes from {0,1,254,255}
WrongLenCase(c) ==
    \E n \in NsFull \cup NsSampled : \E L \in {l \in {0, E(n) - 1, E(n) + 1} : l >= 0 /\ l <= 3} :
        \E bm \in [1..L -> {0, 1, 254, 255}] : c = CaseOf("sel", n, bm, FALSE)
\* large groups: members 0..k-1 signed (or 1..k: leader missing), padding bits none / all
BigKs(n, fb) == {kk \in (Threshold(n, fb) - 2)..(Threshold(n, fb) + 1) : kk >= 1 /\ kk <= n - 1}
BigCase(c) ==
    \E n \in NsBig, fb \in BOOLEAN, m \in {"sel", "dropHi"} : \E k \in BigKs(n, fb) :
        \E S \in {0..(k - 1), 1..k}, P \in {{}, n..(8 * E(n) - 1)} : c = CaseOf(m, n, BmOf(S \cup P, E(n)), fb)

MCCase(c) == ExhaustiveCase(c) \/ SampledCase(c) \/ ModeCase(c) \/ AlphaCase(c) \/ WrongLenCase(c) \/ BigCase(c)

EmitDone == (pc' = "done") => PrintT("@@B " \o ToJson(hist'))
====
