------------------------------ MODULE HeaderSig ------------------------------
(***************************************************************************)
(* Header signature verification (property C17).                           *)
(*                                                                         *)
(* Transcription of process/headerCheck.HeaderSigVerifier.VerifySignature  *)
(* (+ verifyConsensusSize), core.GetPBFTThreshold/GetPBFTFallbackThreshold *)
(* and of the selection rule of crypto/signing/multisig.blsMultiSigner     *)
(* (Verify / isIndexInBitmap): the aggregated signature is verified over   *)
(* exactly the public keys whose bit (index < group size) is set.          *)
(*                                                                         *)
(* The machine has one action per stage of VerifySignature; a header       *)
(* (= the input case) is chosen in Init:                                   *)
(*    n      size of the consensus group returned by the nodes coordinator *)
(*    bm     the header's PubKeysBitmap: a sequence of bytes (0..255)      *)
(*    hk     what the fallback header validator looks at: [meta, soe,      *)
(*           prev, dr] = header of the metachain?, start-of-epoch block?,  *)
(*           is the header referenced by PrevHash available ("present" in  *)
(*           the headers pool, "storage", "missing", "wrongtype" = a shard *)
(*           header under that hash), dr = header.Round - previous.Round   *)
(*           as a SIGNED difference (negative: round below the parent's)   *)
(*    sg     the set of group members (indexes 0..n-1) whose signature     *)
(*           shares over THIS header were aggregated into header.Signature *)
(*           ("contributed to its aggregated signature")                   *)
(*    fg     members whose shares over a FOREIGN message were aggregated   *)
(*           into header.Signature when sg = {} (nobody signed this header)*)
(* Cryptographic assumption (trusted base): the modified BLS multi-        *)
(* signature is sound -- an aggregate verifies over a key set K for the    *)
(* header hash iff it was aggregated from the shares of exactly K.         *)
(***************************************************************************)
EXTENDS Integers, Sequences, FiniteSets, TLC

CONSTANTS MaxRoundsNoSoE, \* core.MaxRoundsWithoutCommittedStartInEpochBlock (50), read from the tree by the check
          IsCase(_),     \* predicate choosing the input records [n, bm, hk, sg, fg] (defined in MC_HeaderSig)
          KnownDefects,  \* subset of {"paddingCounted", "unsignedRoundDiff"}: code as it is vs. intended design
          Log(_, _)

VARIABLES inp,    \* the header under verification
          pc,     \* stage of VerifySignature: "start" "group" "size" "multisig" "done"
          res,    \* "pending" or the result class
          hist

vars  == <<inp, pc, res, hist>>
cvars == <<inp, pc, res>>

-----------------------------------------------------------------------------
(* bytes and bits *)
Pow2(k) == 2 ^ k
\* bit i (0-based, little-endian inside each byte) of the byte string bm: bitmap[i/8] & (1 << (i%8)) # 0
Bit(bm, i) == (bm[(i \div 8) + 1] \div Pow2(i % 8)) % 2 = 1
NBits(bm) == 8 * Len(bm)
SetBits(bm) == {i \in 0..(NBits(bm) - 1) : Bit(bm, i)}

\* bits.OnesCount8 summed over every byte of the bitmap (what the code does)
OnesCountAll(bm) == Cardinality(SetBits(bm))
\* bits that correspond to a group member
MemberBits(n, bm) == {i \in SetBits(bm) : i < n}
PaddingBits(n, bm) == {i \in SetBits(bm) : i >= n}

\* core.GetPBFTThreshold / core.GetPBFTFallbackThreshold
PBFTThreshold(n) == (n * 2) \div 3 + 1
PBFTFallbackThreshold(n) == (n * 1) \div 2 + 1
Threshold(n, fb) == IF fb THEN PBFTFallbackThreshold(n) ELSE PBFTThreshold(n)

\* fallback.fallbackHeaderValidator.ShouldApplyFallbackValidation, transcribed from HEAD: the reduced threshold is
\* allowed only for a start-of-epoch METAblock whose previous metablock is available (pool or storage) and which
\* comes at least MaxRoundsWithoutCommittedStartInEpochBlock rounds after it.  The difference is signed
\* (int64(round) - int64(prevRound)): a header whose round is below its parent's is NOT "too old".
FallbackApplies(hk) ==
    /\ hk.meta
    /\ hk.soe
    /\ hk.prev \in {"present", "storage"}
    /\ hk.dr >= MaxRoundsNoSoE
Fb(c) == FallbackApplies(c.hk)
\* what the code computes; named deviation "unsignedRoundDiff": the difference taken in uint64 wraps around for a
\* round below the parent's and the header counts as "too old"
CodeFbD(D, c) ==
    IF "unsignedRoundDiff" \in D
    THEN c.hk.meta /\ c.hk.soe /\ c.hk.prev \in {"present", "storage"} /\ (c.hk.dr < 0 \/ c.hk.dr >= MaxRoundsNoSoE)
    ELSE Fb(c)

\* verifyConsensusSize: expected byte length of the bitmap
ExpectedBitmapSize(n) == (n \div 8) + (IF n % 8 # 0 THEN 1 ELSE 0)

\* the number compared with the threshold in verifyConsensusSize
CountedSignaturesD(D, n, bm) ==
    IF "paddingCounted" \in D THEN OnesCountAll(bm)              \* code as it is: every set bit of every byte
                              ELSE Cardinality(MemberBits(n, bm))  \* intended design: bits of members only
CountedSignatures(n, bm) == CountedSignaturesD(KnownDefects, n, bm)

\* blsMultiSigner.Verify: public keys selected by the bitmap (isIndexInBitmap: index < len(pubKeys) and bit set)
Selected(n, bm) == {i \in 0..(n - 1) : i \div 8 < Len(bm) /\ Bit(bm, i)}
\* ... and the verdict of the (sound) aggregate verification
AggregateVerifies(n, bm, sg) == Selected(n, bm) # {} /\ sg = Selected(n, bm)

\* VerifySignature as one function of the header (D = set of named deviations of the code); the stage
\* machine below computes the same thing step by step (Inv_MachineIsVerdict)
Verdict(D, c) ==
    IF c.bm = <<>> THEN "nilBitmap"
    ELSE IF ~Bit(c.bm, 0) THEN "leaderMissing"
    ELSE IF Len(c.bm) # ExpectedBitmapSize(c.n) THEN "wrongSize"
    ELSE IF CountedSignaturesD(D, c.n, c.bm) < Threshold(c.n, CodeFbD(D, c)) THEN "notEnough"
    ELSE IF AggregateVerifies(c.n, c.bm, c.sg) THEN "ok" ELSE "sigInvalid"

-----------------------------------------------------------------------------
(* The property *)

\* at least 2/3+1 (1/2+1 exactly when the protocol's documented fallback condition FallbackApplies holds) of the
\* distinct group members, including the leader (index 0), contributed to the aggregated signature
Quorum(n, fb, sg) == 0 \in sg /\ Cardinality(sg) >= Threshold(n, fb) /\ sg \subseteq 0..(n - 1)

\* The input class of the named deviation "paddingCounted": an honestly aggregated header with the leader bit,
\* the right length, too few MEMBER bits, but enough set bits once the padding bits of the last byte are counted
PaddingCountedCase(c) ==
    /\ c.bm # <<>> /\ Bit(c.bm, 0) /\ Len(c.bm) = ExpectedBitmapSize(c.n)
    /\ c.sg = Selected(c.n, c.bm)
    /\ Cardinality(MemberBits(c.n, c.bm)) < Threshold(c.n, Fb(c))
    /\ OnesCountAll(c.bm) >= Threshold(c.n, Fb(c))

-----------------------------------------------------------------------------
(* VerifySignature, stage by stage *)

Init ==
    /\ IsCase(inp)
    /\ pc = "start" /\ res = "pending" /\ hist = <<>>

Rec(r) ==
    [a |-> "Verify",
     in |-> inp,
     out |-> [res |-> r,
              resIntended |-> Verdict({}, inp),
              resAsCoded |-> Verdict({"paddingCounted"}, inp),
              quorum |-> Quorum(inp.n, Fb(inp), inp.sg),
              members |-> Cardinality(MemberBits(inp.n, inp.bm)),
              padding |-> Cardinality(PaddingBits(inp.n, inp.bm)),
              thr |-> Threshold(inp.n, Fb(inp)),
              fallback |-> Fb(inp),
              \* class of the case, used for violation signatures only
              cls |-> IF PaddingCountedCase(inp) THEN "Inv_C17_Quorum_PaddingCounted"
                      ELSE IF inp.bm = <<>> \/ ~Bit(inp.bm, 0) THEN "Inv_C17_Quorum_ExceptPaddingCounted/leader-bit-clear"
                      ELSE IF Len(inp.bm) # ExpectedBitmapSize(inp.n) THEN "Inv_C17_Quorum_ExceptPaddingCounted/wrong-size-bitmap"
                      ELSE IF inp.sg # Selected(inp.n, inp.bm)
                           THEN "Inv_C17_Quorum_ExceptPaddingCounted/aggregate-not-over-selected-keys"
                      ELSE IF inp.hk.meta /\ inp.hk.soe /\ ~Fb(inp)
                              /\ Cardinality(MemberBits(inp.n, inp.bm)) >= PBFTFallbackThreshold(inp.n)
                           THEN "Inv_C17_Quorum_ExceptPaddingCounted/fallback-threshold-without-its-condition"
                      ELSE "Inv_C17_Quorum_ExceptPaddingCounted/below-threshold"],
     st |-> [x |-> 0]]

Finish(r) == /\ pc' = "done" /\ res' = r /\ hist' = Log(hist, Rec(r)) /\ UNCHANGED inp

\* len(bitmap) == 0 -> ErrNilPubKeysBitmap ; bitmap[0]&1 == 0 -> ErrBlockProposerSignatureMissing
CheckLeaderBit ==
    /\ pc = "start"
    /\ IF inp.bm = <<>> THEN Finish("nilBitmap")
       ELSE IF ~Bit(inp.bm, 0) THEN Finish("leaderMissing")
       ELSE pc' = "size" /\ UNCHANGED <<inp, res, hist>>

\* verifyConsensusSize (after nodesCoordinator.GetConsensusValidatorsPublicKeys returned n keys)
VerifyConsensusSize ==
    /\ pc = "size"
    /\ IF Len(inp.bm) # ExpectedBitmapSize(inp.n) THEN Finish("wrongSize")
       ELSE IF CountedSignatures(inp.n, inp.bm) >= Threshold(inp.n, CodeFbD(KnownDefects, inp))
            THEN pc' = "multisig" /\ UNCHANGED <<inp, res, hist>>
            ELSE Finish("notEnough")

\* multiSigVerifier.Create(keys) ; SetAggregatedSig ; Verify(hash(header without sigs), bitmap)
MultisigVerify ==
    /\ pc = "multisig"
    /\ IF AggregateVerifies(inp.n, inp.bm, inp.sg) THEN Finish("ok") ELSE Finish("sigInvalid")

Next == CheckLeaderBit \/ VerifyConsensusSize \/ MultisigVerify

Spec == Init /\ [][Next]_vars

-----------------------------------------------------------------------------
(* Properties *)

TypeOK ==
    /\ pc \in {"start", "size", "multisig", "done"}
    /\ res \in {"pending", "nilBitmap", "leaderMissing", "wrongSize", "notEnough", "sigInvalid", "ok"}
    /\ (pc = "done") = (res # "pending")

\* C17: a header passes only with a quorum of real contributors including the leader
Inv_C17_Quorum == res = "ok" => Quorum(inp.n, Fb(inp), inp.sg)

\* the same predicate split by input class (the trace configs list them separately, so that the known
\* deviation has its own signature and never hides a different violation)
Inv_C17_Quorum_PaddingCounted ==
    (res = "ok" /\ PaddingCountedCase(inp)) => Quorum(inp.n, Fb(inp), inp.sg)
Inv_C17_Quorum_ExceptPaddingCounted ==
    (res = "ok" /\ ~PaddingCountedCase(inp)) => Quorum(inp.n, Fb(inp), inp.sg)

\* C17, second sentence: bits that are not members never count -- the verdict of the size stage does not
\* depend on padding bits: reaching the multisig stage implies enough MEMBER bits
Inv_C17_PaddingNeverCounts ==
    pc = "multisig" => Cardinality(MemberBits(inp.n, inp.bm)) >= Threshold(inp.n, Fb(inp))

\* the stage machine and the one-shot function agree
Inv_MachineIsVerdict == res # "pending" => res = Verdict(KnownDefects, inp)

\* sanity of the thresholds themselves: two quorums intersect in more than n/3 members (BFT), the
\* normal threshold is never below the fallback one
Inv_ThresholdSane ==
    /\ 2 * PBFTThreshold(inp.n) - inp.n > (inp.n - 1) \div 3      \* two quorums share an honest member
    /\ PBFTThreshold(inp.n) >= PBFTFallbackThreshold(inp.n)
    /\ PBFTThreshold(inp.n) <= inp.n /\ PBFTFallbackThreshold(inp.n) <= inp.n
=============================================================================
