SPECIFICATION TraceSpec
CONSTANTS
  IsCase <- AnyCase
  KnownDefects = {}
  MaxRoundsNoSoE = 50
  Log <- LogLast
CONSTRAINT HighWater
INVARIANTS TypeOK Inv_C17_Quorum_PaddingCounted Inv_ThresholdSane
POSTCONDITION Accepted
CHECK_DEADLOCK FALSE
