SPECIFICATION Spec
CONSTANTS
  IsCase <- MCCase
  KnownDefects = {}
  MaxRoundsNoSoE = 50
  Log <- LogLast
  NsFull = {1, 2, 3, 4, 5, 6, 7, 8}
  NsSampled = {9, 10}
  SampleMod = 16
  SampleRes = 1
  ModeMod = 1
  NsAlpha = {}
  AlphaBytes = {}
  NsBig = {}
  NsFb = {3, 9}
  Modes = {"sel", "dropHi", "dropLeader", "addLo", "all", "foreign"}
VIEW cvars
INVARIANTS TypeOK Inv_MachineIsVerdict Inv_C17_Quorum Inv_C17_PaddingNeverCounts Inv_ThresholdSane
CHECK_DEADLOCK FALSE
