---- MODULE Trace_HeaderSig ----
(* Trace validation for C17: every "Verify" event recorded from the real HeaderSigVerifier (random group   *)
(* sizes up to 70, random bitmaps incl. padding bits and wrong lengths, honest and dishonest aggregates)    *)
(* becomes an observed state <inp, res>; TLC evaluates Inv_C17_Quorum on each of them.  Strict matching:    *)
(* the observed result class must be the verdict of the specification (intended design, or the code as it   *)
(* is with the named deviation "paddingCounted").                                                           *)
EXTENDS HeaderSig, Json, TLCExt
LogLast(h, r) == <<r>>
AnyCase(c) == TRUE
TLog == ndJsonDeserialize("trace.ndjson")
VARIABLE l
tvars == <<vars, l>>
Ev == TLog[l]
IsEvent(name) == l <= Len(TLog) /\ Ev.a = name /\ l' = l + 1
ToSet(s) == {s[i] : i \in 1..Len(s)}
EvCase == [n |-> Ev.in.n, bm |-> Ev.in.bm, hk |-> Ev.in.hk, sg |-> ToSet(Ev.in.sg), fg |-> ToSet(Ev.in.fg)]

TraceInit ==
    /\ l = 1 /\ pc = "start" /\ res = "pending" /\ hist = <<>>
    /\ inp = [n |-> 1, bm |-> <<1>>, hk |-> [meta |-> FALSE, soe |-> FALSE, prev |-> "present", dr |-> 1], sg |-> {0}, fg |-> {}]
TNew == IsEvent("New") /\ UNCHANGED vars
Observe == inp' = EvCase /\ pc' = "done" /\ res' = Ev.out.res /\ hist' = <<>>
TVerify ==
    /\ IsEvent("Verify") /\ Observe
    /\ Ev.out.res \in {Verdict({}, EvCase), Verdict({"paddingCounted"}, EvCase)}
    /\ Ev.out.fallback = FallbackApplies(Ev.in.hk)     \* the real validator's own answer for that header
TVerifyObs == IsEvent("Verify") /\ Observe
TraceNext == TNew \/ TVerify
TraceNextObs == TNew \/ TVerifyObs
TraceSpec == TraceInit /\ [][TraceNext]_tvars
TraceSpecObs == TraceInit /\ [][TraceNextObs]_tvars

\* the observed machine is always "done": Inv_MachineIsVerdict is not listed (it is the strict match above)
HighWater == TLCSet(1, IF l > TLCGet(1) THEN l ELSE TLCGet(1))
Accepted  == IF TLCGet(1) = Len(TLog) + 1 THEN TRUE ELSE PrintT("@@HW " \o ToString(TLCGet(1))) /\ FALSE
ASSUME TLCSet(1, 0)
====
