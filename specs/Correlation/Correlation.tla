----------------------------- MODULE Correlation -----------------------------
(***************************************************************************)
(* Header / body correlation (property C19).                               *)
(*                                                                         *)
(* Transcription of process/block.baseProcessor.checkHeaderBodyCorrelation *)
(* (called first thing by shardProcessor.ProcessBlock and                  *)
(* metaProcessor.ProcessBlock) and of createMiniBlockHeaders (how an       *)
(* honest proposer builds the header's list from the body).                *)
(*                                                                         *)
(* A miniblock is a record [txs, snd, rcv, type]; its hash is computed     *)
(* over the marshalled miniblock, i.e. over all four fields: modelled as   *)
(* the injective function H(mb) = mb.  A header entry is                   *)
(* [h, snd, rcv, type, cnt] where h is a miniblock value (the hash of that *)
(* miniblock; a miniblock outside the body universe gives a "foreign"      *)
(* hash).  NilMb stands for a nil pointer in Body.MiniBlocks.              *)
(*                                                                         *)
(* The machine follows the code: the header list is first folded into the  *)
(* map hash -> entry (a later entry with the same hash overwrites an       *)
(* earlier one), then the body is scanned miniblock by miniblock.          *)
(***************************************************************************)
EXTENDS Integers, Sequences, FiniteSets, TLC

CONSTANTS IsCase(_, _),   \* predicate choosing the (header list, body) pairs (MC_Correlation)
          KnownDefects,   \* subset of {"typeUnchecked", "noBijection"}: code as it is vs. intended design
          Log(_, _)

VARIABLES hdr,    \* sequence of header entries
          body,   \* sequence of miniblocks (or "nil")
          map,    \* hash -> header entry, built by the first loop
          i,      \* index of the next body miniblock to check (0 = map not built yet)
          res,    \* "pending" | "ok" | "mismatch" | "nilMiniBlock"
          hist

vars  == <<hdr, body, map, i, res, hist>>
cvars == <<hdr, body, map, i, res>>

-----------------------------------------------------------------------------
H(mb) == mb                                   \* injective hash of the marshalled miniblock
NilMb == [txs |-> <<>>, snd |-> 0, rcv |-> 0, type |-> -1]   \* one type per field: "nil" is a marked record
IsNil(mb) == mb.type = -1
Attr(mb) == [snd |-> mb.snd, rcv |-> mb.rcv, type |-> mb.type, cnt |-> Len(mb.txs)]
EAttr(e) == [snd |-> e.snd, rcv |-> e.rcv, type |-> e.type, cnt |-> e.cnt]
\* the entry an honest proposer writes for a miniblock (createMiniBlockHeaders)
EntryOf(mb) == [h |-> H(mb), snd |-> mb.snd, rcv |-> mb.rcv, type |-> mb.type, cnt |-> Len(mb.txs)]

\* header entry e is matched by body miniblock mb: same hash, sender, receiver, type and tx count
Matches(e, mb) == ~IsNil(mb) /\ e.h = H(mb) /\ EAttr(e) = Attr(mb)

\* C19: the body's miniblocks are exactly the miniblocks listed in the header: same number and a one-to-one
\* pairing of header entries with body miniblocks in which every pair matches
Injective(f) == \A a, b \in DOMAIN f : a # b => f[a] # f[b]
Exact(hs, b) ==
    /\ Len(hs) = Len(b)
    /\ \E p \in [1..Len(hs) -> 1..Len(b)] : Injective(p) /\ \A k \in 1..Len(hs) : Matches(hs[k], b[p[k]])

\* first loop of the code: mbHashesFromHdr[hash] = &entry, later entries overwrite earlier ones
RECURSIVE BuildMap(_, _)
BuildMap(hs, m) ==
    IF hs = <<>> THEN m
    ELSE LET e == Head(hs) IN
         BuildMap(Tail(hs), [x \in (DOMAIN m) \cup {e.h} |-> IF x = e.h THEN e ELSE m[x]])
EmptyMap == [x \in {} |-> 0]

\* the per-miniblock checks of the second loop (D = named deviations of the code as it is)
EntryAccepts(D, e, mb) ==
    /\ e.cnt = Len(mb.txs)
    /\ e.rcv = mb.rcv
    /\ e.snd = mb.snd
    /\ ("typeUnchecked" \in D \/ e.type = mb.type)

\* the whole function at once (the stage machine below computes the same: Inv_MachineIsVerdict)
RECURSIVE Scan(_, _, _)
Scan(D, m, b) ==
    IF b = <<>> THEN "ok"
    ELSE LET mb == Head(b) IN
         IF IsNil(mb) THEN "nilMiniBlock"
         ELSE IF H(mb) \notin DOMAIN m THEN "mismatch"
         ELSE IF ~EntryAccepts(D, m[H(mb)], mb) THEN "mismatch"
         ELSE Scan(D, IF "noBijection" \in D THEN m ELSE [x \in (DOMAIN m) \ {H(mb)} |-> m[x]], Tail(b))
Verdict(D, hs, b) == IF Len(hs) # Len(b) THEN "mismatch" ELSE Scan(D, BuildMap(hs, EmptyMap), b)

\* createMiniBlockHeaders: one entry per body miniblock, in order
HonestHeader(b) == [k \in 1..Len(b) |-> EntryOf(b[k])]

-----------------------------------------------------------------------------
Rec(r) ==
    [a |-> "Check", in |-> [hdr |-> hdr, body |-> body],
     out |-> [res |-> r,
              exact |-> Exact(hdr, body),
              resIntended |-> Verdict({}, hdr, body),
              resAsCoded |-> Verdict({"typeUnchecked", "noBijection"}, hdr, body),
              honest |-> IF \A k \in 1..Len(body) : ~IsNil(body[k]) THEN HonestHeader(body) ELSE <<>>,
              honestIntended |-> IF \A k \in 1..Len(body) : ~IsNil(body[k])
                                 THEN Verdict({}, HonestHeader(body), body) ELSE "nilMiniBlock",
              honestAsCoded |-> IF \A k \in 1..Len(body) : ~IsNil(body[k])
                                THEN Verdict({"typeUnchecked", "noBijection"}, HonestHeader(body), body) ELSE "nilMiniBlock",
              \* class of the case, used for violation signatures only
              cls |-> IF Exact(hdr, body) THEN "exact"
                      ELSE IF Len(hdr) # Len(body) THEN "length-differs"
                      ELSE IF \E k \in 1..Len(body) : IsNil(body[k]) THEN "nil-miniblock"
                      ELSE IF \E k \in 1..Len(body) : \A j \in 1..Len(hdr) : hdr[j].h # H(body[k]) THEN "body-miniblock-not-listed"
                      ELSE IF \E j, k \in 1..Len(hdr) : j # k /\ hdr[j].h = hdr[k].h THEN "duplicate-header-hash"
                      ELSE IF \E j, k \in 1..Len(body) : j # k /\ body[j] = body[k] THEN "duplicate-body-miniblock"
                      ELSE IF \E j \in 1..Len(hdr), k \in 1..Len(body) :
                                hdr[j].h = H(body[k]) /\ [EAttr(hdr[j]) EXCEPT !.type = 0] # [Attr(body[k]) EXCEPT !.type = 0]
                           THEN "count-or-shard-differs"
                      ELSE "type-differs"],
     st |-> [x |-> 0]]

Init ==
    /\ IsCase(hdr, body)
    /\ map = EmptyMap /\ i = 0 /\ res = "pending" /\ hist = <<>>

Finish(r) == /\ res' = r /\ hist' = Log(hist, Rec(r)) /\ UNCHANGED <<hdr, body, map, i>>

\* first loop + length comparison
BuildAndCompareLengths ==
    /\ res = "pending" /\ i = 0
    /\ LET m == BuildMap(hdr, EmptyMap) IN
       IF Len(hdr) # Len(body)
       THEN map' = m /\ res' = "mismatch" /\ hist' = Log(hist, Rec("mismatch")) /\ UNCHANGED <<hdr, body, i>>
       ELSE IF body = <<>>
            THEN map' = m /\ res' = "ok" /\ hist' = Log(hist, Rec("ok")) /\ UNCHANGED <<hdr, body, i>>
            ELSE map' = m /\ i' = 1 /\ UNCHANGED <<hdr, body, res, hist>>

\* one iteration of the second loop
CheckMiniBlock ==
    /\ res = "pending" /\ i >= 1 /\ i <= Len(body)
    /\ LET mb == body[i] IN
       IF IsNil(mb) THEN Finish("nilMiniBlock")
       ELSE IF H(mb) \notin DOMAIN map THEN Finish("mismatch")
       ELSE IF ~EntryAccepts(KnownDefects, map[H(mb)], mb) THEN Finish("mismatch")
       ELSE LET m2 == IF "noBijection" \in KnownDefects THEN map ELSE [x \in (DOMAIN map) \ {H(mb)} |-> map[x]] IN
            IF i = Len(body)
            THEN map' = m2 /\ res' = "ok" /\ hist' = Log(hist, Rec("ok")) /\ UNCHANGED <<hdr, body, i>>
            ELSE map' = m2 /\ i' = i + 1 /\ UNCHANGED <<hdr, body, res, hist>>

Next == BuildAndCompareLengths \/ CheckMiniBlock
Spec == Init /\ [][Next]_vars

-----------------------------------------------------------------------------
TypeOK == res \in {"pending", "ok", "mismatch", "nilMiniBlock"} /\ i \in 0..Len(body)

\* C19: accepted only if the body is exactly what the header lists
Inv_C19_AcceptedOnlyIfExact == res = "ok" => Exact(hdr, body)

\* the stage machine and the one-shot function agree
Inv_MachineIsVerdict == res # "pending" => res = Verdict(KnownDefects, hdr, body)

\* intended design is also complete on duplicate-free headers: an exact pair is accepted
\* (not part of C19, which is an only-if; documents that the intended check does not over-reject)
Inv_ExactIsAccepted ==
    (res # "pending" /\ KnownDefects = {} /\ Exact(hdr, body)
       /\ \A j, k \in 1..Len(hdr) : j # k => hdr[j].h # hdr[k].h) => res = "ok"

\* honest construction: the list createMiniBlockHeaders builds from a body is exact for that body
Inv_HonestHeaderIsExact ==
    (\A k \in 1..Len(body) : ~IsNil(body[k])) => Exact(HonestHeader(body), body)
=============================================================================
