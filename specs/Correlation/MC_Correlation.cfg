SPECIFICATION Spec
CONSTANTS
  IsCase <- MCCase
  KnownDefects = {}
  Log <- LogLast
  MbIds = {"A", "B", "C"}
  MaxLen = 2
  WithNil = TRUE
  SampleMod = 1
  SampleRes = 0
VIEW cvars
INVARIANTS TypeOK Inv_MachineIsVerdict Inv_C19_AcceptedOnlyIfExact Inv_ExactIsAccepted Inv_HonestHeaderIsExact
CHECK_DEADLOCK FALSE
