SPECIFICATION TraceSpec
CONSTANTS
  IsCase <- AnyCase
  KnownDefects = {}
  Log <- LogLast
CONSTRAINT HighWater
INVARIANTS Inv_C19_AcceptedOnlyIfExact
POSTCONDITION Accepted
CHECK_DEADLOCK FALSE
