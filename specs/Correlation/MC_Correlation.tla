---- MODULE MC_Correlation ----
(* Input space for Correlation (C19) and the export channel.                                      *)
EXTENDS Correlation, Json

CONSTANTS MbIds,       \* ids of the miniblock universe used in bodies (subset of DOMAIN Universe)
          MaxLen,      \* header lists and bodies of length 0..MaxLen
          WithNil,     \* BOOLEAN: bodies may contain a nil miniblock
          SampleMod, SampleRes   \* pairs with Len(hdr) = MaxLen are kept modulo SampleMod

LogAppend(h, r) == Append(h, r)
LogLast(h, r) == <<r>>

\* the miniblock universe: A ; B = A with another type ; C = A with one more transaction ;
\* D = A with another receiver ; E = A with another sender ; Z = empty miniblock
Universe ==
    [A |-> [txs |-> <<1>>,    snd |-> 0, rcv |-> 1, type |-> 0],
     B |-> [txs |-> <<1>>,    snd |-> 0, rcv |-> 1, type |-> 90],
     C |-> [txs |-> <<1, 2>>, snd |-> 0, rcv |-> 1, type |-> 0],
     D |-> [txs |-> <<1>>,    snd |-> 0, rcv |-> 2, type |-> 0],
     E |-> [txs |-> <<1>>,    snd |-> 1, rcv |-> 1, type |-> 0],
     Z |-> [txs |-> <<>>,     snd |-> 0, rcv |-> 1, type |-> 0]]
Mbs == {Universe[x] : x \in MbIds}
Foreign == [txs |-> <<9>>, snd |-> 0, rcv |-> 1, type |-> 0]    \* never in a body: its hash is a foreign hash

\* header entries: the honest entry of a universe miniblock, the same with exactly one attribute changed,
\* and an entry whose hash is the hash of no miniblock
Mutations(e) ==
    {e,
     \* the other shard id where they differ (field confusion is the realistic bug), else another value
     [e EXCEPT !.snd = IF e.snd # e.rcv THEN e.rcv ELSE (e.snd + 1) % 3],
     [e EXCEPT !.rcv = IF e.snd # e.rcv THEN e.snd ELSE (e.rcv + 1) % 3],
     [e EXCEPT !.type = IF e.type = 0 THEN 90 ELSE 0],
     [e EXCEPT !.cnt = IF e.cnt = 1 THEN 2 ELSE 1]}
Entries == UNION {Mutations(EntryOf(mb)) : mb \in Mbs}
              \cup {EntryOf(Foreign)}
BodyElems == Mbs \cup (IF WithNil THEN {NilMb} ELSE {})

SeqsUpTo(S, n) == UNION {[1..k -> S] : k \in 0..n}

\* sampling of the biggest length class: a cheap deterministic mix of the header list, evaluated before bodies are
\* enumerated (the residue class depends on the seed)
MbWeight(mb) == Len(mb.txs) * 23 + mb.rcv * 29 + mb.snd * 31 + mb.type + (IF mb.txs # <<>> THEN mb.txs[1] ELSE 0)
Weight(e) == MbWeight(e.h) * 3 + e.snd * 11 + e.rcv * 13 + e.type + e.cnt * 17
W(hs, k) == IF k <= Len(hs) THEN Weight(hs[k]) ELSE 0
KeepH(hs) ==
    SampleMod = 1 \/ Len(hs) < MaxLen
      \/ (W(hs, 1) + 3 * W(hs, 2) + 7 * W(hs, 3) + 11 * W(hs, 4)) % SampleMod = SampleRes % SampleMod

MCCase(hs, b) ==
    \E kh \in 0..MaxLen, kb \in 0..MaxLen :
        /\ hs \in [1..kh -> Entries]
        /\ KeepH(hs)
        /\ b \in [1..kb -> BodyElems]

EmitDone == (res' # "pending") => PrintT("@@B " \o ToJson(hist'))
====
