---- MODULE Trace_Correlation ----
(* Trace validation for C19: "Check" events recorded from the real checkHeaderBodyCorrelation on random      *)
(* bodies (up to 5 miniblocks, random shard ids / types / tx counts) and perturbed header lists become      *)
(* observed states <hdr, body, res>; TLC evaluates Inv_C19_AcceptedOnlyIfExact on each.  Strict matching:   *)
(* the observed result is the verdict of the specification (intended design or the code as it was written). *)
(* "Honest" events carry the list the real createMiniBlockHeaders built: it must be HonestHeader(body)      *)
(* (a body with a duplicated miniblock may be rejected by the intended design even with its honest header). *)
EXTENDS Correlation, Json, TLCExt
LogLast(h, r) == <<r>>
AnyCase(h, b) == TRUE
TLog == ndJsonDeserialize("trace.ndjson")
VARIABLE l
tvars == <<vars, l>>
Ev == TLog[l]
IsEvent(name) == l <= Len(TLog) /\ Ev.a = name /\ l' = l + 1

TraceInit == l = 1 /\ hdr = <<>> /\ body = <<>> /\ map = EmptyMap /\ i = 0 /\ res = "pending" /\ hist = <<>>
TNew == IsEvent("New") /\ UNCHANGED vars
Observe == hdr' = Ev.in.hdr /\ body' = Ev.in.body /\ res' = Ev.out.res /\ map' = EmptyMap /\ i' = 0 /\ hist' = <<>>
AllDefects == {"typeUnchecked", "noBijection"}
TCheck ==
    /\ IsEvent("Check") /\ Observe
    /\ Ev.out.res \in {Verdict({}, Ev.in.hdr, Ev.in.body), Verdict(AllDefects, Ev.in.hdr, Ev.in.body)}
TCheckObs == IsEvent("Check") /\ Observe
\* createMiniBlockHeaders: the real list (logged as in.hdr) must be the honest header of the body, and the real
\* check (out.res) must accept it
THonest ==
    /\ IsEvent("Honest") /\ Observe
    /\ Ev.in.hdr = HonestHeader(Ev.in.body)
    /\ Ev.out.res \in {Verdict({}, Ev.in.hdr, Ev.in.body), Verdict(AllDefects, Ev.in.hdr, Ev.in.body)}
THonestObs == IsEvent("Honest") /\ Observe
TraceNext == TNew \/ TCheck \/ THonest
TraceNextObs == TNew \/ TCheckObs \/ THonestObs
TraceSpec == TraceInit /\ [][TraceNext]_tvars
TraceSpecObs == TraceInit /\ [][TraceNextObs]_tvars

HighWater == TLCSet(1, IF l > TLCGet(1) THEN l ELSE TLCGet(1))
Accepted  == IF TLCGet(1) = Len(TLog) + 1 THEN TRUE ELSE PrintT("@@HW " \o ToString(TLCGet(1))) /\ FALSE
ASSUME TLCSet(1, 0)
====
