---- MODULE MC_ImmunityCache ----
EXTENDS ImmunityCache, Json
CONSTANT Depth
LogAppend(h, r) == Append(h, r)
LogLast(h, r) == <<r>>
\* behaviour export (see specs/CapLRU/MC_CapLRU.tla): one behaviour per transition of the abstract state graph
GenNext  == Len(hist) < Depth /\ Next
GenSpec  == Init /\ [][GenNext]_vars
EmitEdge == PrintT("@@B " \o ToJson(hist'))
EmitFull == (Len(hist') = Depth) => PrintT("@@B " \o ToJson(hist'))
====
