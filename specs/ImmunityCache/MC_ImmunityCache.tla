---- MODULE MC_ImmunityCache ----
EXTENDS ImmunityCache, Json
CONSTANT Depth
LogAppend(h, r) == Append(h, r)
LogLast(h, r) == <<r>>
\* transition cover: every proper prefix of an exported behaviour is itself exported (as the behaviour whose last
\* transition it is), so only the last record needs the full projected state; earlier records keep in/out/bad
LogAppendSlim(h, r) == Append([j \in 1..Len(h) |-> [h[j] EXCEPT !.st = [x |-> 0]]], r)
C(n, i, b, e) == [nc |-> n, mi |-> i, mb |-> b, ev |-> e]
Prod(N, I, B, E) == [nc : N, mi : I, mb : B, ev : E]
\* R1: every combination, including values CacheConfig.Verify rejects (0 chunks, 3 items, 3 bytes, 0 evictions)
\* and limits below / not divisible by the chunk count
CfgR1Quick    == Prod({0, 1, 2, 5}, {3, 4, 5}, {3, 4, 7}, {0, 1, 2})
CfgR1Thorough == Prod({0, 1, 2, 3, 5}, {3, 4, 5, 6}, {3, 4, 7}, {0, 1, 2, 4})
CfgR1Two      == Prod({2, 3}, {4, 5, 7}, {4, 7}, {1, 2, 4})
\* R2 (behaviour export): one configuration per class of per-chunk configuration
CfgGenQuick == {C(1, 4, 4, 1), C(2, 4, 7, 2), C(2, 5, 4, 4), C(2, 4, 7, 1), C(5, 4, 7, 4), C(5, 5, 4, 5),
                C(0, 4, 4, 1), C(1, 3, 4, 1), C(1, 4, 3, 1), C(1, 4, 4, 0)}
CfgGenThorough == CfgGenQuick \cup {C(1, 5, 7, 2), C(2, 5, 7, 3), C(3, 4, 7, 2), C(2, 6, 12, 1)}
CfgSim == Prod({1, 2, 3, 5}, {4, 5, 6, 9}, {4, 7, 12}, {1, 2, 4, 6})
\* behaviour export (see specs/CapLRU/MC_CapLRU.tla): one behaviour per transition of the abstract state graph
GenNext  == Len(hist) < Depth /\ Next
GenSpec  == Init /\ [][GenNext]_vars
EmitEdge == PrintT("@@B " \o ToJson(hist'))
EmitFull == (Len(hist') = Depth) => PrintT("@@B " \o ToJson(hist'))
====
