SPECIFICATION Spec
CONSTANTS
  Configs <- CfgR1Quick
  UsedChunks = 1
  KeyIdx = {1, 2, 3}
  Sizes = {0, 1, 3}
  ImmunizeMax = 2
  KnownDefects = {}
  WithBad = FALSE
  BothVariants = FALSE
  Log <- LogLast
  Depth = 0
VIEW cvars
INVARIANTS TypeOK Inv_GhostIsRegistry Inv_C27_ItemsBound Inv_C27_BytesSoft
PROPERTIES Act_C27_ImmuneStay Act_C27_Admit_ZeroCapacity Act_C27_Admit_ZeroEvict Act_C27_Admit
CHECK_DEADLOCK FALSE
