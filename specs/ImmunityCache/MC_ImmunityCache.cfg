SPECIFICATION Spec
CONSTANTS
  NumChunksSet = {0, 1, 2, 5}
  MaxItemsSet = {3, 4, 5}
  MaxBytesSet = {3, 4, 7}
  EvictSet = {0, 1, 2, 4}
  UsedChunks = 1
  KeyIdx = {1, 2, 3}
  Sizes = {0, 1, 3}
  ImmunizeMax = 2
  KnownDefects = {}
  BothVariants = FALSE
  Log <- LogLast
  Depth = 0
VIEW cvars
INVARIANTS TypeOK Inv_GhostIsRegistry Inv_C27_ItemsBound Inv_C27_BytesSoft
PROPERTIES Act_C27_ImmuneStay Act_C27_Admit_ZeroCapacity Act_C27_Admit_ZeroEvict Act_C27_Admit
CHECK_DEADLOCK FALSE
