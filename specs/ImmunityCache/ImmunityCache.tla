---------------------------- MODULE ImmunityCache ----------------------------
(***************************************************************************)
(* Model of storage/immunitycache (ImmunityCache + immunityChunk), the     *)
(* cache behind CrossTxCache and dataRetriever/shardedData.  Property C27. *)
(*                                                                         *)
(* Structure follows the code: a cache is NumChunks independent chunks; a  *)
(* key lives in the chunk chosen by a hash of the key (abstracted: a key   *)
(* is the pair [c |-> chunk, i |-> index]); each chunk has a list of items *)
(* in insertion order, a registry of immune keys (present or future), a    *)
(* byte counter, and a configuration obtained from the cache's             *)
(* configuration by INTEGER DIVISION by the number of chunks.              *)
(* One action per public call (each is one critical section of a chunk).   *)
(*                                                                         *)
(* The configuration is chosen in Init from constant sets that also        *)
(* contain values CacheConfig.Verify rejects, so one TLC run quantifies    *)
(* over every accepted configuration within the bounds.                    *)
(*                                                                         *)
(* Named deviation (KnownDefects / parameter dv):                          *)
(*   "C27floor"  getChunkConfig floors limit/NumChunks to 0: a chunk with  *)
(*               item or byte limit 0 never admits anything; an eviction   *)
(*               step count of 0 evicts nothing, so a full chunk never     *)
(*               admits again.  Intended design: at least 1.               *)
(***************************************************************************)
EXTENDS Integers, Sequences, FiniteSets, TLC

CONSTANTS Configs,       \* candidate configurations [nc, mi, mb, ev] (also ones that Verify rejects)
          UsedChunks,    \* keys are generated for chunks 1..Min(NumChunks, UsedChunks) only
          KeyIdx,        \* key indexes per chunk
          Sizes,         \* item sizes (>= 0)
          ImmunizeMax,   \* max number of keys in one ImmunizeKeys call
          KnownDefects,  \* set of deviation ids active in model checking
          WithBad,       \* TRUE: every step record carries `bad`, the C27 predicates false on that step (behaviour
                         \* export); FALSE: not computed (model checking and trace validation evaluate them directly)
          BothVariants,  \* TRUE: Init also chooses any subset of KnownDefects (behaviour export for both the
                         \* code as it is and the intended design); FALSE: exactly KnownDefects
          Log(_, _)

VARIABLES cfg,     \* [nc, mi, mb, ev]  = NumChunks, MaxNumItems, MaxNumBytes, NumItemsToPreemptivelyEvict
          alive,   \* the constructor accepted the configuration
          ccfg,    \* per-chunk configuration [mi, mb, ev]
          chunks,  \* sequence (1..nc) of [items : Seq([i, z]), imm : set of i, flag : set of i, nb : Int]
          marked,  \* ghost: keys [c, i] marked immune through the API and not removed/cleared since
          hist     \* observation only

vars  == <<cfg, alive, ccfg, chunks, marked, hist>>
cvars == <<cfg, alive, ccfg, chunks, marked>>

Min(a, b) == IF a < b THEN a ELSE b
Max(a, b) == IF a > b THEN a ELSE b
Key(c, i) == [c |-> c, i |-> i]
EmptyChunk == [items |-> <<>>, imm |-> {}, flag |-> {}, nb |-> 0]

RECURSIVE SumZ(_)
SumZ(s) == IF s = <<>> THEN 0 ELSE Head(s).z + SumZ(Tail(s))

Present(ch) == {ch.items[j].i : j \in 1..Len(ch.items)}
ItemsIn(ch, S) == SelectSeq(ch.items, LAMBDA it : it.i \in S)
BytesIn(ch, S) == SumZ(ItemsIn(ch, S))

(* CacheConfig.Verify (the name is never empty here) *)
VerifyOK(c) == /\ c.nc >= 1 /\ c.nc <= 128
               /\ c.mi >= 4
               /\ c.mb >= 4 /\ c.mb <= 1073741824
               /\ c.ev >= 1

AllDefects == {"C27floor"}

(* CacheConfig.getChunkConfig *)
AtLeast1(x) == IF x < 1 THEN 1 ELSE x
ChunkCfg(c, dv) ==
    LET n == Max(c.nc, 1) IN
    IF "C27floor" \in dv
    THEN [mi |-> c.mi \div n, mb |-> c.mb \div n, ev |-> c.ev \div n]                 \* code as it is
    ELSE [mi |-> AtLeast1(c.mi \div n), mb |-> AtLeast1(c.mb \div n), ev |-> AtLeast1(c.ev \div n)]

(* immunityChunk.isCapacityExceededNoLock: a pre-insert threshold *)
Exceeded(ch, cc) == Len(ch.items) >= cc.mi \/ ch.nb >= cc.mb

(* immunityChunk.removeOldestNoLock(n): the first n items, oldest first, whose immune flag is not set *)
RemoveOldest(ch, n) ==
    LET cand == SelectSeq(ch.items, LAMBDA it : it.i \notin ch.flag)
        vic  == SubSeq(cand, 1, Min(n, Len(cand)))
        vs   == {vic[j].i : j \in 1..Len(vic)}
    IN  [n  |-> Len(vic),
         ch |-> [ch EXCEPT !.items = SelectSeq(@, LAMBDA it : it.i \notin vs),
                           !.nb = Max(@ - SumZ(vic), 0)]]

(* immunityChunk.evictItemsNoLock: first step decides success; then steps while still exceeded and *)
(* the previous step removed a full batch                                                            *)
RECURSIVE EvictLoop(_, _, _)
EvictLoop(ch, last, cc) ==
    IF Exceeded(ch, cc) /\ last = cc.ev
    THEN LET r == RemoveOldest(ch, cc.ev) IN EvictLoop(r.ch, r.n, cc)
    ELSE ch
Evict(ch, cc) ==
    LET r1 == RemoveOldest(ch, cc.ev) IN
    IF r1.n = 0 THEN [err |-> TRUE, ch |-> ch]
    ELSE [err |-> FALSE, ch |-> EvictLoop(r1.ch, r1.n, cc)]

CountImmune(chs) == LET RECURSIVE S(_)
                        S(c) == IF c = 0 THEN 0 ELSE Cardinality(chs[c].imm) + S(c - 1)
                    IN S(Len(chs))
Count(chs) == LET RECURSIVE S(_)
                  S(c) == IF c = 0 THEN 0 ELSE Len(chs[c].items) + S(c - 1)
              IN S(Len(chs))
NumBytes(chs) == LET RECURSIVE S(_)
                     S(c) == IF c = 0 THEN 0 ELSE chs[c].nb + S(c - 1)
                 IN S(Len(chs))

\* projected state: the chunks that can hold keys (all of them in trace validation) + the cache-level counters
Proj(chs) == [ch |-> SubSeq(chs, 1, Min(Len(chs), UsedChunks)), cnt |-> Count(chs), nb |-> NumBytes(chs), ci |-> CountImmune(chs)]

-----------------------------------------------------------------------------
(* The property C27 as predicates over explicit pre/post values, so that the same text is used   *)
(* for TLC invariants / action properties and for the `bad` field exported with every step.       *)

\* per-chunk limits "as configured": limit / NumChunks, never below 1 (so that both the code as it
\* is and a repaired getChunkConfig are judged by the same bound)
Lim(c) == LET n == Max(c.nc, 1) IN
          [mi |-> AtLeast1(c.mi \div n), mb |-> AtLeast1(c.mb \div n)]
NonImm(chs, mk, c) == {i \in Present(chs[c]) : Key(c, i) \notin mk}

ItemsBoundOK(c, chs, mk) ==
    \A x \in 1..Len(chs) : Cardinality(NonImm(chs, mk, x)) <= Lim(c).mi
BytesStrictOK(c, chs, mk) ==
    \A x \in 1..Len(chs) : BytesIn(chs[x], NonImm(chs, mk, x)) <= Lim(c).mb
\* the byte limit is a pre-insert threshold: what is held without the newest non-immune item is below it
BytesSoftOK(c, chs, mk) ==
    \A x \in 1..Len(chs) :
        LET ni == ItemsIn(chs[x], NonImm(chs, mk, x)) IN
        ni = <<>> \/ LET rest == SumZ(ni) - ni[Len(ni)].z IN rest = 0 \/ rest < Lim(c).mb

\* immune items are never evicted: a marked item disappears only by Remove of that key or Clear
ImmuneStayOK(chs, mk, chs2, rec) ==
    rec.a \in {"New", "Clear"} \/
    \A x \in 1..Len(chs) : \A i \in Present(chs[x]) :
        (Key(x, i) \in mk /\ ~(rec.a = "Remove" /\ rec.in.k = Key(x, i)))
            => (x <= Len(chs2) /\ i \in Present(chs2[x]))

\* once full, the cache still admits: adding an absent key fails only if the chunk is full of immune items
LimFull(c, ch) == Len(ch.items) >= Lim(c).mi \/ ch.nb >= Lim(c).mb
AdmitOK(c, chs, mk, rec) ==
    (rec.a = "Add" /\ rec.in.k.i \notin Present(chs[rec.in.k.c])) =>
        \/ rec.out.added
        \/ LET ch == chs[rec.in.k.c] IN
           LimFull(c, ch) /\ Present(ch) # {} /\ \A i \in Present(ch) : Key(rec.in.k.c, i) \in mk

\* configuration classes (narrow signatures for the admission part)
ZeroCapacity(c) == LET n == Max(c.nc, 1) IN c.mi \div n = 0 \/ c.mb \div n = 0
ZeroEvict(c) == LET n == Max(c.nc, 1) IN ~ZeroCapacity(c) /\ c.ev \div n = 0

Bad(c, chs, mk, chs2, mk2, rec) ==
    (IF ItemsBoundOK(c, chs2, mk2) THEN {} ELSE {"Inv_C27_ItemsBound"}) \cup
    (IF BytesSoftOK(c, chs2, mk2) THEN {} ELSE {"Inv_C27_BytesSoft"}) \cup
    (IF BytesSoftOK(c, chs2, mk2) /\ ~BytesStrictOK(c, chs2, mk2) THEN {"Inv_C27_BytesStrict"} ELSE {}) \cup
    (IF ImmuneStayOK(chs, mk, chs2, rec) THEN {} ELSE {"Act_C27_ImmuneStay"}) \cup
    (IF AdmitOK(c, chs, mk, rec) THEN {}
     ELSE IF ZeroCapacity(c) THEN {"Act_C27_Admit_ZeroCapacity"}
     ELSE IF ZeroEvict(c) THEN {"Act_C27_Admit_ZeroEvict"}
     ELSE {"Act_C27_Admit"})

Rec(a, in, out, chs2, mk2) ==
    LET r == [a |-> a, in |-> in, out |-> out] IN
    [a |-> a, in |-> in, out |-> out, st |-> Proj(chs2),
     bad |-> IF WithBad THEN Bad(cfg, chunks, marked, chs2, mk2, r) ELSE {}]

-----------------------------------------------------------------------------
\* the state right after NewImmunityCache(c) when getChunkConfig behaves as variant dv
NewState(c, dv) ==
    LET chs == [x \in 1..(IF VerifyOK(c) THEN c.nc ELSE 0) |-> EmptyChunk] IN
    [cfg |-> c, alive |-> VerifyOK(c), ccfg |-> ChunkCfg(c, dv), chunks |-> chs,
     \* out.cc: the chunk configuration (observable through the hook); out.ccs: every chunk configuration
     \* this specification admits for c (a replay whose real chunk configuration is another member of
     \* ccs belongs to the other variant and is skipped, not compared)
     rec |-> [a |-> "New", in |-> c,
              out |-> [ok |-> VerifyOK(c), cc |-> ChunkCfg(c, dv),
                       ccs |-> {ChunkCfg(c, d) : d \in SUBSET AllDefects}],
              st |-> Proj(chs), bad |-> {}]]

InitWith(c, dv) ==
    LET n == NewState(c, dv) IN
    /\ cfg = n.cfg /\ alive = n.alive /\ ccfg = n.ccfg /\ chunks = n.chunks /\ marked = {}
    /\ hist = <<n.rec>>

Init == \E c \in Configs :
            \E dv \in (IF BothVariants THEN SUBSET KnownDefects ELSE {KnownDefects}) : InitWith(c, dv)

(* ImmunityCache.HasOrAdd -> immunityChunk.AddItem *)
Add(k, z) ==
    /\ alive
    /\ LET ch == chunks[k.c]
           ev == IF Exceeded(ch, ccfg) THEN Evict(ch, ccfg) ELSE [err |-> FALSE, ch |-> ch]
       IN
       IF ev.err
       THEN \* "no more room for the new item"
            /\ UNCHANGED cvars
            /\ hist' = Log(hist, Rec("Add", [k |-> k, z |-> z], [has |-> FALSE, added |-> FALSE], chunks, marked))
       ELSE IF k.i \in Present(ev.ch)
       THEN \* duplicates are discarded -- after the eviction has been done
            /\ chunks' = [chunks EXCEPT ![k.c] = ev.ch]
            /\ UNCHANGED <<cfg, alive, ccfg, marked>>
            /\ hist' = Log(hist, Rec("Add", [k |-> k, z |-> z], [has |-> TRUE, added |-> FALSE], chunks', marked))
       ELSE /\ chunks' = [chunks EXCEPT ![k.c] =
                            [ev.ch EXCEPT !.items = Append(@, [i |-> k.i, z |-> z]),
                                          !.flag = IF k.i \in ev.ch.imm THEN @ \cup {k.i} ELSE @,
                                          !.nb = @ + z]]
            /\ UNCHANGED <<cfg, alive, ccfg, marked>>
            /\ hist' = Log(hist, Rec("Add", [k |-> k, z |-> z], [has |-> FALSE, added |-> TRUE], chunks', marked))

(* ImmunityCache.ImmunizeKeys (K: a set of distinct keys) *)
Immunize(K) ==
    /\ alive
    /\ IF CountImmune(chunks) + Cardinality(K) > cfg.mi
       THEN /\ UNCHANGED cvars
            /\ hist' = Log(hist, Rec("Immunize", [ks |-> K], [now |-> 0, fut |-> 0], chunks, marked))
       ELSE LET now == Cardinality({k \in K : k.i \in Present(chunks[k.c])}) IN
            /\ chunks' = [x \in 1..Len(chunks) |->
                            LET is == {k.i : k \in {kk \in K : kk.c = x}} IN
                            [chunks[x] EXCEPT !.imm = @ \cup is,
                                              !.flag = @ \cup (is \cap Present(chunks[x]))]]
            /\ marked' = marked \cup K
            /\ UNCHANGED <<cfg, alive, ccfg>>
            /\ hist' = Log(hist, Rec("Immunize", [ks |-> K], [now |-> now, fut |-> Cardinality(K) - now],
                                     chunks', marked'))

(* ImmunityCache.RemoveWithResult -> immunityChunk.RemoveItem: also forgets the immunity of the key *)
Remove(k) ==
    /\ alive
    /\ LET ch == chunks[k.c]
           has == k.i \in Present(ch)
       IN
       /\ chunks' = [chunks EXCEPT ![k.c] =
                        [ch EXCEPT !.imm = @ \ {k.i}, !.flag = @ \ {k.i},
                                   !.items = SelectSeq(@, LAMBDA it : it.i # k.i),
                                   !.nb = IF has THEN Max(@ - BytesIn(ch, {k.i}), 0) ELSE @]]
       /\ marked' = marked \ {k}
       /\ UNCHANGED <<cfg, alive, ccfg>>
       /\ hist' = Log(hist, Rec("Remove", [k |-> k], [ok |-> has], chunks', marked'))

(* Get / Has / Peek *)
Get(k) ==
    /\ alive
    /\ UNCHANGED cvars
    /\ hist' = Log(hist, Rec("Get", [k |-> k], [ok |-> k.i \in Present(chunks[k.c])], chunks, marked))

(* Clear re-creates the chunks: items and immunity registrations are dropped *)
Clear ==
    /\ alive
    /\ chunks' = [x \in 1..Len(chunks) |-> EmptyChunk]
    /\ marked' = {}
    /\ UNCHANGED <<cfg, alive, ccfg>>
    /\ hist' = Log(hist, Rec("Clear", [x |-> 0], [x |-> 0], chunks', marked'))

GenKeys == {Key(c, i) : c \in 1..Min(Len(chunks), UsedChunks), i \in KeyIdx}
SmallSubsets(S, n) == {K \in SUBSET S : K # {} /\ Cardinality(K) <= n}

\* named so that TLC's coverage report lists them separately (vacuity guard)
NAdd      == \E k \in GenKeys, z \in Sizes : Add(k, z)
NImmunize == \E K \in SmallSubsets(GenKeys, ImmunizeMax) : Immunize(K)
NRemove   == \E k \in GenKeys : Remove(k)
NGet      == \E k \in GenKeys : Get(k)
NClear    == Clear
Next == NAdd \/ NImmunize \/ NRemove \/ NGet \/ NClear

Spec == Init /\ [][Next]_vars

-----------------------------------------------------------------------------
LastRec == hist[Len(hist)]

TypeOK ==
    /\ \A x \in 1..Len(chunks) :
        /\ chunks[x].flag \subseteq Present(chunks[x])
        /\ chunks[x].nb = SumZ(chunks[x].items)
        /\ \A j1, j2 \in 1..Len(chunks[x].items) : j1 # j2 => chunks[x].items[j1].i # chunks[x].items[j2].i
    /\ alive => Len(chunks) = cfg.nc

\* the ghost `marked` is exactly the code's registry, and flags are exactly the present registered keys
Inv_GhostIsRegistry ==
    \A x \in 1..Len(chunks) :
        /\ chunks[x].imm = {k.i : k \in {kk \in marked : kk.c = x}}
        /\ chunks[x].flag = chunks[x].imm \cap Present(chunks[x])

Inv_C27_ItemsBound  == ItemsBoundOK(cfg, chunks, marked)
Inv_C27_BytesSoft   == BytesSoftOK(cfg, chunks, marked)
Inv_C27_BytesStrict == BytesStrictOK(cfg, chunks, marked)     \* does NOT hold: soft limit by design (finding)

Act_C27_ImmuneStay == [][ImmuneStayOK(chunks, marked, chunks', LastRec')]_cvars
AdmitStep(cls) == (cls /\ LastRec'.a = "Add") => AdmitOK(cfg, chunks, marked, LastRec')
Act_C27_Admit_ZeroCapacity == [][AdmitStep(ZeroCapacity(cfg))]_vars
Act_C27_Admit_ZeroEvict    == [][AdmitStep(ZeroEvict(cfg))]_vars
Act_C27_Admit              == [][AdmitStep(~ZeroCapacity(cfg) /\ ~ZeroEvict(cfg))]_vars
=============================================================================
