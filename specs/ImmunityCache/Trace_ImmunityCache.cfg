SPECIFICATION TraceSpec
CONSTANTS
  Configs = {}
  UsedChunks = 128
  KeyIdx = {}
  Sizes = {}
  ImmunizeMax = 0
  KnownDefects = {}
  WithBad = FALSE
  BothVariants = FALSE
  Log <- LogLast
CONSTRAINT HighWater
INVARIANTS TypeOK Inv_C27_ItemsBound Inv_C27_BytesSoft
PROPERTIES Act_C27_ImmuneStay Act_C27_Admit_ZeroCapacity Act_C27_Admit_ZeroEvict Act_C27_Admit
POSTCONDITION Accepted
CHECK_DEADLOCK FALSE
