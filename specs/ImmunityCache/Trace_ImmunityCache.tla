---- MODULE Trace_ImmunityCache ----
(* Trace validation for ImmunityCache: trace.ndjson was recorded from the real cache (through the   *)
(* export_verif.go projection).  Strict mode (TraceSpec): every event must be the corresponding       *)
(* action of the specification with the logged result and the logged projected state.  The           *)
(* deviation "C27floor" is a per-trace choice (TNew tries both chunk configurations), so both the    *)
(* code as it is and a repaired getChunkConfig are accepted; the property invariants decide.         *)
(* Observation mode (ObsSpec): the state is taken from the log, only the ghost `marked` is computed  *)
(* from the calls; used when strict mode rejects, so that the property is still evaluated on every   *)
(* observed state and transition.                                                                      *)
EXTENDS ImmunityCache, Json, TLCExt
LogLast(h, r) == <<r>>
TLog == ndJsonDeserialize("trace.ndjson")
VARIABLE l
tvars == <<vars, l>>
Ev == TLog[l]
IsEvent(name) == l <= Len(TLog) /\ Ev.a = name /\ l' = l + 1

ToSet(s) == {s[j] : j \in DOMAIN s}
ObsChunks(st) == [x \in DOMAIN st.ch |->
                    [items |-> st.ch[x].items, imm |-> ToSet(st.ch[x].imm),
                     flag |-> ToSet(st.ch[x].flag), nb |-> st.ch[x].nb]]
MatchesState == /\ chunks' = ObsChunks(Ev.st)
                /\ Count(chunks') = Ev.st.cnt /\ NumBytes(chunks') = Ev.st.nb /\ CountImmune(chunks') = Ev.st.ci
Matches == (\A f \in DOMAIN Ev.out : hist'[1].out[f] = Ev.out[f]) /\ MatchesState
KeysOf(s) == {Key(s[j].c, s[j].i) : j \in DOMAIN s}

TraceInit == l = 1 /\ InitWith([nc |-> 1, mi |-> 4, mb |-> 4, ev |-> 1], {})
TNew == /\ IsEvent("New")
        /\ \E dv \in SUBSET AllDefects :
              LET n == NewState(Ev.in, dv) IN
              /\ cfg' = n.cfg /\ alive' = n.alive /\ ccfg' = n.ccfg /\ chunks' = n.chunks /\ marked' = {}
              /\ hist' = <<n.rec>>
        /\ alive' = Ev.out.ok
        /\ (alive' => ccfg' = Ev.out.cc)
        /\ MatchesState
TAdd      == IsEvent("Add") /\ Add(Key(Ev.in.k.c, Ev.in.k.i), Ev.in.z) /\ Matches
TImmunize == IsEvent("Immunize") /\ Immunize(KeysOf(Ev.in.ks)) /\ Matches
TRemove   == IsEvent("Remove") /\ Remove(Key(Ev.in.k.c, Ev.in.k.i)) /\ Matches
TGet      == IsEvent("Get") /\ Get(Key(Ev.in.k.c, Ev.in.k.i)) /\ Matches
TClear    == IsEvent("Clear") /\ Clear /\ Matches
TraceNext == TNew \/ TAdd \/ TImmunize \/ TRemove \/ TGet \/ TClear
TraceSpec == TraceInit /\ [][TraceNext]_tvars

\* observation mode: state := observed, ghost computed from the call and its observed result
ObsRec == [a |-> Ev.a, in |-> IF Ev.a \in {"Add", "Remove", "Get"}
                               THEN [Ev.in EXCEPT !.k = Key(Ev.in.k.c, Ev.in.k.i)] ELSE Ev.in,
           out |-> Ev.out, st |-> Ev.st, bad |-> {}]
ObsNext ==
    /\ l <= Len(TLog) /\ l' = l + 1
    /\ chunks' = ObsChunks(Ev.st)
    /\ hist' = <<ObsRec>>
    /\ IF Ev.a = "New"
       THEN cfg' = Ev.in /\ alive' = Ev.out.ok /\ marked' = {} /\ ccfg' = ChunkCfg(Ev.in, {})
       ELSE /\ UNCHANGED <<cfg, alive, ccfg>>
            /\ marked' = CASE Ev.a = "Immunize" /\ Ev.out.now + Ev.out.fut = Cardinality(KeysOf(Ev.in.ks))
                                  -> marked \cup KeysOf(Ev.in.ks)
                           [] Ev.a = "Remove" -> marked \ {Key(Ev.in.k.c, Ev.in.k.i)}
                           [] Ev.a = "Clear" -> {}
                           [] OTHER -> marked
ObsSpec == TraceInit /\ [][ObsNext]_tvars

HighWater == TLCSet(1, IF l > TLCGet(1) THEN l ELSE TLCGet(1))
Accepted  == IF TLCGet(1) = Len(TLog) + 1 THEN TRUE ELSE PrintT("@@HW " \o ToString(TLCGet(1))) /\ FALSE
ASSUME TLCSet(1, 0)
====
