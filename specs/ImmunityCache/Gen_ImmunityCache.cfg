SPECIFICATION GenSpec
CONSTANTS
  Configs <- CfgGenQuick
  UsedChunks = 1
  KeyIdx = {1, 2, 3}
  Sizes = {0, 1, 3}
  ImmunizeMax = 2
  KnownDefects = {"C27floor"}
  WithBad = TRUE
  BothVariants = TRUE
  Log <- LogAppendSlim
  Depth = 12
VIEW cvars
ACTION_CONSTRAINT EmitEdge
CHECK_DEADLOCK FALSE
