SPECIFICATION GenSpec
CONSTANTS
  NumChunksSet = {0, 1, 2, 5}
  MaxItemsSet = {3, 4, 5}
  MaxBytesSet = {3, 4, 7}
  EvictSet = {0, 1, 2, 4}
  UsedChunks = 1
  KeyIdx = {1, 2, 3}
  Sizes = {0, 1, 3}
  ImmunizeMax = 2
  KnownDefects = {"C27floor"}
  BothVariants = TRUE
  Log <- LogAppend
  Depth = 12
VIEW cvars
ACTION_CONSTRAINT EmitEdge
CHECK_DEADLOCK FALSE
