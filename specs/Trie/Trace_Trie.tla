---- MODULE Trace_Trie ----
(* Trace validation: consumes trace.ndjson recorded from real patriciaMerkleTrie instances (random      *)
(* histories, several tries per file) and accepts it iff every logged call is the corresponding action   *)
(* of Trie.tla with the logged observable result.  Root hashes are logged as interned ids; `seen` relates*)
(* every id to the specification's hash (= canonical contents) so that TLC itself checks                 *)
(* "equal contents <=> equal root hash" over all observations of the run (C02).                          *)
EXTENDS Trie, Json, TLCExt
LogLast(h, r) == <<r>>
TLog == ndJsonDeserialize("trace.ndjson")
TraceKeys == LET T == TLog IN {T[i].in.k : i \in {j \in 1..Len(T) : T[j].a \in {"Update", "Delete"}}}
TraceVals == 1..255
VARIABLES l,        \* next line of the log
          seen,     \* set of <<root id, specification hash>> observed so far (all traces of the file)
          clash     \* some observation contradicted an earlier one: [rid, h] or NoClash
tvars == <<vars, l, seen, clash>>
NoClash == [rid |-> 0]
Ev == TLog[l]
IsEvent(name) == l <= Len(TLog) /\ Ev.a = name /\ l' = l + 1
Out == hist'[1].out

\* observing root id `rid` while the specification's root hash is h
Observe(rid, h) ==
    /\ seen' = seen \cup {<<rid, h>>}
    /\ clash' = IF clash # NoClash THEN clash
                ELSE IF \E p \in seen : (p[1] = rid) # (p[2] = h) THEN [rid |-> rid, h |-> h] ELSE NoClash
NoObs == UNCHANGED <<seen, clash>>

TraceInit ==
    /\ l = 1 /\ root = Absent /\ db = {} /\ map = EmptyMap /\ roots = {} /\ parked = <<>> /\ maxLevel = 1 /\ hist = <<>>
    /\ seen = {} /\ clash = NoClash
TNew ==
    /\ IsEvent("New")
    /\ root' = Absent /\ db' = {} /\ map' = EmptyMap /\ roots' = {} /\ parked' = <<>> /\ maxLevel' = Ev.in.maxLevel
    /\ hist' = <<[a |-> "New", in |-> Ev.in, out |-> Ev.out, st |-> Ev.st]>>
    /\ NoObs
TUpdate   == IsEvent("Update") /\ Update(Ev.in.k, Ev.in.v) /\ Ev.out.err = 0 /\ NoObs
TDelete   == IsEvent("Delete") /\ DeleteKey(Ev.in.k) /\ Ev.out.err = 0 /\ NoObs
TGet      == IsEvent("Get") /\ Get(Ev.in.k) /\ Out.v = Ev.out.v /\ NoObs
TRootHash == IsEvent("RootHash") /\ RootHash /\ Out.empty = Ev.out.empty /\ Observe(Ev.out.rid, HashOf(root'))
TCommit ==
    /\ IsEvent("Commit") /\ Commit /\ Ev.out.err = 0 /\ Ev.out.lerr = 0
    /\ Ev.out.empty = (root' = Absent)
    /\ Out.nleaves = Ev.out.nleaves /\ Out.leaves = {<<p[1], p[2]>> : p \in SeqToSet(Ev.out.leaves)}
    /\ Observe(Ev.out.rid, HashOf(root'))
TRecreate ==
    /\ IsEvent("Recreate") /\ Ev.out.err = 0
    /\ IF Ev.in.empty THEN RecreateEmpty
       ELSE \E r \in roots : <<Ev.in.rid, r.h>> \in seen /\ Recreate(r)
    /\ Observe(Ev.out.rid, HashOf(root'))
\* the original stays in use next to the recreated instance; Switch re-addresses the calls
TRecreateKeep ==
    /\ IsEvent("RecreateKeep") /\ Ev.out.err = 0
    /\ \E r \in roots : <<Ev.in.rid, r.h>> \in seen /\ RecreateKeep(r)
    /\ Observe(Ev.out.rid, HashOf(root'))
TSwitch == IsEvent("Switch") /\ Switch(Ev.in.i) /\ NoObs
TraceNext == TNew \/ TUpdate \/ TDelete \/ TGet \/ TRootHash \/ TCommit \/ TRecreate \/ TRecreateKeep \/ TSwitch
TraceSpec == TraceInit /\ [][TraceNext]_tvars

\* C02 on the observations: the relation root id <-> contents is one-to-one
Inv_C02_Partition == clash = NoClash

HighWater == TLCSet(1, IF l > TLCGet(1) THEN l ELSE TLCGet(1))
Accepted  == IF TLCGet(1) = Len(TLog) + 1 THEN TRUE ELSE PrintT("@@HW " \o ToString(TLCGet(1))) /\ FALSE
ASSUME TLCSet(1, 0)
====
