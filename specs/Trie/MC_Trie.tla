---- MODULE MC_Trie ----
EXTENDS Trie, Json
CONSTANT Depth
LogAppend(h, r) == Append(h, r)
LogLast(h, r) == <<r>>
\* key universes (byte strings); reversed-nibble hex keys in comments
\*   <<>>        [16]                 the empty key: prefix-free only thanks to the terminator
\*   <<34>>      [2,2,16]             0x22       byte-suffix of the next ones (slot 16 of a branch)
\*   <<17,34>>   [2,2,1,1,16]         0x1122
\*   <<51,34>>   [2,2,3,3,16]         0x3322     shares [2,2] with 0x1122 (extension + branch)
\*   <<17,85>>   [5,5,1,1,16]         0x1155     differs from 0x1122 only in the part an extension skips
\*   <<17,50>>   [2,3,1,1,16]         0x1132     shares one nibble [2] with 0x1122
\*   <<19,34>>   [2,2,3,1,16]         0x1322     shares [2,2] and splits inside the next byte
K3 == {<<34>>, <<17, 34>>, <<51, 34>>}
K4 == {<<>>, <<34>>, <<17, 34>>, <<51, 34>>}
K5 == {<<>>, <<34>>, <<17, 34>>, <<51, 34>>, <<17, 50>>}
K5b == {<<34>>, <<17, 34>>, <<51, 34>>, <<17, 50>>, <<19, 34>>}
K6 == {<<>>, <<34>>, <<17, 34>>, <<51, 34>>, <<17, 50>>, <<19, 34>>}
K7 == {<<>>, <<34>>, <<17, 34>>, <<51, 34>>, <<17, 50>>, <<19, 34>>, <<17, 85>>}

\* the key universe, for the harness (final audit reads every key)
ASSUME PrintT("@@KEYS " \o ToJson(Keys))
\* keys that take every value (the others only the smallest): bounds the overwrite dimension
RichAll == Keys
Rich1 == {<<17, 34>>}
GenNext  == Len(hist) < Depth /\ Next
GenSpec  == Init /\ [][GenNext]_vars
EmitEdge == PrintT("@@B " \o ToJson(hist'))
EmitFull == (Len(hist') = Depth) => PrintT("@@B " \o ToJson(hist'))
====
