---- MODULE MC_Trie ----
EXTENDS Trie, Json
CONSTANT Depth
LogAppend(h, r) == Append(h, r)
LogLast(h, r) == <<r>>
\* key universes (byte strings); reversed-nibble hex keys in comments
\*   <<>>        [16]                 the empty key: prefix-free only thanks to the terminator
\*   <<34>>      [2,2,16]             0x22       byte-suffix of the next ones (slot 16 of a branch)
\*   <<17,34>>   [2,2,1,1,16]         0x1122
\*   <<51,34>>   [2,2,3,3,16]         0x3322     shares [2,2] with 0x1122 (extension + branch)
\*   <<17,85>>   [5,5,1,1,16]         0x1155     differs from 0x1122 only in the part an extension skips
\*   <<17,50>>   [2,3,1,1,16]         0x1132     shares one nibble [2] with 0x1122
\*   <<19,34>>   [2,2,3,1,16]         0x1322     shares [2,2] and splits inside the next byte
K3 == {<<34>>, <<17, 34>>, <<51, 34>>}
K4 == {<<>>, <<34>>, <<17, 34>>, <<51, 34>>}
K5 == {<<>>, <<34>>, <<17, 34>>, <<51, 34>>, <<17, 50>>}
K5b == {<<34>>, <<17, 34>>, <<51, 34>>, <<17, 50>>, <<19, 34>>}
K6 == {<<>>, <<34>>, <<17, 34>>, <<51, 34>>, <<17, 50>>, <<19, 34>>}
K7 == {<<>>, <<34>>, <<17, 34>>, <<51, 34>>, <<17, 50>>, <<19, 34>>, <<17, 85>>}

\* keys that are never written: same length as stored ones but differing in a single nibble (inside / outside
\* the part an extension covers), shorter, longer.  Reading them must find nothing in every reachable state.
\*   0x1125 [5,2,1,1,16]  0x1152 [2,5,1,1,16]  0x1123 [3,2,1,1,16]  0x2122 [2,2,1,2,16]  0x11 [1,1,16]  0x02 [2,0,16]
\*   0x111122 [2,2,1,1,1,1,16]  0x221122 [2,2,1,1,2,2,16]  0x1222 [2,2,2,1,16]
AbsentProbes == {<<17, 37>>, <<17, 82>>, <<17, 35>>, <<33, 34>>, <<17>>, <<2>>, <<17, 17, 34>>, <<34, 17, 34>>, <<18, 34>>} \ Keys
ProbesOk(r, m) == \A k \in AbsentProbes : ReadOf(r, k) = 0
Inv_C01_Probes == ForAllInst(ProbesOk)
\* the keys the harness reads in its final audit: the universe and the never-written probes
ASSUME PrintT("@@KEYS " \o ToJson(Keys \cup AbsentProbes))
AllActs == {"Update", "Delete", "Get", "RootHash", "GetDirtyHashes", "Commit", "Recreate", "RecreateKeep", "RecreateEmpty", "Switch"}
\* the calls that matter for the independence of live instances
InstActs == {"Update", "Commit", "RecreateKeep", "Switch"}
\* keys that take every value (the others only the smallest): bounds the overwrite dimension
RichAll == Keys
Rich1 == {<<17, 34>>}
GenNext  == Len(hist) < Depth /\ Next
GenSpec  == Init /\ [][GenNext]_vars
\* every exported behaviour ends with an "Audit" record: what the harness must find when it inspects the trie
\* after the last step (number of dirty hashes = nodes the next Commit writes, number of nodes of the trie)
AuditRec(r, ml, m, rs, pk) ==
    [a |-> "Audit", in |-> [x |-> 0],
     out |-> [dirty |-> Cardinality(DirtyHashesOf(r, ml)), nodes |-> NodeCount(Expand(r))],
     st |-> [m |-> MapPairs(m), nroots |-> Cardinality(rs), parked |-> [i \in 1..Len(pk) |-> MapPairs(pk[i].map)]]]
Export == PrintT("@@B " \o ToJson(Append(hist', AuditRec(root', maxLevel', map', roots', parked'))))
EmitEdge == Export
EmitFull == (Len(hist') = Depth) => Export
====
