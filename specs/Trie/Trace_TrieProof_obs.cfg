SPECIFICATION TraceSpecObs
CONSTANTS
  PKeys = {}
  Probes = {}
  KnownDefects = {}
CONSTRAINT HighWater
INVARIANTS Inv_C04_Obs_Sound Inv_C04_Obs_NoPanic Inv_C04_Obs_Complete
POSTCONDITION Accepted
CHECK_DEADLOCK FALSE
