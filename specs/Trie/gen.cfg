SPECIFICATION GenSpec
CONSTANTS
  Keys <- K4
  Vals = {1, 2}
  MaxLevels = {1, 2}
  RichKeys <- RichAll
  MaxCommits = 2
  Log <- LogAppend
  Depth = 5
VIEW cvars
ACTION_CONSTRAINT EmitEdge
CHECK_DEADLOCK FALSE
