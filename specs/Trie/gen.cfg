SPECIFICATION GenSpec
CONSTANTS
  Keys <- K4
  Vals = {1, 2}
  MaxLevels = {1, 2}
  RichKeys <- RichAll
  Acts <- AllActs
  MaxParked = 1
  MaxCommits = 2
  Log <- LogAppend
  Depth = 5
VIEW cvars
ACTION_CONSTRAINT EmitEdge
CHECK_DEADLOCK FALSE
