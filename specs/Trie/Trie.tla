------------------------------- MODULE Trie -------------------------------
(***************************************************************************)
(* Node-level model of data/trie (patriciaMerkleTrie + leafNode /          *)
(* extensionNode / branchNode) of elrond-go.                               *)
(*                                                                         *)
(* Keys are byte strings.  keyBytesToHex turns a key into its *reversed*   *)
(* nibbles followed by the terminator 16; the trie is a radix-17 Patricia  *)
(* trie over those hex keys:                                               *)
(*   leaf      [t:"L", k: rest of the hex key, v: value]                   *)
(*   extension [t:"E", k: shared nibbles (non-empty), c: child]            *)
(*   branch    [t:"B", ch: position (0..16) -> child]   (>= 2 children)    *)
(* In memory every node carries the implementation's bookkeeping:          *)
(*   d  dirty flag (baseNode.dirty: not yet written to the DB)             *)
(*   h  cached hash (baseNode.hash; NoH when nil)                          *)
(* and a child can be *collapsed*: only its hash is held ([t:"H", h:..],   *)
(* the EncodedChild / EncodedChildren[i] of the code with a nil pointer).  *)
(*                                                                         *)
(* The hash function is modelled as injective: the hash of a node IS its   *)
(* canonical collapsed encoding, i.e. the canonical (flag-free, fully      *)
(* expanded) subtree.  The DB is the set of hashes whose encoding was      *)
(* written (content addressed: the stored bytes are determined by the key).*)
(*                                                                         *)
(* One action per public call of patriciaMerkleTrie; each operator below   *)
(* transcribes the method of the same name (insert / delete / reduceNode / *)
(* tryGet / setHash / commitDirty / resolveIfCollapsed).                   *)
(*                                                                         *)
(* Properties: C01 (the trie is a map), C02 (shape and root hash are a     *)
(* function of the contents), C03 (committed roots are recoverable).       *)
(***************************************************************************)
EXTENDS TrieNodes

CONSTANTS Keys,        \* set of keys (sequences of bytes 0..255)
          Vals,        \* set of non-empty values (positive integers); 0 stands for the empty value
          MaxLevels,   \* candidate values of maxTrieLevelInMemory (>= 1)
          RichKeys,    \* keys written with every value of Vals; the others only with the smallest one (bounds only)
          MaxCommits,  \* bound on the number of distinct committed roots (model checking only)
          Acts,        \* names of the actions enabled in Next (bounds only: e.g. the instance-interleaving cover leaves
                       \* the read-only calls out, the harness reads every instance after every step anyway)
          MaxParked,   \* how many further live trie instances (over the same DB) a history may keep
          Log(_, _)    \* how the observation variable is extended

VARIABLES root,      \* in-memory root node, Absent when the trie is empty (tr.root == nil)
          db,        \* set of hashes stored in the trie DB
          map,       \* C01 oracle: the plain map (function from a set of keys to Vals)
          roots,     \* committed roots: set of [h |-> root hash, m |-> the map at that commit]
          parked,    \* the other live instances created by Recreate and kept in use: sequence of [root, map].
                     \* `root`/`map` are the instance the calls are currently addressed to (Switch changes it);
                     \* all instances share db (one trieStorageManager) and maxLevel (Recreate inherits it)
          maxLevel,  \* maxTrieLevelInMemory of this trie (chosen in Init)
          hist       \* observation only

vars  == <<root, db, map, roots, parked, maxLevel, hist>>
cvars == <<root, db, map, roots, parked, maxLevel>>


-----------------------------------------------------------------------------
(* Observation *)
Proj == [m |-> MapPairs(map), nroots |-> Cardinality(roots),
         parked |-> [i \in 1..Len(parked) |-> MapPairs(parked[i].map)]]
Rec(a, in, out) == [a |-> a, in |-> in, out |-> out, st |-> Proj']

EmptyMap == [k \in {} |-> 0]

Init ==
    /\ root = Absent /\ db = {} /\ map = EmptyMap /\ roots = {} /\ parked = <<>>
    /\ maxLevel \in MaxLevels
    /\ hist = <<[a |-> "New", in |-> [maxLevel |-> maxLevel], out |-> [x |-> 0],
                 st |-> [m |-> {}, nroots |-> 0, parked |-> <<>>]]>>

MapSet(k, v) == [x \in DOMAIN map \cup {k} |-> IF x = k THEN v ELSE map[x]]
MapDel(k)    == Restrict(map, DOMAIN map \ {k})

\* patriciaMerkleTrie.Update (an empty value deletes) and patriciaMerkleTrie.Delete
DoInsert(k, v) ==
    /\ root' = IF root = Absent THEN NewLeaf(KeyBytesToHex(k), v)
               ELSE Insert(root, KeyBytesToHex(k), v).n
    /\ map' = MapSet(k, v)
DoDelete(k) ==
    /\ root' = IF root = Absent THEN Absent ELSE Delete(root, KeyBytesToHex(k)).n
    /\ map' = MapDel(k)

Update(k, v) ==
    /\ IF v # 0 THEN DoInsert(k, v) ELSE DoDelete(k)
    /\ UNCHANGED <<db, roots, parked, maxLevel>>
    /\ hist' = Log(hist, Rec("Update", [k |-> k, v |-> v], [x |-> 0]))

DeleteKey(k) ==
    /\ DoDelete(k)
    /\ UNCHANGED <<db, roots, parked, maxLevel>>
    /\ hist' = Log(hist, Rec("Delete", [k |-> k], [x |-> 0]))

\* patriciaMerkleTrie.Get: resolves collapsed nodes on the path in place
Get(k) ==
    LET r == IF root = Absent THEN [n |-> Absent, v |-> 0] ELSE TryGet(root, KeyBytesToHex(k)) IN
    /\ root' = r.n
    /\ UNCHANGED <<db, map, roots, parked, maxLevel>>
    /\ hist' = Log(hist, Rec("Get", [k |-> k], [v |-> r.v]))

\* patriciaMerkleTrie.RootHash: caches the hashes; the value is observed as the pair (is-empty, contents)
RootHash ==
    /\ root' = SetHashes(root)
    /\ UNCHANGED <<db, map, roots, parked, maxLevel>>
    /\ hist' = Log(hist, Rec("RootHash", [x |-> 0], [empty |-> HashOf(root) = Absent]))

\* patriciaMerkleTrie.GetDirtyHashes: setRootHash, then the hashes of the dirty nodes reachable through dirty
\* nodes -- exactly the set Commit is going to write
DirtyHashesOf(r, ml) == IF r = Absent THEN {} ELSE CommitN(SetHashes(r), 0, ml).w
GetDirtyHashes ==
    /\ root' = SetHashes(root)
    /\ UNCHANGED <<db, map, roots, parked, maxLevel>>
    /\ hist' = Log(hist, Rec("GetDirtyHashes", [x |-> 0], [n |-> Cardinality(DirtyHashesOf(root, maxLevel))]))

\* patriciaMerkleTrie.Commit (writes into the DB all instances share; touches no other instance)
WillCommit == root # Absent /\ root.d
CommitResult == CommitN(SetHashes(root), 0, maxLevel)
Commit ==
    /\ IF WillCommit
       THEN LET r == CommitResult IN
            /\ root' = r.n /\ db' = db \cup r.w
            /\ roots' = roots \cup {[h |-> HashOf(r.n), m |-> map]}
       ELSE UNCHANGED <<root, db, roots>>
    /\ UNCHANGED <<map, parked, maxLevel>>
    /\ hist' = Log(hist, Rec("Commit", [x |-> 0], [leaves |-> IF root' = Absent THEN {} ELSE SeqToSet(LeafPairs(HashOf(root'))),
                                                     nleaves |-> IF root' = Absent THEN 0 ELSE Len(LeafPairs(HashOf(root')))]))

\* patriciaMerkleTrie.Recreate(root hash of an earlier commit): the recreated trie replaces the current one
Recreate(r) ==
    /\ r.h \in db
    /\ root' = Decode(r.h) /\ map' = r.m
    /\ UNCHANGED <<db, roots, parked, maxLevel>>
    /\ hist' = Log(hist, Rec("Recreate", [m |-> MapPairs(r.m)], [x |-> 0]))

\* Recreate(EmptyTrieHash)
RecreateEmpty ==
    /\ root' = Absent /\ map' = EmptyMap
    /\ UNCHANGED <<db, roots, parked, maxLevel>>
    /\ hist' = Log(hist, Rec("Recreate", [m |-> {}], [x |-> 0]))

\* Recreate(r) called on the current instance, which STAYS IN USE: the new instance is an independent view of the
\* shared storage (loaded from the DB, nothing shared with the instance it was created from); later calls go to the
\* new instance until a Switch.  r may be the current instance's own committed root or an older one.
RecreateKeep(r) ==
    /\ r.h \in db /\ Len(parked) < MaxParked
    /\ parked' = Append(parked, [root |-> root, map |-> map])
    /\ root' = Decode(r.h) /\ map' = r.m
    /\ UNCHANGED <<db, roots, maxLevel>>
    /\ hist' = Log(hist, Rec("RecreateKeep", [m |-> MapPairs(r.m)], [x |-> 0]))

\* the following calls are addressed to the i-th other instance
Switch(i) ==
    /\ i \in 1..Len(parked)
    /\ root' = parked[i].root /\ map' = parked[i].map
    /\ parked' = [parked EXCEPT ![i] = [root |-> root, map |-> map]]
    /\ UNCHANGED <<db, roots, maxLevel>>
    /\ hist' = Log(hist, Rec("Switch", [i |-> i], [x |-> 0]))

MinVal == CHOOSE v \in Vals : \A w \in Vals : v <= w
ValsFor(k) == IF k \in RichKeys THEN Vals ELSE {MinVal}
CommitAllowed == IF WillCommit THEN Cardinality(roots \cup {[h |-> HashOf(CommitResult.n), m |-> map]}) <= MaxCommits ELSE TRUE

Next ==
    \/ "Update" \in Acts /\ \E k \in Keys : \E v \in ValsFor(k) \cup {0} : Update(k, v)
    \/ "Delete" \in Acts /\ \E k \in Keys : DeleteKey(k)
    \/ "Get" \in Acts /\ \E k \in Keys : Get(k)
    \/ "RootHash" \in Acts /\ RootHash
    \/ "GetDirtyHashes" \in Acts /\ GetDirtyHashes
    \/ "Commit" \in Acts /\ CommitAllowed /\ Commit
    \/ "Recreate" \in Acts /\ \E r \in roots : Recreate(r)
    \/ "RecreateKeep" \in Acts /\ \E r \in roots : RecreateKeep(r)
    \/ "RecreateEmpty" \in Acts /\ RecreateEmpty
    \/ "Switch" \in Acts /\ \E i \in 1..MaxParked : Switch(i)

Spec == Init /\ [][Next]_vars

-----------------------------------------------------------------------------
(* Structure of the in-memory trie *)
RECURSIVE WellFormed(_)
WellFormed(n) ==
    CASE n.t = "H" -> TRUE
      [] n.t = "L" -> n.v # 0
      [] n.t = "E" -> Len(n.k) >= 1 /\ n.c.t \in {"B", "H"} /\ (n.c.t = "H" => n.c.h.t = "B") /\ WellFormed(n.c)
      [] n.t = "B" -> Cardinality(DOMAIN n.ch) >= 2 /\ DOMAIN n.ch \subseteq 0..16
                      /\ \A p \in DOMAIN n.ch : WellFormed(n.ch[p])
      [] OTHER     -> FALSE

\* every in-memory node (not the collapsed references)
RECURSIVE MemNodes(_)
MemNodes(n) ==
    CASE n.t = "L" -> {n}
      [] n.t = "E" -> {n} \cup MemNodes(n.c)
      [] n.t = "B" -> {n} \cup UNION {MemNodes(n.ch[p]) : p \in DOMAIN n.ch}
      [] OTHER     -> {}
RECURSIVE MemRefs(_)
MemRefs(n) ==
    CASE n.t = "H" -> {n.h}
      [] n.t = "E" -> MemRefs(n.c)
      [] n.t = "B" -> UNION {MemRefs(n.ch[p]) : p \in DOMAIN n.ch}
      [] OTHER     -> {}
\* no dirty node below a clean one (commitDirty would never reach it)
RECURSIVE DirtyClosed(_)
DirtyClosed(n) ==
    CASE n.t = "E" -> (~n.d => (n.c.t = "H" \/ ~n.c.d)) /\ DirtyClosed(n.c)
      [] n.t = "B" -> \A p \in DOMAIN n.ch : (~n.d => (n.ch[p].t = "H" \/ ~n.ch[p].d)) /\ DirtyClosed(n.ch[p])
      [] OTHER     -> TRUE

\* every live instance: the one calls are addressed to, then the others
Insts == <<[root |-> root, map |-> map]>> \o parked
ForAllInst(P(_, _)) == \A i \in 1..Len(Insts) : P(Insts[i].root, Insts[i].map)

TypeOKOf(r, m) ==
    /\ r = Absent \/ (r.t \in {"L", "E", "B"} /\ WellFormed(r))
    /\ DOMAIN m \subseteq Keys /\ \A k \in DOMAIN m : m[k] \in Vals
TypeOK == ForAllInst(TypeOKOf) /\ maxLevel \in MaxLevels /\ Len(parked) <= MaxParked

-----------------------------------------------------------------------------
(* C01: the trie is the map -- for every live instance *)
ReadOf(r, k) == IF r = Absent THEN 0 ELSE TryGet(r, KeyBytesToHex(k)).v
GetOk(r, m) == \A k \in Keys : ReadOf(r, k) = (IF k \in DOMAIN m THEN m[k] ELSE 0)
Inv_C01_Get == ForAllInst(GetOk)
\* enumerating the leaves yields exactly the live pairs, each once, with the original keys
LeavesOk(r, m) ==
    LET ls == LeafPairs(Expand(r)) IN
    /\ \A i \in 1..Len(LeavesSeq(Expand(r), <<>>)) : HexOk(LeavesSeq(Expand(r), <<>>)[i].hex)
    /\ Len(ls) = Cardinality(DOMAIN m)
    /\ SeqToSet(ls) = MapPairs(m)
Inv_C01_Leaves == ForAllInst(LeavesOk)

(* C02: shape and hash are functions of the contents *)
ShapeOk(r, m) == Expand(r) = Canon(m)
HashOk(r, m)  == HashOf(r) = Canon(m)               \* Absent (the empty-trie hash) iff the map is empty
CacheOk(r, m) == \A n \in MemNodes(r) : n.h # NoH => n.h = Expand(n)
Inv_C02_Shape == ForAllInst(ShapeOk)
Inv_C02_Hash  == ForAllInst(HashOk)
Inv_C02_CacheFresh == ForAllInst(CacheOk)

(* C03: everything committed stays recoverable; every live instance is backed by the shared DB *)
Inv_C03_RootsInDb == \A r \in roots : r.h = Canon(r.m) /\ Nodes(r.h) \subseteq db
BackedOk(r, m) ==
    /\ \A h \in MemRefs(r) : Nodes(h) \subseteq db              \* every collapsed reference can be resolved
    /\ \A n \in MemNodes(r) : ~n.d => Nodes(Expand(n)) \subseteq db    \* clean nodes are in the DB
    /\ DirtyClosed(r)
Inv_C03_MemoryBacked == ForAllInst(BackedOk)
\* instances are independent views of the shared storage: a step addressed to one instance (anything but a Switch /
\* RecreateKeep, which only re-address) leaves what every other instance holds and reads untouched
Act_C03_Independent ==
    [][LET e == hist'[Len(hist')] IN
       e.a \notin {"Switch", "RecreateKeep"} => parked' = parked]_vars
\* a trie recreated while the original stays in use starts with exactly the committed contents and hash
Act_C03_RecreateKeep ==
    [][LET e == hist'[Len(hist')] IN
       e.a = "RecreateKeep" => /\ HashOf(root') = Canon(map') /\ Expand(root') = Canon(map')
                               /\ [h |-> HashOf(root'), m |-> map'] \in roots
                               /\ parked'[Len(parked')] = [root |-> root, map |-> map]]_vars
\* GetDirtyHashes bookkeeping: the dirty hashes are exactly the nodes of the current trie that the DB lacks
\* ... or already holds from an earlier commit of an equal subtree (re-created after a delete): superset form
DirtyOk(r, m) ==
    r # Absent => /\ Nodes(Canon(m)) \ db \subseteq DirtyHashesOf(r, maxLevel)
                  /\ DirtyHashesOf(r, maxLevel) \subseteq Nodes(Canon(m))
Inv_DirtyHashes == ForAllInst(DirtyOk)
\* a Commit makes the current contents recoverable, Recreate gives back exactly the committed contents
Act_C03_Commit   == [][(db' # db \/ roots' # roots) => (Nodes(Canon(map')) \subseteq db' /\ map' = map)]_cvars
Act_C03_Recreate ==
    [][LET e == hist'[Len(hist')] IN
       e.a = "Recreate" => /\ HashOf(root') = Canon(map') /\ Expand(root') = Canon(map')
                           /\ (map' # EmptyMap => [h |-> HashOf(root'), m |-> map'] \in roots)]_vars
=============================================================================
