----------------------------- MODULE TrieProof -----------------------------
(***************************************************************************)
(* Merkle proofs of the state trie (property C04).                         *)
(*                                                                         *)
(*   GetProof(key)          patriciaMerkleTrie.GetProof: the encoded nodes *)
(*                          on the path of `key`, walking with getNext of  *)
(*                          each node type; an error when the key is absent*)
(*   VerifyProof(key, pf)   patriciaMerkleTrie.VerifyProof: walks the proof*)
(*                          with getNextHashAndKey of each node type,      *)
(*                          checking hash(node) = wanted hash at each step *)
(*                                                                         *)
(* A node's encoding and its hash are both modelled by the canonical       *)
(* subtree (injective hash, see Trie.tla), so "hash(encodedNode) = want"   *)
(* is equality of canonical nodes, and the only byte strings that can get  *)
(* past the hash check are encodings of real nodes of the trie.  The state *)
(* space is therefore: every trie over PKeys x every probe key x every     *)
(* node sequence spliced from the proofs of the stored keys (full proofs,  *)
(* proofs of other keys, truncated / extended / shifted / mixed proofs).   *)
(*                                                                         *)
(* KnownDefects names deviations of the code from the intended design:     *)
(*   "ExtNoPrefixCheck"  extensionNode.getNextHashAndKey skips len(en.Key) *)
(*                       nibbles of the key without comparing them with    *)
(*                       en.Key (and slices out of range when the key is   *)
(*                       shorter)                                          *)
(***************************************************************************)
EXTENDS TrieNodes

CONSTANTS PKeys,         \* keys that may be stored (byte strings)
          Probes,        \* keys whose membership is verified (stored and never-stored ones)
          KnownDefects   \* subset of {"ExtNoPrefixCheck"}: how the code under test behaves

VARIABLES phase,    \* "trie": a trie has been chosen;  "case": a (key, proof) pair has been chosen for it
          map,      \* contents of the trie (all values 1: values play no role in the walk)
          rootc,    \* its canonical root = its root hash          (function of map, kept to evaluate it once)
          proofs,   \* GetProof of every stored key                (function of map, kept to evaluate it once)
          key, pf,  \* the probe key and the candidate proof (sequence of nodes)
          hist
vars == <<phase, map, rootc, proofs, key, pf, hist>>

Hex(k) == KeyBytesToHex(k)
MapOn(S) == [k \in S |-> 1]

(* GetProof: [ok |-> the key was found, p |-> nodes appended to the proof] *)
RECURSIVE Path(_, _)
Path(c, hk) ==
    CASE c.t = "L" -> [ok |-> hk = c.k, p |-> <<c>>]                        \* leafNode.getNext: ErrNodeNotFound unless equal
      [] c.t = "E" -> IF Len(hk) < Len(c.k) \/ Take(hk, Len(c.k)) # c.k     \* extensionNode.getNext
                      THEN [ok |-> FALSE, p |-> <<c>>]
                      ELSE LET r == Path(c.c, Drop(hk, Len(c.k))) IN [ok |-> r.ok, p |-> <<c>> \o r.p]
      [] c.t = "B" -> IF hk = <<>> \/ hk[1] \notin DOMAIN c.ch               \* branchNode.getNext
                      THEN [ok |-> FALSE, p |-> <<c>>]
                      ELSE LET r == Path(c.ch[hk[1]], Tail(hk)) IN [ok |-> r.ok, p |-> <<c>> \o r.p]
      [] OTHER     -> [ok |-> FALSE, p |-> <<>>]                             \* empty trie: ErrNilNode

GetProofOn(c, k) == Path(c, Hex(k))

(* getNextHashAndKey of the three node types: [res, want, key]; res = "next" continues the walk *)
Cont(want, k) == [res |-> "next", want |-> want, key |-> k]
NextHashAndKey(n, hk, D) ==
    CASE n.t = "L" -> IF hk = n.k THEN [res |-> "true"] ELSE Cont(NoH, <<>>)
      [] n.t = "B" -> IF hk = <<>> THEN Cont(NoH, <<>>)
                      ELSE Cont(IF hk[1] \in DOMAIN n.ch THEN n.ch[hk[1]] ELSE NoH, Tail(hk))
      [] n.t = "E" -> IF hk = <<>> THEN Cont(NoH, <<>>)
                      ELSE IF "ExtNoPrefixCheck" \in D
                           THEN IF Len(hk) < Len(n.k) THEN [res |-> "panic"]             \* key[len(en.Key):] out of range
                                ELSE Cont(n.c, Drop(hk, Len(n.k)))                        \* prefix not compared
                           ELSE IF Len(hk) < Len(n.k) \/ Take(hk, Len(n.k)) # n.k THEN Cont(NoH, <<>>)
                                ELSE Cont(n.c, Drop(hk, Len(n.k)))

RECURSIVE VerifyFrom(_, _, _, _)
VerifyFrom(want, hk, p, D) ==
    IF p = <<>> THEN "false"
    ELSE IF Head(p) # want THEN "false"                                       \* hash(encodedNode) # wantHash
    ELSE LET r == NextHashAndKey(Head(p), hk, D) IN
         IF r.res # "next" THEN r.res ELSE VerifyFrom(r.want, r.key, Tail(p), D)

\* VerifyProof on a trie with root hash c: "true" | "false" | "panic"
VerifyOn(c, k, p, D) == VerifyFrom(c, Hex(k), p, D)

-----------------------------------------------------------------------------
(* candidate proofs: every splice  prefix(proof of a) ++ suffix(proof of b) *)
MaxLen(P) == IF DOMAIN P = {} THEN 0 ELSE CHOOSE n \in {Len(P[k]) : k \in DOMAIN P} : \A k \in DOMAIN P : Len(P[k]) <= n
Cands(P) ==
    LET L == MaxLen(P)
        T == {t \in (DOMAIN P) \X (DOMAIN P) \X (0..L) \X (0..L) : t[3] <= Len(P[t[1]]) /\ t[4] <= Len(P[t[2]])}
    IN  {<<>>} \cup {Take(P[t[1]], t[3]) \o Drop(P[t[2]], t[4]) : t \in T}

\* a node of the trie is exported as a reference "node i of the proof of stored key s"
RefSeq(P, p) ==
    LET R == {x \in {[s |-> k, i |-> i] : k \in DOMAIN P, i \in 1..MaxLen(P)} : x.i <= Len(P[x.s])}
    IN  [j \in 1..Len(p) |-> CHOOSE r \in R : P[r.s][r.i] = p[j]]

Present(k) == k \in DOMAIN map
OwnPath(k) == GetProofOn(rootc, k)

CaseRecs(k, p) ==
    LET own == OwnPath(k)
        ver == [a |-> "Verify",
                in |-> [m |-> MapPairs(map), k |-> k, pf |-> RefSeq(proofs, p)],
                out |-> [present |-> Present(k), ideal |-> VerifyOn(rootc, k, p, {}),
                         code |-> VerifyOn(rootc, k, p, KnownDefects), own |-> own.ok /\ p = own.p,
                         \* which named deviation makes the code differ from the intended design on this case
                         dev |-> IF VerifyOn(rootc, k, p, KnownDefects) # VerifyOn(rootc, k, p, {})
                                 THEN CHOOSE d \in KnownDefects : TRUE ELSE ""],
                st |-> [x |-> 0]]
        gp  == [a |-> "GetProof", in |-> [m |-> MapPairs(map), k |-> k],
                out |-> [ok |-> own.ok, len |-> IF own.ok THEN Len(own.p) ELSE 0], st |-> [x |-> 0]]
    IN  IF p = <<>> THEN <<gp, ver>> ELSE <<ver>>

Init ==
    /\ phase = "trie"
    /\ map \in {MapOn(S) : S \in SUBSET PKeys}
    /\ rootc = Canon(map)
    /\ proofs = [k \in DOMAIN map |-> Path(rootc, Hex(k)).p]
    /\ key = <<>> /\ pf = <<>> /\ hist = <<>>

Pick(k, p) ==
    /\ phase = "trie" /\ phase' = "case"
    /\ key' = k /\ pf' = p
    /\ hist' = CaseRecs(k, p)
    /\ UNCHANGED <<map, rootc, proofs>>

Next == phase = "trie" /\ \E p \in Cands(proofs) : \E k \in Probes : Pick(k, p)
Spec == Init /\ [][Next]_vars

-----------------------------------------------------------------------------
(* C04 (evaluated on the "case" states; `Code` is how the code under test behaves) *)
IsCase == phase = "case"
Code   == VerifyOn(rootc, key, pf, KnownDefects)
Ideal  == VerifyOn(rootc, key, pf, {})
\* GetProof succeeds exactly for the stored keys, and its result verifies
Inv_C04_Complete ==
    IsCase => LET own == OwnPath(key) IN
              /\ own.ok = Present(key)
              /\ Present(key) => (own.p = proofs[key] /\ VerifyOn(rootc, key, own.p, KnownDefects) = "true")
\* a proof verifies for a key only if the key is stored
Inv_C04_Sound    == IsCase => (Code = "true" => Present(key))
\* verification never crashes
Inv_C04_NoPanic  == IsCase => Code # "panic"
\* characterisation (intended design): accepted iff the proof starts with the key's own path
Inv_C04_Exact ==
    IsCase => LET own == OwnPath(key) IN
              Ideal = IF own.ok /\ Len(pf) >= Len(own.p) /\ Take(pf, Len(own.p)) = own.p THEN "true" ELSE "false"
\* the same three for the intended design, whatever KnownDefects says (lets one run check the design and
\* export the cases with the code-as-is verdicts)
Inv_C04_Design ==
    IsCase => /\ Ideal # "panic"
              /\ (Ideal = "true" => Present(key))
              /\ (Present(key) => VerifyOn(rootc, key, OwnPath(key).p, {}) = "true")
\* the stored structures are what they are said to be
Inv_Cache == rootc = Canon(map) /\ proofs = [k \in DOMAIN map |-> Path(rootc, Hex(k)).p]
=============================================================================
