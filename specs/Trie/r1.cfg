SPECIFICATION Spec
CONSTANTS
  Keys <- K4
  Vals = {1}
  MaxLevels = {1, 2, 5}
  RichKeys <- RichAll
  Acts <- AllActs
  MaxParked = 1
  MaxCommits = 2
  Log <- LogLast
  Depth = 0
VIEW cvars
INVARIANTS TypeOK Inv_C01_Get Inv_C01_Leaves Inv_C02_Shape Inv_C02_Hash Inv_C02_CacheFresh Inv_C03_RootsInDb Inv_C03_MemoryBacked
PROPERTIES Act_C03_Commit Act_C03_Recreate
CHECK_DEADLOCK FALSE
