----------------------------- MODULE TrieNodes -----------------------------
(***************************************************************************)
(* Pure (constant-level) operators of the node-level model of data/trie:   *)
(* key encoding, node forms, and one operator per node method (insert,     *)
(* delete, reduceNode, tryGet, setHash, commitDirty, leaf enumeration),    *)
(* plus the canonical Patricia shape of a map.  Shared by Trie.tla (the    *)
(* state machine, C01-C03) and TrieProof.tla (Merkle proofs, C04).         *)
(* See Trie.tla for the conventions.                                       *)
(***************************************************************************)
EXTENDS Integers, Sequences, FiniteSets, TLC

-----------------------------------------------------------------------------
(* Sequences *)
Take(s, n) == SubSeq(s, 1, n)
Drop(s, n) == SubSeq(s, n + 1, Len(s))
Min(a, b) == IF a < b THEN a ELSE b
Restrict(f, S) == [x \in S |-> f[x]]

\* node.go prefixLen
PrefixLen(a, b) ==
    LET n == Min(Len(a), Len(b))
        D == {i \in 1..n : a[i] # b[i]}
    IN  IF D = {} THEN n ELSE (CHOOSE i \in D : \A j \in D : i <= j) - 1

(* node.go keyBytesToHex: reversed nibbles (low nibble of the LAST byte first) + terminator 16 *)
Terminator == 16
KeyBytesToHex(bs) ==
    LET n == Len(bs) IN
    [p \in 1..(2 * n + 1) |->
        IF p = 2 * n + 1 THEN Terminator
        ELSE LET b == bs[n - ((p - 1) \div 2)] IN IF p % 2 = 1 THEN b % 16 ELSE b \div 16]

(* node.go hexToKeyBytes: drop the terminator, needs an even number of nibbles *)
HexOk(hex) == Len(hex) >= 1 /\ (Len(hex) - 1) % 2 = 0
HexToKeyBytes(hex) ==
    LET n == (Len(hex) - 1) \div 2 IN
    [i \in 1..n |-> hex[2 * (n - i) + 2] * 16 + hex[2 * (n - i) + 1]]

-----------------------------------------------------------------------------
(* Nodes *)
NoH    == [t |-> "none"]
Absent == [t |-> "nil"]

\* canonical nodes = hashes = encodings
CLeaf(k, v)  == [t |-> "L", k |-> k, v |-> v]
CExt(k, c)   == [t |-> "E", k |-> k, c |-> c]
CBranch(ch)  == [t |-> "B", ch |-> ch]

\* in-memory nodes
MLeaf(k, v, d, h)  == [t |-> "L", k |-> k, v |-> v, d |-> d, h |-> h]
MExt(k, c, d, h)   == [t |-> "E", k |-> k, c |-> c, d |-> d, h |-> h]
MBranch(ch, d, h)  == [t |-> "B", ch |-> ch, d |-> d, h |-> h]
Ref(h)             == [t |-> "H", h |-> h]            \* collapsed child

\* newLeafNode / newExtensionNode / newBranchNode: dirty, no hash
NewLeaf(k, v)  == MLeaf(k, v, TRUE, NoH)
NewExt(k, c)   == MExt(k, c, TRUE, NoH)
NewBranch(ch)  == MBranch(ch, TRUE, NoH)

\* getNodeFromDBAndDecode + setGivenHash: one level, children collapsed, clean
Decode(h) ==
    CASE h.t = "L" -> MLeaf(h.k, h.v, FALSE, h)
      [] h.t = "E" -> MExt(h.k, Ref(h.c), FALSE, h)
      [] h.t = "B" -> MBranch([p \in DOMAIN h.ch |-> Ref(h.ch[p])], FALSE, h)

\* resolveIfCollapsed on a child slot
Res(n) == IF n.t = "H" THEN Decode(n.h) ELSE n

\* content of an in-memory subtree, ignoring all bookkeeping (what the subtree *is*)
RECURSIVE Expand(_)
Expand(n) ==
    CASE n.t = "H" -> n.h
      [] n.t = "L" -> CLeaf(n.k, n.v)
      [] n.t = "E" -> CExt(n.k, Expand(n.c))
      [] n.t = "B" -> CBranch([p \in DOMAIN n.ch |-> Expand(n.ch[p])])
      [] OTHER     -> n                                   \* Absent

\* the hash the implementation would report: cached hashes are trusted (setHash returns early)
RECURSIVE HashOf(_)
HashOf(n) ==
    IF n.t = "H" THEN n.h
    ELSE IF n.t = "nil" THEN n
    ELSE IF n.h # NoH THEN n.h
    ELSE CASE n.t = "L" -> CLeaf(n.k, n.v)
           [] n.t = "E" -> CExt(n.k, HashOf(n.c))
           [] n.t = "B" -> CBranch([p \in DOMAIN n.ch |-> HashOf(n.ch[p])])

\* setHash / setRootHash: computes and caches the hash of every node that has none; does not
\* descend below a node whose hash is cached
RECURSIVE SetHashes(_)
SetHashes(n) ==
    IF n.t \in {"H", "nil"} THEN n
    ELSE IF n.h # NoH THEN n
    ELSE CASE n.t = "L" -> [n EXCEPT !.h = CLeaf(n.k, n.v)]
           [] n.t = "E" -> LET c == SetHashes(n.c) IN [n EXCEPT !.c = c, !.h = CExt(n.k, HashOf(c))]
           [] n.t = "B" -> LET ch == [p \in DOMAIN n.ch |-> SetHashes(n.ch[p])]
                           IN  [n EXCEPT !.ch = ch, !.h = CBranch([p \in DOMAIN ch |-> HashOf(ch[p])])]

-----------------------------------------------------------------------------
(* insert: returns [n |-> node after the call, chg |-> whether anything was modified].         *)
(* When nothing is modified (same value) the code returns a nil node and the caller keeps the  *)
(* old one -- but collapsed children on the path have been resolved in place, so the node      *)
(* returned here carries those resolutions.                                                     *)
RECURSIVE Insert(_, _, _)
Insert(n, key, v) ==
    CASE n.t = "L" ->
           IF key = n.k
           THEN IF v = n.v THEN [n |-> n, chg |-> FALSE]                                   \* insertInSameLn
                ELSE [n |-> [n EXCEPT !.v = v, !.d = TRUE, !.h = NoH], chg |-> TRUE]
           ELSE LET m  == PrefixLen(key, n.k)                                             \* insertInNewBn
                    bn == NewBranch((n.k[m + 1] :> NewLeaf(Drop(n.k, m + 1), n.v))
                                    @@ (key[m + 1] :> NewLeaf(Drop(key, m + 1), v)))
                IN  [n |-> IF m = 0 THEN bn ELSE NewExt(Take(n.k, m), bn), chg |-> TRUE]
      [] n.t = "B" ->
           LET p == key[1] IN
           IF p \notin DOMAIN n.ch
           THEN [n |-> [n EXCEPT !.ch = (p :> NewLeaf(Tail(key), v)) @@ n.ch, !.d = TRUE, !.h = NoH],
                 chg |-> TRUE]                                                             \* insertOnNilChild
           ELSE LET c == Res(n.ch[p])
                    r == Insert(c, Tail(key), v)
                IN  IF r.chg
                    THEN [n |-> [n EXCEPT !.ch[p] = r.n, !.d = TRUE, !.h = NoH], chg |-> TRUE]
                    ELSE [n |-> [n EXCEPT !.ch[p] = r.n], chg |-> FALSE]
      [] n.t = "E" ->
           LET c == Res(n.c)
               m == PrefixLen(key, n.k)
           IN  IF m = Len(n.k)
               THEN LET r == Insert(c, Drop(key, m), v)                                    \* insertInSameEn
                    IN  IF r.chg THEN [n |-> NewExt(n.k, r.n), chg |-> TRUE]
                        ELSE [n |-> [n EXCEPT !.c = r.n], chg |-> FALSE]
               ELSE LET foll == Drop(n.k, m + 1)                                           \* insertInNewBn
                        old  == IF foll = <<>> THEN c ELSE NewExt(foll, c)
                        bn   == NewBranch((n.k[m + 1] :> old) @@ (key[m + 1] :> NewLeaf(Drop(key, m + 1), v)))
                    IN  [n |-> IF m = 0 THEN bn ELSE NewExt(Take(n.k, m), bn), chg |-> TRUE]

(* reduceNode(pos) of the only remaining child of a branch *)
Reduce(c, q) ==
    CASE c.t = "L" -> NewLeaf(<<q>> \o c.k, c.v)
      [] c.t = "E" -> NewExt(<<q>> \o c.k, c.c)
      [] c.t = "B" -> NewExt(<<q>>, c)

\* branchNode.delete: `resolveIfCollapsed(bn.children[pos], byte(pos), db)` -- resolves the child of a
\* remaining extension (needed by reduceNode) and, as a side effect, slot `pos` of a remaining branch
ResolveInner(c, q) ==
    CASE c.t = "E" -> [c EXCEPT !.c = Res(c.c)]
      [] c.t = "B" -> IF q \in DOMAIN c.ch THEN [c EXCEPT !.ch[q] = Res(c.ch[q])] ELSE c
      [] OTHER     -> c

(* delete: returns [n |-> node after the call or Absent, chg |-> whether the key was removed] *)
RECURSIVE Delete(_, _)
Delete(n, key) ==
    CASE n.t = "L" -> IF key = n.k THEN [n |-> Absent, chg |-> TRUE] ELSE [n |-> n, chg |-> FALSE]
      [] n.t = "B" ->
           LET p == key[1] IN
           IF p \notin DOMAIN n.ch THEN [n |-> n, chg |-> FALSE]
           ELSE LET c == Res(n.ch[p])
                    r == Delete(c, Tail(key))
                IN  IF ~r.chg THEN [n |-> [n EXCEPT !.ch[p] = r.n], chg |-> FALSE]
                    ELSE LET ch1 == IF r.n = Absent THEN Restrict(n.ch, DOMAIN n.ch \ {p})
                                    ELSE [n.ch EXCEPT ![p] = r.n]
                         IN  IF Cardinality(DOMAIN ch1) = 1
                             THEN LET q  == CHOOSE x \in DOMAIN ch1 : TRUE
                                      c1 == ResolveInner(Res(ch1[q]), q)
                                  IN  [n |-> Reduce(c1, q), chg |-> TRUE]
                             ELSE [n |-> [n EXCEPT !.ch = ch1, !.d = TRUE, !.h = NoH], chg |-> TRUE]
      [] n.t = "E" ->
           IF PrefixLen(key, n.k) < Len(n.k) THEN [n |-> n, chg |-> FALSE]
           ELSE LET c == Res(n.c)
                    r == Delete(c, Drop(key, Len(n.k)))
                IN  IF ~r.chg THEN [n |-> [n EXCEPT !.c = r.n], chg |-> FALSE]
                    ELSE [n |-> CASE r.n.t = "L" -> NewLeaf(n.k \o r.n.k, r.n.v)
                                  [] r.n.t = "E" -> NewExt(n.k \o r.n.k, r.n.c)
                                  [] OTHER       -> NewExt(n.k, r.n),
                          chg |-> TRUE]

(* tryGet: returns [n |-> node after the call (collapsed nodes on the path resolved), v |-> value or 0] *)
RECURSIVE TryGet(_, _)
TryGet(n, key) ==
    CASE n.t = "L" -> [n |-> n, v |-> IF key = n.k THEN n.v ELSE 0]
      [] n.t = "B" ->
           IF key = <<>> \/ key[1] \notin DOMAIN n.ch THEN [n |-> n, v |-> 0]
           ELSE LET p == key[1]
                    r == TryGet(Res(n.ch[p]), Tail(key))
                IN  [n |-> [n EXCEPT !.ch[p] = r.n], v |-> r.v]
      [] n.t = "E" ->
           IF Len(key) < Len(n.k) \/ Take(key, Len(n.k)) # n.k THEN [n |-> n, v |-> 0]
           ELSE LET r == TryGet(Res(n.c), Drop(key, Len(n.k)))
                IN  [n |-> [n EXCEPT !.c = r.n], v |-> r.v]

(* commitDirty(level, maxTrieLevelInMemory): returns [n |-> node after, w |-> hashes written].     *)
(* Only dirty nodes are visited (a clean node returns immediately); a branch/extension whose level *)
(* equals maxLevel is replaced by its collapsed form (children kept as hashes only).               *)
RECURSIVE CommitN(_, _, _)
CommitN(n, level, max) ==
    IF n.t = "H" THEN [n |-> n, w |-> {}]
    ELSE IF ~n.d THEN [n |-> n, w |-> {}]
    ELSE CASE n.t = "L" -> [n |-> [n EXCEPT !.d = FALSE, !.h = HashOf(n)], w |-> {HashOf(n)}]
           [] n.t = "E" ->
                LET r  == CommitN(n.c, level + 1, max)
                    n0 == [n EXCEPT !.c = r.n]
                    n1 == [n0 EXCEPT !.d = FALSE, !.h = HashOf(n0)]
                IN  [n |-> IF level + 1 = max THEN [n1 EXCEPT !.c = Ref(HashOf(r.n))] ELSE n1,
                     w |-> r.w \cup {n1.h}]
           [] n.t = "B" ->
                LET rs == [p \in DOMAIN n.ch |-> CommitN(n.ch[p], level + 1, max)]
                    n0 == [n EXCEPT !.ch = [p \in DOMAIN n.ch |-> rs[p].n]]
                    n1 == [n0 EXCEPT !.d = FALSE, !.h = HashOf(n0)]
                IN  [n |-> IF level + 1 = max
                           THEN [n1 EXCEPT !.ch = [p \in DOMAIN n.ch |-> Ref(HashOf(rs[p].n))]]
                           ELSE n1,
                     w |-> UNION {rs[p].w : p \in DOMAIN n.ch} \cup {n1.h}]

-----------------------------------------------------------------------------
(* Canonical nodes: enumeration of leaves (getAllLeavesOnChannel: DFS in slot order, keys rebuilt *)
(* from the path with hexToKeyBytes), node closure, and the canonical shape of a map.             *)
RECURSIVE LeavesSeq(_, _), BranchLeaves(_, _, _)
LeavesSeq(c, path) ==
    CASE c.t = "L" -> <<[hex |-> path \o c.k, v |-> c.v]>>
      [] c.t = "E" -> LeavesSeq(c.c, path \o c.k)
      [] c.t = "B" -> BranchLeaves(c, path, 0)
      [] OTHER     -> <<>>
BranchLeaves(c, path, p) ==
    IF p > 16 THEN <<>>
    ELSE (IF p \in DOMAIN c.ch THEN LeavesSeq(c.ch[p], Append(path, p)) ELSE <<>>) \o BranchLeaves(c, path, p + 1)

\* the leaves as the API reports them: <<key bytes, value>> in DFS order
LeafPairs(c) ==
    LET ls == LeavesSeq(c, <<>>)
    IN  [i \in 1..Len(ls) |-> <<HexToKeyBytes(ls[i].hex), ls[i].v>>]

RECURSIVE Nodes(_)
Nodes(c) ==
    CASE c.t = "L" -> {c}
      [] c.t = "E" -> {c} \cup Nodes(c.c)
      [] c.t = "B" -> {c} \cup UNION {Nodes(c.ch[p]) : p \in DOMAIN c.ch}
      [] OTHER     -> {}

\* number of nodes of a canonical trie (with multiplicity: equal subtrees at different places count each time)
RECURSIVE NodeCount(_), SumOver(_, _)
NodeCount(c) ==
    CASE c.t = "L" -> 1
      [] c.t = "E" -> 1 + NodeCount(c.c)
      [] c.t = "B" -> 1 + SumOver(DOMAIN c.ch, c)
      [] OTHER     -> 0
SumOver(S, c) == IF S = {} THEN 0 ELSE LET p == CHOOSE x \in S : TRUE IN NodeCount(c.ch[p]) + SumOver(S \ {p}, c)

\* the unique Patricia shape of a non-empty set S of <<hex key, value>> pairs (no key a prefix of another)
CommonPrefix(S) ==
    LET e == CHOOSE x \in S : TRUE
        L == {m \in 0..Len(e[1]) : \A x \in S : Len(x[1]) >= m /\ Take(x[1], m) = Take(e[1], m)}
    IN  CHOOSE m \in L : \A j \in L : j <= m
RECURSIVE CanonOf(_)
CanonOf(S) ==
    IF Cardinality(S) = 1 THEN LET e == CHOOSE x \in S : TRUE IN CLeaf(e[1], e[2])
    ELSE LET cp == CommonPrefix(S) IN
         IF cp > 0
         THEN LET e == CHOOSE x \in S : TRUE
              IN  CExt(Take(e[1], cp), CanonOf({<<Drop(x[1], cp), x[2]>> : x \in S}))
         ELSE CBranch([p \in {x[1][1] : x \in S} |->
                          CanonOf({<<Tail(x[1]), x[2]>> : x \in {y \in S : y[1][1] = p}})])
Canon(m) == IF DOMAIN m = {} THEN Absent ELSE CanonOf({<<KeyBytesToHex(k), m[k]>> : k \in DOMAIN m})

MapPairs(m) == {<<k, m[k]>> : k \in DOMAIN m}
SeqToSet(s) == {s[i] : i \in 1..Len(s)}

=============================================================================
