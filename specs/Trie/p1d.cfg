SPECIFICATION Spec
CONSTANTS
  PKeys <- P4
  Probes <- Probes4
  KnownDefects = {"ExtNoPrefixCheck"}
INVARIANTS Inv_C04_Complete Inv_C04_Sound Inv_C04_NoPanic
CHECK_DEADLOCK FALSE
