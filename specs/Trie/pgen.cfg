SPECIFICATION Spec
CONSTANTS
  PKeys <- P4
  Probes <- Probes4
  KnownDefects = {"ExtNoPrefixCheck"}
ACTION_CONSTRAINT Emit
CHECK_DEADLOCK FALSE
