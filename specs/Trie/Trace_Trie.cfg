SPECIFICATION TraceSpec
CONSTANTS
  Keys <- TraceKeys
  Vals <- TraceVals
  MaxLevels = {1, 2, 3, 5, 8}
  RichKeys <- TraceKeys
  Acts = {}
  MaxParked = 3
  MaxCommits = 0
  Log <- LogLast
CONSTRAINT HighWater
INVARIANTS TypeOK Inv_C01_Get Inv_C01_Leaves Inv_C02_Shape Inv_C02_Hash Inv_C02_CacheFresh Inv_C02_Partition Inv_C03_RootsInDb Inv_C03_MemoryBacked
POSTCONDITION Accepted
CHECK_DEADLOCK FALSE
