SPECIFICATION Spec
CONSTANTS
  PKeys <- P4
  Probes <- Probes4
  KnownDefects = {}
INVARIANTS Inv_C04_Complete Inv_C04_Sound Inv_C04_NoPanic Inv_C04_Exact
CHECK_DEADLOCK FALSE
