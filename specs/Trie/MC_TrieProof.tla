---- MODULE MC_TrieProof ----
EXTENDS TrieProof, Json
\* stored-key universes (reversed-nibble hex keys in comments)
\*   <<34>>      [2,2,16]        0x22
\*   <<17,34>>   [2,2,1,1,16]    0x1122
\*   <<51,34>>   [2,2,3,3,16]    0x3322   with 0x1122: extension [2,2] above a branch
\*   <<17,50>>   [2,3,1,1,16]    0x1132   with 0x1122: extension [2]
\*   <<19,34>>   [2,2,3,1,16]    0x1322   with 0x1122: extension [2,2] + branch + extension
\*   <<>>        [16]            the empty key
P3 == {<<17, 34>>, <<51, 34>>, <<17, 50>>}
P4 == {<<34>>, <<17, 34>>, <<51, 34>>, <<17, 50>>}
P5 == {<<34>>, <<17, 34>>, <<51, 34>>, <<17, 50>>, <<19, 34>>}
P6 == {<<>>, <<34>>, <<17, 34>>, <<51, 34>>, <<17, 50>>, <<19, 34>>}
\* never-stored probe keys: same length as stored ones but differing only in nibbles an extension skips
\* (0x1155 [5,5,1,1,16], 0x1125 [5,2,1,1,16], 0x1152 [2,5,1,1,16]), shorter (empty, 0x11 [1,1,16], 0x02 [2,0,16]),
\* longer (0x111122 [2,2,1,1,1,1,16], 0x221122)
Extra == {<<>>, <<17>>, <<2>>, <<17, 85>>, <<17, 37>>, <<17, 82>>, <<17, 17, 34>>, <<34, 17, 34>>}
Probes3 == P3 \cup Extra
Probes4 == P4 \cup Extra
Probes5 == P5 \cup Extra
Probes6 == P6 \cup Extra
Emit == PrintT("@@B " \o ToJson(hist'))
====
