#!/bin/sh
# dev helper: run.sh <cfg> [module] [extra tlc args]   (scratch copy, timeout)
cfg=$1; mod=${2:-MC_Trie}; shift; [ $# -gt 0 ] && shift
d=$(mktemp -d) && cp /verif/specs/Trie/* $d && cd $d && timeout ${TMO:-600} java -Xmx6g -Xss64m -XX:+UseParallelGC -cp /opt/veriftools/tla/tla2tools.jar:/opt/veriftools/tla/CommunityModules-deps.jar tlc2.TLC -workers ${VERIF_WORKERS:-4} -metadir ./meta -noGenerateSpecTE -config $cfg "$@" $mod.tla 2>&1 | grep -v ^WARNING | tail -${TAILN:-40}
rm -rf $d
