#!/bin/sh
# dev helper (not used by vcheck): run.sh <cfg> [module] [extra tlc args]
#   scratch copy of this directory, TLC under a timeout, scratch removed afterwards.
#   TRACE=<file>  is copied in as trace.ndjson;  KEEP=<file> receives the raw "@@B" lines as ndjson
cfg=$1; mod=${2:-MC_Trie}; shift; [ $# -gt 0 ] && shift
d=$(mktemp -d /tmp/trie-run.XXXXXX) || exit 2
cp /verif/specs/Trie/*.tla /verif/specs/Trie/*.cfg "$d"/
[ -n "$TRACE" ] && cp "$TRACE" "$d/trace.ndjson"
cd "$d" && timeout ${TMO:-600} java -Xmx6g -Xss64m -XX:+UseParallelGC -cp /opt/veriftools/tla/tla2tools.jar:/opt/veriftools/tla/CommunityModules-deps.jar tlc2.TLC -workers ${VERIF_WORKERS:-4} -metadir ./meta -noGenerateSpecTE -config $cfg "$@" $mod.tla > out.txt 2>&1
if [ -n "$KEEP" ]; then
  python3 -c '
import json,sys
o=open(sys.argv[2],"w")
for line in open(sys.argv[1]):
    if line.startswith("\"@@B"):
        o.write(json.loads(line)[4:]+"\n")
' out.txt "$KEEP"
fi
grep -v '^WARNING\|^Parsing\|^Semantic\|^Linting\|^"@@B' out.txt | tail -${TAILN:-40}
cd / && rm -rf "$d"
