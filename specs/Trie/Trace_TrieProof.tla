---- MODULE Trace_TrieProof ----
(* Validation of verdicts logged from the real GetProof / VerifyProof on random larger tries.            *)
(* A "Trie" line gives the contents; the specification rebuilds the canonical trie and the proofs of all  *)
(* stored keys.  A "Verify" line gives a probe key and a node sequence (references into those proofs)     *)
(* with the verdicts of the real code on the in-memory and on the recreated trie; a "GetProof" line gives *)
(* the result of the real GetProof and the verdict of verifying what it returned.                         *)
(* The C04 predicates are evaluated on every observed line (the Inv_C04_Obs invariants); a line is *accepted* when the *)
(* real verdict equals the specification's verdict for the intended design or for the code as it is.      *)
EXTENDS TrieProof, Json, TLCExt
TLog == ndJsonDeserialize("trace.ndjson")
VARIABLES l, obs
tvars == <<vars, l, obs>>
Ev == TLog[l]
IsEvent(name) == l <= Len(TLog) /\ Ev.a = name /\ l' = l + 1
AllDefects == {"ExtNoPrefixCheck"}
EmptyF == [x \in {} |-> 0]

MapFrom(ps) == LET S == SeqToSet(ps) IN [k \in {p[1] : p \in S} |-> (CHOOSE p \in S : p[1] = k)[2]]

TraceInit ==
    /\ l = 1 /\ phase = "trie" /\ map = EmptyF /\ rootc = Absent /\ proofs = EmptyF
    /\ key = <<>> /\ pf = <<>> /\ hist = <<>> /\ obs = [a |-> "none"]
TTrie ==
    /\ IsEvent("Trie")
    /\ map' = MapFrom(Ev.in.m)
    /\ rootc' = Canon(map')
    /\ proofs' = [k \in DOMAIN map' |-> Path(rootc', Hex(k)).p]
    /\ phase' = "trie" /\ key' = <<>> /\ pf' = <<>> /\ hist' = <<>> /\ obs' = [a |-> "Trie"]
Verdicts(k, p) == {VerifyOn(rootc, k, p, {}), VerifyOn(rootc, k, p, AllDefects)}
TVerifyObs ==
    /\ IsEvent("Verify")
    /\ phase' = "case" /\ key' = Ev.in.k
    /\ pf' = [i \in 1..Len(Ev.in.pf) |-> proofs[Ev.in.pf[i].s][Ev.in.pf[i].i]]
    /\ obs' = [a |-> "Verify", mem |-> Ev.out.mem, re |-> Ev.out.re]
    /\ hist' = <<>> /\ UNCHANGED <<map, rootc, proofs>>
TVerify == TVerifyObs /\ Ev.out.mem \in Verdicts(key', pf') /\ Ev.out.re \in Verdicts(key', pf')
TGetProofObs ==
    /\ IsEvent("GetProof")
    /\ phase' = "case" /\ key' = Ev.in.k
    /\ pf' = IF OwnPath(key').ok THEN OwnPath(key').p ELSE <<>>
    /\ obs' = [a |-> "GetProof", ok |-> Ev.out.ok, verdict |-> Ev.out.verdict]
    /\ hist' = <<>> /\ UNCHANGED <<map, rootc, proofs>>
TGetProof == TGetProofObs /\ Ev.out.ok = OwnPath(key').ok /\ (Ev.out.ok => Ev.out.len = Len(OwnPath(key').p))
TraceNext == TTrie \/ TVerify \/ TGetProof
TraceSpec == TraceInit /\ [][TraceNext]_tvars
\* observation only: every line is consumed, nothing is predicted; the C04 predicates are still evaluated
TraceNextObs == TTrie \/ TVerifyObs \/ TGetProofObs
TraceSpecObs == TraceInit /\ [][TraceNextObs]_tvars

(* C04 on what the real code answered *)
IsOwn == Present(key) /\ pf = OwnPath(key).p
Inv_C04_Obs_Sound ==
    /\ obs.a = "Verify" => ((obs.mem = "true" \/ obs.re = "true") => Present(key))
    /\ obs.a = "GetProof" => (obs.verdict = "true" => Present(key))
Inv_C04_Obs_NoPanic ==
    /\ obs.a = "Verify" => (obs.mem # "panic" /\ obs.re # "panic")
    /\ obs.a = "GetProof" => obs.verdict # "panic"
Inv_C04_Obs_Complete ==
    /\ obs.a = "GetProof" => (Present(key) => (obs.ok /\ obs.verdict = "true"))
    /\ obs.a = "Verify" => (IsOwn => (obs.mem = "true" /\ obs.re = "true"))

HighWater == TLCSet(1, IF l > TLCGet(1) THEN l ELSE TLCGet(1))
Accepted  == IF TLCGet(1) = Len(TLog) + 1 THEN TRUE ELSE PrintT("@@HW " \o ToString(TLCGet(1))) /\ FALSE
ASSUME TLCSet(1, 0)
====
