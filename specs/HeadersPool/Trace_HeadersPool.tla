---- MODULE Trace_HeadersPool ----
(* Trace validation for the real headersPool.  Every event carries the call, its answer and the     *)
(* projection of the three indexes + recency order read from the real object after the call.        *)
(* Strict mode: each event must be the specification's action with exactly that answer and state.   *)
(* Observation mode: the state is taken from the log; the C29 invariants are evaluated by TLC on     *)
(* every observed state and every observed answer.                                                   *)
EXTENDS HeadersPool, Json, TLCExt
LogLast(h, r) == <<r>>
TLog == ndJsonDeserialize("trace.ndjson")
VARIABLE l
tvars == <<vars, l>>
Ev == TLog[l]
IsEvent(name) == l <= Len(TLog) /\ Ev.a = name /\ l' = l + 1
ToSet(q) == {q[i] : i \in 1..Len(q)}

\* logged projection -> sets of records (JSON arrays arrive as sequences)
ObsSt == [byHash |-> ToSet(Ev.st.byHash), lists |-> ToSet(Ev.st.lists),
          cnt |-> ToSet(Ev.st.cnt), order |-> ToSet(Ev.st.order)]
OutEq(f) == IF f = "ns" THEN hist'[1].out[f] = ToSet(Ev.out[f]) ELSE hist'[1].out[f] = Ev.out[f]
Matches == (\A f \in DOMAIN Ev.out : OutEq(f)) /\ hist'[1].st = ObsSt

TraceInit ==
    /\ l = 1 /\ byHash = <<>> /\ lists = <<>> /\ cnt = <<>> /\ order = <<>>
    /\ maxPer = 1 /\ numRem = 1 /\ hist = <<>>
TNew ==
    /\ IsEvent("New")
    /\ byHash' = <<>> /\ lists' = <<>> /\ cnt' = <<>> /\ order' = <<>>
    /\ maxPer' = Ev.in.max /\ numRem' = Ev.in.rem
    /\ hist' = <<[a |-> "New", in |-> Ev.in, out |-> Ev.out, st |-> StOf(<<>>, <<>>, <<>>, <<>>)]>>
    /\ ObsSt = StOf(<<>>, <<>>, <<>>, <<>>)
TAdd     == IsEvent("AddHeader") /\ AddHeader(Ev.in.h, Ev.in.s, Ev.in.n) /\ Matches
TRemHash == IsEvent("RemoveHeaderByHash") /\ RemoveHeaderByHash(Ev.in.h) /\ Matches
TRemNon  == IsEvent("RemoveHeaderByNonce") /\ RemoveHeaderByNonce(Ev.in.n, Ev.in.s) /\ Matches
TGetHash == IsEvent("GetHeaderByHash") /\ GetHeaderByHash(Ev.in.h) /\ Matches
TGetNon  == IsEvent("GetHeadersByNonce") /\ GetHeadersByNonce(Ev.in.n, Ev.in.s) /\ Matches
TNum     == IsEvent("GetNumHeaders") /\ GetNumHeaders(Ev.in.s) /\ Matches
TNonces  == IsEvent("Nonces") /\ NoncesCall(Ev.in.s) /\ Matches
TLen     == IsEvent("Len") /\ LenCall /\ Matches
TClear   == IsEvent("Clear") /\ Clear /\ Matches
TraceNext == TNew \/ TAdd \/ TRemHash \/ TRemNon \/ TGetHash \/ TGetNon \/ TNum \/ TNonces \/ TLen \/ TClear
TraceSpec == TraceInit /\ [][TraceNext]_tvars

\* ---- observation mode
Pick(S, P(_)) == CHOOSE r \in S : P(r)
ObsOut == [f \in DOMAIN Ev.out |-> IF f = "ns" THEN ToSet(Ev.out[f]) ELSE Ev.out[f]]
ObsStep ==
    /\ l <= Len(TLog) /\ Ev.a # "New" /\ l' = l + 1
    /\ byHash' = [h \in {r.h : r \in ObsSt.byHash} |->
                    LET r == Pick(ObsSt.byHash, LAMBDA x : x.h = h) IN [s |-> r.s, n |-> r.n]]
    /\ lists' = [sn \in {<<r.s, r.n>> : r \in ObsSt.lists} |->
                    Pick(ObsSt.lists, LAMBDA x : x.s = sn[1] /\ x.n = sn[2]).hs]
    /\ cnt' = [s \in {r.s : r \in ObsSt.cnt} |-> Pick(ObsSt.cnt, LAMBDA x : x.s = s).c]
    /\ order' = [s \in {r.s : r \in ObsSt.order} |-> Pick(ObsSt.order, LAMBDA x : x.s = s).ns]
    /\ UNCHANGED <<maxPer, numRem>>
    /\ hist' = <<[a |-> Ev.a, in |-> Ev.in, out |-> ObsOut, st |-> ObsSt]>>
TraceNextObs == TNew \/ ObsStep
TraceSpecObs == TraceInit /\ [][TraceNextObs]_tvars

HighWater == TLCSet(1, IF l > TLCGet(1) THEN l ELSE TLCGet(1))
Accepted  == IF TLCGet(1) = Len(TLog) + 1 THEN TRUE ELSE PrintT("@@HW " \o ToString(TLCGet(1))) /\ FALSE
ASSUME TLCSet(1, 0)
====
