SPECIFICATION Spec
CONSTANTS
  Threads = {1, 2}
  Table <- HPTable
  OpOrder <- HPOrder
  KnownDefects = {}
INVARIANTS TypeOK Inv_RaceFree Inv_StaticSound
CHECK_DEADLOCK FALSE
