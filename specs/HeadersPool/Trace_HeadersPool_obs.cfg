SPECIFICATION TraceSpecObs
CONSTANTS
  Hashes = {}
  Shards = {}
  Nonces = {}
  MaxPerShard = {}
  NumToRemove = {}
  Log <- LogLast
CONSTRAINT HighWater
INVARIANTS Inv_C29_HashToNonce Inv_C29_NonceToHash Inv_C29_ListsWellFormed Inv_C29_Counts Inv_C29_Answers
POSTCONDITION Accepted
CHECK_DEADLOCK FALSE
