SPECIFICATION Spec
CONSTANTS
  Hashes = {1, 2, 3}
  Shards = {0, 1}
  Nonces = {1, 2}
  MaxPerShard = {2, 3}
  NumToRemove = {1, 2}
  Log <- LogLast
  Depth = 0
  Pairs <- PairsAll
VIEW cvars
INVARIANTS TypeOK Inv_C29_HashToNonce Inv_C29_NonceToHash Inv_C29_ListsWellFormed Inv_C29_Counts Inv_C29_Answers
CHECK_DEADLOCK FALSE
