---- MODULE MC_HeadersPoolLocks ----
(* Lock discipline of headersPool as the code is (headersPool.go / headersCache.go).                        *)
(* Mutexes: "pool" = mutHeadersPool, "handlers" = mutAddedDataHandlers.                                      *)
(* Shared locations:                                                                                         *)
(*   outer    headersCache.headersNonceCache (the shard -> inner-map table itself)                           *)
(*   inner    the per-shard maps nonce -> timestamped list (items and timestamps)                            *)
(*   byHash   headersCache.headersByHash          counter  headersCache.headersCounter                        *)
(*   handlers headersPool.addedDataHandlers                                                                   *)
(* Every mutating call and -- because they refresh timestamps -- both lookups take the pool mutex            *)
(* exclusively.  GetNumHeaders, Len, MaxSize and Nonces take it shared.  Nonces calls headersCache.keys ->    *)
(* getShardMap, which CREATES the inner map of a shard that has none: a write of `outer` under the shared    *)
(* lock (deviation "nonces-creates-shard-map").  Intended: a read only.                                      *)
(* Argument classes: known / unseen shard, present / absent hash, new / duplicate hash.                      *)
EXTENDS LockDiscipline, Json
Seg(lk, r, w) == [lk |-> lk, r |-> r, w |-> w]
PW == {<<"pool", "W">>}
PR == {<<"pool", "R">>}
All == {"outer", "inner", "byHash", "counter"}
HPOrder == <<"AddHeader:new", "AddHeader:dup", "AddHeader:unseen",
             "RemoveHeaderByHash:present", "RemoveHeaderByHash:absent",
             "RemoveHeaderByNonce:known", "RemoveHeaderByNonce:unseen",
             "GetHeadersByNonce:known", "GetHeadersByNonce:unseen",
             "GetHeaderByHash:present", "GetHeaderByHash:absent",
             "GetNumHeaders:known", "GetNumHeaders:unseen",
             "Nonces:known", "Nonces:unseen", "Len", "MaxSize", "Clear", "RegisterHandler">>
HPTable ==
    [o \in {HPOrder[i] : i \in 1..Len(HPOrder)} |->
       CASE o = "AddHeader:new" ->
               \* eviction + three index updates, then callAddedDataHandlers under handlers.RLock (nested)
               <<Seg(PW \cup {<<"handlers", "R">>}, All \cup {"handlers"}, All)>>
         [] o = "AddHeader:unseen" -> <<Seg(PW \cup {<<"handlers", "R">>}, All \cup {"handlers"}, All)>>
         [] o = "AddHeader:dup" -> <<Seg(PW, All, {"inner", "byHash", "counter"})>>   \* eviction may still run
         [] o = "RemoveHeaderByHash:present" -> <<Seg(PW, All, {"inner", "byHash", "counter"})>>
         [] o = "RemoveHeaderByHash:absent" -> <<Seg(PW, {"byHash"}, {})>>
         [] o = "RemoveHeaderByNonce:known" -> <<Seg(PW, All, {"inner", "byHash", "counter"})>>
         [] o = "RemoveHeaderByNonce:unseen" -> <<Seg(PW, {"outer"}, {})>>
         [] o = "GetHeadersByNonce:known" -> <<Seg(PW, {"outer", "inner"}, {"inner"})>>   \* timestamp refresh
         [] o = "GetHeadersByNonce:unseen" -> <<Seg(PW, {"outer"}, {})>>
         [] o = "GetHeaderByHash:present" -> <<Seg(PW, {"byHash", "outer", "inner"}, {"inner"})>>
         [] o = "GetHeaderByHash:absent" -> <<Seg(PW, {"byHash"}, {})>>
         [] o \in {"GetNumHeaders:known", "GetNumHeaders:unseen", "Len"} -> <<Seg(PR, {"counter"}, {})>>
         [] o = "MaxSize" -> <<Seg(PR, {}, {})>>
         [] o = "Nonces:known" -> <<Seg(PR, {"outer", "inner"}, {})>>
         [] o = "Nonces:unseen" ->
               <<Seg(PR, {"outer"}, IF "nonces-creates-shard-map" \in KnownDefects THEN {"outer"} ELSE {})>>
         [] o = "Clear" -> <<Seg(PW, {}, {"outer", "byHash", "counter"})>>
         [] o = "RegisterHandler" -> <<Seg({<<"handlers", "W">>}, {"handlers"}, {"handlers"})>>]
EmitEdge == PrintT("@@B " \o ToJson(hist'))
====
