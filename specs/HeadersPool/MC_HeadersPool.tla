---- MODULE MC_HeadersPool ----
EXTENDS HeadersPool, Json
CONSTANT Depth
LogAppend(h, r) == Append(h, r)
LogLast(h, r) == <<r>>
\* behaviour export; Pairs restricts the <<MaxHeadersPerShard, NumElementsToRemoveOnEviction>> configurations
CONSTANT Pairs
PairsQuick == {<<2, 1>>, <<3, 2>>}
PairsAll   == {<<m, r>> \in (1..8) \X (1..8) : r <= m}
GenNext  == Len(hist) < Depth /\ Next
GenSpec  == (Init /\ <<maxPer, numRem>> \in Pairs) /\ [][GenNext]_vars
EmitEdge == PrintT("@@B " \o ToJson(hist'))
EmitFull == (Len(hist') = Depth) => PrintT("@@B " \o ToJson(hist'))
====
