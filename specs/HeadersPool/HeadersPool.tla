----------------------------- MODULE HeadersPool -----------------------------
(***************************************************************************)
(* dataRetriever/dataPool/headersCache: headersPool + headersCache.        *)
(*                                                                          *)
(* Variables are the three indexes of headersCache and the recency order   *)
(* that the per-nonce timestamps induce:                                    *)
(*   byHash : hash -> [s, n]          headersByHash                         *)
(*   lists  : <<s, n>> -> Seq(hash)   headersNonceCache[s][n].items         *)
(*   cnt    : s -> count              headersCounter                        *)
(*   order  : s -> Seq(n)             nonces of shard s, oldest timestamp   *)
(*                                    first (a list gets a timestamp when   *)
(*                                    it is created and whenever it is      *)
(*                                    looked up; appending to an existing   *)
(*                                    list does NOT refresh it)             *)
(* One action per public call of headersPool (each is one critical section *)
(* under mutHeadersPool); the bodies follow headersCache.go branch by       *)
(* branch, including eviction-before-duplicate-check in addHeader and the   *)
(* timestamp refresh done by lookups and removals.                          *)
(*                                                                          *)
(* Property C29 (first half): the indexes stay mutually consistent --       *)
(* Inv_C29_* below -- and what the public getters answer agrees with them   *)
(* (Inv_C29_Answers).  Which nonce eviction removes is not part of C29; the *)
(* specification is deterministic about it only so that TLC behaviours can  *)
(* be replayed (a different victim in the code is drift, not a violation).  *)
(***************************************************************************)
EXTENDS Integers, Sequences, FiniteSets, TLC

CONSTANTS Hashes,       \* non-empty-hash identifiers (positive integers); 0 stands for the empty hash
          Shards, Nonces,
          MaxPerShard,  \* candidate values of MaxHeadersPerShard
          NumToRemove,  \* candidate values of NumElementsToRemoveOnEviction
          Log(_, _)

VARIABLES byHash, lists, cnt, order, maxPer, numRem, hist

vars  == <<byHash, lists, cnt, order, maxPer, numRem, hist>>
cvars == <<byHash, lists, cnt, order, maxPer, numRem>>

Range(q) == {q[i] : i \in 1..Len(q)}
Without(q, x) == SelectSeq(q, LAMBDA y : y # x)
Drop(f, S) == [x \in (DOMAIN f) \ S |-> f[x]]
Upd(f, x, v) == [y \in (DOMAIN f) \cup {x} |-> IF y = x THEN v ELSE f[y]]
Count(c, s) == IF s \in DOMAIN c THEN c[s] ELSE 0
Ord(o, s) == IF s \in DOMAIN o THEN o[s] ELSE <<>>
SetCnt(c, s, v) == IF v = 0 THEN Drop(c, {s}) ELSE Upd(c, s, v)
SetOrd(o, s, q) == IF q = <<>> THEN Drop(o, {s}) ELSE Upd(o, s, q)
Min(a, b) == IF a < b THEN a ELSE b

\* ---- projected state (what the harness reads from the real pool after every step)
StOf(b, l, c, o) ==
    [byHash |-> {[h |-> h, s |-> b[h].s, n |-> b[h].n] : h \in DOMAIN b},
     lists  |-> {[s |-> sn[1], n |-> sn[2], hs |-> l[sn]] : sn \in DOMAIN l},
     cnt    |-> {[s |-> s, c |-> c[s]] : s \in DOMAIN c},
     order  |-> {[s |-> s, ns |-> o[s]] : s \in DOMAIN o}]
Rec(a, in, out) == [a |-> a, in |-> in, out |-> out, st |-> StOf(byHash', lists', cnt', order')]

\* ---- pieces of headersCache.go operating on a state record [b, l, c, o]
Cur == [b |-> byHash, l |-> lists, c |-> cnt, o |-> order]

\* removeHeaderByNonceAndShardId: whole list of (s, n) goes away (no-op when there is none)
RemoveList(S, s, n) ==
    IF <<s, n>> \notin DOMAIN S.l \/ S.l[<<s, n>>] = <<>> THEN S
    ELSE LET hs == S.l[<<s, n>>] IN
         [b |-> Drop(S.b, Range(hs)),
          l |-> Drop(S.l, {<<s, n>>}),
          c |-> IF s \in DOMAIN S.c THEN SetCnt(S.c, s, S.c[s] - Len(hs)) ELSE S.c,
          o |-> SetOrd(S.o, s, Without(Ord(S.o, s), n))]

\* lruEviction: nonces oldest first; lists are removed until min(numRem, #nonces) hashes are gone
RECURSIVE EvictFrom(_, _, _, _, _)
EvictFrom(S, s, q, i, removed) ==
    LET lim == Min(numRem, Len(q)) IN
    IF i > lim \/ removed >= lim THEN S
    ELSE LET k == IF <<s, q[i]>> \in DOMAIN S.l THEN Len(S.l[<<s, q[i]>>]) ELSE 0
         IN EvictFrom(RemoveList(S, s, q[i]), s, q, i + 1, removed + k)

\* tryToDoEviction
AfterEviction(S, s) ==
    IF Count(S.c, s) >= maxPer THEN EvictFrom(S, s, Ord(S.o, s), 1, 0) ELSE S

\* the timestamp refresh of getHeadersByNonce / getHeaderByHash: nonce n becomes the newest of shard s
Touch(o, s, n) == SetOrd(o, s, Append(Without(Ord(o, s), n), n))

Init ==
    /\ byHash = <<>> /\ lists = <<>> /\ cnt = <<>> /\ order = <<>>
    /\ maxPer \in MaxPerShard /\ numRem \in NumToRemove /\ numRem <= maxPer
    /\ hist = <<[a |-> "New", in |-> [max |-> maxPer, rem |-> numRem], out |-> [x |-> 0],
                 st |-> StOf(<<>>, <<>>, <<>>, <<>>)]>>

Set4(S) == byHash' = S.b /\ lists' = S.l /\ cnt' = S.c /\ order' = S.o /\ UNCHANGED <<maxPer, numRem>>

\* headersPool.AddHeader(hash, header{shard s, nonce n}); h = 0 is the empty hash (rejected)
AddHeader(h, s, n) ==
    LET S1 == AfterEviction(Cur, s)
        fresh == <<s, n>> \notin DOMAIN S1.l
        S2 == [b |-> Upd(S1.b, h, [s |-> s, n |-> n]),
               l |-> Upd(S1.l, <<s, n>>, IF fresh THEN <<h>> ELSE Append(S1.l[<<s, n>>], h)),
               c |-> Upd(S1.c, s, Count(S1.c, s) + 1),
               o |-> IF fresh THEN SetOrd(S1.o, s, Append(Ord(S1.o, s), n)) ELSE S1.o]
    IN IF h = 0 THEN /\ UNCHANGED cvars
                     /\ hist' = Log(hist, Rec("AddHeader", [h |-> h, s |-> s, n |-> n], [added |-> FALSE]))
       ELSE IF h \in DOMAIN S1.b
            THEN /\ Set4(S1)      \* eviction already happened, the duplicate is then refused
                 /\ hist' = Log(hist, Rec("AddHeader", [h |-> h, s |-> s, n |-> n], [added |-> FALSE]))
            ELSE /\ Set4(S2)
                 /\ hist' = Log(hist, Rec("AddHeader", [h |-> h, s |-> s, n |-> n], [added |-> TRUE]))

\* headersPool.RemoveHeaderByHash
RemoveHeaderByHash(h) ==
    IF h = 0 \/ h \notin DOMAIN byHash
    THEN UNCHANGED cvars /\ hist' = Log(hist, Rec("RemoveHeaderByHash", [h |-> h], [x |-> 0]))
    ELSE LET i == byHash[h]
             sn == <<i.s, i.n>>
             inList == sn \in DOMAIN lists /\ lists[sn] # <<>>
             found == inList /\ h \in Range(lists[sn])
             rest == IF found THEN Without(lists[sn], h) ELSE <<>>
         IN /\ byHash' = Drop(byHash, {h})
            /\ lists' = IF ~found THEN lists
                        ELSE IF rest = <<>> THEN Drop(lists, {sn}) ELSE Upd(lists, sn, rest)
            /\ cnt' = IF found /\ i.s \in DOMAIN cnt THEN SetCnt(cnt, i.s, cnt[i.s] - 1) ELSE cnt
            /\ order' = IF ~inList THEN order
                        ELSE IF found /\ rest = <<>> THEN SetOrd(order, i.s, Without(Ord(order, i.s), i.n))
                        ELSE Touch(order, i.s, i.n)
            /\ UNCHANGED <<maxPer, numRem>>
            /\ hist' = Log(hist, Rec("RemoveHeaderByHash", [h |-> h], [x |-> 0]))

\* headersPool.RemoveHeaderByNonceAndShardId
RemoveHeaderByNonce(n, s) ==
    /\ Set4(RemoveList(Cur, s, n))
    /\ hist' = Log(hist, Rec("RemoveHeaderByNonce", [n |-> n, s |-> s], [x |-> 0]))

\* headersPool.GetHeaderByHash: found iff both indexes have it; refreshes the list's timestamp
GetHeaderByHash(h) ==
    LET known == h \in DOMAIN byHash
        i == byHash[h]
        sn == <<i.s, i.n>>
        inList == known /\ sn \in DOMAIN lists /\ lists[sn] # <<>>
        ok == inList /\ h \in Range(lists[sn])
    IN /\ order' = IF inList THEN Touch(order, i.s, i.n) ELSE order
       /\ UNCHANGED <<byHash, lists, cnt, maxPer, numRem>>
       /\ hist' = Log(hist, Rec("GetHeaderByHash", [h |-> h],
                                [ok |-> ok, s |-> IF ok THEN i.s ELSE 0, n |-> IF ok THEN i.n ELSE 0]))

\* headersPool.GetHeadersByNonceAndShardId
GetHeadersByNonce(n, s) ==
    LET ok == <<s, n>> \in DOMAIN lists /\ lists[<<s, n>>] # <<>> IN
    /\ order' = IF ok THEN Touch(order, s, n) ELSE order
    /\ UNCHANGED <<byHash, lists, cnt, maxPer, numRem>>
    /\ hist' = Log(hist, Rec("GetHeadersByNonce", [n |-> n, s |-> s],
                             [ok |-> ok, hs |-> IF ok THEN lists[<<s, n>>] ELSE <<>>]))

NoncesOf(l, s) == {sn[2] : sn \in {x \in DOMAIN l : x[1] = s}}
RECURSIVE SumCnt(_, _)
SumCnt(c, S) == IF S = {} THEN 0 ELSE LET s == CHOOSE x \in S : TRUE IN c[s] + SumCnt(c, S \ {s})

GetNumHeaders(s) ==
    UNCHANGED cvars /\ hist' = Log(hist, Rec("GetNumHeaders", [s |-> s], [c |-> Count(cnt, s)]))
NoncesCall(s) ==
    UNCHANGED cvars /\ hist' = Log(hist, Rec("Nonces", [s |-> s], [ns |-> NoncesOf(lists, s)]))
LenCall ==
    UNCHANGED cvars /\ hist' = Log(hist, Rec("Len", [x |-> 0], [c |-> SumCnt(cnt, DOMAIN cnt)]))
Clear ==
    /\ byHash' = <<>> /\ lists' = <<>> /\ cnt' = <<>> /\ order' = <<>> /\ UNCHANGED <<maxPer, numRem>>
    /\ hist' = Log(hist, Rec("Clear", [x |-> 0], [x |-> 0]))

Next ==
    \/ \E h \in Hashes \cup {0}, s \in Shards, n \in Nonces : AddHeader(h, s, n)
    \/ \E h \in Hashes \cup {0} : RemoveHeaderByHash(h) \/ GetHeaderByHash(h)
    \/ \E n \in Nonces, s \in Shards : RemoveHeaderByNonce(n, s) \/ GetHeadersByNonce(n, s)
    \/ \E s \in Shards : GetNumHeaders(s) \/ NoncesCall(s)
    \/ LenCall \/ Clear

Spec == Init /\ [][Next]_vars

-----------------------------------------------------------------------------
(* C29, sequential half *)
RECURSIVE SumLen(_, _)
SumLen(l, K) == IF K = {} THEN 0 ELSE LET k == CHOOSE x \in K : TRUE IN Len(l[k]) + SumLen(l, K \ {k})
Stored(s) == SumLen(lists, {sn \in DOMAIN lists : sn[1] = s})
AllShards == {sn[1] : sn \in DOMAIN lists} \cup DOMAIN cnt \cup {byHash[h].s : h \in DOMAIN byHash}

\* every header found by hash is found under its shard and nonce
Inv_C29_HashToNonce ==
    \A h \in DOMAIN byHash :
        LET sn == <<byHash[h].s, byHash[h].n>> IN sn \in DOMAIN lists /\ h \in Range(lists[sn])
\* ... and vice versa
Inv_C29_NonceToHash ==
    \A sn \in DOMAIN lists : \A h \in Range(lists[sn]) :
        h \in DOMAIN byHash /\ byHash[h].s = sn[1] /\ byHash[h].n = sn[2]
\* a header is stored once; no nonce entry without headers
Inv_C29_ListsWellFormed ==
    \A sn \in DOMAIN lists :
        /\ lists[sn] # <<>>
        /\ \A i, j \in 1..Len(lists[sn]) : i # j => lists[sn][i] # lists[sn][j]
\* per-shard counts equal the number of stored headers
Inv_C29_Counts == \A s \in AllShards : Count(cnt, s) = Stored(s)

\* the answer of the last public call agrees with the indexes (binds the getters named in the property)
Last == hist[Len(hist)]
InSomeList(h) == \E sn \in DOMAIN lists : h \in Range(lists[sn])
Inv_C29_Answers ==
    hist = <<>> \/
    CASE Last.a = "GetHeaderByHash" ->
            /\ Last.out.ok <=> InSomeList(Last.in.h)
            /\ Last.out.ok => /\ Last.in.h \in DOMAIN byHash
                              /\ byHash[Last.in.h] = [s |-> Last.out.s, n |-> Last.out.n]
      [] Last.a = "GetHeadersByNonce" ->
            /\ Last.out.ok <=> <<Last.in.s, Last.in.n>> \in DOMAIN lists
            /\ Last.out.ok => /\ Last.out.hs = lists[<<Last.in.s, Last.in.n>>]
                              /\ \A h \in Range(Last.out.hs) :
                                    h \in DOMAIN byHash /\ byHash[h] = [s |-> Last.in.s, n |-> Last.in.n]
      [] Last.a = "GetNumHeaders" -> Last.out.c = Stored(Last.in.s)
      [] Last.a = "Len" -> Last.out.c = SumLen(lists, DOMAIN lists)
      [] Last.a = "Nonces" -> Last.out.ns = NoncesOf(lists, Last.in.s)
      [] OTHER -> TRUE

TypeOK ==
    /\ \A s \in DOMAIN order : order[s] # <<>> /\ Range(order[s]) = NoncesOf(lists, s)
                               /\ Len(order[s]) = Cardinality(Range(order[s]))
    /\ \A s \in AllShards : NoncesOf(lists, s) # {} => s \in DOMAIN order
    /\ \A s \in DOMAIN cnt : cnt[s] > 0 /\ cnt[s] <= maxPer
=============================================================================
