SPECIFICATION Spec
CONSTANTS
  Keys = {"a", "b", "c", "d"}
  Owners = {"o1", "o2"}
  Confs <- ConfsSmall
  PeerStatuses = {"none"}
  FundVals <- FundsA
  NodeNums = {1, 2}
  AuthVals = {TRUE}
  MaxNJ = 2
  KnownDefects <- NoDefects
  FixChoices <- CodeAsIs
  Log <- LogLast
  Depth = 0
VIEW cvars
INVARIANTS TypeOK Inv_C39_list_chain Inv_C39_list_prev Inv_C39_list_lastjailed Inv_C39_keys Inv_C39_count Inv_C39_max
CHECK_DEADLOCK FALSE
