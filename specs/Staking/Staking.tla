------------------------------ MODULE Staking ------------------------------
(***************************************************************************)
(* Specification of vm/systemSmartContracts/staking.go (+stakingSaveLoad)  *)
(* as far as property C39 is concerned: the registration record of every   *)
(* BLS key, the waiting list kept as a doubly linked list in the contract  *)
(* storage (head record + one element record per key, key prefix "w_"),    *)
(* and the StakingNodesConfig counters.                                     *)
(*                                                                         *)
(* One action per public function of the contract, transcribed branch by   *)
(* branch.  A top-level call that does not return Ok changes nothing (the  *)
(* transaction processor drops the VM output of a failed call).            *)
(*                                                                         *)
(* Storage layer (operators on a "working copy" W of the state):           *)
(*   AddToWaiting / AddToEnd / InsertAfterLastJailed / RemoveFromWaiting / *)
(*   MoveFirst  = addToWaitingList / addToEndOfTheList /                   *)
(*   insertAfterLastJailed / removeFromWaitingList /                       *)
(*   moveFirstFromWaitingToStaked of staking.go, pointer update by pointer *)
(*   update, in the code's order.                                          *)
(*                                                                         *)
(* Convention of the code: the first element's PreviousKey is its own key, *)
(* the last element's NextKey is empty; the head record disappears when    *)
(* the list becomes empty.                                                 *)
(*                                                                         *)
(* Named deviation (KnownDefects contains "StalePrev"): insertAfterLast-   *)
(* Jailed with an empty LastJailedKey puts the new element in front but    *)
(* leaves the old first element's PreviousKey pointing to itself.          *)
(***************************************************************************)
EXTENDS Integers, Sequences, FiniteSets, TLC

CONSTANTS Keys,          \* BLS keys (strings)
          Owners,        \* owner addresses (strings)
          Confs,         \* candidate static configurations (records, see Init)
          PeerStatuses,  \* statuses a key may have in the validator statistics: "none","eligible","jailed","bad"
          FundVals,      \* candidate numbers of nodes an owner's stake qualifies for; -1 = owner unknown to validator SC
          NodeNums,      \* candidate arguments of stakeNodesFromQueue / updateConfigMaxNodes / updateConfigMinNodes
          AuthVals,      \* {TRUE} or {TRUE, FALSE}: is the call made by the address allowed to make it
          MaxNJ,         \* bound on NumJailed in exhaustive runs
          KnownDefects,  \* subset of {"StalePrev"}
          FixChoices,    \* values the front-insert may take for "old first's PreviousKey is repaired"
          Log(_, _)

VARIABLES reg,      \* key -> [r: registered, s: staked, w: waiting, j: jailed, nj: NumJailed, un: unbond period running]
          peer,     \* key -> status in the validator statistics (environment)
          head,     \* [first, last, len, lj]   (waiting list head record; all empty when absent)
          el,       \* key -> [in: element record exists, p: PreviousKey, n: NextKey]
          cfg,      \* [staked, jailed, min, max]   (StakingNodesConfig)
          conf,     \* static: [enable, v2, clu, cmin, cmax, ubp, own]
          funds,    \* owner -> number of nodes the owner's total stake qualifies for (-1: no validator data)
          waived,   \* history: StakedNodes > MaxNumNodes is currently excused (max lowered / excess requested by caller)
          tainted,  \* history: the named deviation has happened in this behaviour
          hist

cvars == <<reg, peer, head, el, cfg, conf, funds, waived, tainted>>
vars  == <<reg, peer, head, el, cfg, conf, funds, waived, tainted, hist>>

NoKey == ""
NoEl == [in |-> FALSE, p |-> NoKey, n |-> NoKey]
EmptyHead == [first |-> NoKey, last |-> NoKey, len |-> 0, lj |-> NoKey]
DefaultReg == [r |-> FALSE, s |-> FALSE, w |-> FALSE, j |-> FALSE, nj |-> 0, un |-> 0]
MaxOf(a, b) == IF a > b THEN a ELSE b
BigNum == 99

-----------------------------------------------------------------------------
(* working copy: [reg, h, e, cfg, ok, kd, forced] *)
Cur == [reg |-> reg, h |-> head, e |-> el, cfg |-> cfg, ok |-> TRUE, kd |-> FALSE, forced |-> FALSE]
Err(W) == [W EXCEPT !.ok = FALSE]
Has(E, k) == k \in DOMAIN E /\ E[k].in

CLU == conf.clu

\* addToEndOfTheList (the head passed in already carries the incremented length)
AddToEnd(W, k) ==
    LET ol == W.h.last IN
    IF ~Has(W.e, ol) THEN Err(W)
    ELSE LET W1 == [W EXCEPT !.e[ol] = [W.e[ol] EXCEPT !.n = k]]
             W2 == [W1 EXCEPT !.e[k] = [in |-> TRUE, p |-> ol, n |-> NoKey]]
         IN  [W2 EXCEPT !.h.last = k]

\* insertAfterLastJailed; fx = the old first element's PreviousKey is repaired (not what the code does)
InsertAfterLastJailed(W, k, fx) ==
    IF W.h.lj = NoKey
    THEN LET of == W.h.first
             W1 == [W EXCEPT !.e[k] = [in |-> TRUE, p |-> k, n |-> of], !.h.first = k, !.h.lj = k]
         IN  IF fx /\ Has(W1.e, of)
             THEN [W1 EXCEPT !.e[of].p = k]
             ELSE [W1 EXCEPT !.kd = TRUE]            \* deviation: el[of].p stays = of
    ELSE IF ~Has(W.e, W.h.lj) THEN Err(W)
    ELSE IF W.h.last = W.h.lj THEN AddToEnd([W EXCEPT !.h.lj = k], k)
    ELSE LET lj  == W.h.lj
             lje == W.e[lj]
             fk  == lje.n
         IN  IF ~Has(W.e, fk) THEN Err(W)
             ELSE LET fnj == W.e[fk]
                      W1  == [W  EXCEPT !.e[lj] = [lje EXCEPT !.n = k]]
                      W2  == [W1 EXCEPT !.e[fk] = [fnj EXCEPT !.p = k]]
                      W3  == [W2 EXCEPT !.e[k]  = [in |-> TRUE, p |-> lj, n |-> fk]]
                  IN  [W3 EXCEPT !.h.lj = k]

\* addToWaitingList
AddToWaiting(W, k, addJailed, fx) ==
    IF Has(W.e, k) THEN W
    ELSE LET h1 == [W.h EXCEPT !.len = @ + 1] IN
         IF h1.len = 1
         THEN [W EXCEPT !.h = [first |-> k, last |-> k, len |-> 1, lj |-> IF addJailed THEN k ELSE W.h.lj],
                        !.e[k] = [in |-> TRUE, p |-> k, n |-> NoKey]]
         ELSE IF addJailed THEN InsertAfterLastJailed([W EXCEPT !.h = h1], k, fx)
         ELSE AddToEnd([W EXCEPT !.h = h1], k)

\* removeFromWaitingList
RemoveFromWaiting(W, k) ==
    IF ~Has(W.e, k) THEN W
    ELSE LET e  == W.e[k]
             W0 == [W EXCEPT !.e[k] = NoEl]
         IN
         IF W.h.len = 0 THEN Err(W0)
         ELSE LET h1 == [W.h EXCEPT !.len = @ - 1] IN
         IF h1.len = 0 THEN [W0 EXCEPT !.h = EmptyHead]
         ELSE IF e.p = k                                   \* "remove the first element"
         THEN LET h2 == IF k = h1.lj THEN [h1 EXCEPT !.lj = NoKey] ELSE h1 IN
              IF ~Has(W0.e, e.n) THEN Err(W0)
              ELSE [W0 EXCEPT !.e[e.n].p = e.n, !.h = [h2 EXCEPT !.first = e.n]]
         ELSE LET h2 == IF ~CLU \/ k = h1.lj THEN [h1 EXCEPT !.lj = e.p] ELSE h1 IN
              IF ~Has(W0.e, e.p) THEN Err(W0)
              ELSE IF e.n = NoKey
              THEN [W0 EXCEPT !.e[e.p].n = NoKey, !.h = [h2 EXCEPT !.last = e.p]]
              ELSE IF ~Has(W0.e, e.n) THEN Err(W0)
              ELSE [W0 EXCEPT !.e[e.n].p = e.p, !.e[e.p].n = e.n, !.h = h2]

\* NumJailed is not part of the V1.0 record written before the stake-enable epoch
NJ(x) == IF conf.enable THEN x ELSE 0
Pending == IF conf.ubp THEN 1 ELSE 0        \* UnStakedNonce = current nonce; the period has not elapsed yet

\* moveFirstFromWaitingToStaked -> [w, moved]
MoveFirst(W) ==
    IF W.h.len = 0 THEN [w |-> W, moved |-> FALSE]
    ELSE LET f == W.h.first IN
         IF ~Has(W.e, f) THEN [w |-> Err(W), moved |-> FALSE]
         ELSE LET W1 == RemoveFromWaiting(W, f) IN
              IF ~W1.ok THEN [w |-> W1, moved |-> FALSE]
              ELSE IF ~W1.reg[f].r \/ W1.reg[f].s THEN [w |-> Err(W1), moved |-> FALSE]
              ELSE [w |-> [W1 EXCEPT !.reg[f].w = FALSE, !.reg[f].s = TRUE, !.reg[f].un = 0,
                                     !.reg[f].nj = NJ(@), !.cfg.staked = @ + 1],
                    moved |-> TRUE]

CanStake(W) == W.cfg.staked < W.cfg.max
Spare(W) == W.cfg.staked - W.cfg.jailed - W.cfg.min
DecStaked(W) == IF W.cfg.staked > 0 THEN [W EXCEPT !.cfg.staked = @ - 1] ELSE W

\* processStake -> [w, d]   (d = the caller's in-memory registration record, saved by the caller)
ProcessStake(W, k, d, addFirst, fx) ==
    IF d.s THEN [w |-> W, d |-> d]
    ELSE IF ~CanStake(W)
    THEN [w |-> AddToWaiting(W, k, addFirst, fx), d |-> [d EXCEPT !.w = TRUE]]
    ELSE LET W1 == RemoveFromWaiting(W, k) IN
         [w |-> [W1 EXCEPT !.cfg.staked = @ + 1], d |-> [d EXCEPT !.s = TRUE, !.w = FALSE, !.un = 0]]

Save(W, k, d) == [W EXCEPT !.reg[k] = [d EXCEPT !.nj = NJ(@)]]

PJailed(k) == peer[k] = "jailed"
PBad(k)    == peer[k] = "bad"
PValidator(k) == peer[k] \in {"eligible", "bad"}
JailedOrBad(d, k) == d.j \/ PJailed(k) \/ PBad(k)

\* walk of the list as getFirstElementsFromWaitingList does it: [ok, seq]
RECURSIVE WalkFrom(_, _, _, _)
WalkFrom(E, k, left, acc) ==
    IF k = NoKey \/ left = 0 THEN [ok |-> TRUE, seq |-> acc]
    ELSE IF ~Has(E, k) THEN [ok |-> FALSE, seq |-> acc]
    ELSE WalkFrom(E, E[k].n, left - 1, Append(acc, k))
Walk(h, E) == IF h.len = 0 THEN [ok |-> TRUE, seq |-> <<>>] ELSE WalkFrom(E, h.first, h.len, <<>>)

\* checkValidatorFunds: number of nodes of the owner that have to leave
KeysOf(o) == {k \in Keys : conf.own[k] = o}
EffOwner(k) == IF conf.enable /\ conf.v2 THEN conf.own[k] ELSE NoKey   \* OwnerAddress is only stored by the V2 record
ToUnstake(R, o) ==
    IF o \notin DOMAIN funds \/ funds[o] < 0 THEN BigNum
    ELSE LET q == funds[o] IN
         IF q >= Cardinality(KeysOf(o)) THEN 0
         ELSE MaxOf(0, Cardinality({k \in KeysOf(o) : R[k].s \/ R[k].w \/ R[k].j}) - q)

-----------------------------------------------------------------------------
St(W) == [reg |-> W.reg, head |-> W.h, el |-> W.e, cfg |-> W.cfg]

\* commit the working copy (or nothing when the call failed)
Finish(a, in, W0) ==
    LET W == IF W0.ok THEN W0 ELSE [Cur EXCEPT !.ok = FALSE] IN
    /\ reg' = W.reg /\ head' = W.h /\ el' = W.e /\ cfg' = W.cfg
    /\ tainted' = (tainted \/ W.kd)
    /\ waived' = ((waived \/ W.forced) /\ W.cfg.staked > W.cfg.max)
    /\ UNCHANGED <<conf, peer, funds>>
    /\ hist' = Log(hist, [a |-> a, in |-> in, out |-> [ok |-> W.ok, kd |-> W.kd], st |-> St(W)])

Fail == Err(Cur)

\* stake / register   (caller: validator SC)
Stake(k, auth, onlyReg) ==
    LET d0 == reg[k]
        W  == IF ~auth \/ JailedOrBad(d0, k) THEN Fail
              ELSE LET d1 == [d0 EXCEPT !.r = TRUE] IN
                   IF onlyReg THEN Save(Cur, k, d1)
                   ELSE LET p == ProcessStake(Cur, k, d1, FALSE, FALSE) IN
                        IF ~p.w.ok THEN p.w ELSE Save(p.w, k, p.d)
    IN Finish("Stake", [k |-> k, auth |-> auth, reg |-> onlyReg], W)

\* unStake   (caller: validator SC; rok = the reward address passed is the registered one)
UnStake(k, auth, rok) ==
    LET d0 == reg[k]
        W  == IF ~auth \/ ~d0.r \/ ~rok \/ JailedOrBad(d0, k) \/ (~d0.s /\ ~d0.w) THEN Fail
              ELSE IF ~d0.s
              THEN LET W1 == RemoveFromWaiting(Cur, k) IN
                   IF ~W1.ok THEN W1 ELSE Save(W1, k, [d0 EXCEPT !.w = FALSE])
              ELSE LET addOne == ~CLU \/ cfg.staked <= cfg.max
                       m  == IF addOne THEN MoveFirst(Cur) ELSE [w |-> Cur, moved |-> FALSE]
                   IN IF ~m.w.ok THEN m.w
                      ELSE IF ~(Spare(m.w) > 0) THEN Fail
                      ELSE Save(DecStaked(m.w), k, [d0 EXCEPT !.s = FALSE, !.w = FALSE, !.un = Pending])
    IN Finish("UnStake", [k |-> k, auth |-> auth, rok |-> rok], W)

\* unBond   (caller: validator SC)
UnBond(k, auth) ==
    LET d0 == reg[k]
        W  == IF ~auth \/ ~d0.r \/ d0.s \/ JailedOrBad(d0, k) \/ d0.w \/ d0.un = 1
                 \/ ~(Spare(Cur) >= 0) \/ PValidator(k) THEN Fail
              ELSE [Cur EXCEPT !.reg[k] = DefaultReg]
    IN Finish("UnBond", [k |-> k, auth |-> auth], W)

\* jail   (caller: jailing address)
Jail(k, auth) ==
    LET d0 == reg[k]
        W  == IF ~auth \/ ~d0.r THEN Fail
              ELSE Save(Cur, k, [d0 EXCEPT !.j = TRUE, !.nj = @ + 1])
    IN Finish("Jail", [k |-> k, auth |-> auth], W)

\* unJail   (caller: validator SC)
UnJail(k, auth, fx) ==
    LET d0 == reg[k]
        W  == IF ~conf.enable
              THEN (IF ~auth \/ ~d0.r THEN Fail ELSE Save(Cur, k, d0))      \* unJailV1: only nonces/rounds change
              ELSE IF ~auth \/ ~d0.r \/ (~d0.j /\ ~PJailed(k)) THEN Fail
              ELSE LET d1 == [d0 EXCEPT !.j = FALSE]
                       p  == ProcessStake(Cur, k, d1, d1.nj = 1, fx)
                   IN IF ~p.w.ok THEN p.w ELSE Save(p.w, k, p.d)
    IN Finish("UnJail", [k |-> k, auth |-> auth], W)

\* switchJailedWithWaiting   (caller: end-of-epoch address)
Switch(k, auth) ==
    LET d0 == reg[k]
        W  == IF ~auth \/ ~d0.r \/ ~d0.s \/ d0.j THEN Fail
              ELSE LET m == IF Has(el, k) THEN [w |-> RemoveFromWaiting(Cur, k), moved |-> FALSE]
                            ELSE MoveFirst(Cur)
                       d1 == [d0 EXCEPT !.nj = @ + 1, !.j = TRUE]
                   IN IF ~m.w.ok THEN m.w
                      ELSE IF ~m.moved THEN Save(m.w, k, d1)
                      ELSE Save(DecStaked(m.w), k, [d1 EXCEPT !.s = FALSE, !.un = Pending])
    IN Finish("Switch", [k |-> k, auth |-> auth], W)

\* unStakeAtEndOfEpoch   (caller: end-of-epoch address)
UnStakeEoE(k, auth) ==
    LET d0 == reg[k]
        W  == IF ~auth \/ ~d0.r THEN Fail
              ELSE IF (d0.j /\ ~d0.s) \/ (~d0.s /\ ~d0.w) THEN Cur                \* returns Ok, nothing to do
              ELSE LET W1 == IF d0.s THEN DecStaked(Cur) ELSE Cur
                       W2 == IF d0.w THEN RemoveFromWaiting(W1, k) ELSE W1
                   IN IF ~W2.ok THEN W2
                      ELSE Save(W2, k, [d0 EXCEPT !.s = FALSE, !.w = FALSE, !.un = Pending])
    IN Finish("UnStakeEoE", [k |-> k, auth |-> auth], W)

\* stakeNodesFromQueue   (caller: end-of-epoch address, staking v2)
RECURSIVE SFQ(_, _, _, _, _)
SFQ(W, s, cnt, n, R0) ==
    IF s = <<>> \/ cnt >= n \/ ~W.ok THEN [w |-> W, cnt |-> cnt]
    ELSE LET k == Head(s) IN
         IF ToUnstake(R0, EffOwner(k)) > 0 THEN SFQ(W, Tail(s), cnt, n, R0)
         ELSE LET d  == [R0[k] EXCEPT !.s = TRUE, !.w = FALSE, !.un = 0]     \* the record read during the walk
                  W1 == Save(W, k, d)
                  W2 == RemoveFromWaiting(W1, k)
              IN SFQ(W2, Tail(s), cnt + 1, n, R0)

StakeFromQueue(n, auth) ==
    LET wk == Walk(head, el)
        W  == IF ~conf.v2 \/ ~auth \/ ~wk.ok THEN Fail
              ELSE IF wk.seq = <<>> THEN Cur
              ELSE LET r == SFQ(Cur, wk.seq, 0, n, reg) IN
                   IF ~r.w.ok THEN r.w
                   ELSE [r.w EXCEPT !.cfg.staked = @ + r.cnt, !.forced = (n > cfg.max - cfg.staked)]
    IN Finish("StakeFromQueue", [n |-> n, auth |-> auth], W)

\* cleanAdditionalQueue   (caller: end-of-epoch address, correct-last-unjailed flag)
RECURSIVE CAQ(_, _, _)
CAQ(W, s, rem) ==       \* s = list walked backwards; rem = owner -> nodes still to unstake
    IF s = <<>> \/ ~W.ok THEN W
    ELSE LET k == Head(s)
             o == EffOwner(k)
         IN IF rem[o] = 0 THEN CAQ(W, Tail(s), rem)
            ELSE LET W1 == RemoveFromWaiting(W, k)
                     W2 == Save(W1, k, [W1.reg[k] EXCEPT !.s = FALSE, !.w = FALSE, !.un = Pending])
                 IN CAQ(W2, Tail(s), [rem EXCEPT ![o] = @ - 1])

Reverse(s) == [i \in 1..Len(s) |-> s[Len(s) + 1 - i]]

CleanQueue(auth) ==
    LET wk == Walk(head, el)
        W  == IF ~CLU \/ ~auth \/ ~wk.ok THEN Fail
              ELSE IF wk.seq = <<>> THEN Cur
              ELSE CAQ(Cur, Reverse(wk.seq), [o \in Owners \cup {NoKey} |-> ToUnstake(reg, o)])
    IN Finish("CleanQueue", [auth |-> auth], W)

\* resetLastUnJailedFromQueue   (caller: end-of-epoch address, correct-last-unjailed flag)
ResetLastUnJailed(auth) ==
    LET W == IF ~CLU \/ ~auth THEN Fail ELSE [Cur EXCEPT !.h.lj = NoKey]
    IN Finish("ResetLastUnJailed", [auth |-> auth], W)

\* updateConfigMaxNodes / updateConfigMinNodes   (caller: end-of-epoch address)
UpdateMax(n, auth) ==
    LET W == IF ~conf.v2 \/ ~auth \/ n <= 0 \/ n < conf.cmin THEN Fail
             ELSE [Cur EXCEPT !.cfg.max = n, !.forced = (n < cfg.max)]
    IN Finish("UpdateMax", [n |-> n, auth |-> auth], W)

UpdateMin(n, auth) ==
    LET W == IF ~auth \/ n <= 0 \/ n > conf.cmax THEN Fail
             ELSE [Cur EXCEPT !.cfg.min = n]
    IN Finish("UpdateMin", [n |-> n, auth |-> auth], W)

(* environment *)
Elapse ==      \* the block nonce advances by at least the unbond period
    /\ reg' = [k \in Keys |-> [reg[k] EXCEPT !.un = 0]]
    /\ UNCHANGED <<peer, head, el, cfg, conf, funds, waived, tainted>>
    /\ hist' = Log(hist, [a |-> "Elapse", in |-> [x |-> 0], out |-> [ok |-> TRUE, kd |-> FALSE],
                          st |-> [reg |-> reg', head |-> head, el |-> el, cfg |-> cfg]])

SetPeer(k, s) ==
    /\ peer' = [peer EXCEPT ![k] = s]
    /\ UNCHANGED <<reg, head, el, cfg, conf, funds, waived, tainted>>
    /\ hist' = Log(hist, [a |-> "SetPeer", in |-> [k |-> k, s |-> s], out |-> [ok |-> TRUE, kd |-> FALSE], st |-> St(Cur)])

SetFunds(o, q) ==
    /\ funds' = [funds EXCEPT ![o] = q]
    /\ UNCHANGED <<reg, peer, head, el, cfg, conf, waived, tainted>>
    /\ hist' = Log(hist, [a |-> "SetFunds", in |-> [o |-> o, q |-> q], out |-> [ok |-> TRUE, kd |-> FALSE], st |-> St(Cur)])

-----------------------------------------------------------------------------
InitWith(c) ==
    /\ conf = c
    /\ reg = [k \in Keys |-> DefaultReg]
    /\ peer = [k \in Keys |-> "none"]
    /\ head = EmptyHead
    /\ el = [k \in Keys |-> NoEl]
    /\ cfg = [staked |-> 0, jailed |-> 0, min |-> c.cmin, max |-> c.cmax]
    /\ funds = [o \in Owners |-> -1]
    /\ waived = FALSE /\ tainted = FALSE

Init ==
    /\ \E c \in Confs : InitWith(c)
    /\ hist = <<[a |-> "New", in |-> conf, out |-> [ok |-> TRUE, kd |-> FALSE], st |-> St(Cur)]>>

FxSet == IF "StalePrev" \in KnownDefects THEN FixChoices ELSE {TRUE}

Next ==
    \/ \E k \in Keys, auth \in AuthVals :
          \/ \E b \in BOOLEAN : Stake(k, auth, b)
          \/ \E b \in BOOLEAN : UnStake(k, auth, b)
          \/ UnBond(k, auth)
          \/ (reg[k].nj < MaxNJ /\ Jail(k, auth))
          \/ \E fx \in FxSet : UnJail(k, auth, fx)
          \/ (reg[k].nj < MaxNJ /\ Switch(k, auth))
          \/ UnStakeEoE(k, auth)
    \/ \E n \in NodeNums, auth \in AuthVals : StakeFromQueue(n, auth) \/ UpdateMax(n, auth) \/ UpdateMin(n, auth)
    \/ \E auth \in AuthVals : CleanQueue(auth) \/ ResetLastUnJailed(auth)
    \/ Elapse
    \/ \E k \in Keys, s \in PeerStatuses : SetPeer(k, s)
    \/ \E o \in Owners, q \in FundVals : SetFunds(o, q)

\* the behaviour ends where the named deviation has happened: what follows is its consequence
NextUntainted == ~tainted /\ Next

Spec == Init /\ [][NextUntainted]_vars

-----------------------------------------------------------------------------
(* Property C39 *)

N == Cardinality(Keys)

\* total walk for arbitrary (also corrupted) observed states: follow NextKey from FirstKey, at most N+1 steps
RECURSIVE ChainFrom(_, _, _)
ChainFrom(k, left, acc) ==
    IF k = NoKey \/ left = 0 \/ ~Has(el, k) THEN acc ELSE ChainFrom(el[k].n, left - 1, Append(acc, k))
Chain == ChainFrom(head.first, N + 1, <<>>)
ChainSet == {Chain[i] : i \in 1..Len(Chain)}
Elems == {k \in Keys : el[k].in}

\* walking next from first visits exactly len distinct elements and ends in last; no element record outside the chain
Inv_C39_list_chain ==
    /\ head.len = Len(Chain)
    /\ Cardinality(ChainSet) = Len(Chain)
    /\ Elems = ChainSet
    /\ IF head.len = 0 THEN head.first = NoKey /\ head.last = NoKey
       ELSE head.first = Chain[1] /\ head.last = Chain[Len(Chain)] /\ el[head.last].n = NoKey

\* prev is the inverse of next (the first element points to itself)
Inv_C39_list_prev ==
    \A i \in 1..Len(Chain) : el[Chain[i]].p = (IF i = 1 THEN Chain[1] ELSE Chain[i - 1])

\* the last-jailed marker is empty or an element of the list
Inv_C39_list_lastjailed == head.lj = NoKey \/ head.lj \in ChainSet

\* the list holds exactly the registered keys marked waiting
Inv_C39_keys == ChainSet = {k \in Keys : reg[k].r /\ reg[k].w}

\* the counter is the number of keys marked staked
Inv_C39_count == cfg.staked = Cardinality({k \in Keys : reg[k].r /\ reg[k].s})

\* ... and does not exceed the maximum unless the maximum was lowered / the excess was requested by the caller
Inv_C39_max == cfg.staked <= cfg.max \/ waived

\* the same, excused after the named deviation (its consequences: orphaned elements, wrong length)
M_list_chain      == tainted \/ Inv_C39_list_chain
M_list_prev       == tainted \/ Inv_C39_list_prev
M_list_lastjailed == tainted \/ Inv_C39_list_lastjailed
M_keys            == tainted \/ Inv_C39_keys

TypeOK ==
    /\ DOMAIN reg = Keys /\ DOMAIN el = Keys
    /\ \A k \in Keys : ~reg[k].r => reg[k] = DefaultReg
    /\ \A k \in Keys : ~(reg[k].s /\ reg[k].w)
=============================================================================
