---- MODULE Trace_Staking ----
(* Trace validation: trace.ndjson holds operation sequences executed on the REAL staking contract with the     *)
(* state read back from its storage after every call.  Strict mode (TraceSpec): every event must be the         *)
(* specification's action with the logged result and state; observation mode (ObsSpec): the logged states are   *)
(* only observed.  In both the C39 invariants are evaluated by TLC on every observed state.                      *)
(* After the named deviation (stale PreviousKey after a front insert) has been observed, the rest of that trace  *)
(* is only observed and the list/keys invariants are excused (the M_ variants), count and max stay.          *)
EXTENDS Staking, Json, TLCExt
LogLast(h, r) == <<r>>
Either == {TRUE, FALSE}
StalePrevDefect == {"StalePrev"}
TLog == ndJsonDeserialize("trace.ndjson")
VARIABLE l
tvars == <<vars, l>>
Ev == TLog[l]
IsEvent(name) == l <= Len(TLog) /\ Ev.a = name /\ l' = l + 1
Matches == hist'[1].out.ok = Ev.out.ok /\ hist'[1].st = Ev.st
\* reported once per trace, only when the observed state is the deviation's state and the property is false on it
Mark == (tainted' /\ ~tainted /\ ~Inv_C39_list_prev') => PrintT("@@KD" \o ToString(l) \o " 1")

TraceInit ==
    /\ l = 1 /\ hist = <<>>
    /\ conf = [enable |-> TRUE, v2 |-> TRUE, clu |-> TRUE, cmin |-> 1, cmax |-> 1, ubp |-> FALSE, own |-> [k \in Keys |-> ""]]
    /\ reg = [k \in Keys |-> DefaultReg] /\ peer = [k \in Keys |-> "none"] /\ head = EmptyHead
    /\ el = [k \in Keys |-> NoEl] /\ cfg = [staked |-> 0, jailed |-> 0, min |-> 1, max |-> 1]
    /\ funds = [o \in Owners |-> -1] /\ waived = FALSE /\ tainted = FALSE

TNew ==
    /\ IsEvent("New")
    /\ conf' = Ev.in
    /\ reg' = [k \in Keys |-> DefaultReg] /\ peer' = [k \in Keys |-> "none"] /\ head' = EmptyHead
    /\ el' = [k \in Keys |-> NoEl] /\ cfg' = [staked |-> 0, jailed |-> 0, min |-> Ev.in.cmin, max |-> Ev.in.cmax]
    /\ funds' = [o \in Owners |-> -1] /\ waived' = FALSE /\ tainted' = FALSE
    /\ hist' = <<[a |-> "New", in |-> Ev.in, out |-> Ev.out, st |-> Ev.st]>>
    /\ Ev.st = [reg |-> reg', head |-> head', el |-> el', cfg |-> cfg']

Strict ==
    \/ IsEvent("Stake") /\ Stake(Ev.in.k, Ev.in.auth, Ev.in.reg)
    \/ IsEvent("UnStake") /\ UnStake(Ev.in.k, Ev.in.auth, Ev.in.rok)
    \/ IsEvent("UnBond") /\ UnBond(Ev.in.k, Ev.in.auth)
    \/ IsEvent("Jail") /\ Jail(Ev.in.k, Ev.in.auth)
    \/ IsEvent("UnJail") /\ \E fx \in BOOLEAN : UnJail(Ev.in.k, Ev.in.auth, fx)
    \/ IsEvent("Switch") /\ Switch(Ev.in.k, Ev.in.auth)
    \/ IsEvent("UnStakeEoE") /\ UnStakeEoE(Ev.in.k, Ev.in.auth)
    \/ IsEvent("StakeFromQueue") /\ StakeFromQueue(Ev.in.n, Ev.in.auth)
    \/ IsEvent("CleanQueue") /\ CleanQueue(Ev.in.auth)
    \/ IsEvent("ResetLastUnJailed") /\ ResetLastUnJailed(Ev.in.auth)
    \/ IsEvent("UpdateMax") /\ UpdateMax(Ev.in.n, Ev.in.auth)
    \/ IsEvent("UpdateMin") /\ UpdateMin(Ev.in.n, Ev.in.auth)
    \/ IsEvent("Elapse") /\ Elapse
    \/ IsEvent("SetPeer") /\ SetPeer(Ev.in.k, Ev.in.s)
    \/ IsEvent("SetFunds") /\ SetFunds(Ev.in.o, Ev.in.q)

\* observation only: the state becomes what was logged; history variables are derived from the event alone
ForcedObs ==
    \/ Ev.a = "UpdateMax" /\ Ev.out.ok /\ Ev.in.n < cfg.max
    \/ Ev.a = "StakeFromQueue" /\ Ev.out.ok /\ Ev.in.n > cfg.max - cfg.staked
\* the shape of the named deviation, also when several keys are unjailed by one transaction (intermediate states are
\* not observed): a key that was not queued is now the first element, directly in front of an element whose PreviousKey
\* points to itself
StaleShape ==
    /\ Ev.a \in {"UnJail", "VUnJail"} /\ Ev.out.ok
    /\ LET nf == Ev.st.head.first IN
       /\ nf \in Keys /\ ~el[nf].in /\ Ev.st.el[nf].in
       /\ LET of == Ev.st.el[nf].n IN of \in Keys /\ Ev.st.el[of].in /\ Ev.st.el[of].p = of
Obs ==
    /\ l <= Len(TLog) /\ Ev.a # "New" /\ l' = l + 1
    /\ reg' = Ev.st.reg /\ head' = Ev.st.head /\ el' = Ev.st.el /\ cfg' = Ev.st.cfg
    /\ peer' = IF Ev.a = "SetPeer" THEN [peer EXCEPT ![Ev.in.k] = Ev.in.s] ELSE peer
    /\ funds' = IF Ev.a = "SetFunds" THEN [funds EXCEPT ![Ev.in.o] = Ev.in.q] ELSE funds
    /\ conf' = conf
    /\ tainted' = (tainted \/ StaleShape)
    /\ waived' = ((waived \/ ForcedObs) /\ cfg'.staked > cfg'.max)
    /\ hist' = <<[a |-> Ev.a, in |-> Ev.in, out |-> Ev.out, st |-> Ev.st]>>

TraceNext == TNew \/ (~tainted /\ Strict /\ Matches /\ Mark) \/ (tainted /\ Obs)
TraceSpec == TraceInit /\ [][TraceNext]_tvars

ObsNext == TNew \/ (Obs /\ Mark)
ObsSpec == TraceInit /\ [][ObsNext]_tvars

HighWater == TLCSet(1, IF l > TLCGet(1) THEN l ELSE TLCGet(1))
Accepted  == IF TLCGet(1) = Len(TLog) + 1 THEN TRUE ELSE PrintT("@@HW " \o ToString(TLCGet(1))) /\ FALSE
ASSUME TLCSet(1, 0)
====
