---- MODULE MC_Staking ----
(* Exhaustive / behaviour-export configurations of Staking.  Constant sets that a .cfg cannot express  *)
(* (records, tuples) are defined here and selected with `<-`.                                          *)
EXTENDS Staking, Json
CONSTANT Depth

LogAppend(h, r) == Append(h, r)
LogLast(h, r) == <<r>>
LogNone(h, r) == <<>>      \* exhaustive checking: the observation record is never built (TLC evaluates arguments lazily)
\* transition cover: only the last record keeps its projected state (every prefix is the last step of another behaviour)
LogSlim(h, r) == IF Len(h) = 0 THEN <<r>> ELSE Append([h EXCEPT ![Len(h)] = [a |-> @.a, in |-> @.in, out |-> @.out]], r)

MCOwn == [k \in Keys |-> IF k \in {"a", "c", "e", "g"} THEN "o1" ELSE "o2"]
T == TRUE
F == FALSE
\* <<stakeEnable, stakingV2, correctLastUnjailed>>: the historical activation order + the two "odd" combinations
FlagsHist == {<<F, F, F>>, <<T, F, F>>, <<T, T, F>>, <<T, T, T>>}
FlagsAll  == {<<a, b, c>> : a, b, c \in BOOLEAN}
FlagsOn   == {<<T, T, T>>}
FlagsOnOff == {<<T, T, T>>, <<T, T, F>>}
MkConfs(flags, minmax, ubps) ==
    {[enable |-> f[1], v2 |-> f[2], clu |-> f[3], cmin |-> mm[1], cmax |-> mm[2], ubp |-> u, own |-> MCOwn] :
        f \in flags, mm \in minmax, u \in ubps}

ConfsTiny   == MkConfs(FlagsOn, {<<1, 1>>}, {F})
ConfsSmall  == MkConfs(FlagsOnOff, {<<1, 1>>, <<1, 2>>}, {F})
ConfsOnOff1 == MkConfs(FlagsOnOff, {<<1, 1>>}, {F})
ConfsHist   == MkConfs(FlagsHist, {<<1, 1>>, <<1, 2>>}, {F})
ConfsMedium == MkConfs(FlagsHist, {<<1, 1>>, <<1, 2>>, <<2, 2>>}, {T})
ConfsFull   == MkConfs(FlagsAll, {<<1, 1>>, <<1, 2>>, <<2, 2>>, <<2, 3>>}, {T, F})

FundsA == {-1, 1}
FundsB == {-1, 0, 1, 2}
FundsNone == {-1}
NoDefects == {}
StalePrevDefect == {"StalePrev"}
CodeAsIs == {FALSE}       \* the front insert never repairs the old first element (the code as it is)
Either == {TRUE, FALSE}

\* behaviour export: one behaviour per transition of the abstract state graph (see specs/CapLRU)
GenNext  == Len(hist) < Depth /\ NextUntainted
GenSpec  == Init /\ [][GenNext]_vars
EmitEdge == PrintT("@@B " \o ToJson(hist'))
\* simulation: one complete behaviour per walk (TLC evaluates the constraint on every candidate successor of the
\* last state; register 3 remembers the prefix already printed).  A walk also ends where the deviation happens.
EmitFull == (Len(hist') = Depth \/ tainted') =>
               (IF TLCGet(3) = SubSeq(hist', 1, Len(hist') - 1) THEN TRUE
                ELSE TLCSet(3, SubSeq(hist', 1, Len(hist') - 1)) /\ PrintT("@@B " \o ToJson(hist')))
ASSUME TLCSet(3, <<>>)
====
