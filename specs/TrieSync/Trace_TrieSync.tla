---- MODULE Trace_TrieSync ----
(* Trace validation: trace.ndjson holds runs of the REAL syncers, one event per interaction of the syncer     *)
(* with its environment (Get = getNodeFromStorage lookup, Put = DB commit, Request = RequestTrieNodes with    *)
(* the frontier read through the verif hook, Return = StartSyncing returned) and one per environment action  *)
(* (Deliver = bytes pushed through the real interceptor, Evict).  A trace is accepted iff it is a behaviour  *)
(* of TrieSync: every event is explained by the action of the specification that models that code path,     *)
(* with the logged arguments and results; internal steps (loop ends, hard cap, ...) are found by TLC.        *)
(* The C05 invariants are evaluated on every state.  Many traces are concatenated; "New" starts each one.   *)
EXTENDS TrieSync, Json, TLCExt
\* an event always changes hist (two equal consecutive events would otherwise look like an internal step)
LogFlip(h, r) == <<r, IF Len(h) >= 2 /\ h[2] = 0 THEN 1 ELSE 0>>
TLog == ndJsonDeserialize("trace.ndjson")
VARIABLE l
tvars == <<vars, l>>
E == TLog[l]
ToSet(s) == {s[i] : i \in 1..Len(s)}
More == l <= Len(TLog)
NoInitDBs(s) == {}

TraceInit ==
    /\ l = 1
    /\ cfg = [name |-> "", ch |-> <<>>, root |-> 0, cap |-> 1, algo |-> "", faults |-> {}, target |-> {}]
    /\ db = EmptyF /\ cache = EmptyF /\ pending = {} /\ avail = {} /\ budget = 0
    /\ pc = "none" /\ result = "none" /\ rec = "na"
    /\ missing = {} /\ existing = EmptyF /\ todo = {} /\ may = {} /\ cur = NoCur
    /\ checked = {} /\ newMissing = {} /\ newEl = FALSE /\ retry = FALSE /\ hist = <<>>

NewCfg == [name |-> E.in.shape.name, ch |-> E.in.shape.ch, root |-> E.in.shape.root, cap |-> E.in.cap,
           algo |-> E.in.algo, faults |-> ToSet(E.in.faults), target |-> Reach(E.in.shape.ch, E.in.shape.root)]

TNew ==
    /\ More /\ E.a = "New" /\ l' = l + 1
    /\ cfg' = NewCfg
    /\ db' = [k \in ToSet(E.in.db0) |-> k] /\ avail' = ToSet(E.in.db0)
    /\ cache' = EmptyF /\ pending' = {} /\ budget' = 1000000
    /\ pc' = "start" /\ result' = "running" /\ rec' = "na"
    /\ missing' = {} /\ existing' = EmptyF /\ todo' = {} /\ may' = {} /\ cur' = NoCur
    /\ checked' = {} /\ newMissing' = {} /\ newEl' = FALSE /\ retry' = FALSE
    /\ hist' = <<[a |-> "New"], 0>>

R == hist'[1]
Candidates ==
    CASE E.a = "Get"     -> D_PMGet(E.in.h) \/ S_Pick(E.in.h) \/ D_Load \/ S_Load
      [] E.a = "Put"     -> D_PEPick(E.in.k) \/ S_Commit
      [] E.a = "Request" -> D_Request \/ S_Request
      [] E.a = "Return"  -> D_Decide \/ S_Decide \/ Cancel \/ S_Timeout
      [] E.a = "Deliver" -> IF E.in.x \in pending THEN DeliverHonest(E.in.x) ELSE DeliverAdv(E.in.x)
      [] E.a = "Evict"   -> Evict(E.in.h)
      [] E.a = "Store"   -> OtherStore(E.in.k, E.out.c)
      [] OTHER           -> FALSE
Matches ==
    /\ hist' # hist /\ R.a = E.a
    /\ CASE E.a = "Get"     -> R.in.h = E.in.h /\ R.out.src = E.out.src
         [] E.a = "Put"     -> R.in.k = E.in.k /\ R.out.c = E.out.c
         [] E.a = "Request" -> /\ R.in.hs = ToSet(E.in.hs)
                               /\ R.out.missing = ToSet(E.out.missing) /\ R.out.existing = ToSet(E.out.existing)
         [] E.a = "Return"  -> R.out.res = E.out.res /\ R.out.rec = E.out.rec /\ R.out.dbkeys = ToSet(E.out.dbkeys)
         [] E.a = "Deliver" -> R.in.x = E.in.x /\ R.out.acc = E.out.acc /\ R.out.key = E.out.key
         [] E.a = "Evict"   -> R.in.h = E.in.h
         [] E.a = "Store"   -> R.in.k = E.in.k /\ R.out.c = E.out.c
         [] OTHER           -> FALSE
TEvent == More /\ E.a # "New" /\ l' = l + 1 /\ Candidates /\ Matches
TInternal ==
    /\ l' = l
    /\ SyncerInternal \/ (\E e \in todo \cup may : S_Pick(e)) \/ D_Decide \/ S_Decide
    /\ hist' = hist
TraceNext == TNew \/ TEvent \/ TInternal
TraceSpec == TraceInit /\ [][TraceNext]_tvars

(* observation-only variant: no action guard, only the observed part of the state is updated, so that the   *)
(* invariants are evaluated on ALL observed states even when the strict pass stops at a divergence          *)
TObs ==
    /\ More /\ E.a # "New" /\ l' = l + 1
    /\ avail' = IF E.a = "Deliver" /\ E.out.acc THEN avail \cup {E.out.key}
              ELSE IF E.a = "Store" THEN avail \cup {E.out.c} ELSE avail
    /\ db' = IF E.a \in {"Put", "Store"} THEN (E.in.k :> E.out.c) @@ db ELSE db
    /\ result' = IF E.a = "Return" THEN E.out.res ELSE result
    /\ rec' = IF E.a = "Return" THEN E.out.rec ELSE rec
    /\ UNCHANGED <<cfg, cache, pending, budget, pc, missing, existing, todo, may, cur, checked, newMissing, newEl,
                   retry, hist>>
ObsSpec == TraceInit /\ [][TNew \/ TObs]_tvars

\* high-water mark of consumed lines (register 1), needs -workers 1
HighWater == TLCSet(1, IF l > TLCGet(1) THEN l ELSE TLCGet(1))
Accepted  == IF TLCGet(1) = Len(TLog) + 1 THEN TRUE ELSE PrintT("@@HW " \o ToString(TLCGet(1))) /\ FALSE
ASSUME TLCSet(1, 0)
====
