SPECIFICATION Spec
CONSTANTS
  Shapes <- MCShapes
  ShapeNames = {"leaf", "branch2", "dupleaf", "ext", "slot16"}
  Caps = {1, 3}
  Algos = {"double", "single"}
  FaultSets = {{"lazy", "cancel", "timeout"}}
  Budgets = {0}
  InitDBs <- MCInitDBs
  Threats = {}
  Log <- LogLast
  Depth = 0
VIEW cvars
INVARIANTS TypeOK Inv_C05_Complete Inv_C05_OwnHash Inv_C05_Recreate Inv_C05_Avail Inv_C05_CacheOwnHash Inv_C05_Frontier
PROPERTIES Act_C05_WriteOwnHash
CHECK_DEADLOCK FALSE
