SPECIFICATION Spec
CONSTANTS
  Shapes <- MCShapes
  ShapeNames = {"branch2"}
  Caps = {1, 3}
  Algos = {"double", "single"}
  FaultSets = {{"cancel", "timeout", "evict", "lose"}}
  Budgets = {1}
  InitDBs <- MCInitDBs
  Threats = {}
  Log <- LogLast
  Depth = 0
VIEW cvars
INVARIANTS TypeOK Inv_C05_Complete Inv_C05_OwnHash Inv_C05_Recreate Inv_C05_Avail Inv_C05_CacheOwnHash
PROPERTIES Act_C05_WriteOwnHash
CHECK_DEADLOCK FALSE
