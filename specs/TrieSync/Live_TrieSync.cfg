SPECIFICATION LiveSpec
CONSTANTS
  Shapes <- MCShapes
  ShapeNames = {"branch2", "dupleaf"}
  Caps = {1}
  Algos = {"double"}
  FaultSets = {{"evict", "lose"}}
  Budgets = {1}
  InitDBs <- MCInitDBs
  Threats = {}
  Log <- LogLast
  Depth = 0
PROPERTIES Live_C05_Completes
CHECK_DEADLOCK FALSE
