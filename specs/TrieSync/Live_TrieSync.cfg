SPECIFICATION LiveSpec
CONSTANTS
  Shapes <- MCShapes
  ShapeNames = {"leaf", "branch2", "slot16"}
  Caps = {1}
  Algos = {"double", "single"}
  FaultSets = {{"evict", "lose"}}
  Budgets = {1}
  InitDBs <- MCInitDBs
  Threats = {}
  Log <- LogLast
  Depth = 0
PROPERTIES Live_C05_Completes
CHECK_DEADLOCK FALSE
