SPECIFICATION TraceSpec
CONSTANTS
  Shapes = {}
  Caps = {}
  Algos = {}
  FaultSets = {}
  Budgets = {}
  InitDBs <- NoInitDBs
  Threats = {}
  Log <- LogFlip
CONSTRAINT HighWater
INVARIANTS Inv_C05_Complete Inv_C05_OwnHash Inv_C05_Recreate Inv_C05_Avail
POSTCONDITION Accepted
CHECK_DEADLOCK FALSE
