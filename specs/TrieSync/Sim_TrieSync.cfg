SPECIFICATION GenSpec
CONSTANTS
  Shapes <- MCShapes
  ShapeNames = {"leaf", "branch2", "ext", "dupleaf", "deep", "cap", "wide", "slot16"}
  Caps = {1, 2, 3}
  Algos = {"double", "single"}
  FaultSets = {{"evict", "lose"}, {"cancel", "evict", "lose"}}
  Budgets = {2, 4, 8}
  InitDBs <- MCInitDBs
  Threats = {}
  Log <- LogAppend
  Depth = 140
ACTION_CONSTRAINT EmitFull
CHECK_DEADLOCK FALSE
