------------------------------ MODULE TrieSync ------------------------------
(***************************************************************************)
(* State-trie synchronisation (property C05).                               *)
(*                                                                          *)
(* Models, action by action, the two syncers of elrond-go                   *)
(*   data/trie/doubleListSync.go  (doubleListTrieSyncer)   algo = "double"  *)
(*   data/trie/sync.go            (trieSyncer)             algo = "single"  *)
(* together with their environment: the intercepted-nodes cache that the    *)
(* network interceptor fills (NewInterceptedTrieNode + CheckValidity +      *)
(* TrieNodeInterceptorProcessor.Save: key = hash of the decoded content),   *)
(* the destination DB, honest peers answering requests and an adversary     *)
(* that delivers anything at any time (duplicates, nodes of other tries,    *)
(* forged nodes, undecodable bytes), evicts cache entries, loses answers.   *)
(*                                                                          *)
(* Nodes are the integers 1..N; the hash function is ideal (injective):     *)
(* the hash of node content c is c itself.  0 stands for "bytes that are    *)
(* not a valid node" (as input) and for "content that hashes to none of     *)
(* the known nodes" (as a DB value).  cfg.ch[n] is the sequence of child    *)
(* hashes of node n (with repetitions: a branch may hold two identical      *)
(* leaves), cfg.root the hash StartSyncing is called with.                  *)
(*                                                                          *)
(* One syncer step = one interaction of the code with its environment       *)
(* (cache/DB lookup of getNodeFromStorage, DB commit, RequestTrieNodes,     *)
(* return) or one internal decision (loop ends, hard cap `break`, ...).     *)
(* Go map iteration with insertions is modelled by todo/may: entries        *)
(* present when the range starts must be produced unless deleted, entries   *)
(* inserted during the range may or may not be produced.                    *)
(***************************************************************************)
EXTENDS Integers, Sequences, FiniteSets, TLC

CONSTANTS Shapes,      \* set of records [name, ch, root, ...]: the node DAGs (target trie + other nodes)
          Caps,        \* candidate values of MaxHardCapForMissingNodes (>= 1)
          Algos,       \* subset of {"double", "single"}
          FaultSets,   \* candidate environment option sets, subsets of {"cancel", "timeout", "evict", "lose", "batch", "shared", "lazy"}
          Budgets,     \* candidate numbers of adversary moves
          InitDBs(_),  \* shape -> set of initial DB key sets (resumption with a partially filled DB)
          Threats,     \* {} or {"poison"}: cache entries written under a key that is not the hash of the content
          Log(_, _)    \* observation variable: Append (behaviour export) or keep-last

VARIABLES cfg,         \* [name, ch, root, cap, algo, faults] chosen in Init
          db,          \* destination DB: key -> content stored under it
          cache,       \* intercepted nodes cache: key -> content
          pending,     \* hashes requested from honest peers, answer not yet delivered ("net")
          avail,       \* history: contents that ever were in the initial DB or put into the cache
          budget,      \* remaining adversary moves
          pc, result,  \* control point of StartSyncing; "running" | "ok" | "cancelled" | "timeout"
          rec,         \* "na" | "ok" | "bad": outcome of re-creating the trie from the DB alone after "ok"
          missing,     \* double: missingHashes.  single: keys of nodesForTrie with received = false
          existing,    \* double: existingNodes, single: received entries of nodesForTrie.
                       \*   own hash of the in-memory node -> "children attached to it all have the hash the node names"
          todo, may,   \* map-iteration bookkeeping of the running range loop
          cur,         \* element being processed: [h, c, i, miss, found, clean]
          checked, newMissing, newEl, retry,   \* locals of trieSyncer.checkIfSynced
          hist         \* observation only

cvars == <<cfg, db, cache, pending, avail, budget, pc, result, rec, missing, existing, todo, may, cur,
           checked, newMissing, newEl, retry>>
vars  == <<cvars, hist>>

-----------------------------------------------------------------------------
(* the node DAG *)
N        == Len(cfg.ch)
Ids      == 1..N
Kids(c)  == IF c \in Ids THEN cfg.ch[c] ELSE <<>>
Range(s) == {s[i] : i \in 1..Len(s)}
Restrict(f, S) == [x \in S |-> f[x]]
Without(f, S)  == [x \in DOMAIN f \ S |-> f[x]]
AllTrue(S) == [x \in S |-> TRUE]
EmptyF == [x \in {} |-> TRUE]

RECURSIVE ReachFrom(_, _, _)
ReachFrom(ch, front, seen) ==
    IF front = {} THEN seen
    ELSE LET nxt == UNION {Range(ch[n]) : n \in front} \ seen IN ReachFrom(ch, nxt, seen \cup nxt)
Reach(ch, r) == ReachFrom(ch, {r}, {r})
Target   == cfg.target        \* = Reach(cfg.ch, cfg.root), computed once in Init

\* re-create the trie from the DB alone: follow the stored contents from the root
RECURSIVE RecWalk(_, _)
RecWalk(front, seen) ==
    IF front = {} THEN TRUE
    ELSE IF \E k \in front : k \notin DOMAIN db \/ db[k] # k THEN FALSE
    ELSE LET nxt == UNION {Range(Kids(db[k])) : k \in front} \ seen IN RecWalk(nxt, seen \cup nxt)
RecreateOK == RecWalk({cfg.root}, {cfg.root})

\* what encodeNodeAndCommitToDB writes for in-memory node c: its collapsed encoding, in which the hashes of
\* attached children are the attached nodes' own hashes
Content(c, clean) == IF clean THEN c ELSE 0

\* getNodeFromStorage(h): cache first (the entry is removed), then the DB
Lookup(h) == IF h \in DOMAIN cache THEN [src |-> "cache", c |-> cache[h]]
             ELSE IF h \in DOMAIN db THEN [src |-> "db", c |-> db[h]]
             ELSE [src |-> "miss", c |-> 0]
CacheAfter(h) == Without(cache, {h})

\* Environment option "lazy" (exhaustive safety checking): the cache and the network are not represented; instead
\* every lookup may hit (the adversary, who can send any valid node at any time, has just delivered the node whose
\* hash is asked for) or fall through to the DB (not delivered / evicted).  For safety this covers EVERY delivery
\* schedule of valid nodes -- delays, duplicates, reordering, evictions, unlimited in number -- because the syncers
\* observe their environment only through these lookups and nodes of other hashes are never looked up.
Lazy == "lazy" \in cfg.faults
StoreOnly(h) == IF h \in DOMAIN db THEN [src |-> "db", c |-> db[h]] ELSE [src |-> "miss", c |-> 0]
Lookups(h) ==
    IF Lazy THEN {StoreOnly(h)} \cup (IF h \in Ids THEN {[src |-> "cache", c |-> h]} ELSE {})
                \cup (IF "poison" \in Threats THEN {[src |-> "cache", c |-> x] : x \in Ids} ELSE {})
    ELSE {Lookup(h)}
\* effect of lookup result r for hash h on the cache (the entry is removed) and on the availability history
LookupEffect(h, r) ==
    /\ cache' = IF r.src = "cache" /\ ~Lazy THEN CacheAfter(h) ELSE cache
    /\ avail' = IF r.src = "cache" /\ Lazy THEN avail \cup {r.c} ELSE avail

NoCur == [h |-> 0, c |-> 0, i |-> 0, miss |-> <<>>, found |-> <<>>, clean |-> TRUE]
Ev(a, in, out) == [a |-> a, in |-> in, out |-> out]
Note(r) == hist' = Log(hist, r)

-----------------------------------------------------------------------------
Init ==
    /\ \E s \in Shapes, c \in Caps, a \in Algos, f \in FaultSets :
         /\ cfg = [name |-> s.name, ch |-> s.ch, root |-> s.root, cap |-> c, algo |-> a, faults |-> f,
                 target |-> Reach(s.ch, s.root)]
         /\ \E d \in InitDBs(s) :
              /\ db = [k \in d |-> k] /\ avail = d
              /\ hist = <<Ev("New", [shape |-> s, cap |-> c, algo |-> a, faults |-> f, db0 |-> d], [x |-> 0])>>
    /\ budget \in Budgets
    /\ cache = EmptyF /\ pending = {}
    /\ pc = "start" /\ result = "running" /\ rec = "na"
    /\ missing = {} /\ existing = EmptyF /\ todo = {} /\ may = {} /\ cur = NoCur
    /\ checked = {} /\ newMissing = {} /\ newEl = FALSE /\ retry = FALSE

Running == result = "running"
envUnch  == UNCHANGED <<cfg, db, pending, avail, budget, result, rec>>
envUnchL == UNCHANGED <<cfg, db, pending, budget, result, rec>>       \* for steps that do a lookup
syncUnch == UNCHANGED <<cfg, db, pc, result, rec, missing, existing, todo, may, cur, checked, newMissing, newEl, retry>>
singleLocalsUnch == UNCHANGED <<checked, newMissing, newEl, retry>>

-----------------------------------------------------------------------------
(* Environment: network, interceptor, cache *)

\* bytes x go through the interceptor: NewInterceptedTrieNode + CheckValidity accept exactly the valid nodes and
\* the processor stores them under the hash of their content
Intercept(x) ==
    /\ cache' = IF x \in Ids THEN (x :> x) @@ cache ELSE cache
    /\ avail' = IF x \in Ids THEN avail \cup {x} ELSE avail
    /\ Note(Ev("Deliver", [x |-> x], [acc |-> x \in Ids, key |-> IF x \in Ids THEN x ELSE 0]))

\* an honest peer answers a request
DeliverHonest(h) ==
    /\ Running /\ ~Lazy /\ h \in pending /\ "batch" \notin cfg.faults
    /\ Intercept(h) /\ pending' = pending \ {h}
    /\ UNCHANGED budget /\ syncUnch

\* network option "batch": honest peers answer a whole request at once (one message carrying all the nodes)
RECURSIVE LogAll(_, _)
LogAll(h, S) == IF S = {} THEN h
                ELSE LET x == CHOOSE y \in S : \A z \in S : y <= z IN
                     LogAll(Log(h, Ev("Deliver", [x |-> x], [acc |-> TRUE, key |-> x])), S \ {x})
DeliverAllHonest ==
    /\ Running /\ ~Lazy /\ "batch" \in cfg.faults /\ pending # {}
    /\ cache' = [x \in pending |-> x] @@ cache
    /\ avail' = avail \cup pending
    /\ hist' = LogAll(hist, pending)
    /\ pending' = {} /\ UNCHANGED budget /\ syncUnch

\* the adversary sends any bytes at any time: x = 0 invalid/undecodable, otherwise any valid node (a node of the
\* target trie that was or was not requested, a duplicate, a node of another trie, a forged variant)
DeliverAdv(x) ==
    /\ Running /\ ~Lazy /\ budget > 0 /\ budget' = budget - 1
    /\ Intercept(x) /\ UNCHANGED pending /\ syncUnch

\* an answer is lost (the syncer repeats its requests)
Lose(h) ==
    /\ Running /\ ~Lazy /\ "lose" \in cfg.faults /\ budget > 0 /\ budget' = budget - 1
    /\ h \in pending /\ pending' = pending \ {h}
    /\ UNCHANGED <<cache, avail, hist>> /\ syncUnch

\* the (bounded) cache evicts an entry
Evict(h) ==
    /\ Running /\ ~Lazy /\ "evict" \in cfg.faults /\ budget > 0 /\ budget' = budget - 1
    /\ h \in DOMAIN cache /\ cache' = Without(cache, {h})
    /\ Note(Ev("Evict", [h |-> h], [x |-> 0]))
    /\ UNCHANGED <<pending, avail>> /\ syncUnch

\* option "shared": another syncer works on the same DB (userAccountsSyncer runs one syncer per data trie on one
\* storage and one cache) and stores a node -- under its own hash, it obeys the same discipline.  Its cache
\* removals are Evict steps.
OtherStore(k, c) ==
    /\ Running /\ ~Lazy /\ "shared" \in cfg.faults /\ budget > 0 /\ budget' = budget - 1
    /\ db' = (k :> c) @@ db /\ avail' = avail \cup {c}
    /\ Note(Ev("Store", [k |-> k], [c |-> c]))
    /\ UNCHANGED <<cfg, cache, pending, pc, result, rec, missing, existing, todo, may, cur, checked, newMissing, newEl, retry>>

\* THREAT (not a behaviour of the real interceptor): content x is stored under another key.  Used to show that
\* the invariants below are sensitive to exactly the mechanism the property names.
Poison(k, x) ==
    /\ Running /\ ~Lazy /\ "poison" \in Threats /\ budget > 0 /\ budget' = budget - 1
    /\ k \in Ids /\ x \in Ids /\ k # x
    /\ cache' = (k :> x) @@ cache /\ avail' = avail \cup {x}
    /\ Note(Ev("Poison", [k |-> k, x |-> x], [x |-> 0]))
    /\ UNCHANGED pending /\ syncUnch

Request(hs) ==
    /\ pending' = IF Lazy THEN pending ELSE pending \cup (hs \cap Target)      \* honest peers hold the requested trie
    /\ Note(Ev("Request", [hs |-> hs], [missing |-> missing, existing |-> DOMAIN existing]))

Return(res) ==
    /\ result' = res
    /\ rec' = IF res = "ok" THEN (IF RecreateOK THEN "ok" ELSE "bad") ELSE "na"
    /\ Note(Ev("Return", [x |-> 0], [res |-> res, rec |-> rec', dbkeys |-> DOMAIN db]))

-----------------------------------------------------------------------------
(* doubleListTrieSyncer *)

\* StartSyncing: missingHashes = {root}, existingNodes = {}
D_Start ==
    /\ Running /\ pc = "start" /\ cfg.algo = "double"
    /\ missing' = {cfg.root} /\ existing' = EmptyF
    /\ pc' = "d_pm" /\ todo' = {cfg.root} /\ may' = {}
    /\ UNCHANGED <<cache, cur, hist>> /\ envUnch /\ singleLocalsUnch

\* processMissingHashes: one iteration of `for hash := range d.missingHashes`
D_PMGet(h) ==
    /\ Running /\ pc = "d_pm" /\ h \in todo
    /\ \E r \in Lookups(h) :
       /\ todo' = todo \ {h}
       /\ IF r.src = "miss"
          THEN UNCHANGED <<missing, existing>>
          ELSE /\ missing' = missing \ {h}
               /\ existing' = (r.c :> TRUE) @@ existing        \* keyed by n.getHash(), a fresh node
       /\ LookupEffect(h, r)
       /\ Note(Ev("Get", [h |-> h], [src |-> r.src]))
    /\ UNCHANGED <<pc, may, cur>> /\ envUnchL /\ singleLocalsUnch

D_PMEnd ==
    /\ Running /\ pc = "d_pm" /\ todo = {}
    /\ pc' = "d_pe" /\ todo' = DOMAIN existing /\ may' = {}
    /\ UNCHANGED <<cache, missing, existing, cur, hist>> /\ envUnch /\ singleLocalsUnch

\* processExistingNodes: the range produces element e; it is committed to the DB under its own hash
D_PEPick(e) ==
    /\ Running /\ pc = "d_pe" /\ e \in (todo \cup may) \cap DOMAIN existing
    /\ db' = (e :> Content(e, existing[e])) @@ db
    /\ Note(Ev("Put", [k |-> e], [c |-> Content(e, existing[e])]))
    /\ cur' = [h |-> e, c |-> e, i |-> 1, miss |-> <<>>, found |-> <<>>, clean |-> existing[e]]
    /\ todo' = todo \ {e} /\ may' = may \ {e} /\ pc' = "d_ld"
    /\ UNCHANGED <<cfg, cache, pending, avail, budget, result, rec, missing, existing>> /\ singleLocalsUnch

\* element.loadChildren(d.getNode): one child
Load(nextpc) ==
    /\ cur.i <= Len(Kids(cur.c))
    /\ LET x == Kids(cur.c)[cur.i] IN
       \E r \in Lookups(x) :
       /\ cur' = [cur EXCEPT !.i = @ + 1,
                             !.miss  = IF r.src = "miss" THEN Append(@, x) ELSE @,
                             !.found = IF r.src = "miss" THEN @ ELSE Append(@, r.c),
                             !.clean = @ /\ (r.src = "miss" \/ r.c = x)]
       /\ LookupEffect(x, r)
       /\ Note(Ev("Get", [h |-> x], [src |-> r.src]))
    /\ pc' = nextpc

D_Load ==
    /\ Running /\ pc = "d_ld" /\ Load("d_ld")
    /\ UNCHANGED <<missing, existing, todo, may>> /\ envUnchL /\ singleLocalsUnch

\* after loadChildren, the hard cap: `if len(missingChildrenHashes) > 0 && len(d.missingHashes) > cap { break }`.
\* The element stays in existingNodes; the children found stay attached to it and nothing else keeps them.
D_LoadDone == Running /\ pc = "d_ld" /\ cur.i > Len(Kids(cur.c))
D_CapHit   == cur.miss # <<>> /\ Cardinality(missing) > cfg.cap
D_HardCap ==
    /\ D_LoadDone /\ D_CapHit
    /\ existing' = [existing EXCEPT ![cur.c] = cur.clean]
    /\ pc' = "d_chk" /\ cur' = NoCur
    /\ UNCHANGED <<missing, may, cache, todo, hist>> /\ envUnch /\ singleLocalsUnch

\* otherwise the element leaves existingNodes, its children found join it, the others join missingHashes
D_Advance ==
    /\ D_LoadDone /\ ~D_CapHit
    /\ LET rest == Without(existing, {cur.h})
           kids == Range(cur.found) IN
       /\ existing' = AllTrue(kids) @@ rest
       /\ missing' = missing \cup Range(cur.miss)
       /\ may' = may \cup (kids \ DOMAIN rest)
    /\ pc' = "d_pe" /\ cur' = NoCur
    /\ UNCHANGED <<cache, todo, hist>> /\ envUnch /\ singleLocalsUnch

\* the range loop ends once every entry that was present at its start has been produced or deleted
D_PEEnd ==
    /\ Running /\ pc = "d_pe" /\ todo \cap DOMAIN existing = {}
    /\ pc' = "d_chk"
    /\ UNCHANGED <<cache, missing, existing, todo, may, cur, hist>> /\ envUnch /\ singleLocalsUnch

\* checkIsSyncedWhileProcessingMissingAndExisting, after processing
D_Request ==
    /\ Running /\ pc = "d_chk" /\ missing # {}
    /\ Request(missing) /\ pc' = "wait"
    /\ UNCHANGED <<cfg, db, cache, avail, budget, result, rec, missing, existing, todo, may, cur>> /\ singleLocalsUnch

D_Decide ==
    /\ Running /\ pc = "d_chk" /\ missing = {}
    /\ IF DOMAIN existing = {}
       THEN Return("ok") /\ UNCHANGED pc
       ELSE pc' = "wait" /\ UNCHANGED <<result, rec, hist>>
    /\ UNCHANGED <<cfg, db, cache, pending, avail, budget, missing, existing, todo, may, cur>> /\ singleLocalsUnch

D_Tick ==
    /\ Running /\ pc = "wait" /\ cfg.algo = "double"
    /\ pc' = "d_pm" /\ todo' = missing /\ may' = {}
    /\ UNCHANGED <<cache, missing, existing, cur, hist>> /\ envUnch /\ singleLocalsUnch

-----------------------------------------------------------------------------
(* trieSyncer: nodesForTrie = missing (not received) + existing (received) *)

NodesForTrie == missing \cup DOMAIN existing

BeginCheck == /\ checked' = {} /\ newMissing' = {} /\ newEl' = TRUE /\ retry' = FALSE /\ pc' = "s_outer"

S_Start ==
    /\ Running /\ pc = "start" /\ cfg.algo = "single"
    /\ missing' = {cfg.root} /\ existing' = EmptyF
    /\ BeginCheck
    /\ UNCHANGED <<cache, todo, may, cur, hist>> /\ envUnch

\* for newElement { newElement = false; for nodeHash, nodeInfo := range ts.nodesForTrie { ...
S_Outer ==
    /\ Running /\ pc = "s_outer"
    /\ IF newEl THEN /\ newEl' = FALSE /\ todo' = NodesForTrie /\ may' = {} /\ pc' = "s_in"
                ELSE /\ pc' = "s_end" /\ UNCHANGED <<newEl, todo, may>>
    /\ UNCHANGED <<cache, missing, existing, cur, checked, newMissing, retry, hist>> /\ envUnch

\* the range produces key h
S_Pick(h) ==
    /\ Running /\ pc = "s_in" /\ h \in (todo \cup may) \cap NodesForTrie
    /\ todo' = todo \ {h} /\ may' = may \ {h}
    /\ IF h \in checked
       THEN UNCHANGED <<pc, cur, checked, cache, avail, hist>>
       ELSE IF h \in DOMAIN existing
       THEN \* received: the node kept in memory
            /\ cur' = [h |-> h, c |-> h, i |-> 1, miss |-> <<>>, found |-> <<>>, clean |-> existing[h]]
            /\ checked' = checked \cup {h} /\ pc' = "s_ld"
            /\ UNCHANGED <<cache, avail, hist>>
       ELSE \E r \in Lookups(h) :
            /\ Note(Ev("Get", [h |-> h], [src |-> r.src]))
            /\ LookupEffect(h, r)
            /\ IF r.src = "miss"
               THEN UNCHANGED <<pc, cur, checked>>
               ELSE /\ cur' = [h |-> h, c |-> r.c, i |-> 1, miss |-> <<>>, found |-> <<>>, clean |-> TRUE]
                    /\ checked' = checked \cup {h} /\ pc' = "s_ld"
    /\ UNCHANGED <<missing, existing, newMissing, newEl, retry>> /\ envUnchL

\* currentNode.loadChildren(ts.getNode): a child that is a received entry of nodesForTrie is taken from memory
S_LoadMem ==
    /\ Running /\ pc = "s_ld" /\ cur.i <= Len(Kids(cur.c))
    /\ Kids(cur.c)[cur.i] \in DOMAIN existing
    /\ cur' = [cur EXCEPT !.i = @ + 1, !.found = Append(@, Kids(cur.c)[cur.i])]
    /\ UNCHANGED <<cache, pc, missing, existing, todo, may, checked, newMissing, newEl, retry, hist>> /\ envUnch

S_Load ==
    /\ Running /\ pc = "s_ld" /\ cur.i <= Len(Kids(cur.c))
    /\ Kids(cur.c)[cur.i] \notin DOMAIN existing
    /\ Load("s_ld")
    /\ UNCHANGED <<missing, existing, todo, may, checked, newMissing, newEl, retry>> /\ envUnchL

\* `for _, hash := range currentMissingNodes { missingNodes[hash]; if len(missingNodes) > cap { hardcap; break } }`
RECURSIVE AddUntilCap(_, _, _)
AddUntilCap(set, s, cap) ==
    IF s = <<>> THEN [set |-> set, hit |-> FALSE]
    ELSE LET s1 == set \cup {Head(s)} IN
         IF Cardinality(s1) > cap THEN [set |-> s1, hit |-> TRUE] ELSE AddUntilCap(s1, Tail(s), cap)

\* addNew(nodes): entries that are absent or not received become received entries under the node's own hash
AddNewKeys(S)  == {y \in S : y \notin DOMAIN existing}
AddNewState(S, flags) ==
    [y \in DOMAIN existing \cup S |-> IF y \in DOMAIN existing THEN existing[y] ELSE flags[y]]

S_LoadDone == Running /\ pc = "s_ld" /\ cur.i > Len(Kids(cur.c))
S_Cap == AddUntilCap(newMissing, cur.miss, cfg.cap)
sLoadUnch == UNCHANGED <<cfg, cache, pending, avail, budget, result, rec, todo, checked>>

\* some children are missing and the hard cap is exceeded: the node just fetched is dropped, the pass ends
S_HardCap ==
    /\ S_LoadDone /\ cur.miss # <<>> /\ S_Cap.hit
    /\ newMissing' = S_Cap.set
    /\ newEl' = FALSE /\ pc' = "s_end" /\ cur' = NoCur
    /\ existing' = IF cur.c \in DOMAIN existing THEN [existing EXCEPT ![cur.c] = cur.clean] ELSE existing
    /\ UNCHANGED <<missing, may, retry, db, hist>> /\ sLoadUnch

\* some children are missing: the node and the children found are kept as received entries (addNew)
S_Partial ==
    /\ S_LoadDone /\ cur.miss # <<>> /\ ~S_Cap.hit
    /\ newMissing' = S_Cap.set
    /\ LET S == Range(cur.found) \cup {cur.c} IN
       /\ existing' = [AddNewState(S, AllTrue(S)) EXCEPT ![cur.c] = cur.clean]
       /\ missing' = missing \ S
       /\ may' = may \cup (S \ NodesForTrie)
    /\ retry' = TRUE
    /\ newEl' = IF Cardinality(S_Cap.set) > 10 THEN FALSE ELSE newEl
    /\ pc' = "s_in" /\ cur' = NoCur
    /\ UNCHANGED <<db, hist>> /\ sLoadUnch

\* all children present: they become received entries, the node leaves the map and is committed to the DB
S_Commit ==
    /\ S_LoadDone /\ cur.miss = <<>>
    /\ LET S == Range(cur.found)
           e1 == AddNewState(S, AllTrue(S)) IN
       /\ existing' = Without(e1, {cur.h})
       /\ missing' = (missing \ S) \ {cur.h}
       /\ may' = (may \cup (S \ NodesForTrie)) \ {cur.h}
       /\ newEl' = (newEl \/ AddNewKeys(S) # {})
    /\ db' = (cur.c :> Content(cur.c, cur.clean)) @@ db
    /\ Note(Ev("Put", [k |-> cur.c], [c |-> Content(cur.c, cur.clean)]))
    /\ pc' = "s_in" /\ cur' = NoCur
    /\ UNCHANGED <<newMissing, retry>> /\ sLoadUnch

S_InEnd ==
    /\ Running /\ pc = "s_in" /\ todo \cap NodesForTrie = {}
    /\ pc' = "s_outer"
    /\ UNCHANGED <<cache, missing, existing, todo, may, cur, checked, newMissing, newEl, retry, hist>> /\ envUnch

\* end of checkIfSynced: watchdog, then the missing hashes collected in this pass become not-received entries
S_End ==
    /\ Running /\ pc = "s_end"
    /\ missing' = missing \cup newMissing
    /\ existing' = Without(existing, newMissing)
    /\ pc' = "s_rq"
    /\ UNCHANGED <<cache, todo, may, cur, checked, newMissing, newEl, retry, hist>> /\ envUnch

S_Timeout ==
    /\ Running /\ pc = "s_end" /\ "timeout" \in cfg.faults
    /\ Return("timeout")
    /\ UNCHANGED <<cfg, db, cache, pending, avail, budget, pc, missing, existing, todo, may, cur,
                   checked, newMissing, newEl, retry>>

\* requestNodes
S_Request ==
    /\ Running /\ pc = "s_rq" /\ missing # {}
    /\ Request(missing) /\ pc' = "s_dec"
    /\ UNCHANGED <<cfg, db, cache, avail, budget, result, rec, missing, existing, todo, may, cur,
                   checked, newMissing, newEl, retry>>

S_Decide ==
    /\ Running /\ (pc = "s_dec" \/ (pc = "s_rq" /\ missing = {}))
    /\ IF ~retry /\ NodesForTrie = {}
       THEN Return("ok") /\ UNCHANGED pc
       ELSE pc' = "wait" /\ UNCHANGED <<result, rec, hist>>
    /\ UNCHANGED <<cfg, db, cache, pending, avail, budget, missing, existing, todo, may, cur,
                   checked, newMissing, newEl, retry>>

S_Tick ==
    /\ Running /\ pc = "wait" /\ cfg.algo = "single"
    /\ BeginCheck
    /\ UNCHANGED <<cache, missing, existing, todo, may, cur, hist>> /\ envUnch

\* ctx.Done() is only looked at while waiting between two iterations
Cancel ==
    /\ Running /\ pc = "wait" /\ "cancel" \in cfg.faults
    /\ Return("cancelled")
    /\ UNCHANGED <<cfg, db, cache, pending, avail, budget, pc, missing, existing, todo, may, cur,
                   checked, newMissing, newEl, retry>>

-----------------------------------------------------------------------------
SyncerEvent ==      \* steps of the syncers that are visible at the cache / DB / request handler / return
    \/ \E h \in todo : D_PMGet(h)
    \/ \E e \in todo \cup may : D_PEPick(e) \/ S_Pick(e)
    \/ D_Load \/ S_Load \/ D_Request \/ S_Request \/ D_Decide \/ S_Decide \/ S_Commit
    \/ Cancel \/ S_Timeout
SyncerInternal ==
    \/ D_Start \/ D_PMEnd \/ D_HardCap \/ D_Advance \/ D_PEEnd \/ D_Tick
    \/ S_Start \/ S_Outer \/ S_LoadMem \/ S_HardCap \/ S_Partial \/ S_InEnd \/ S_End \/ S_Tick
Syncer == SyncerEvent \/ SyncerInternal
Honest == (\E h \in pending : DeliverHonest(h)) \/ DeliverAllHonest
Adversary ==
    \/ \E x \in 0..N : DeliverAdv(x)
    \/ \E h \in pending : Lose(h)
    \/ \E h \in DOMAIN cache : Evict(h)
    \/ \E x \in Ids : OtherStore(x, x)
    \/ \E k \in Ids, x \in Ids : Poison(k, x)
Next == Syncer \/ Honest \/ Adversary

Spec == Init /\ [][Next]_vars
\* fair delivery: honest answers arrive, the syncer keeps running
FairSpec == Spec /\ WF_vars(Syncer) /\ WF_vars(DeliverAllHonest) /\ \A h \in 1..20 : WF_vars(DeliverHonest(h))

-----------------------------------------------------------------------------
(* Properties (C05) *)

TypeOK ==
    /\ DOMAIN db \subseteq Ids /\ DOMAIN cache \subseteq Ids
    /\ missing \subseteq Ids /\ DOMAIN existing \subseteq Ids
    /\ pending \subseteq Target
    /\ result \in {"running", "ok", "cancelled", "timeout"}
    /\ (cfg.algo = "single" => missing \cap DOMAIN existing = {})

\* completing without error means the local storage holds every node reachable from the root
Inv_C05_Complete == result = "ok" => Target \subseteq DOMAIN db

\* a node is only ever used for the hash of its own content: every DB entry is stored under the hash of its value
Inv_C05_OwnHash == \A k \in DOMAIN db : db[k] = k

\* the trie re-created from the DB alone is the source trie (same root hash, same contents)
Inv_C05_Recreate == result = "ok" => rec = "ok"

\* nothing is invented: the sync can only complete if every node of the trie was stored before or delivered
Inv_C05_Avail == result = "ok" => Target \subseteq avail

\* the interceptor stores content only under its own hash (false exactly under the "poison" threat)
Inv_C05_CacheOwnHash == \A k \in DOMAIN cache : cache[k] = k

\* the design insight that makes completeness inductive: while the sync runs, every node of the trie that is not yet
\* stored lies below (or is) a node the syncer still tracks -- a missing hash, an in-memory node, the element being
\* processed with the children just looked up, the missing hashes collected in the running pass
Frontier == missing \cup DOMAIN existing \cup newMissing
            \cup (IF cur = NoCur THEN {} ELSE {cur.h, cur.c} \cup Range(cur.found) \cup Range(cur.miss))
Below(F) == UNION {Reach(cfg.ch, f) : f \in F \cap Ids}
Inv_C05_Frontier == (Running /\ pc # "start") => (Target \ DOMAIN db) \subseteq Below(Frontier)

\* DB entries are written once with their final value or rewritten with the same value
Act_C05_WriteOwnHash ==
    [][\A k \in DOMAIN db' : (k \notin DOMAIN db \/ db'[k] # db[k]) => db'[k] = k]_cvars

\* frontier invariants of the two lists: what is still needed is tracked
\* (double list) every target node is stored, or in a list, or below a list element / missing hash
Live_C05_Completes == <>(result = "ok")
=============================================================================
