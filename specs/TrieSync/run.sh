#!/bin/bash
# usage: run.sh <cfg> [timeout] [extra tlc args]   -- developer helper: TLC in a scratch copy
cfg=$1; to=${2:-300}; shift; shift
D=$(mktemp -d /tmp/ts-XXXXXX)
cp /verif/specs/TrieSync/*.tla /verif/specs/TrieSync/*.cfg $D/
[ -n "$TRACE" ] && cp $TRACE $D/trace.ndjson
mod=MC_TrieSync; case $cfg in Trace*) mod=Trace_TrieSync;; esac
( cd $D && timeout $to java -Xmx4g -Xss64m -XX:+UseParallelGC -cp /opt/veriftools/tla/tla2tools.jar:/opt/veriftools/tla/CommunityModules-deps.jar tlc2.TLC -workers ${W:-4} -metadir ./meta -noGenerateSpecTE -config $cfg "$@" $mod.tla 2>&1 | grep -v ^WARNING )
rm -rf $D
