---- MODULE MC_TrieSync ----
EXTENDS TrieSync, Json
CONSTANT Depth
\* toy shapes (replaced by generated ones)
ToyA == [name |-> "toyA", ch |-> <<<<2, 3>>, <<>>, <<>>, <<>>, <<2, 4>>>>, root |-> 1, db0s |-> {{}}]
ToyB == [name |-> "toyB", ch |-> <<<<2>>, <<3, 4, 3>>, <<>>, <<5>>, <<6, 7>>, <<>>, <<>>, <<4, 3>>>>, root |-> 1, db0s |-> {{}, {4, 6}}]
MCShapes == {ToyA, ToyB}
MCInitDBs(s) == s.db0s
LogAppend(h, r) == Append(h, r)
LogLast(h, r) == <<r>>
GenNext  == Len(hist) < Depth /\ Next
GenSpec  == Init /\ [][GenNext]_vars
EmitFull == (Len(hist') = Depth \/ result' # "running") => PrintT("@@B " \o ToJson(hist'))
====
