---- MODULE MC_TrieSync ----
(* Model-checking and behaviour-export instances of TrieSync over the shapes of TrieSyncShapes.tla *)
EXTENDS TrieSync, TrieSyncShapes, Json
CONSTANTS Depth, ShapeNames
MCShapes == {s \in AllShapes : s.name \in ShapeNames}
MCInitDBs(s) == s.db0s
NoResume(s) == {{}}
LogAppend(h, r) == Append(h, r)
LogLast(h, r) == <<r>>
\* behaviour export: histories are cut at Depth inside Next
GenNext  == Len(hist) < Depth /\ Next
GenSpec  == Init /\ [][GenNext]_vars
\* one line per finished (or cut) behaviour: the history, plus what the specification knows at its end
Emit == PrintT("@@B " \o ToJson([h |-> hist', avail |-> avail', target |-> Target, result |-> result']))
EmitFull == (Len(hist') = Depth \/ result' # "running") => Emit
\* liveness instance: no cancellation/timeout, bounded adversary
LiveSpec == FairSpec
====
