---- MODULE Trace_Rewards ----
(* Trace validation for rewardsCreatorV2.CreateRewardsMiniBlocks.  One event per run of the real code:          *)
(*   Run    : in = the input record (with the observed top-up share tu), out = [txs = <<address, value, mb>>.., prot] *)
(*   RunBig : real-scale run, amounts as base-10000 limbs: in = [total, dev], out = [values, prot]                *)
(* Strict pass: the input is consistent and the observed transactions are exactly Rewards!Result(in).             *)
(* Observation-only pass: nothing is required.  In both, the C35 clauses are evaluated on every observed run.     *)
EXTENDS Rewards, Json, TLCExt
LogLast(h, r) == <<r>>
TLog == ndJsonDeserialize("trace.ndjson")
VARIABLES l, viol
tvars == <<vars, l, viol>>
Ev == TLog[l]
SeqToSet(s) == {s[j] : j \in 1..Len(s)}
Observed == [txs |-> SeqToSet(Ev.out.txs), prot |-> Ev.out.prot]

TraceInit == l = 1 /\ in = [x |-> 0] /\ stage = "start" /\ fig = NoFig /\ hist = <<>> /\ viol = {}
ObserveRun ==
    /\ l <= Len(TLog) /\ Ev.a = "Run" /\ l' = l + 1
    /\ in' = Ev.in /\ stage' = "done" /\ fig' = Observed /\ viol' = Viol(Ev.in, Observed)
    /\ hist' = <<[a |-> "Run", in |-> [x |-> 0], out |-> Ev.out, st |-> [stage |-> "done"]]>>
ObserveBig ==
    /\ l <= Len(TLog) /\ Ev.a = "RunBig" /\ l' = l + 1
    /\ in' = Ev.in /\ stage' = "big" /\ fig' = Ev.out /\ viol' = ViolBig(Ev.in, Ev.out)
    /\ hist' = <<[a |-> "RunBig", in |-> [x |-> 0], out |-> [x |-> 0], st |-> [stage |-> "big"]]>>
AsSpecified == Consistent(Ev.in) /\ Observed = Result(Ev.in)
\* RunE2E: in = [epoch, eco, run]: the epoch given to the real economics, the figures it returned / published, the run
ObserveE2E ==
    /\ l <= Len(TLog) /\ Ev.a = "RunE2E" /\ l' = l + 1
    /\ in' = Ev.in.run /\ stage' = "done" /\ fig' = Observed
    /\ viol' = ViolE2E(Ev.in.epoch, Ev.in.eco, Ev.in.run, Observed)
    /\ hist' = <<[a |-> "RunE2E", in |-> [x |-> 0], out |-> Ev.out, st |-> [stage |-> "done"]]>>
E2EAsSpecified ==
    LET e == Ev.in.epoch ec == Ev.in.eco r == Ev.in.run IN
    /\ e.v2 /\ EcoConsistent(e)
    /\ ec = EcoResult(e)                               \* the real economics took the specified branch and figures
    /\ r.total = ec.total /\ r.dev = e.dev /\ r.leader = ec.leader /\ r.prot = ec.prot /\ r.forBlocks = ec.forBlocks
    /\ Consistent(r) /\ Observed = Result(r)
TraceSpec    == TraceInit /\ [][(ObserveRun /\ AsSpecified) \/ ObserveBig \/ (ObserveE2E /\ E2EAsSpecified)]_tvars
TraceSpecObs == TraceInit /\ [][ObserveRun \/ ObserveBig \/ ObserveE2E]_tvars

Clause(c) == ~(c \in viol)
Inv_C35_SumIsTotalToDistribute == Clause("sum-differs-from-total-to-distribute")
Inv_C35_PositiveRewards        == Clause("non-positive-reward")
Inv_C35_ProtocolNonNegative    == Clause("negative-protocol-sustainability-reward")
Inv_C35_SupportedDestinations  == Clause("reward-to-unsupported-metachain-address")
Inv_C35_RightMiniblock         == Clause("reward-in-wrong-miniblock")
Inv_C35_OneRewardPerAddress    == Clause("two-rewards-for-one-address")
Inv_C35_PublishedFiguresAddUp  == Clause("published-figures-do-not-add-up")

HighWater == TLCSet(1, IF l > TLCGet(1) THEN l ELSE TLCGet(1))
Accepted  == IF TLCGet(1) = Len(TLog) + 1 THEN TRUE ELSE PrintT("@@HW " \o ToString(TLCGet(1))) /\ FALSE
ASSUME TLCSet(1, 0)
====
