SPECIFICATION TraceSpecObs
CONSTANTS
  Inputs = {}
  Log <- LogLast
  KnownDefects = {}
CONSTRAINT HighWater
INVARIANTS Inv_C35_V1_SumIsTotalToDistribute Inv_C35_V1_PositiveRewards Inv_C35_V1_ProtocolNonNegative Inv_C35_V1_SupportedDestinations Inv_C35_V1_RightMiniblock Inv_C35_V1_OneRewardPerAddress
POSTCONDITION Accepted
CHECK_DEADLOCK FALSE
