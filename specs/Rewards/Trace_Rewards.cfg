SPECIFICATION TraceSpec
CONSTANTS
  Inputs = {}
  Log <- LogLast
CONSTRAINT HighWater
INVARIANTS Inv_C35_SumIsTotalToDistribute Inv_C35_PositiveRewards Inv_C35_ProtocolNonNegative Inv_C35_SupportedDestinations Inv_C35_RightMiniblock Inv_C35_OneRewardPerAddress Inv_C35_PublishedFiguresAddUp
POSTCONDITION Accepted
CHECK_DEADLOCK FALSE
