---- MODULE Trace_RewardsV1 ----
(* Trace validation for the legacy rewardsCreator.  One "RunV1" event per run of the real code.                 *)
(* Strict pass: consistent input and the observed transactions equal RewardsV1!V1ResultK(in, twice) for the      *)
(* code as it is (twice = TRUE) or for the intended design (twice = FALSE).  The clauses of C35 are evaluated on  *)
(* every observed run; the over-payment that is exactly the inactive validators' rewards (the named deviation)    *)
(* does not stop the validation: it is counted and printed as @@KNOWN n, every other clause is an invariant.      *)
EXTENDS RewardsV1, Json, TLCExt
LogLast(h, r) == <<r>>
TLog == ndJsonDeserialize("trace.ndjson")
VARIABLES l, viol
tvars == <<vars, l, viol>>
Ev == TLog[l]
SeqToSet(s) == {s[j] : j \in 1..Len(s)}
Observed == [txs |-> SeqToSet(Ev.out.txs), prot |-> Ev.out.prot]

TraceInit == l = 1 /\ in = [x |-> 0] /\ stage = "start" /\ fig = NoFig /\ hist = <<>> /\ viol = {}
ObserveRun ==
    /\ l <= Len(TLog) /\ Ev.a = "RunV1" /\ l' = l + 1
    /\ in' = Ev.in /\ stage' = "done" /\ fig' = Observed /\ viol' = V1Viol(Ev.in, Observed)
    /\ hist' = <<[a |-> "RunV1", in |-> [x |-> 0], out |-> Ev.out, st |-> [stage |-> "done"]]>>
AsSpecified == V1Consistent(Ev.in) /\ (Observed = V1ResultK(Ev.in, TRUE) \/ Observed = V1ResultK(Ev.in, FALSE))
TraceSpec    == TraceInit /\ [][ObserveRun /\ AsSpecified]_tvars
TraceSpecObs == TraceInit /\ [][ObserveRun]_tvars

Clause(c) == ~(c \in viol)
Inv_C35_V1_SumIsTotalToDistribute == Clause("sum-differs-from-total-to-distribute")
Inv_C35_V1_PositiveRewards        == Clause("non-positive-reward")
Inv_C35_V1_ProtocolNonNegative    == Clause("negative-protocol-sustainability-reward")
Inv_C35_V1_SupportedDestinations  == Clause("reward-to-unsupported-metachain-address")
Inv_C35_V1_RightMiniblock         == Clause("reward-in-wrong-miniblock")
Inv_C35_V1_OneRewardPerAddress    == Clause("two-rewards-for-one-address")

\* register 1: high-water mark of consumed lines; register 2: runs showing the named deviation; register 3: first such line
HighWater ==
    /\ TLCSet(1, IF l > TLCGet(1) THEN l ELSE TLCGet(1))
    /\ ("inactive-validators-rewards-paid-twice" \in viol) =>
          (TLCSet(2, TLCGet(2) + 1) /\ (IF TLCGet(3) = 0 THEN TLCSet(3, l - 1) ELSE TRUE))
Accepted  ==
    /\ PrintT("@@KNOWN " \o ToString(TLCGet(2))) /\ PrintT("@@KNOWNLINE " \o ToString(TLCGet(3)))
    /\ IF TLCGet(1) = Len(TLog) + 1 THEN TRUE ELSE PrintT("@@HW " \o ToString(TLCGet(1))) /\ FALSE
ASSUME TLCSet(1, 0) /\ TLCSet(2, 0) /\ TLCSet(3, 0)
====
