------------------------------ MODULE RewardsV1 ------------------------------
(***************************************************************************)
(* The legacy rewards creator (epochStart/metachain/rewards.go), active     *)
(* before staking V2: every listed validator gets                           *)
(*   (RewardsPerBlock div consensusSize of its shard) * NumSelectedInSuccessBlocks, *)
(* "inactive" validators' rewards and rewards of unsupported metachain       *)
(* addresses are added to the protocol sustainability transaction, and the  *)
(* protocol transaction finally absorbs                                      *)
(*   difference = TotalToDistribute - DevFeesInEpoch - accumulatedRewards.   *)
(* C35 for it: the same clauses as for V2 (Rewards!Viol).                    *)
(*                                                                          *)
(* Named deviation "V1-inactive-counted-twice" (the code as it is): the      *)
(* reward of an inactive validator is added to the protocol transaction but  *)
(* not to accumulatedRewards, so `difference` contains it a second time and  *)
(* the transactions add up to more than TotalToDistribute - DevFeesInEpoch.  *)
(*                                                                          *)
(* Input record: total, dev, leader, prot, rpb (RewardsPerBlock), nb, blocks, cons, *)
(*   nodes = <<[sh, addr, ls, vs, vf, sel, fees]>> (ls/vs/vf: LeaderSuccess,  *)
(*   ValidatorSuccess, ValidatorFailure > 0), addrs, dsc, fix1 (epoch >       *)
(*   RewardsFix1EpochEnable).                                                 *)
(***************************************************************************)
EXTENDS Rewards

CONSTANT KnownDefects      \* {"V1-inactive-counted-twice"}: the code as it is; {}: the intended design

V1PerVal(i, s)   == i.rpb \div i.cons[s]
V1Reward(i, n)   == V1PerVal(i, i.nodes[n].sh) * i.nodes[n].sel
\* computeValidatorInfoPerRewardAddress: whose reward goes to the protocol sustainability transaction
V1Inactive(i, n) == IF i.fix1 THEN ~i.nodes[n].ls /\ ~i.nodes[n].vs ELSE ~i.nodes[n].ls /\ ~i.nodes[n].vf
V1InactiveSet(i) == {n \in NodeIds(i) : V1Inactive(i, n)}
V1ToProtocol(i)  == Sum([n \in V1InactiveSet(i) |-> V1Reward(i, n)])
V1Active(i)      == NodeIds(i) \ V1InactiveSet(i)
V1Addrs(i)       == {i.nodes[n].addr : n \in V1Active(i)}
V1Value(i, a)    == Sum([n \in {m \in V1Active(i) : i.nodes[m].addr = a} |-> i.nodes[n].fees + V1Reward(i, n)])
V1Positive(i)    == {a \in V1Addrs(i) : V1Value(i, a) > 0}
V1Paid(i)        == {a \in V1Positive(i) : Supported(i, a)}
V1Unsupported(i) == Sum([a \in V1Positive(i) \ V1Paid(i) |-> V1Value(i, a)])
\* rc.accumulatedRewards: the protocol figure and every positive reward (supported or not)
\* (twice: the named deviation -- the inactive validators' rewards are left out of accumulatedRewards)
V1Accumulated(i, twice) == i.prot + Sum([a \in V1Positive(i) |-> V1Value(i, a)]) + (IF twice THEN 0 ELSE V1ToProtocol(i))
V1Difference(i, twice)  == i.total - i.dev - V1Accumulated(i, twice)
V1ProtValue(i, twice)   == (IF i.prot < 0 THEN 0 ELSE i.prot) + V1ToProtocol(i) + V1Unsupported(i) + V1Difference(i, twice)
V1ResultK(i, twice) == [txs |-> {<<a, V1Value(i, a), MbOf(i, a)>> : a \in V1Paid(i)}, prot |-> V1ProtValue(i, twice)]
V1Result(i) == V1ResultK(i, "V1-inactive-counted-twice" \in KnownDefects)

\* what economics.go guarantees for this creator (each per-block adjustment of RewardsPerBlock is rounded down)
V1Consistent(i) ==
    /\ i.total >= 0 /\ i.dev >= 0 /\ i.leader >= 0 /\ i.prot >= 0 /\ i.rpb >= 0
    /\ i.total - i.dev - i.leader - i.prot >= 0
    /\ i.nb = SumSeq(i.blocks) /\ Len(i.cons) = Len(i.blocks) /\ \A s \in Shards(i) : i.cons[s] >= 1 /\ i.blocks[s] >= 0
    /\ i.rpb * i.nb <= i.total - i.dev - i.leader - i.prot
    /\ \A s \in Shards(i) : Sum([n \in {m \in NodeIds(i) : i.nodes[m].sh = s} |-> i.nodes[n].sel]) <= i.blocks[s] * i.cons[s]
    /\ Sum([n \in NodeIds(i) |-> i.nodes[n].fees]) <= i.leader
    /\ \A n \in NodeIds(i) : /\ i.nodes[n].sh \in Shards(i) /\ i.nodes[n].addr \in 1..Len(i.addrs)
                             /\ i.nodes[n].sel >= 0 /\ i.nodes[n].fees >= 0
                             /\ (~i.nodes[n].ls => i.nodes[n].fees = 0)

\* C35 on one observed V1 run; the over-payment that is exactly the inactive validators' rewards is named apart
V1Viol(i, o) ==
    LET paid == Sum([t \in o.txs |-> t[2]]) + o.prot
        rest == Viol(i, o) \ {"sum-differs-from-total-to-distribute"} IN
    rest \cup (IF paid = i.total - i.dev THEN {}
               ELSE IF V1ToProtocol(i) > 0 /\ paid = i.total - i.dev + V1ToProtocol(i)
                    THEN {"inactive-validators-rewards-paid-twice"}
                    ELSE {"sum-differs-from-total-to-distribute"})

V1Init ==
    /\ in \in Inputs /\ V1Consistent(in)
    /\ stage = "start" /\ fig = NoFig
    /\ hist = <<[a |-> "New", in |-> in, out |-> [x |-> 0], st |-> [stage |-> "start"]]>>
V1Run ==
    /\ stage = "start" /\ stage' = "done" /\ fig' = V1Result(in) /\ UNCHANGED in
    /\ hist' = Log(hist, [a |-> "RunV1", in |-> [x |-> 0], out |-> fig', st |-> [stage |-> "done"]])
V1Spec == V1Init /\ [][V1Run]_vars

Inv_C35_V1_NoClauseViolated == (stage = "done") => V1Viol(in, fig) = {}
=============================================================================
