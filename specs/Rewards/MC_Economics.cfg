SPECIFICATION EcoSpec
CONSTANTS
  Inputs = {}
  Log <- LogLast
  Depth = 0
  Totals = {}
  Devs = {}
  Leaders = {}
  Prots = {}
  BlockSets = {}
  ConsSets = {}
  Sels = {}
  TopUps = {}
  FeesSet = {}
  TuPoints = {}
  NodeCount = 3
  EcoInfls = {0, 1, 7, 40}
  EcoBlocks = {1, 3, 10}
  EcoAccs = {0, 1, 6, 7, 8, 21, 120, 121, 399, 400, 401, 1000}
  EcoDevs = {0, 1, 5, 100}
  EcoPcts = {0, 10, 25, 50}
VIEW cvars
INVARIANT Inv_C35_EcoPublishedAddUp
CHECK_DEADLOCK FALSE
