SPECIFICATION MCSpec
CONSTANTS
  Inputs = {}
  Log <- LogLast
  Depth = 0
  Totals = {0, 7, 101}
  Devs = {0, 3}
  Leaders = {0, 4}
  Prots = {6}
  BlockSets <- MCBlockFew
  ConsSets <- MCConsFew
  Sels = {0, 2}
  TopUps = {0, 3}
  FeesSet = {0, 2}
  TuPoints = {0, 3, 10}
  NodeCount = 3
  EcoInfls = {}
  EcoBlocks = {}
  EcoAccs = {}
  EcoDevs = {}
  EcoPcts = {}
VIEW cvars
INVARIANTS Inv_C35_NoClauseViolated Inv_C35_DustNonNegative Inv_C35_StagesBounded
CHECK_DEADLOCK FALSE
