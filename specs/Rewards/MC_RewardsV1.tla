---- MODULE MC_RewardsV1 ----
EXTENDS RewardsV1, Json
CONSTANTS Depth, Totals, Devs, Leaders, Prots, Rpbs, Sels, FeesSet, BlockSets, ConsSets
LogAppend(h, r) == Append(h, r)
LogLast(h, r) == <<r>>
MCAddrs == <<[cls |-> "shard", sh |-> 1], [cls |-> "shard", sh |-> 2], [cls |-> "dsc", sh |-> 3], [cls |-> "meta", sh |-> 3]>>
MCBlockFew  == {<<2, 1, 1>>, <<0, 2, 1>>}
MCConsFew   == {<<2, 1, 2>>, <<1, 1, 1>>}
MCBlockOne  == {<<2, 1, 1>>}
MCConsOne   == {<<2, 1, 2>>}
Node(sh, addr, ls, vs, vf, sel, fees) == [sh |-> sh, addr |-> addr, ls |-> ls, vs |-> vs, vf |-> vf, sel |-> sel, fees |-> fees]
N1 == {Node(1, 1, ls, vs, vf, s, IF ls THEN f ELSE 0) : ls \in BOOLEAN, vs \in BOOLEAN, vf \in BOOLEAN, s \in Sels, f \in FeesSet}
N2 == {Node(sh, a, FALSE, vs, vf, 1, 0) : sh \in {1, 2}, a \in {1, 3}, vs \in BOOLEAN, vf \in BOOLEAN}
N3 == {Node(3, a, TRUE, TRUE, FALSE, s, 0) : a \in {3, 4}, s \in Sels}
MkIn(t, d, l, p, r, bl, co, ns, dsc, fx) ==
    [total |-> t, dev |-> d, leader |-> l, prot |-> p, rpb |-> r, nb |-> SumSeq(bl), blocks |-> bl, cons |-> co,
     nodes |-> ns, addrs |-> MCAddrs, dsc |-> dsc, fix1 |-> fx]
MCInit ==
    \E t \in Totals, d \in Devs, l \in Leaders, p \in Prots, r \in Rpbs, bl \in BlockSets, co \in ConsSets,
       dsc \in BOOLEAN, fx \in BOOLEAN :
      \E a \in N1, b \in N2, c \in N3 :
        /\ in = MkIn(t, d, l, p, r, bl, co, <<a, b, c>>, dsc, fx)
        /\ V1Consistent(in)
        /\ stage = "start" /\ fig = NoFig
        /\ hist = <<[a |-> "New", in |-> in, out |-> [x |-> 0], st |-> [stage |-> "start"]]>>
MCSpec == MCInit /\ [][V1Run]_vars
GenNext  == Len(hist) < Depth /\ V1Run
GenSpec  == MCInit /\ [][GenNext]_vars
EmitInput == (stage = "start") => PrintT("@@B " \o ToJson(<<hist'[1]>>))
====
