------------------------------- MODULE Rewards -------------------------------
(***************************************************************************)
(* End-of-epoch rewards, economics version 2                                *)
(* (epochStart/metachain/rewardsV2.go + baseRewards.go; the figures come    *)
(* from economics.go ComputeEndOfEpochEconomics).                            *)
(*                                                                          *)
(* Property C35: the reward transactions created at the end of an epoch     *)
(* (validator rewards + the protocol sustainability reward, which receives  *)
(* every rounding remainder and every unassignable reward) add up exactly   *)
(* to what the epoch economics says must be distributed; no validator       *)
(* reward transaction has a zero or negative value; rewards go only to      *)
(* shard addresses or to system delegation contracts.                        *)
(*                                                                          *)
(* "What must be distributed" in terms of the economics figures:            *)
(*     TotalToDistribute - DevFeesInEpoch                                    *)
(*   = RewardsToBeDistributedForBlocks + LeaderFees + RewardsForProtocolSustainability *)
(* (developer fees are part of TotalToDistribute but are paid to the         *)
(* contracts' owners when they claim them, not by reward transactions).      *)
(*                                                                          *)
(* One run of CreateRewardsMiniBlocks is a five-stage pipeline; each stage   *)
(* is a named action following the Go function of the same name.  The        *)
(* top-up share `tu` (computeTopUpRewards: an atan of float64 values) is NOT  *)
(* modelled: it is a parameter of the run, constrained to its range only.    *)
(*                                                                          *)
(* An input `in` is a record                                                 *)
(*   total, dev, leader, prot, forBlocks   economics figures                 *)
(*   nb, blocks, cons       blocks in the epoch, per shard, consensus sizes  *)
(*                          (sequences indexed by shard; the last is meta)   *)
(*   nodes    sequence of [sh, addr, online, elig, sel, fees, topUp]         *)
(*   addrs    sequence of [cls, sh]: "shard" address of shard sh, "meta"     *)
(*            (a metachain address that is no delegation contract), "dsc"    *)
(*   dsc      the delegation system SC flag is enabled in this epoch          *)
(*   tu, totalTopUp                                                          *)
(***************************************************************************)
EXTENDS Integers, Sequences, FiniteSets, TLC

CONSTANTS Inputs,        \* set of inputs explored (built in the MC module)
          Log(_, _)

VARIABLES in, stage, fig, hist
vars  == <<in, stage, fig, hist>>
cvars == <<in, stage, fig>>

\* sum of a function's values
RECURSIVE SumOver(_, _)
SumOver(f, S) == IF S = {} THEN 0 ELSE LET x == CHOOSE y \in S : TRUE IN f[x] + SumOver(f, S \ {x})
Sum(f) == SumOver(f, DOMAIN f)
RECURSIVE SumSeq(_)
SumSeq(s) == IF s = <<>> THEN 0 ELSE Head(s) + SumSeq(Tail(s))

NodeIds(i) == 1..Len(i.nodes)
Shards(i)  == 1..Len(i.blocks)
\* initNodesRewardsInfo: only nodes that were eligible in the epoch take part
Elig(i)    == {n \in NodeIds(i) : i.nodes[n].elig}
EligIn(i, s) == {n \in Elig(i) : i.nodes[n].sh = s}
\* "offline": LeaderSuccess = 0 and ValidatorSuccess = 0
Online(i)  == {n \in Elig(i) : i.nodes[n].online}

-----------------------------------------------------------------------------
(* the figures, stage by stage (i = input, f = figures of the earlier stages) *)

\* computeRewardsPerNode, first part: base rewards = what is left of the rewards for blocks after the top-up share
BaseTotal(i) == i.forBlocks - i.tu
PerBlock(i)  == IF i.nb <= 0 THEN 0 ELSE BaseTotal(i) \div i.nb
\* fillBaseRewardsPerBlockPerNode
PerVal(i, s) == PerBlock(i) \div i.cons[s]
\* computeBaseRewardsPerNode (offline nodes get a base reward too; it is taken away in the aggregation)
NodeBase(i, n) == PerVal(i, i.nodes[n].sh) * i.nodes[n].sel
DustBase(i) == BaseTotal(i) - Sum([n \in Elig(i) |-> NodeBase(i, n)])

\* computeTopUpRewardsPerShard: shard power = blocks of the shard * top-up of its eligible nodes
ShardTopUp(i, s) == Sum([n \in EligIn(i, s) |-> i.nodes[n].topUp])
ShardPower(i, s) == i.blocks[s] * ShardTopUp(i, s)
TotalPower(i)    == Sum([s \in Shards(i) |-> ShardPower(i, s)])
TopUpOfShard(i, s) == IF TotalPower(i) <= 0 THEN 0 ELSE (ShardPower(i, s) * i.tu) \div TotalPower(i)
\* computeNodePowerInShard: an offline node has no power
NodePower(i, n)  == IF i.nodes[n].online THEN i.nodes[n].sel * i.nodes[n].topUp ELSE 0
NodesPower(i, s) == Sum([n \in EligIn(i, s) |-> NodePower(i, n)])
\* computeTopUpRewardsPerNode
NodeTop(i, n) ==
    LET s == i.nodes[n].sh IN
    IF NodesPower(i, s) = 0 THEN 0 ELSE (NodePower(i, n) * TopUpOfShard(i, s)) \div NodesPower(i, s)
DustTop(i) == i.tu - Sum([n \in Elig(i) |-> NodeTop(i, n)])
Full(i, n) == NodeBase(i, n) + NodeTop(i, n)

\* computeValidatorInfoPerRewardAddress
Unassigned(i)  == Sum([n \in Elig(i) \ Online(i) |-> Full(i, n)])
AddrsUsed(i)   == {i.nodes[n].addr : n \in Online(i)}
NodesOf(i, a)  == {n \in Online(i) : i.nodes[n].addr = a}
FeesOf(i, a)   == Sum([n \in NodesOf(i, a) |-> i.nodes[n].fees])
ProtOf(i, a)   == Sum([n \in NodesOf(i, a) |-> Full(i, n)])
Distributed(i) == Sum([n \in Online(i) |-> i.nodes[n].fees])
LeaderDust(i)  == i.leader - Distributed(i)
Unassigned2(i) == Unassigned(i) + (IF LeaderDust(i) < 0 THEN 0 ELSE LeaderDust(i))

\* addValidatorRewardsToMiniBlocks
Value(i, a)     == FeesOf(i, a) + ProtOf(i, a)
Supported(i, a) == i.addrs[a].cls = "shard" \/ (i.addrs[a].cls = "dsc" /\ i.dsc)
Paid(i)         == {a \in AddrsUsed(i) : Value(i, a) > 0 /\ Supported(i, a)}
MetaDust(i)     == Sum([a \in {a \in AddrsUsed(i) : Value(i, a) > 0 /\ ~Supported(i, a)} |-> Value(i, a)])
\* the miniblock a reward goes into: the shard of the address; metachain (the last index) for delegation contracts
MbOf(i, a)      == IF i.addrs[a].cls = "shard" THEN i.addrs[a].sh ELSE Len(i.blocks)

\* adjustProtocolSustainabilityRewards (a negative remainder is not applied: only an error is logged)
DustAll(i)   == Unassigned2(i) + MetaDust(i) + DustBase(i) + DustTop(i)
ProtValue(i) == LET p0 == IF i.prot < 0 THEN 0 ELSE i.prot IN IF DustAll(i) < 0 THEN p0 ELSE p0 + DustAll(i)

\* the result of a run: reward transactions <<address, value, miniblock>> and the protocol sustainability value
TxsOf(i) == {<<a, Value(i, a), MbOf(i, a)>> : a \in Paid(i)}
Result(i) == [txs |-> TxsOf(i), prot |-> ProtValue(i)]

-----------------------------------------------------------------------------
(* inputs the real flow can produce (economics.go, validatorStatistics):                                        *)
Consistent(i) ==
    /\ i.total >= 0 /\ i.dev >= 0 /\ i.leader >= 0 /\ i.prot >= 0
    /\ i.forBlocks = i.total - i.dev - i.leader - i.prot /\ i.forBlocks >= 0
    /\ i.nb = SumSeq(i.blocks) /\ Len(i.cons) = Len(i.blocks) /\ \A s \in Shards(i) : i.cons[s] >= 1 /\ i.blocks[s] >= 0
    \* every successful block counts its consensus group once
    /\ \A s \in Shards(i) : Sum([n \in EligIn(i, s) |-> i.nodes[n].sel]) <= i.blocks[s] * i.cons[s]
    \* leaders' accumulated fees are parts of the leader fees of the epoch; a node that signed nothing led nothing
    /\ Sum([n \in Elig(i) |-> i.nodes[n].fees]) <= i.leader
    /\ \A n \in NodeIds(i) : /\ i.nodes[n].sh \in Shards(i) /\ i.nodes[n].addr \in 1..Len(i.addrs)
                             /\ i.nodes[n].sel >= 0 /\ i.nodes[n].fees >= 0 /\ i.nodes[n].topUp >= 0
                             /\ (~i.nodes[n].online => i.nodes[n].fees = 0)
    /\ i.totalTopUp = Sum([n \in Elig(i) |-> i.nodes[n].topUp])
    \* the only thing specified about computeTopUpRewards: its range
    /\ 0 <= i.tu /\ i.tu <= i.forBlocks /\ ((i.forBlocks <= 0 \/ i.totalTopUp <= 0) => i.tu = 0)

-----------------------------------------------------------------------------
(* C35 on one finished run: input i, observed result o = [txs, prot] *)
Viol(i, o) ==
    LET paid == Sum([t \in o.txs |-> t[2]]) + o.prot IN
    (IF paid # i.total - i.dev THEN {"sum-differs-from-total-to-distribute"} ELSE {})
    \cup (IF \E t \in o.txs : t[2] <= 0 THEN {"non-positive-reward"} ELSE {})
    \cup (IF o.prot < 0 THEN {"negative-protocol-sustainability-reward"} ELSE {})
    \cup (IF \E t \in o.txs : ~Supported(i, t[1]) THEN {"reward-to-unsupported-metachain-address"} ELSE {})
    \cup (IF \E t \in o.txs : Supported(i, t[1]) /\ t[3] # MbOf(i, t[1]) THEN {"reward-in-wrong-miniblock"} ELSE {})
    \cup (IF \E t, u \in o.txs : t # u /\ t[1] = u[1] THEN {"two-rewards-for-one-address"} ELSE {})

-----------------------------------------------------------------------------
NoFig == [x |-> 0]
Init ==
    /\ in \in Inputs /\ Consistent(in)
    /\ stage = "start" /\ fig = NoFig
    /\ hist = <<[a |-> "New", in |-> in, out |-> [x |-> 0], st |-> [stage |-> "start"]]>>

Step(from, to, name, f) ==
    /\ stage = from /\ stage' = to /\ fig' = f /\ UNCHANGED in
    /\ hist' = Log(hist, [a |-> name, in |-> [x |-> 0], out |-> f, st |-> [stage |-> to]])

SplitTopUp   == Step("start", "split", "SplitTopUp", [base |-> BaseTotal(in), topUp |-> in.tu])
BasePerNode  == Step("split", "base", "BasePerNode",
                     [perVal |-> [s \in Shards(in) |-> PerVal(in, s)],
                      node |-> [n \in Elig(in) |-> NodeBase(in, n)], dust |-> DustBase(in)])
TopUpPerNode == Step("base", "topup", "TopUpPerNode",
                     [perShard |-> [s \in Shards(in) |-> TopUpOfShard(in, s)],
                      node |-> [n \in Elig(in) |-> NodeTop(in, n)], dust |-> DustTop(in)])
Aggregate    == Step("topup", "aggregated", "Aggregate",
                     [value |-> [a \in AddrsUsed(in) |-> Value(in, a)], unassigned |-> Unassigned2(in),
                      metaDust |-> MetaDust(in)])
AdjustProtocol == Step("aggregated", "done", "AdjustProtocol", Result(in))

Next == SplitTopUp \/ BasePerNode \/ TopUpPerNode \/ Aggregate \/ AdjustProtocol
Spec == Init /\ [][Next]_vars

-----------------------------------------------------------------------------
(* C35 on the specification (every consistent small input) *)
Inv_C35_NoClauseViolated == (stage = "done") => Viol(in, fig) = {}
\* the remainders are never negative for consistent inputs, so the protocol reward really receives them
Inv_C35_DustNonNegative ==
    /\ (stage = "base") => fig.dust >= 0
    /\ (stage = "topup") => fig.dust >= 0
    /\ (stage = "done") => (DustAll(in) >= 0 /\ LeaderDust(in) >= 0)
\* nobody is paid more than the rewards for blocks plus the leader fees
Inv_C35_StagesBounded ==
    /\ (stage = "base") => \A n \in DOMAIN fig.node : fig.node[n] >= 0 /\ fig.node[n] <= BaseTotal(in)
    /\ (stage = "topup") => \A n \in DOMAIN fig.node : fig.node[n] >= 0 /\ fig.node[n] <= in.tu

-----------------------------------------------------------------------------
(* The economics stage (economics.go ComputeEndOfEpochEconomics, staking V2 epochs): where the figures of a run   *)
(* come from.  e = [infl, nb, acc, dev, lp, pp]: infl = inflation-based rewards of the epoch (rewardsPerBlock *    *)
(* blocks; the float inflation formula is not modelled, the value is observed from the real code with zero fees),  *)
(* nb = blocks in the epoch (at least 1), acc / dev = AccumulatedFeesInEpoch / DevFeesInEpoch, lp / pp = leader   *)
(* and protocol sustainability percentages as decimals [num, k].                                                  *)
RECURSIVE EPow10(_)
EPow10(k) == IF k = 0 THEN 1 ELSE 10 * EPow10(k - 1)
EPct(v, p) == (v * p.num) \div EPow10(p.k)                 \* core.GetIntTrimmedPercentageOfValue
EcoTotal0(e)     == e.infl                                  \* totalRewardsToBeDistributed := rwdPerBlock * blocks
EcoFeesExceed(e) == EcoTotal0(e) - e.acc < 0                \* newTokens < 0: the fees exceed the inflation
\* the correction branch: nothing is minted, the fees themselves are what is distributed
EcoTotal(e)      == IF EcoFeesExceed(e) THEN e.acc ELSE EcoTotal0(e)
EcoMinted(e)     == IF EcoFeesExceed(e) THEN 0 ELSE EcoTotal0(e) - e.acc
EcoRpb0(e)       == IF EcoFeesExceed(e) THEN e.acc \div e.nb ELSE EcoTotal0(e) \div e.nb
EcoLeader(e)     == EPct(e.acc - e.dev, e.lp)               \* adjustRewardsPerBlockWithLeaderPercentage (V2 epochs)
EcoProt(e)       == EPct(EcoTotal(e), e.pp)                 \* computeRewardsForProtocolSustainability
\* remainingToBeDistributed: what SetRewardsToBeDistributedForBlocks publishes to the rewards creator
EcoForBlocks(e)  == EcoTotal(e) - e.dev - EcoLeader(e) - EcoProt(e)
EcoRpb(e)        == EcoRpb0(e) - (e.dev \div e.nb) - (EcoLeader(e) \div e.nb) - (EcoProt(e) \div e.nb)
EcoResult(e) == [total |-> EcoTotal(e), minted |-> EcoMinted(e), rpb |-> EcoRpb(e), prot |-> EcoProt(e),
                 leader |-> EcoLeader(e), forBlocks |-> EcoForBlocks(e)]
EcoConsistent(e) ==
    /\ e.infl >= 0 /\ e.nb >= 1 /\ e.acc >= 0 /\ e.dev >= 0 /\ e.dev <= e.acc
    /\ e.lp.num >= 0 /\ e.pp.num >= 0 /\ e.lp.num <= EPow10(e.lp.k) /\ e.pp.num <= EPow10(e.pp.k)

\* named actions of the stage (model-checked on their own: MC_Rewards!EcoSpec)
EcoInflation == Step("eco-start", "eco-inflation", "Inflation", [total0 |-> EcoTotal0(in)])
EcoFeesCorrection ==
    Step("eco-inflation", "eco-corrected", "FeesCorrection",
         [feesExceedInflation |-> EcoFeesExceed(in), total |-> EcoTotal(in), minted |-> EcoMinted(in)])
EcoRemaining == Step("eco-corrected", "eco-done", "Remaining", EcoResult(in))
EcoNext == EcoInflation \/ EcoFeesCorrection \/ EcoRemaining

\* what makes the rewards add up: the three published figures are exactly TotalToDistribute - DevFeesInEpoch
Inv_C35_EcoPublishedAddUp ==
    (stage = "eco-done") =>
        /\ fig.forBlocks + fig.leader + fig.prot = fig.total - in.dev
        /\ fig.total >= in.acc /\ fig.minted = fig.total - in.acc
        \* developer fees are at most 30 % of the fees in practice: then something is left for the blocks
        /\ (in.dev * 10 <= in.acc * 3 /\ (in.lp.num + in.pp.num) * 10 <= 7 * EPow10(in.lp.k)) => fig.forBlocks >= 0

\* C35 on an end-to-end run: real economics figures ec = [total, minted, rpb, prot, leader, forBlocks] published for
\* the epoch e, then the rewards run (i, o)
ViolE2E(e, ec, i, o) ==
    Viol([i EXCEPT !.total = ec.total, !.dev = e.dev], o)
    \cup (IF ec.forBlocks + ec.leader + ec.prot # ec.total - e.dev THEN {"published-figures-do-not-add-up"} ELSE {})

-----------------------------------------------------------------------------
(* real-scale runs: amounts as little-endian base-10000 limbs; only the sum identity and positivity *)
B == 10000
RECURSIVE AddFrom(_, _, _, _)
AddFrom(a, b, j, c) ==
    IF j > Len(a) /\ j > Len(b) THEN (IF c = 0 THEN <<>> ELSE <<c>>)
    ELSE LET t == (IF j <= Len(a) THEN a[j] ELSE 0) + (IF j <= Len(b) THEN b[j] ELSE 0) + c IN
         <<t % B>> \o AddFrom(a, b, j + 1, t \div B)
BigAdd(a, b) == AddFrom(a, b, 1, 0)
RECURSIVE BigSumSeq(_)
BigSumSeq(s) == IF s = <<>> THEN <<>> ELSE BigAdd(Head(s), BigSumSeq(Tail(s)))
ViolBig(i, o) ==
    (IF BigAdd(BigAdd(BigSumSeq(o.values), o.prot), i.dev) # i.total THEN {"sum-differs-from-total-to-distribute"} ELSE {})
    \cup (IF \E j \in 1..Len(o.values) : o.values[j] = <<>> THEN {"non-positive-reward"} ELSE {})
=============================================================================
