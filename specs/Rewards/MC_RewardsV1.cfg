SPECIFICATION MCSpec
CONSTANTS
  Inputs = {}
  Log <- LogLast
  KnownDefects = {}
  Depth = 0
  Totals = {30, 101}
  Devs = {0, 3}
  Leaders = {0, 4}
  Prots = {0, 6}
  Rpbs = {0, 5, 20}
  Sels = {0, 2}
  FeesSet = {0, 2}
  BlockSets <- MCBlockFew
  ConsSets <- MCConsFew
VIEW cvars
INVARIANTS Inv_C35_V1_NoClauseViolated
CHECK_DEADLOCK FALSE
