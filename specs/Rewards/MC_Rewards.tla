---- MODULE MC_Rewards ----
EXTENDS Rewards, Json
CONSTANTS Depth, Totals, Devs, Leaders, Prots, BlockSets, ConsSets, Sels, TopUps, FeesSet, TuPoints, NodeCount
LogAppend(h, r) == Append(h, r)
LogLast(h, r) == <<r>>

\* 2 shards + metachain (index 3); addresses: one per shard, a delegation contract, another metachain address
MCAddrs == <<[cls |-> "shard", sh |-> 1], [cls |-> "shard", sh |-> 2], [cls |-> "dsc", sh |-> 3], [cls |-> "meta", sh |-> 3]>>
MCBlockSets == {<<1, 1, 1>>, <<2, 1, 0>>, <<0, 2, 1>>, <<3, 2, 2>>}
MCBlockFew  == {<<2, 1, 1>>, <<0, 2, 1>>}
MCConsSets  == {<<1, 1, 1>>, <<2, 1, 2>>, <<2, 3, 1>>}
MCConsFew   == {<<2, 1, 2>>}

Node(sh, addr, on, el, sel, fees, tp) ==
    [sh |-> sh, addr |-> addr, online |-> on, elig |-> el, sel |-> sel, fees |-> fees, topUp |-> tp]
\* node 1: shard 1, own shard address; node 2: shard 1 or 2, shares node 1's address or uses the delegation contract;
\* node 3: metachain, delegation contract or the unsupported metachain address; node 4: shard 2, waiting (not eligible) or eligible
N1 == {Node(1, 1, on, TRUE, s, f, t) : on \in BOOLEAN, s \in Sels, f \in FeesSet, t \in TopUps}
N2 == {Node(sh, a, on, TRUE, 1, 0, t) : sh \in {1, 2}, a \in {1, 3}, on \in BOOLEAN, t \in TopUps}
N3 == {Node(3, a, TRUE, TRUE, s, 0, 3) : a \in {3, 4}, s \in Sels}
N4 == {Node(2, 2, TRUE, el, s, 0, t) : el \in BOOLEAN, s \in Sels, t \in TopUps}

TopUpSum(ns) == Sum([n \in {m \in 1..Len(ns) : ns[m].elig} |-> ns[n].topUp])
MkIn(t, d, l, p, bl, co, ns, dsc, tu) ==
    [total |-> t, dev |-> d, leader |-> l, prot |-> p, forBlocks |-> t - d - l - p, nb |-> SumSeq(bl), blocks |-> bl,
     cons |-> co, nodes |-> ns, addrs |-> MCAddrs, dsc |-> dsc, tu |-> tu, totalTopUp |-> TopUpSum(ns)]
\* top-up shares tried: the given points scaled into 0..forBlocks (tenths).  The inputs are enumerated by the
\* initial predicate (no set of all inputs is built).
MCInit ==
    \E t \in Totals, d \in Devs, l \in Leaders, p \in Prots, bl \in BlockSets, co \in ConsSets, dsc \in BOOLEAN, q \in TuPoints :
      \E a \in N1, b \in N2, c \in N3 :
        /\ t - d - l - p >= 0
        /\ \/ NodeCount = 3 /\ in = MkIn(t, d, l, p, bl, co, <<a, b, c>>, dsc, ((t - d - l - p) * q) \div 10)
           \/ NodeCount = 4 /\ \E e \in N4 : in = MkIn(t, d, l, p, bl, co, <<a, b, c, e>>, dsc, ((t - d - l - p) * q) \div 10)
        /\ Consistent(in)
        /\ stage = "start" /\ fig = NoFig
        /\ hist = <<[a |-> "New", in |-> in, out |-> [x |-> 0], st |-> [stage |-> "start"]]>>
MCSpec == MCInit /\ [][Next]_vars

\* the economics stage on its own: every small epoch, in particular fees below / equal / above the inflation
CONSTANTS EcoInfls, EcoBlocks, EcoAccs, EcoDevs, EcoPcts
EcoInit ==
    \E f \in EcoInfls, b \in EcoBlocks, a \in EcoAccs, d \in EcoDevs, lp \in EcoPcts, pp \in EcoPcts :
        /\ in = [infl |-> f * b, nb |-> b, acc |-> a, dev |-> d, lp |-> [num |-> lp, k |-> 2], pp |-> [num |-> pp, k |-> 2]]
        /\ EcoConsistent(in) /\ lp + pp <= 100
        /\ stage = "eco-start" /\ fig = NoFig
        /\ hist = <<[a |-> "New", in |-> in, out |-> [x |-> 0], st |-> [stage |-> "eco-start"]]>>
EcoSpec == EcoInit /\ [][EcoNext]_vars

GenNext  == Len(hist) < Depth /\ Next
GenSpec  == MCInit /\ [][GenNext]_vars
\* input export: the initial states are the inputs; one line per input (printed when the first stage is taken)
EmitInput == (stage = "start") => PrintT("@@B " \o ToJson(<<hist'[1]>>))
====
