SPECIFICATION Spec
CONSTANTS
  Keys = {"a"}
  Vals = {1, 2}
  MaxEpoch = 3
  PrepEpochs = {0, 1, 2, 3}
  ActiveNums = {1, 2}
  KeepNums = {2, 3}
  KnownDefects = {}
  Log <- LogLast
  Depth = 0
VIEW cvars
INVARIANTS TypeOK Inv_C30_ReadableWhileActive Inv_C30_ReadsNewestValue Inv_C30_ReadableWhileRetained Inv_C30_RemovedUnreadable Inv_C30_Answers Inv_C30_ObservedReads Inv_C30_PersisterContents
CHECK_DEADLOCK FALSE
