---- MODULE Trace_PruningStorer ----
(* Trace validation for the real PruningStorer.  Every event carries the call, its answer and the projection   *)
(* (active list, epoch map, open persisters, put-epoch, cache, persister contents) read from the real object   *)
(* after the call.  Strict mode: each event must be the specification's action with exactly that answer and    *)
(* state.  Observation mode: the state is taken from the log, the ghost variables follow the calls (using the   *)
(* logged success flags); the C30 invariants are evaluated by TLC on every observed state and answer.           *)
EXTENDS PruningStorer, Json, TLCExt
LogLast(h, r) == <<r>>
TLog == ndJsonDeserialize("trace.ndjson")
VARIABLE l
tvars == <<vars, l>>
Ev == TLog[l]
IsEvent(name) == l <= Len(TLog) /\ Ev.a = name /\ l' = l + 1
ToSet(q) == {q[i] : i \in 1..Len(q)}

ObsSt == [active |-> Ev.st.active, mapped |-> ToSet(Ev.st.mapped), open |-> ToSet(Ev.st.open),
          putEpoch |-> Ev.st.putEpoch, cache |-> ToSet(Ev.st.cache), db |-> ToSet(Ev.st.db),
          epochs |-> ToSet(Ev.st.epochs), has |-> ToSet(Ev.st.has), sf |-> ToSet(Ev.st.sf), gfe |-> ToSet(Ev.st.gfe)]
ObsIn == [f \in DOMAIN Ev.in |-> IF f = "ks" THEN ToSet(Ev.in[f]) ELSE Ev.in[f]]
ObsOut == [f \in DOMAIN Ev.out |-> IF f = "kv" THEN ToSet(Ev.out[f]) ELSE Ev.out[f]]
Matches == (\A f \in DOMAIN Ev.out : hist'[1].out[f] = ObsOut[f]) /\ hist'[1].st = ObsSt

TraceInit ==
    /\ l = 1 /\ nA = 1 /\ nK = 1 /\ clean = FALSE /\ shut = FALSE
    /\ db = (0 :> <<>>) /\ open = {0} /\ mapped = {0} /\ active = <<0>>
    /\ cache = <<>> /\ putEpoch = 0 /\ prep = -1
    /\ live = <<>> /\ cand = <<>> /\ rem = <<>> /\ hist = <<>>
TNew ==
    /\ IsEvent("New")
    /\ nA' = Ev.in.nA /\ nK' = Ev.in.nK /\ clean' = Ev.in.clean /\ shut' = FALSE
    /\ db' = (0 :> <<>>) /\ open' = {0} /\ mapped' = {0} /\ active' = <<0>>
    /\ cache' = <<>> /\ putEpoch' = 0 /\ prep' = -1
    /\ live' = <<>> /\ cand' = <<>> /\ rem' = <<>>
    /\ hist' = <<[a |-> "New", in |-> Ev.in, out |-> Ev.out, st |-> ObsSt]>>
    /\ ObsSt = [active |-> <<0>>, mapped |-> {0}, open |-> {0}, putEpoch |-> 0, cache |-> {}, db |-> {}, epochs |-> {0},
                has |-> {}, sf |-> {}, gfe |-> {}]
TPut    == IsEvent("Put") /\ Put(Ev.in.k, Ev.in.v) /\ Matches
TPutIn  == IsEvent("PutInEpoch") /\ PutInEpoch(Ev.in.k, Ev.in.v, Ev.in.e) /\ Matches
TGet    == IsEvent("Get") /\ Get(Ev.in.k) /\ Matches
TGfe    == IsEvent("GetFromEpoch") /\ GetFromEpoch(Ev.in.k, Ev.in.e) /\ Matches
TBulk   == IsEvent("GetBulkFromEpoch") /\ GetBulkFromEpoch(ToSet(Ev.in.ks), Ev.in.e)
           /\ hist'[1].out.ok = Ev.out.ok /\ hist'[1].out.kv = ToSet(Ev.out.kv) /\ hist'[1].st = ObsSt
TSearch == IsEvent("SearchFirst") /\ SearchFirst(Ev.in.k) /\ Matches
THas    == IsEvent("Has") /\ Has(Ev.in.k) /\ Matches
TRemove == IsEvent("Remove") /\ Remove(Ev.in.k) /\ Matches
TClear  == IsEvent("ClearCache") /\ ClearCache /\ Matches
TSetPut == IsEvent("SetEpochForPut") /\ SetEpochForPut(Ev.in.e) /\ Matches
TPrep   == IsEvent("Prepare") /\ Prepare(Ev.in.o) /\ Matches
TChange == IsEvent("ChangeEpoch") /\ ChangeEpoch(Ev.in.e, Ev.in.ho) /\ Matches
TClose  == IsEvent("Close") /\ Close /\ Matches
TraceNext == TNew \/ TPut \/ TPutIn \/ TGet \/ TGfe \/ TBulk \/ TSearch \/ THas \/ TRemove \/ TClear
             \/ TSetPut \/ TPrep \/ TChange \/ TClose
TraceSpec == TraceInit /\ [][TraceNext]_tvars

\* ---- observation mode
ObsDb == [e \in ObsSt.epochs |->
            [k \in {r.k : r \in {x \in ObsSt.db : x.e = e}} |->
                (CHOOSE r \in ObsSt.db : r.e = e /\ r.k = k).v]]
ObsCache == [k \in {r.k : r \in ObsSt.cache} |-> (CHOOSE r \in ObsSt.cache : r.k = k).v]
ObsVars ==
    /\ db' = ObsDb /\ open' = ObsSt.open /\ mapped' = ObsSt.mapped /\ active' = ObsSt.active
    /\ cache' = ObsCache /\ putEpoch' = ObsSt.putEpoch
    /\ UNCHANGED cfgv
    /\ hist' = <<[a |-> Ev.a, in |-> ObsIn, out |-> ObsOut, st |-> ObsSt]>>
Keep == UNCHANGED <<prep, shut>>
OPut    == IsEvent("Put") /\ ObsVars /\ Keep /\ GhostPut(Ev.in.k, Ev.in.v, PutLanding, Ev.out.ok)
OPutIn  == IsEvent("PutInEpoch") /\ ObsVars /\ Keep /\ GhostPut(Ev.in.k, Ev.in.v, Ev.in.e, Ev.out.ok)
ORemove == IsEvent("Remove") /\ ObsVars /\ Keep /\ GhostRemove(Ev.in.k, Ev.out.ok)
OChange == IsEvent("ChangeEpoch") /\ ObsVars /\ Keep /\ GhostChangeEpoch(Ev.in.e)
OPrep   == IsEvent("Prepare") /\ ObsVars /\ prep' = Ev.in.o /\ UNCHANGED shut /\ GhostSame
OClose  == IsEvent("Close") /\ ObsVars /\ shut' = TRUE /\ UNCHANGED prep /\ GhostSame
OOther  == /\ l <= Len(TLog) /\ l' = l + 1
           /\ Ev.a \in {"Get", "GetFromEpoch", "GetBulkFromEpoch", "SearchFirst", "Has", "ClearCache", "SetEpochForPut"}
           /\ ObsVars /\ Keep /\ GhostSame
TraceNextObs == TNew \/ OPut \/ OPutIn \/ ORemove \/ OChange \/ OPrep \/ OClose \/ OOther
TraceSpecObs == TraceInit /\ [][TraceNextObs]_tvars

HighWater == TLCSet(1, IF l > TLCGet(1) THEN l ELSE TLCGet(1))
Accepted  == IF TLCGet(1) = Len(TLog) + 1 THEN TRUE ELSE PrintT("@@HW " \o ToString(TLCGet(1))) /\ FALSE
ASSUME TLCSet(1, 0)
====
